(* Line-protocol driver around the extracted Coq models.
   Request: op TAB arg TAB arg ...   Reply: one line. *)
open Datatypes
open BinNums
open Proc

let split_tab s = String.split_on_char '\t' s

let rec nat_of_int n = if n <= 0 then O else S (nat_of_int (n - 1))

let rec int_of_nat = function O -> 0 | S n -> 1 + int_of_nat n

let rec pos_of_int n =
  if n <= 1 then Coq_xH else if n land 1 = 0 then Coq_xO (pos_of_int (n lsr 1)) else Coq_xI (pos_of_int (n lsr 1))

let n_of_int n = if n <= 0 then N0 else Npos (pos_of_int n)

let rec int_of_pos = function Coq_xH -> 1 | Coq_xO p -> 2 * int_of_pos p | Coq_xI p -> 2 * int_of_pos p + 1

let int_of_n = function N0 -> 0 | Npos p -> int_of_pos p

let ints_of_csv s = if s = "" then [] else List.map int_of_string (String.split_on_char ',' s)

let bool_of_char c = c = '1'

let params_of_string s =
  if s = "code" then GenProc.code_params
  else
    { bg_guard = bool_of_char s.[0]; guard_under_lock = bool_of_char s.[1];
      bg_notify = bool_of_char s.[2]; pub_marks_known = bool_of_char s.[3];
      pub_notify = bool_of_char s.[4]; query_waits = bool_of_char s.[5] }

let string_of_params p =
  let b x = if x then "1" else "0" in
  b p.bg_guard ^ b p.guard_under_lock ^ b p.bg_notify ^ b p.pub_marks_known ^ b p.pub_notify
  ^ b p.query_waits

let ev_of_char = function
  | 'a' -> EBgArrive | 'l' -> EBgLock | 'p' -> EPub | 's' -> EQueryStart | 'e' -> EQueryEnd
  | c -> failwith (Printf.sprintf "bad event %c" c)

let string_of_val = function Pending -> "Pending" | G -> "G" | K -> "K"

let op_proc = function
  | [ publish; n; evs; ps ] ->
      let p = params_of_string ps in
      let es = List.map ev_of_char (List.of_seq (String.to_seq evs)) in
      (match exec p es (init (publish = "1") (nat_of_int (int_of_string n))) with
       | Some s -> "OK\t" ^ String.concat "," (List.map string_of_val (results s))
       | None -> "INFEASIBLE")
  | _ -> "BADARGS"

(* blame_run n keys gitflags *)
let op_blame_run = function
  | [ n; keys; flags ] ->
      let ks = ints_of_csv keys in
      let ls = List.mapi (fun i k -> (n_of_int k, flags.[i] = '1')) ks in
      (match Blame.run (nat_of_int (int_of_string n)) Blame.init ls with
       | Blame.Ok cs ->
           "OK\t" ^ String.concat ","
             (List.map (function Some c -> string_of_int (int_of_nat c) | None -> "-") cs)
       | Blame.Panic w -> "PANIC\t" ^ string_of_int (int_of_nat w))
  | _ -> "BADARGS"

(* blame_spec keys colours : the property on rendered rows *)
let op_blame_spec = function
  | [ keys; cols ] ->
      let rows = List.map2 (fun k c -> (n_of_int k, nat_of_int c)) (ints_of_csv keys) (ints_of_csv cols) in
      if Blame.specb [] rows then "true" else "false"
  | _ -> "BADARGS"

let dispatch = function
  | "blame_run" :: args -> op_blame_run args
  | "blame_spec" :: args -> op_blame_spec args
  | "ping" :: _ -> "pong"
  | "proc" :: args -> op_proc args
  | "proc_code_params" :: _ -> "OK\t" ^ string_of_params GenProc.code_params
  | op :: _ -> "UNKNOWN-OP " ^ op
  | [] -> "EMPTY"

let () =
  try
    while true do
      let line = input_line stdin in
      let reply = try dispatch (split_tab line) with e -> "EXN\t" ^ Printexc.to_string e in
      print_string reply; print_char '\n'; flush stdout
    done
  with End_of_file -> ()
