(* Line-protocol driver around the extracted Coq models.
   Request: op TAB arg TAB arg ...   Reply: one line. *)
open Vmodel_ext

let split_tab s = String.split_on_char '\t' s

let rec nat_of_int n = if n <= 0 then O else S (nat_of_int (n - 1))

let bool_of_char c = c = '1'

let params_of_string s =
  if s = "code" then code_params
  else
    { bg_guard = bool_of_char s.[0]; guard_under_lock = bool_of_char s.[1];
      bg_notify = bool_of_char s.[2]; pub_marks_known = bool_of_char s.[3];
      pub_notify = bool_of_char s.[4]; query_waits = bool_of_char s.[5] }

let string_of_params p =
  let b x = if x then "1" else "0" in
  b p.bg_guard ^ b p.guard_under_lock ^ b p.bg_notify ^ b p.pub_marks_known ^ b p.pub_notify
  ^ b p.query_waits

let ev_of_char = function
  | 'a' -> EBgArrive | 'l' -> EBgLock | 'p' -> EPub | 's' -> EQueryStart | 'e' -> EQueryEnd
  | c -> failwith (Printf.sprintf "bad event %c" c)

let string_of_val = function Pending -> "Pending" | G -> "G" | K -> "K"

let op_proc = function
  | [ publish; n; evs; ps ] ->
      let p = params_of_string ps in
      let es = List.map ev_of_char (List.of_seq (String.to_seq evs)) in
      (match exec p es (init (publish = "1") (nat_of_int (int_of_string n))) with
       | Some s -> "OK\t" ^ String.concat "," (List.map string_of_val (results s))
       | None -> "INFEASIBLE")
  | _ -> "BADARGS"

let dispatch = function
  | "ping" :: _ -> "pong"
  | "proc" :: args -> op_proc args
  | "proc_code_params" :: _ -> "OK\t" ^ string_of_params code_params
  | op :: _ -> "UNKNOWN-OP " ^ op
  | [] -> "EMPTY"

let () =
  try
    while true do
      let line = input_line stdin in
      let reply = try dispatch (split_tab line) with e -> "EXN\t" ^ Printexc.to_string e in
      print_string reply; print_char '\n'; flush stdout
    done
  with End_of_file -> ()
