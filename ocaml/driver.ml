(* Line-protocol driver around the extracted Coq models.
   Request: op TAB arg TAB arg ...   Reply: one line. *)
module S = Stdlib.String
module L = Stdlib.List
open Datatypes
open BinNums
open Proc

let split_tab s = S.split_on_char '\t' s

let rec nat_of_int n = if n <= 0 then O else S (nat_of_int (n - 1))

let rec int_of_nat = function O -> 0 | S n -> 1 + int_of_nat n

let rec pos_of_int n =
  if n <= 1 then Coq_xH else if n land 1 = 0 then Coq_xO (pos_of_int (n lsr 1)) else Coq_xI (pos_of_int (n lsr 1))

let n_of_int n = if n <= 0 then N0 else Npos (pos_of_int n)

let rec int_of_pos = function Coq_xH -> 1 | Coq_xO p -> 2 * int_of_pos p | Coq_xI p -> 2 * int_of_pos p + 1

let int_of_n = function N0 -> 0 | Npos p -> int_of_pos p

let ints_of_csv s = if s = "" then [] else L.map int_of_string (S.split_on_char ',' s)

let bool_of_char c = c = '1'

let params_of_string s =
  if s = "code" then GenProc.code_params
  else
    { bg_guard = bool_of_char (S.get s (0)); guard_under_lock = bool_of_char (S.get s (1));
      bg_notify = bool_of_char (S.get s (2)); pub_marks_known = bool_of_char (S.get s (3));
      pub_notify = bool_of_char (S.get s (4)); query_waits = bool_of_char (S.get s (5)) }

let string_of_params p =
  let b x = if x then "1" else "0" in
  b p.bg_guard ^ b p.guard_under_lock ^ b p.bg_notify ^ b p.pub_marks_known ^ b p.pub_notify
  ^ b p.query_waits

let ev_of_char = function
  | 'a' -> EBgArrive | 'l' -> EBgLock | 'p' -> EPub | 's' -> EQueryStart | 'e' -> EQueryEnd
  | c -> failwith (Printf.sprintf "bad event %c" c)

let string_of_val = function Pending -> "Pending" | G -> "G" | K -> "K"

let op_proc = function
  | [ publish; n; evs; ps ] ->
      let p = params_of_string ps in
      let es = L.map ev_of_char (L.of_seq (S.to_seq evs)) in
      (match exec p es (init (publish = "1") (nat_of_int (int_of_string n))) with
       | Some s -> "OK\t" ^ S.concat "," (L.map string_of_val (results s))
       | None -> "INFEASIBLE")
  | _ -> "BADARGS"

(* ---- text <-> hex(UTF-8) *)
let hex_decode s =
  let n = S.length s / 2 in
  S.init n (fun i -> Char.chr (int_of_string ("0x" ^ S.sub s (2 * i) 2)))

let hex_encode s =
  let b = Buffer.create (2 * S.length s) in
  S.iter (fun c -> Buffer.add_string b (Printf.sprintf "%02x" (Char.code c))) s;
  Buffer.contents b

(* UTF-8 -> scalar values (invalid bytes become U+FFFD) *)
let cps_of_utf8 s =
  let n = S.length s in
  let rec go i acc =
    if i >= n then L.rev acc
    else
      let c = Char.code (S.get s (i)) in
      let cont k = if i + k < n then Char.code (S.get s (i + k)) land 0x3f else 0 in
      if c < 0x80 then go (i + 1) (c :: acc)
      else if c land 0xe0 = 0xc0 && i + 1 < n then go (i + 2) ((((c land 0x1f) lsl 6) lor cont 1) :: acc)
      else if c land 0xf0 = 0xe0 && i + 2 < n then
        go (i + 3) ((((c land 0x0f) lsl 12) lor (cont 1 lsl 6) lor cont 2) :: acc)
      else if c land 0xf8 = 0xf0 && i + 3 < n then
        go (i + 4) ((((c land 0x07) lsl 18) lor (cont 1 lsl 12) lor (cont 2 lsl 6) lor cont 3) :: acc)
      else go (i + 1) (0xfffd :: acc)
  in
  go 0 []

let utf8_of_cps cps =
  let b = Buffer.create 64 in
  L.iter (fun c -> Buffer.add_utf_8_uchar b (Uchar.of_int (if c > 0x10ffff || (c >= 0xd800 && c < 0xe000) then 0xfffd else c))) cps;
  Buffer.contents b

let text_of_hex h = L.map n_of_int (cps_of_utf8 (hex_decode h))
let hex_of_text t = hex_encode (utf8_of_cps (L.map int_of_n t))

let lines_of_arg a = if a = "" then [] else L.map text_of_hex (S.split_on_char ',' a)

let string_of_oitem (idx, it) =
  let i = string_of_int (int_of_nat idx) in
  match it with
  | Delta.IRaw t -> i ^ ":R:" ^ hex_of_text t
  | Delta.IFileHeader (t, m) -> i ^ ":F:" ^ hex_of_text t ^ ":" ^ hex_of_text m
  | Delta.IHunkHeader (frag, n, raw) -> i ^ ":H:" ^ hex_of_text frag ^ ":" ^ string_of_int (int_of_n n) ^ ":" ^ hex_of_text raw
  | Delta.ILine (k, t) ->
      let ks = match k with Delta.KMinus -> "-" | Delta.KPlus -> "+" | Delta.KZero -> "0" | Delta.KOther -> "o" in
      i ^ ":L:" ^ ks ^ ":" ^ hex_of_text t

let delta_cfg co tabs lbs =
  { Delta.color_only = (co = "1"); Delta.tab_width = nat_of_int (int_of_string tabs);
    Delta.line_buffer_size = nat_of_int (int_of_string lbs) }

(* delta_run color_only tabs lbs lines *)
let op_delta_run = function
  | [ co; tabs; lbs; lines ] ->
      let items = Delta.run (delta_cfg co tabs lbs) (lines_of_arg lines) in
      "OK\t" ^ S.concat ";" (L.map string_of_oitem items)
  | _ -> "BADARGS"

(* delta_prefix color_only tabs lbs k lines : state after the first k lines (no end of input) *)
let op_delta_prefix = function
  | [ co; tabs; lbs; k; lines ] ->
      let ls = lines_of_arg lines in
      let rec take n l = if n <= 0 then [] else match l with [] -> [] | x :: r -> x :: take (n - 1) r in
      let s = Delta.steps (delta_cfg co tabs lbs) (Delta.number_from O (take (int_of_string k) ls)) Delta.init in
      "OK\t" ^ S.concat ";" (L.map string_of_oitem (Delta.out s))
      ^ "\t" ^ string_of_int (L.length (Delta.buf s))
      ^ "\t" ^ string_of_int (L.length (Delta.minus_lines s))
      ^ "\t" ^ string_of_int (L.length (Delta.plus_lines s))
  | _ -> "BADARGS"

(* delta_sides tabs lbs lines : the side condition of the order theorems (unified view) *)
let op_delta_sides = function
  | [ tabs; lbs; lines ] ->
      let c = delta_cfg "0" tabs lbs in
      if DeltaOrder.sidesb c Delta.init (Delta.number_from O (lines_of_arg lines)) then "true" else "false"
  | _ -> "BADARGS"

(* delta_safes lbs lines : the side condition of the --color-only theorem *)
let op_delta_safes = function
  | [ lbs; lines ] ->
      let c = delta_cfg "1" "0" lbs in
      if DeltaColorOnly.safesb c Delta.init (Delta.number_from O (lines_of_arg lines)) then "true" else "false"
  | _ -> "BADARGS"

(* merge_run lines : the merge-conflict handler model on the lines of one combined-diff hunk body *)
let op_merge_run = function
  | [ lines ] ->
      let s = MergeConflictInst.code_run (lines_of_arg lines) in
      let str = function
        | MergeConflict.OBar -> "B"
        | MergeConflict.OHdr MergeConflict.Ours -> "Ho"
        | MergeConflict.OHdr MergeConflict.Theirs -> "Ht"
        | MergeConflict.OHdr MergeConflict.Anc -> "Ha"
        | MergeConflict.OMinus t -> "M:" ^ hex_of_text t
        | MergeConflict.OPlus t -> "P:" ^ hex_of_text t
        | MergeConflict.OHunk t -> "L:" ^ hex_of_text t in
      let m = match MergeConflict.md s with MergeConflict.Outside -> "out" | MergeConflict.Inside _ -> "in" in
      "OK\t" ^ m ^ "\t" ^ S.concat ";" (L.map str (MergeConflict.outp s))
  | _ -> "BADARGS"

(* sbs_adjust side_by_side supplied_minus_style supplied_minus_emph_style option value *)
let op_sbs_adjust = function
  | [ sbs; sm; se; o; v ] ->
      let supplied = function SbsStyles.MinusStyle -> sm = "1" | SbsStyles.MinusEmphStyle -> se = "1" in
      let o = if o = "minus-style" then SbsStyles.MinusStyle else SbsStyles.MinusEmphStyle in
      "OK\t" ^ hex_of_text (SbsStyles.adjust GenSbs.code_guard supplied (sbs = "1") o (text_of_hex v))
  | _ -> "BADARGS"

(* ingest hexbytes : the carriage-return clean-up of one input line (bytes) *)
let op_ingest = function
  | [ h ] ->
      let bytes_of s = L.init (S.length s) (fun i -> n_of_int (Char.code (S.get s i))) in
      let b = Buffer.create 64 in
      L.iter (fun n -> Buffer.add_char b (Char.chr (int_of_n n))) (Ingest.ingest (bytes_of (hex_decode h)));
      "OK\t" ^ hex_encode (Buffer.contents b)
  | _ -> "BADARGS"

(* submodule_run color_only lines : the submodule short-form handler over the body lines of one hunk, starting
   directly after the hunk header; per line N (not claimed), H (held back, nothing written) or M:<row> *)
let op_submodule_run = function
  | [ co; lines ] ->
      let rec go st = function
        | [] -> []
        | l :: r ->
            (match Submodule.sub_handle (co = "1") st l with
             | None -> "N" :: go (match st with Submodule.HeldMinus m -> Submodule.HeldMinus m | _ -> Submodule.Elsewhere) r
             | Some (st', None) -> "H" :: go st' r
             | Some (st', Some o) -> ("M:" ^ hex_of_text (Submodule.sub_shown o)) :: go st' r) in
      "OK\t" ^ S.concat ";" (go Submodule.AfterHunkHeader (lines_of_arg lines))
  | _ -> "BADARGS"

(* file_url fmt path line : the target of a file hyperlink; line = "-" for a link without a line number *)
let op_file_url = function
  | [ fmt; path; line ] ->
      let ln = if line = "-" then None else Some (n_of_int (int_of_string line)) in
      "OK\t" ^ hex_of_text (Links.file_url (text_of_hex fmt) (text_of_hex path) None ln)
  | _ -> "BADARGS"

(* blame_blank mode n is_repeat line : is the line-number field left blank? mode = block | every | on *)
let op_blame_blank = function
  | [ mode; n; r; l ] ->
      let m = match mode with
        | "block" -> BlameNumbers.PerBlock
        | "every" -> BlameNumbers.Every (n_of_int (int_of_string n))
        | _ -> BlameNumbers.On in
      if GenBlameNumbers.code_blank m (r = "1") (n_of_int (int_of_string l)) then "1" else "0"
  | _ -> "BADARGS"

(* differ_use_git major minor minus_is_pipe plus_is_pipe *)
let op_differ_use_git = function
  | [ a; b; pm; pp ] ->
      if GenDiffer.code_use_git (n_of_int (int_of_string a), n_of_int (int_of_string b)) (pm = "1") (pp = "1") then "1" else "0"
  | _ -> "BADARGS"

(* ---- styles (C12, C09) *)
let color_of_string w =
  if w = "normal" || w = "-" then None
  else
    let k = S.sub w 1 (S.length w - 1) in
    match S.get w 0 with
    | 'n' -> Some (AnsiTerm.Named (n_of_int (int_of_string k)))
    | 'f' -> Some (AnsiTerm.Fixed (n_of_int (int_of_string k)))
    | 'r' ->
        let h i = n_of_int (int_of_string ("0x" ^ S.sub k (2 * i) 2)) in
        Some (AnsiTerm.RGB (h 0, h 1, h 2))
    | _ -> failwith ("bad colour " ^ w)

let string_of_color = function
  | None -> "-"
  | Some (AnsiTerm.Named n) -> "n" ^ string_of_int (int_of_n n)
  | Some (AnsiTerm.Fixed n) -> "f" ^ string_of_int (int_of_n n)
  | Some (AnsiTerm.RGB (r, g, b)) -> Printf.sprintf "r%02x%02x%02x" (int_of_n r) (int_of_n g) (int_of_n b)

let word_of_string w =
  let open ParseStyle in
  match w with
  | "blink" -> WAttr ABlink | "bold" -> WAttr ABold | "dim" -> WAttr ADim | "hidden" -> WAttr AHidden
  | "italic" -> WAttr AItalic | "reverse" -> WAttr AReverse | "strike" -> WAttr AStrike | "ul" -> WAttr AUl
  | "omit" -> WOmit | "raw" -> WRaw | "hf" -> WHunkFlag | "syntax" -> WSyntax | "auto" -> WAuto
  | _ -> WColor (color_of_string w)

let string_of_word w =
  let open ParseStyle in
  match w with
  | WAttr ABlink -> "blink" | WAttr ABold -> "bold" | WAttr ADim -> "dim" | WAttr AHidden -> "hidden"
  | WAttr AItalic -> "italic" | WAttr AReverse -> "reverse" | WAttr AStrike -> "strike" | WAttr AUl -> "ul"
  | WOmit -> "omit" | WRaw -> "raw" | WHunkFlag -> "hf" | WSyntax -> "syntax" | WAuto -> "auto"
  | WColor None -> "normal"
  | WColor c -> string_of_color c

let words_of_arg a = if a = "" then [] else L.map word_of_string (S.split_on_char ',' a)

let fields_of_pstyle (p : ParseStyle.pstyle) =
  let st = p.ParseStyle.sty in
  let attrs =
    L.filter_map (fun (b, n) -> if b then Some n else None)
      [ (st.AnsiTerm.bold, "bold"); (st.AnsiTerm.dim, "dim"); (st.AnsiTerm.ital, "italic"); (st.AnsiTerm.ul, "ul");
        (st.AnsiTerm.blink, "blink"); (st.AnsiTerm.rev, "reverse"); (st.AnsiTerm.hid, "hidden");
        (st.AnsiTerm.strike, "strike") ] in
  let b x = if x then "1" else "0" in
  Printf.sprintf "fg=%s;bg=%s;attrs=%s;omit=%s;raw=%s;syntax=%s" (string_of_color st.AnsiTerm.fg)
    (string_of_color st.AnsiTerm.bg) (S.concat "," attrs) (b p.ParseStyle.omitted) (b p.ParseStyle.israw)
    (b p.ParseStyle.syntax)

let op_style_parse = function
  | [ words ] ->
      (match ParseStyle.parse None (words_of_arg words) with
       | ParseStyle.POk p -> "OK\t" ^ fields_of_pstyle p
       | ParseStyle.PErr e -> "ERR\t" ^ string_of_int (int_of_nat e))
  | _ -> "BADARGS"

let op_style_display = function
  | [ words ] ->
      (match ParseStyle.parse None (words_of_arg words) with
       | ParseStyle.POk p -> "OK\t" ^ S.concat "," (L.map string_of_word (ParseStyle.display p))
       | ParseStyle.PErr e -> "ERR\t" ^ string_of_int (int_of_nat e))
  | _ -> "BADARGS"

let string_of_tok = function
  | AnsiTerm.Sgr ps -> "S" ^ S.concat ";" (L.map (fun p -> string_of_int (int_of_n p)) ps)
  | AnsiTerm.Txt t -> "T" ^ hex_of_text t

(* ansi_strings words:hextext|words:hextext|... -> tokens *)
let op_ansi_strings = function
  | [ spec ] ->
      let segs = if spec = "" then [] else S.split_on_char '|' spec in
      let seg e =
        let i = S.index e ':' in
        let ws = S.sub e 0 i and t = S.sub e (i + 1) (S.length e - i - 1) in
        match ParseStyle.parse None (words_of_arg ws) with
        | ParseStyle.POk p -> (p.ParseStyle.sty, text_of_hex t)
        | ParseStyle.PErr _ -> failwith "style error" in
      let l = L.map seg segs in
      let toks = AnsiTerm.ansi_strings l in
      let (cells, fin) = AnsiTerm.decode AnsiTerm.plain toks in
      "OK\t" ^ S.concat " " (L.map string_of_tok toks) ^ "\t" ^ (if fin = AnsiTerm.plain && cells = l then "balanced" else "UNBALANCED")
  | _ -> "BADARGS"

(* vte_strip hex(bytes) : which bytes are text *)
let op_vte_strip = function
  | [ h ] ->
      let b = hex_decode h in
      let l = L.init (S.length b) (fun i -> n_of_int (Char.code (S.get b i))) in
      let out = Vte.strip l in
      "OK\t" ^ hex_encode (S.init (L.length out) (fun i -> Char.chr (int_of_n (L.nth out i))))
  | _ -> "BADARGS"

(* ---- edits (C06) *)
(* every element is followed by ';' *)
let texts_of_arg a =
  let parts = S.split_on_char ';' a in
  let rec drop_last = function [] | [ _ ] -> [] | p :: r -> p :: drop_last r in
  L.map text_of_hex (drop_last parts)

(* align_ops <tokens x> <tokens y> : token = hex, separated by ';' (a leading ';' = empty first token) *)
let op_align_ops = function
  | [ xs; ys ] ->
      let ops = Align.operations Text.text_eqb (texts_of_arg xs) (texts_of_arg ys) in
      "OK\t" ^ S.concat "" (L.map (function Align.ONoOp -> "N" | Align.ODel -> "D" | Align.OIns -> "I") ops)
  | _ -> "BADARGS"

let op_tokenize = function
  | [ line ] ->
      "OK\t" ^ S.concat "," (L.map hex_of_text (Tokenize.tokenize Tokenize.default_is_word (text_of_hex line)))
  | _ -> "BADARGS"

(* ---- option resolution (C13) *)
let names_of s = if s = "" then [] else L.map (fun x -> n_of_int (int_of_string x)) (S.split_on_char ',' s)
let optval s = if s = "-" then None else Some (n_of_int (int_of_string s))
let optnames s = if s = "~" then None else Some (names_of s)
let fields4 e = match S.split_on_char ':' e with [ a; b; c; d ] -> (a, b, c, d) | _ -> failwith ("bad entry " ^ e)

let section_of e =
  let v, ev, f, fl = fields4 e in
  { Options.s_value = optval v; Options.s_env_value = optval ev; Options.s_features = optnames f; Options.s_flags = names_of fl }

(* opt_resolve <builtins> <gitconfig> <cli> <default> <flag order> *)
let op_opt_resolve = function
  | [ bs; gc; cli; dflt; order ] ->
      let builtins =
        L.map (fun e ->
            let id, v, ch, fl = fields4 e in
            (n_of_int (int_of_string id), { Options.b_value = optval v; Options.b_features = names_of ch; Options.b_flags = names_of fl }))
          (S.split_on_char ';' bs) in
      let secs = S.split_on_char ';' gc in
      let main = section_of (L.hd secs) in
      let custom =
        L.map (fun e -> let i = S.index e '=' in
                        (n_of_int (int_of_string (S.sub e 0 i)), section_of (S.sub e (i + 1) (S.length e - i - 1))))
          (L.tl secs) in
      let g = { Options.main = main; Options.custom = custom } in
      (match S.split_on_char ':' cli with
       | [ v; f; e; fl; nog ] ->
           let env =
             if e = "~" then None
             else Some (S.get e 0 = '+', names_of (S.sub e 1 (S.length e - 1))) in
           let c = { Options.c_value = optval v; Options.c_features = optnames f; Options.c_env = env;
                     Options.c_flags = names_of fl; Options.c_no_gitconfig = (nog = "1") } in
           let fuel = nat_of_int 40 in
           let feats = Options.gather builtins (names_of order) fuel c g in
           let v = Options.resolve builtins (names_of order) fuel c g (n_of_int (int_of_string dflt)) in
           "OK\t" ^ S.concat "," (L.map (fun n -> string_of_int (int_of_n n)) feats) ^ "\t" ^ string_of_int (int_of_n v)
       | _ -> "BADCLI")
  | _ -> "BADARGS"

(* ---- line numbers (C05) *)
let string_of_optn = function None -> "" | Some n -> string_of_int (int_of_n n)

(* lineno_unified l r kinds(-+0w) *)
let op_lineno_unified = function
  | [ l; r; ks ] ->
      let kinds = L.map (function '-' -> LineNo.KMinus | '+' -> LineNo.KPlus | '0' -> LineNo.KZero | _ -> LineNo.KWrapped)
          (L.of_seq (S.to_seq ks)) in
      let res = LineNo.run_unified (n_of_int (int_of_string l), n_of_int (int_of_string r)) kinds in
      "OK\t" ^ S.concat ";" (L.map (fun (a, b) -> string_of_optn a ^ "," ^ string_of_optn b) res)
  | _ -> "BADARGS"

(* lineno_sbs l r rows : each row two chars from {f,w,n} *)
let op_lineno_sbs = function
  | [ l; r; rows ] ->
      let half = function 'f' -> LineNo.HFirst | 'w' -> LineNo.HWrapped | _ -> LineNo.HNone in
      let n = S.length rows / 2 in
      let rs = L.init n (fun i -> (half (S.get rows (2 * i)), half (S.get rows (2 * i + 1)))) in
      let (res, (fl, fr)) = LineNo.run_sbs (n_of_int (int_of_string l), n_of_int (int_of_string r)) rs in
      "OK\t" ^ S.concat ";" (L.map (fun (a, b) -> string_of_optn a ^ "," ^ string_of_optn b) res)
      ^ "\t" ^ string_of_int (int_of_n fl) ^ "," ^ string_of_int (int_of_n fr)
  | _ -> "BADARGS"

(* ---- wrapping (C07) *)
(* wrap_line <width> <max_lines> <permille> <style:cluster,width;cluster,width...|...> -> rows *)
let op_wrap_line = function
  | [ w; ml; pm; secs ] ->
      let sec_of e =
        let i = S.index e ':' in
        let st = int_of_string (S.sub e 0 i) in
        let body = S.sub e (i + 1) (S.length e - i - 1) in
        let grs = if body = "" then [] else
            L.map (fun g -> match S.split_on_char ',' g with
                | [ id; wd ] -> (n_of_int (int_of_string id), nat_of_int (int_of_string wd))
                | _ -> failwith "bad grapheme") (S.split_on_char ';' body) in
        (nat_of_int st, grs) in
      let line = if secs = "" then [] else L.map sec_of (S.split_on_char '|' secs) in
      let c = { WrapLine.line_width = nat_of_int (int_of_string w); WrapLine.max_lines_cfg = nat_of_int (int_of_string ml);
                WrapLine.right_permille = nat_of_int (int_of_string pm) } in
      (match WrapLine.wrap_line (WrapFacts.wrap_fuel c line) c line with
       | None -> "FUEL"
       | Some rows ->
           let seg = function
             | WrapLine.SText (st, t) -> "T" ^ string_of_int (int_of_nat st) ^ ":" ^ S.concat ";" (L.map (fun (id, _) -> string_of_int (int_of_n id)) t)
             | WrapLine.SSymLeft -> "L" | WrapLine.SSymRight -> "R" | WrapLine.SSymPrefix -> "P"
             | WrapLine.SPad n -> "S" ^ string_of_int (int_of_nat n) in
           "OK\t" ^ S.concat "|" (L.map (fun r -> S.concat "," (L.map seg r)) rows))
  | _ -> "BADARGS"

(* truncate <fill 0/1> <width> <items> <tail>; items: T<id,w;id,w> or A<id>, separated by | -> output elements *)
let op_truncate = function
  | [ fill; dw; items; tail ] ->
      let item_of e =
        let body = S.sub e 1 (S.length e - 1) in
        if S.get e 0 = 'A' then Trunc.IAnsi (n_of_int (int_of_string body))
        else Trunc.IText (if body = "" then [] else
            L.map (fun g -> match S.split_on_char ',' g with
                | [ id; wd ] -> (n_of_int (int_of_string id), nat_of_int (int_of_string wd))
                | _ -> failwith "bad grapheme") (S.split_on_char ';' body)) in
      let parse x = if x = "" then [] else L.map item_of (S.split_on_char '|' x) in
      let out = Trunc.truncate_str (fill = "1") (nat_of_int (int_of_string dw)) (parse items) (parse tail) in
      "OK\t" ^ S.concat "," (L.map (function
          | Trunc.OG (id, _) -> "G" ^ string_of_int (int_of_n id)
          | Trunc.OFill -> "F"
          | Trunc.OAnsi a -> "A" ^ string_of_int (int_of_n a)) out)
  | _ -> "BADARGS"

(* ---- machine integers (C03) *)
let rec bin_of_pos = function Coq_xH -> "1" | Coq_xO p -> bin_of_pos p ^ "0" | Coq_xI p -> bin_of_pos p ^ "1"
let bin_of_n = function N0 -> "0" | Npos p -> bin_of_pos p
let digits_of s = L.init (S.length s) (fun i -> n_of_int (Char.code (S.get s i) - 48))

(* hunk_numbers <start[,len];start[,len];...> -> NONE | start,len;... (binary) *)
let op_hunk_numbers = function
  | [ cs ] ->
      let coord e = match S.split_on_char ',' e with
        | [ a ] -> (digits_of a, None)
        | [ a; b ] -> (digits_of a, Some (digits_of b))
        | _ -> failwith "bad coord" in
      let coords = if cs = "" then [] else L.map coord (S.split_on_char ';' cs) in
      (match Numbers.parse_hunk_numbers coords with
       | None -> "OK\tNONE"
       | Some l -> "OK\t" ^ S.concat ";" (L.map (fun (n, d) -> bin_of_n n ^ "," ^ bin_of_n d) l)
                   ^ "\t" ^ bin_of_n (Numbers.hunk_max l))
  | _ -> "BADARGS"

(* bump <k> <start digits> -> counter after k lines (binary) *)
let op_bump = function
  | [ k; c ] ->
      (match Numbers.parse_usize (digits_of c) with
       | None -> "OK\tNONE"
       | Some n -> "OK\t" ^ bin_of_n (Numbers.bump (nat_of_int (int_of_string k)) n))
  | _ -> "BADARGS"

(* grep_sections <hex of line> <s-e;s-e;...> -> M:hex|N:hex|... ; character starts from UTF-8 *)
let op_grep_sections = function
  | [ h; subs ] ->
      let bytes = hex_decode h in
      let line = L.init (S.length bytes) (fun i ->
          let c = Char.code (S.get bytes i) in (nat_of_int c, (c land 0xC0) <> 0x80)) in
      let sub e = match S.split_on_char '-' e with
        | [ a; b ] -> (nat_of_int (int_of_string a), nat_of_int (int_of_string b))
        | _ -> failwith "bad submatch" in
      let sl = if subs = "" then [] else L.map sub (S.split_on_char ';' subs) in
      (match GrepSections.make_style_sections line sl with
       | None -> "OK\tPANIC"
       | Some secs -> "OK\t" ^ S.concat "|" (L.map (fun (k, t) ->
           (match k with GrepSections.Match -> "M:" | GrepSections.NonMatch -> "N:")
           ^ hex_encode (S.init (L.length t) (fun i -> Char.chr (int_of_nat (fst (L.nth t i)))))) secs))
  | _ -> "BADARGS"

(* ---- pager selection (C18)
   pager_select <auto> <old_less> <config> <delta_pager> <bat_pager> <pager> <resolvable ids csv>
   each command: "-" = unset, otherwise words "stem:id" separated by ',' ("" = set but empty) *)
let op_pager_select = function
  | [ auto; old_less; cfg; dp; bp; pg; res ] ->
      let word e = match S.split_on_char ':' e with
        | [ a; b ] -> { Pager.stem = nat_of_int (int_of_string a); Pager.wid = nat_of_int (int_of_string b) }
        | _ -> failwith "bad word" in
      let cmd x = if x = "-" then None else Some (if x = "" then [] else L.map word (S.split_on_char ',' x)) in
      let resolvable = ints_of_csv res in
      let r w = L.mem (int_of_nat w.Pager.wid) resolvable in
      (match Pager.select r (auto = "1") (old_less = "1") (cmd cfg) (cmd dp) (cmd bp) (cmd pg) with
       | Pager.Stdout -> "OK\tSTDOUT"
       | Pager.Fatal -> "OK\tFATAL"
       | Pager.Spawn (b, args) ->
           "OK\tSPAWN " ^ string_of_int (int_of_nat b.Pager.wid) ^ " "
           ^ S.concat "," (L.map (function
               | Pager.AUser w -> "U" ^ string_of_int (int_of_nat w.Pager.wid)
               | Pager.ARaw -> "R" | Pager.ANoInit -> "N" | Pager.AQuit -> "Q") args))
  | _ -> "BADARGS"

(* ---- superimposition of syntax and diff styles (C15)
   superimpose <fg or '-':cp.cp.cp,...> <fg|bg|attrs|syn:cp.cp,...>  (fg/bg: number or '-')
   -> cells ch,fg,bg,attrs;... *)
let op_superimpose = function
  | [ syn; diff ] ->
      let cps x = if x = "" then [] else L.map (fun c -> n_of_int (int_of_string c)) (S.split_on_char '.' x) in
      let opt x = if x = "-" then None else Some (n_of_int (int_of_string x)) in
      let split2 e = let i = S.index e ':' in (S.sub e 0 i, S.sub e (i + 1) (S.length e - i - 1)) in
      let ssec e = let (a, b) = split2 e in (opt a, cps b) in
      let dsec e = let (a, b) = split2 e in
        (match S.split_on_char '|' a with
         | [ f; g; at; sy ] -> ({ Superimpose.fg = opt f; Superimpose.bg = opt g; Superimpose.attrs = n_of_int (int_of_string at);
                                 Superimpose.syn = (sy = "1") }, cps b)
         | _ -> failwith "bad diff style") in
      let lst f x = if x = "" then [] else L.map f (S.split_on_char ',' x) in
      let out = Superimpose.cells (Superimpose.superimpose (lst ssec syn) (lst dsec diff)) in
      let o = function None -> "-" | Some n -> string_of_int (int_of_n n) in
      "OK\t" ^ S.concat ";" (L.map (fun (((c, f), g), a) ->
          string_of_int (int_of_n c) ^ "," ^ o f ^ "," ^ o g ^ "," ^ string_of_int (int_of_n a)) out)
  | _ -> "BADARGS"

(* realign <entries L/R/B separated by ','> <wm csv> <wp csv> -> rows L<i>,R<j>,B<i>:<j> *)
let op_realign = function
  | [ al; wm; wp ] ->
      let rec ents es me pe = match es with
        | [] -> []
        | "L" :: r -> Realign.EL (nat_of_int me) :: ents r (me + 1) pe
        | "R" :: r -> Realign.ER (nat_of_int pe) :: ents r me (pe + 1)
        | "B" :: r -> Realign.EB (nat_of_int me, nat_of_int pe) :: ents r (me + 1) (pe + 1)
        | _ -> failwith "bad entry" in
      let es = if al = "" then [] else ents (S.split_on_char ',' al) 0 0 in
      let nats x = L.map nat_of_int (ints_of_csv x) in
      (match Realign.realign es (nats wm) (nats wp) O O O O with
       | None -> "OK\tPANIC"
       | Some rows -> "OK\t" ^ S.concat "," (L.map (function
           | Realign.RL i -> "L" ^ string_of_int (int_of_nat i)
           | Realign.RR j -> "R" ^ string_of_int (int_of_nat j)
           | Realign.RB (i, j) -> "B" ^ string_of_int (int_of_nat i) ^ ":" ^ string_of_int (int_of_nat j)) rows))
  | _ -> "BADARGS"

(* pairing <m> <p> <rows of 0/1, one row per removed line, separated by ','> -> alignment entries *)
let op_pairing = function
  | [ m; p; rows ] ->
      let mx = if rows = "" then [] else
          L.map (fun r -> L.init (S.length r) (fun i -> S.get r i = '1')) (S.split_on_char ',' rows) in
      let al = Pairing.line_alignment (Pairing.close_of mx) (nat_of_int (int_of_string m)) (nat_of_int (int_of_string p)) in
      "OK\t" ^ S.concat "," (L.map (function
          | Realign.EL i -> string_of_int (int_of_nat i) ^ "-"
          | Realign.ER j -> "-" ^ string_of_int (int_of_nat j)
          | Realign.EB (i, j) -> string_of_int (int_of_nat i) ^ "-" ^ string_of_int (int_of_nat j)) al)
  | _ -> "BADARGS"

(* blame_run n keys gitflags *)
let op_blame_run = function
  | [ n; keys; flags ] ->
      let ks = ints_of_csv keys in
      let ls = L.mapi (fun i k -> (n_of_int k, (S.get flags (i)) = '1')) ks in
      (match Blame.run (nat_of_int (int_of_string n)) Blame.init ls with
       | Blame.Ok cs ->
           "OK\t" ^ S.concat ","
             (L.map (function Some c -> string_of_int (int_of_nat c) | None -> "-") cs)
       | Blame.Panic w -> "PANIC\t" ^ string_of_int (int_of_nat w))
  | _ -> "BADARGS"

(* blame_spec keys colours : the property on rendered rows *)
let op_blame_spec = function
  | [ keys; cols ] ->
      let rows = L.map2 (fun k c -> (n_of_int k, nat_of_int c)) (ints_of_csv keys) (ints_of_csv cols) in
      if Blame.specb [] rows then "true" else "false"
  | _ -> "BADARGS"

let dispatch = function
  | "wrap_line" :: args -> op_wrap_line args
  | "truncate" :: args -> op_truncate args
  | "pairing" :: args -> op_pairing args
  | "realign" :: args -> op_realign args
  | "superimpose" :: args -> op_superimpose args
  | "pager_select" :: args -> op_pager_select args
  | "hunk_numbers" :: args -> op_hunk_numbers args
  | "bump" :: args -> op_bump args
  | "grep_sections" :: args -> op_grep_sections args
  | "lineno_unified" :: args -> op_lineno_unified args
  | "lineno_sbs" :: args -> op_lineno_sbs args
  | "opt_resolve" :: args -> op_opt_resolve args
  | "align_ops" :: args -> op_align_ops args
  | "tokenize" :: args -> op_tokenize args
  | "vte_strip" :: args -> op_vte_strip args
  | "style_parse" :: args -> op_style_parse args
  | "style_display" :: args -> op_style_display args
  | "ansi_strings" :: args -> op_ansi_strings args
  | "delta_run" :: args -> op_delta_run args
  | "delta_prefix" :: args -> op_delta_prefix args
  | "delta_sides" :: args -> op_delta_sides args
  | "delta_safes" :: args -> op_delta_safes args
  | "merge_run" :: args -> op_merge_run args
  | "sbs_adjust" :: args -> op_sbs_adjust args
  | "ingest" :: args -> op_ingest args
  | "submodule_run" :: args -> op_submodule_run args
  | "file_url" :: args -> op_file_url args
  | "blame_blank" :: args -> op_blame_blank args
  | "differ_use_git" :: args -> op_differ_use_git args
  | "blame_run" :: args -> op_blame_run args
  | "blame_spec" :: args -> op_blame_spec args
  | "ping" :: _ -> "pong"
  | "proc" :: args -> op_proc args
  | "proc_code_params" :: _ -> "OK\t" ^ string_of_params GenProc.code_params
  | op :: _ -> "UNKNOWN-OP " ^ op
  | [] -> "EMPTY"

let () =
  try
    while true do
      let line = input_line stdin in
      let reply = try dispatch (split_tab line) with e -> "EXN\t" ^ Printexc.to_string e in
      print_string reply; print_char '\n'; flush stdout
    done
  with End_of_file -> ()
