(* C04 — text that is not diff output passes through.  Statements only, over the line state
   machine model; the byte-level claim is decided on the implementation by check C04. *)
From Coq Require Import String.
From Coq Require Import List Bool NArith.
Import ListNotations.
From DV Require Import Text Delta DeltaFacts DeltaOrder DeltaPass.

(* Outside a diff (before the first construct, or in commit metadata), a line that begins
   with none of the construct-opening markers is claimed by no handler: it is emitted
   unchanged and the machine stays where it is — for every configuration. *)
Theorem C04_passthrough_line : forall c s i l,
  outside s = true -> marker l = false ->
  exists s0, step c s (i, l) = emit_unchanged i l (emit s0) /\
             all_items s0 = all_items s /\ state s0 = state s /\
             minus_lines s0 = minus_lines s /\ plus_lines s0 = plus_lines s /\ buf s0 = buf s.
Proof. exact passthrough_step. Qed.

(* A block of such lines extends the history by exactly these lines, unchanged and in order. *)
Theorem C04_passthrough_block : forall c ls j s,
  outside s = true -> quiet s -> Forall (fun l => marker l = false) ls ->
  all_items (steps c (number_from j ls) s) =
    all_items s ++ map (fun il => (fst il, IRaw (snd il))) (number_from j ls) /\
  outside (steps c (number_from j ls) s) = true /\ quiet (steps c (number_from j ls) s).
Proof. exact passthrough_block. Qed.

(* Non-vacuity: text before a commit, the commit message, and the diff's own lines *)
Example C04_example :
  map snd (run (mkCfg false 4 32)
    [lit "On branch main"%string; lit "  (use git add)"%string; lit "commit 1234567"%string; lit "Author: A"%string;
     lit ""%string; lit "    - fix the +1 bug"%string; lit ""%string;
     lit "diff --git a/x b/x"%string; lit "--- a/x"%string; lit "+++ b/x"%string; lit "@@ -1 +1 @@"%string; lit "-a"%string; lit "+b"%string]) =
  [IRaw (lit "On branch main"%string); IRaw (lit "  (use git add)"%string); IRaw (lit "commit 1234567"%string);
   IRaw (lit "Author: A"%string); IRaw []; IRaw (lit "    - fix the +1 bug"%string); IRaw [];
   IFileHeader (lit "x"%string) []; IHunkHeader [] 1 (lit "@@ -1 +1 @@"%string);
   ILine KMinus (lit "a"%string); ILine KPlus (lit "b"%string)].
Proof. vm_compute. reflexivity. Qed.

(* The one normalisation of pass-through bytes that looks inside the line (ingest_line_utf8, model
   Ingest.v, shape pinned by GenIngest.v / C08_cr_cleanup_is_modelled): for every width test, a
   carriage return that is followed by something with a display width stays, a line without a
   carriage return is untouched, and never more than one byte — a carriage return — is removed. *)
From DV Require Import Ingest IngestFacts.

Theorem C04_cr_before_visible_text_kept : forall width0 body tail,
  ~ In Ingest.CR tail -> width0 tail = false ->
  drop_cr width0 (body ++ Ingest.CR :: tail) = body ++ Ingest.CR :: tail.
Proof. exact drop_cr_visible_tail. Qed.

Theorem C04_line_without_cr_untouched : forall width0 l, ~ In Ingest.CR l -> drop_cr width0 l = l.
Proof. exact drop_cr_without_cr. Qed.

Theorem C04_at_most_one_cr_removed : forall width0 l,
  drop_cr width0 l = l \/ exists a b, l = a ++ Ingest.CR :: b /\ drop_cr width0 l = a ++ b.
Proof. exact drop_cr_removes_one_cr. Qed.
