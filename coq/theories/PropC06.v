(* C06 — within-line emphasis marks exactly what changed.  Statements only. *)
From Coq Require Import List Bool NArith Arith.
Import ListNotations.
From DV Require Import Text Align AlignFacts AlignSame AlignLine Tokenize TokenizeFacts Realign Pairing PairingFacts.

(* The tokens of a line concatenate to the line, and the first token is the empty token —
   for every tokeniser of this shape (any word predicate). *)
Theorem C06_tokenize_partition : forall is_word l,
  concat (tokenize is_word l) = l /\ hd_error (tokenize is_word l) = Some [].
Proof. exact tokenize_partition. Qed.

(* The row-by-row table (what the code fills) holds, cell by cell, the recursive
   specification of the gap-open edit distance with its tie-breaking order. *)
Theorem C06_table_is_specification : forall (T : Type) (eqb : T -> T -> bool) d x y i j,
  i <= length x -> j <= length y -> cell_at T eqb x y i j = C T eqb d x y i j.
Proof. exact table_spec. Qed.

(* For all token lists that begin with the same token (tokenize's leading ""), the operations
   read back from the table are a valid edit script: replaying them consumes exactly x and y,
   and every NoOp pairs equal tokens.  (Without the common first token the read-back, which
   stops at parent index 0, can drop operations.) *)
Theorem C06_operations_valid : forall (T : Type) (eqb : T -> T -> bool),
  (forall a b, eqb a b = true <-> a = b) ->
  forall d x y, x <> [] -> y <> [] -> nth 0 x d = nth 0 y d ->
  ok T (operations T eqb x y) x y.
Proof. intros T eqb H d x y. exact (operations_valid T eqb H d x y). Qed.

(* Deleting from the removed line what the alignment marks as deleted, and from the added
   line what it marks as inserted, leaves the same tokens: what is shown as unchanged really
   is common to both lines. *)
Theorem C06_emphasis_sound : forall (T : Type) (eqb : T -> T -> bool),
  (forall a b, eqb a b = true <-> a = b) ->
  forall d x y, x <> [] -> y <> [] -> nth 0 x d = nth 0 y d ->
  keep_x T (operations T eqb x y) x = keep_y T (operations T eqb x y) y.
Proof. intros T eqb H d x y. exact (emphasis_sound T eqb H d x y). Qed.

(* A line compared with an identical line gets no emphasis at all: every operation is NoOp
   (for every token type whose comparison is reflexive, every non-empty token list). *)
Theorem C06_identical_lines_no_emphasis : forall (T : Type) (eqb : T -> T -> bool),
  (forall a, eqb a a = true) ->
  forall (d : T) x, x <> [] -> operations T eqb x x = repeat ONoOp (length x).
Proof. intros T eqb H d x. exact (operations_same T eqb H d x). Qed.

(* Every token of either line gets exactly one annotation: the operations consuming a token of
   the removed line (NoOp, Deletion) are as many as it has tokens; likewise NoOp / Insertion for
   the added line. *)
Theorem C06_every_token_annotated_once : forall (T : Type) (eqb : T -> T -> bool),
  (forall a b, eqb a b = true <-> a = b) ->
  forall d x y, x <> [] -> y <> [] -> nth 0 x d = nth 0 y d ->
  length (filter (fun o => match o with OIns => false | _ => true end) (operations T eqb x y)) = length x /\
  length (filter (fun o => match o with ODel => false | _ => true end) (operations T eqb x y)) = length y.
Proof. exact operations_cover. Qed.

(* ... in particular for whole lines: any line, tokenised with any word predicate and compared
   with itself, yields one NoOp per token and nothing else. *)
Theorem C06_same_line_no_emphasis : forall (is_word : N -> bool) (l : text),
  operations text text_eqb (tokenize is_word l) (tokenize is_word l) =
  repeat ONoOp (length (tokenize is_word l)).
Proof. exact same_line_no_emphasis. Qed.

(* Non-vacuity: "aaa bb" vs "aaa cc" *)
Example C06_example :
  operations text text_eqb [[]; [97;97;97]; [32]; [98;98]]%N [[]; [97;97;97]; [32]; [99;99]]%N
  = [ONoOp; ONoOp; ONoOp; ODel; OIns].
Proof. vm_compute. reflexivity. Qed.

(* Line pairing (the loop of infer_edits over the removed and added lines of a block, for any
   closeness oracle): every removed and every added line is named exactly once, each side in
   input order — so pairs never cross — and this is exactly the shape wrap_minusplus_block
   asserts (C07_realign_total's hypothesis) ... *)
Theorem C06_pairing_ordered : forall close m p, ordered (line_alignment close m p) 0 0 = true.
Proof. exact line_alignment_ordered. Qed.

Theorem C06_pairing_counts : forall close m p,
  nleft (line_alignment close m p) = m /\ nright (line_alignment close m p) = p.
Proof. exact line_alignment_counts. Qed.

(* ... and two lines are paired only when the oracle says they are close *)
Theorem C06_pairs_are_close : forall close m p i j,
  In (EB i j) (line_alignment close m p) -> close i j = true.
Proof. intros close m p i j H. exact (proj1 (pair_from_pairs close m 0 0 p i j H)). Qed.

Example C06_pairing_example :
  line_alignment (close_of [[false; true; false]; [false; false; false]; [false; false; true]]) 3 4 =
  [ER 0; EB 0 1; EL 1; EB 2 2; ER 3].
Proof. vm_compute. reflexivity. Qed.
