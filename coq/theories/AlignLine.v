(* C06 at the level of whole lines: a line compared with itself — tokenised with any word
   predicate — yields only NoOp operations, one per token: no emphasis on an unchanged line. *)
From Coq Require Import List Arith Bool NArith Lia.
Import ListNotations.
From DV Require Import Text Align AlignFacts AlignSame Tokenize TokenizeFacts.

Lemma text_eqb_refl : forall a : text, text_eqb a a = true.
Proof.
  induction a as [|c a IH]; [reflexivity|]. cbn [text_eqb]. rewrite N.eqb_refl, IH. reflexivity.
Qed.

Theorem same_line_no_emphasis (is_word : N -> bool) (l : text) :
  operations text text_eqb (tokenize is_word l) (tokenize is_word l) =
  repeat ONoOp (length (tokenize is_word l)).
Proof.
  apply (operations_same text text_eqb text_eqb_refl []).
  destruct (tokenize_partition is_word l) as [_ H]. intro E. rewrite E in H. discriminate.
Qed.
