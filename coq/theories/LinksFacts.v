From Coq Require Import List Bool NArith Arith Lia String.
Import ListNotations.
From DV Require Import Text Links.
Local Open Scope N_scope.

Definition BRACE : N := 123.
Definition no_brace (s : text) : Prop := ~ In BRACE s.

Lemma no_brace_app a b : no_brace (a ++ b) <-> no_brace a /\ no_brace b.
Proof. unfold no_brace. rewrite in_app_iff. tauto. Qed.

(* a pattern that begins with a brace does not match where there is no brace *)
Lemma starts_with_brace_false p c r : c <> BRACE -> starts_with (BRACE :: p) (c :: r) = false.
Proof. intros H. cbn [starts_with]. destruct (N.eqb_spec BRACE c) as [E|E]; [now subst|reflexivity]. Qed.

Section Repl.
  Variables p rep : text.
  Notation pat := (BRACE :: p).

  Lemma repl_no_brace a s : no_brace a -> repl pat rep 0 (a ++ s) = a ++ repl pat rep 0 s.
  Proof.
    induction a as [|c a IH]; intros Ha; [reflexivity|].
    cbn [app]. cbn [repl]. rewrite starts_with_brace_false.
    - f_equal. apply IH. intros Hi. apply Ha. now right.
    - intros E. apply Ha. now left.
  Qed.

  Lemma repl_no_brace_end a : no_brace a -> repl pat rep 0 a = a.
  Proof. intros Ha. rewrite <- (app_nil_r a) at 1. rewrite repl_no_brace by exact Ha. cbn [repl]. now rewrite app_nil_r. Qed.

  Lemma repl_skip q s : repl pat rep (List.length q) (q ++ s) = repl pat rep 0 s.
  Proof. induction q as [|c q IH]; [reflexivity|]. cbn [List.length app repl]. exact IH. Qed.

  Lemma starts_with_self (a s : text) : starts_with a (a ++ s) = true.
  Proof. induction a as [|c a IH]; [reflexivity|]. cbn [app starts_with]. now rewrite N.eqb_refl, IH. Qed.

  Lemma repl_match s : repl pat rep 0 (pat ++ s) = rep ++ repl pat rep 0 s.
  Proof.
    cbn [app]. cbn [repl]. change (BRACE :: p ++ s) with (pat ++ s). rewrite starts_with_self.
    f_equal. replace (List.length pat - 1)%nat with (List.length p) by (cbn [List.length]; lia). apply repl_skip.
  Qed.
End Repl.

Lemma repl_other (p rep : text) (q s : text) :
  starts_with (BRACE :: p) (BRACE :: q ++ s) = false -> no_brace q ->
  repl (BRACE :: p) rep 0 (BRACE :: q ++ s) = BRACE :: q ++ repl (BRACE :: p) rep 0 s.
Proof.
  intros Hs Hq. cbn [repl]. rewrite Hs. f_equal. now apply repl_no_brace.
Qed.

Lemma decimal_no_brace n : no_brace (decimal n).
Proof.
  unfold decimal. generalize (S (N.to_nat (N.log2 n))) as f.
  assert (G : forall f m acc, no_brace acc -> no_brace (digits_fuel f m acc)).
  { induction f as [|f IH]; intros m acc Ha; [exact Ha|]. cbn [digits_fuel].
    assert (Hd : no_brace ((48 + m mod 10) :: acc)).
    { intros [E|E]; [|now apply Ha]. unfold BRACE in E. pose proof (N.mod_upper_bound m 10). lia. }
    destruct (m <? 10); [exact Hd|]. now apply IH. }
  intros f. apply G. intros [].
Qed.

Lemma stage_path pre mid post path :
  no_brace pre -> no_brace mid -> no_brace post ->
  replace P_PATH path (pre ++ P_PATH ++ mid ++ P_LINE ++ post) = pre ++ path ++ mid ++ P_LINE ++ post.
Proof.
  intros Hpre Hmid Hpost. unfold replace, P_PATH, P_LINE.
  change (lit "{path}") with (BRACE :: lit "path}"). change (lit "{line}") with (BRACE :: lit "line}").
  rewrite (repl_no_brace (lit "path}") path pre) by exact Hpre. f_equal.
  rewrite (repl_match (lit "path}") path). f_equal.
  rewrite (repl_no_brace (lit "path}") path mid) by exact Hmid. f_equal.
  change ((BRACE :: lit "line}") ++ post) with (BRACE :: lit "line}" ++ post).
  rewrite (repl_other (lit "path}") path (lit "line}") post);
    [| reflexivity | intros H; cbn in H; unfold BRACE in H; intuition discriminate].
  now rewrite (repl_no_brace_end (lit "path}") path post Hpost).
Qed.

Lemma stage_line pre mid post path d :
  no_brace pre -> no_brace mid -> no_brace post -> no_brace path ->
  replace P_LINE d (pre ++ path ++ mid ++ P_LINE ++ post) = pre ++ path ++ mid ++ d ++ post.
Proof.
  intros Hpre Hmid Hpost Hpath. unfold replace, P_LINE.
  change (lit "{line}") with (BRACE :: lit "line}").
  rewrite (repl_no_brace (lit "line}") d pre) by exact Hpre. f_equal.
  rewrite (repl_no_brace (lit "line}") d path) by exact Hpath. f_equal.
  rewrite (repl_no_brace (lit "line}") d mid) by exact Hmid. f_equal.
  rewrite (repl_match (lit "line}") d). f_equal.
  exact (repl_no_brace_end (lit "line}") d post Hpost).
Qed.

(* C19: a template  pre {path} mid {line} post  (no other braces; the path has none) is instantiated
   with exactly the path and exactly the decimal line number — and with nothing for {line} when the
   link has no line number *)
Theorem file_url_with_line pre mid post path n :
  no_brace pre -> no_brace mid -> no_brace post -> no_brace path ->
  file_url (pre ++ P_PATH ++ mid ++ P_LINE ++ post) path None (Some n) = pre ++ path ++ mid ++ decimal n ++ post.
Proof.
  intros Hpre Hmid Hpost Hpath. unfold file_url. rewrite stage_path by assumption. now apply stage_line.
Qed.

Theorem file_url_without_line pre mid post path :
  no_brace pre -> no_brace mid -> no_brace post -> no_brace path ->
  file_url (pre ++ P_PATH ++ mid ++ P_LINE ++ post) path None None = pre ++ path ++ mid ++ post.
Proof.
  intros Hpre Hmid Hpost Hpath. unfold file_url. rewrite stage_path by assumption.
  rewrite stage_line by assumption. reflexivity.
Qed.

(* a template without {line} (the default file://{path}) *)
Theorem file_url_path_only pre post path line :
  no_brace pre -> no_brace post -> no_brace path ->
  file_url (pre ++ P_PATH ++ post) path None line = pre ++ path ++ post.
Proof.
  intros Hpre Hpost Hpath. unfold file_url, replace, P_PATH, P_LINE.
  change (lit "{path}") with (BRACE :: lit "path}"). change (lit "{line}") with (BRACE :: lit "line}").
  rewrite (repl_no_brace (lit "path}") path pre) by exact Hpre.
  rewrite (repl_match (lit "path}") path).
  rewrite (repl_no_brace_end (lit "path}") path post Hpost).
  apply repl_no_brace_end. apply no_brace_app. split; [exact Hpre|]. apply no_brace_app. now split.
Qed.

Example url_example :
  file_url (lit "file-line://{path}:{line}") (lit "/r/src/a.rs") None (Some 120) = lit "file-line:///r/src/a.rs:120" /\
  file_url (lit "file-line://{path}:{line}") (lit "/r/src/a.rs") None None = lit "file-line:///r/src/a.rs:".
Proof. split; vm_compute; reflexivity. Qed.
