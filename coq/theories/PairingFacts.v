From Coq Require Import List Bool Arith Lia.
Import ListNotations.
From DV Require Import Realign Pairing.

Section Facts.
  Variable close : nat -> nat -> bool.

  Lemma find_partner_spec mi n : forall pi j, find_partner close mi pi n = Some j ->
    pi <= j < pi + n /\ close mi j = true /\ forall k, pi <= k < j -> close mi k = false.
  Proof.
    induction n as [|n IH]; intros pi j H; cbn in H; [discriminate|].
    destruct (close mi pi) eqn:E.
    - inversion H; subst. repeat split; try lia; try exact E.
    - destruct (IH (S pi) j H) as (H1 & H2 & H3). split; [lia|]. split; [exact H2|].
      intros k Hk. destruct (Nat.eq_dec k pi) as [->|Hne]; [exact E | apply H3; lia].
  Qed.

  Lemma ordered_unpaired_plus k : forall pi me rest,
    ordered (unpaired_plus pi k ++ rest) me pi = ordered rest me (pi + k).
  Proof.
    unfold unpaired_plus. induction k as [|k IH]; intros pi me rest; cbn [seq map app ordered].
    - rewrite Nat.add_0_r. reflexivity.
    - rewrite Nat.eqb_refl. cbn [andb]. rewrite IH. f_equal. lia.
  Qed.

  (* the alignment names every removed line and every added line exactly once, each side in
     order: it is [ordered] in the sense wrap_minusplus_block asserts *)
  Theorem pair_from_ordered m : forall mi pi p, pi <= p ->
    ordered (pair_from close m mi pi p) mi pi = true.
  Proof.
    induction m as [|m IH]; intros mi pi p Hp; cbn [pair_from].
    - rewrite <- (app_nil_r (unpaired_plus pi (p - pi))), ordered_unpaired_plus. reflexivity.
    - destruct (find_partner close mi pi (p - pi)) as [j|] eqn:E.
      + destruct (find_partner_spec mi (p - pi) pi j E) as (Hj & _ & _).
        rewrite ordered_unpaired_plus. replace (pi + (j - pi)) with j by lia.
        cbn [ordered]. rewrite !Nat.eqb_refl. cbn [andb]. apply IH. lia.
      + cbn [ordered]. rewrite Nat.eqb_refl. cbn [andb]. apply IH. exact Hp.
  Qed.

  Lemma nleft_unpaired_plus pi k rest : nleft (unpaired_plus pi k ++ rest) = nleft rest.
  Proof. unfold unpaired_plus. revert pi. induction k as [|k IH]; intros pi; cbn; [reflexivity | apply IH]. Qed.

  Lemma nright_unpaired_plus pi k rest : nright (unpaired_plus pi k ++ rest) = k + nright rest.
  Proof. unfold unpaired_plus. revert pi. induction k as [|k IH]; intros pi; cbn; [reflexivity | rewrite IH; reflexivity]. Qed.

  (* every removed line and every added line is in it: m on the left, the remaining added lines on the right *)
  Theorem pair_from_counts m : forall mi pi p, pi <= p ->
    nleft (pair_from close m mi pi p) = m /\ nright (pair_from close m mi pi p) = p - pi.
  Proof.
    induction m as [|m IH]; intros mi pi p Hp; cbn [pair_from].
    - rewrite <- (app_nil_r (unpaired_plus pi (p - pi))), nleft_unpaired_plus, nright_unpaired_plus. cbn. lia.
    - destruct (find_partner close mi pi (p - pi)) as [j|] eqn:E.
      + destruct (find_partner_spec mi (p - pi) pi j E) as (Hj & _ & _).
        rewrite nleft_unpaired_plus, nright_unpaired_plus. cbn [nleft nright].
        destruct (IH (S mi) (S j) p ltac:(lia)) as [H1 H2]. rewrite H1, H2. lia.
      + cbn [nleft nright]. destruct (IH (S mi) pi p Hp) as [H1 H2]. rewrite H1, H2. lia.
  Qed.

  (* lines are only paired when the oracle says they are close, and a removed line is paired with
     the FIRST close added line not yet used *)
  Theorem pair_from_pairs m : forall mi pi p i j, In (EB i j) (pair_from close m mi pi p) ->
    close i j = true /\ mi <= i /\ pi <= j.
  Proof.
    induction m as [|m IH]; intros mi pi p i j Hin; cbn [pair_from] in Hin.
    - unfold unpaired_plus in Hin. apply in_map_iff in Hin. destruct Hin as [x [Hx _]]. discriminate.
    - destruct (find_partner close mi pi (p - pi)) as [j0|] eqn:E.
      + destruct (find_partner_spec mi (p - pi) pi j0 E) as (Hj & Hc & _).
        apply in_app_or in Hin. destruct Hin as [Hin|[Hin|Hin]].
        * unfold unpaired_plus in Hin. apply in_map_iff in Hin. destruct Hin as [x [Hx _]]. discriminate.
        * inversion Hin; subst. repeat split; [exact Hc | lia | lia].
        * destruct (IH (S mi) (S j0) p i j Hin) as (H1 & H2 & H3). repeat split; [exact H1 | lia | lia].
      + destruct Hin as [Hin|Hin]; [discriminate|].
        destruct (IH (S mi) pi p i j Hin) as (H1 & H2 & H3). repeat split; [exact H1 | lia | exact H3].
  Qed.
End Facts.

(* the alignment infer_edits builds satisfies what wrap_minusplus_block asserts *)
Corollary line_alignment_ordered close m p : ordered (line_alignment close m p) 0 0 = true.
Proof. apply pair_from_ordered. lia. Qed.

Corollary line_alignment_counts close m p :
  nleft (line_alignment close m p) = m /\ nright (line_alignment close m p) = p.
Proof. unfold line_alignment. destruct (pair_from_counts close m 0 0 p ltac:(lia)) as [H1 H2]. rewrite Nat.sub_0_r in H2. split; assumption. Qed.
