(* Which bytes of a line are text: the escape-sequence parser (anstyle-parse, table in
   GenVte.v regenerated from the linked crate) as driven by AnsiElementIterator
   (src/ansi/iterator.rs), reduced to what ansi::strip_ansi_codes keeps — C08, C03, C19.
   Bytes are numbers 0..255; the input is assumed to be valid UTF-8 (it is a Rust str). *)
From Coq Require Import List Bool NArith Arith.
Import ListNotations.
From DV Require Import GenVte.
Local Open Scope N_scope.

Definition S_GROUND : N := 12.
Definition S_UTF8 : N := 15.
Definition A_EXECUTE : N := 5.
Definition A_PRINT : N := 12.
Definition A_BEGIN_UTF8 : N := 15.

Definition lookup (st b : N) : N * N :=
  nth (N.to_nat b) (nth (N.to_nat st) vte_table []) (0, 0).

Record vst := mkV { vstate : N; pendb : list N; need : nat }.
Definition vinit : vst := mkV S_GROUND [] 0.

Definition utf8_len (b : N) : nat := if b <? 224 then 2 else if b <? 240 then 3 else 4.

(* one byte: new state and the text bytes reported for it *)
Definition feed (s : vst) (b : N) : vst * list N :=
  if vstate s =? S_UTF8 then
    match need s with
    | S (S n) => (mkV S_UTF8 (pendb s ++ [b]) (S n), [])
    | _ => (mkV S_GROUND [] 0, pendb s ++ [b])          (* the character is complete *)
    end
  else
    let (ns, a) := lookup (vstate s) b in
    let st' := if ns =? 0 then vstate s else ns in
    if a =? A_PRINT then (mkV st' [] 0, [b])
    else if a =? A_EXECUTE then (mkV st' [] 0, if b <? 128 then [b] else [])
    else if a =? A_BEGIN_UTF8 then (mkV S_UTF8 [b] (utf8_len b - 1), [])
    else (mkV st' [] 0, []).

Fixpoint run (s : vst) (l : list N) : vst * list N :=
  match l with
  | [] => (s, [])
  | b :: r => let (s1, t1) := feed s b in let (s2, t2) := run s1 r in (s2, t1 ++ t2)
  end.

(* ansi::strip_ansi_codes *)
Definition strip (l : list N) : list N := snd (run vinit l).
