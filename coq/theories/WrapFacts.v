(* Facts about wrap_line: nothing visible is lost, completed rows fit the width. *)
From Coq Require Import List Bool NArith Arith Lia.
Import ListNotations.
From DV Require Import WrapLine.

Definition seg_text (s : seg) : list gr := match s with SText _ t => t | _ => [] end.
Definition row_text (r : row) : list gr := concat (map seg_text r).
Definition rows_text (rs : list row) : list gr := concat (map row_text rs).
Definition stack_text (st : list sec) : list gr := concat (map snd st).

Definition seg_width (s : seg) : nat :=
  match s with SText _ t => gwidth t | SSymLeft | SSymRight | SSymPrefix => 1 | SPad n => n end.
Definition row_width (r : row) : nat := fold_right (fun s acc => seg_width s + acc) 0 r.

Lemma gwidth_app a b : gwidth (a ++ b) = gwidth a + gwidth b.
Proof. unfold gwidth. induction a as [|g a IH]; simpl; [reflexivity | rewrite IH; lia]. Qed.

Lemma row_text_app a b : row_text (a ++ b) = row_text a ++ row_text b.
Proof. unfold row_text. rewrite map_app, concat_app. reflexivity. Qed.
Lemma rows_text_app a b : rows_text (a ++ b) = rows_text a ++ rows_text b.
Proof. unfold rows_text. rewrite map_app, concat_app. reflexivity. Qed.
Lemma row_width_app a b : row_width (a ++ b) = row_width a + row_width b.
Proof. unfold row_width. induction a as [|s a IH]; simpl; [reflexivity | rewrite IH; lia]. Qed.

Lemma split_fit_spec w t : let (a, b) := split_fit w t in a ++ b = t /\ gwidth a <= w.
Proof.
  revert w. induction t as [|g r IH]; intros w; cbn; [split; [reflexivity | lia]|].
  destruct (Nat.leb (snd g) w) eqn:E; [|split; [reflexivity | unfold gwidth; simpl; lia]].
  apply Nat.leb_le in E. specialize (IH (w - snd g)). destruct (split_fit (w - snd g) r) as [a b].
  destruct IH as [H1 H2]. split; [cbn; rewrite H1; reflexivity | unfold gwidth in *; simpl; lia].
Qed.

(* ---- the loop invariant *)
Definition all_text (s : wst) : list gr := rows_text (result s) ++ row_text (cur s) ++ stack_text (stack s).

Lemma wstep_text c s : match wstep c s with
                       | inl s' => all_text s' = all_text s
                       | inr (_, s') => all_text s' = all_text s
                       end.
Proof.
  unfold wstep. destruct (stack s) as [|[style text] rest] eqn:Es; [reflexivity|].
  destruct (limit_reached c s); [reflexivity|].
  cbv zeta.
  assert (Hpush : all_text (mkWst rest (cur s ++ [SText style text]) (cur_len s + gwidth text) (result s)) = all_text s).
  { unfold all_text. cbn [result cur stack]. rewrite Es, row_text_app. unfold stack_text. cbn.
    rewrite app_nil_r, <- !app_assoc. reflexivity. }
  set (split_case :=
    if Nat.eqb (gwidth text - (cur_len s + gwidth text - line_width c) - SYM_W) 0
    then _ else _).
  assert (Hsplit : match split_case with inl s' => all_text s' = all_text s | inr (_, s') => all_text s' = all_text s end).
  { subst split_case. destruct (Nat.eqb _ 0).
    - unfold all_text. cbn [result cur stack]. rewrite Es, rows_text_app. unfold rows_text at 2. cbn.
      rewrite row_text_app. cbn. rewrite !app_nil_r, <- !app_assoc. reflexivity.
    - pose proof (split_fit_spec (gwidth text - (cur_len s + gwidth text - line_width c) - SYM_W) text) as Hsf.
      destruct (split_fit _ text) as [this next]. destruct Hsf as [Hsf _].
      assert (Hgen : all_text (mkWst ((style, next) :: rest) [] 0 (result s ++ [cur s ++ [SText style this; SSymLeft]])) = all_text s).
      { unfold all_text. cbn [result cur stack]. rewrite Es, rows_text_app. unfold rows_text at 2. cbn.
        rewrite row_text_app. unfold row_text at 2. cbn. unfold stack_text. cbn.
        rewrite !app_nil_r, <- !app_assoc, <- Hsf. rewrite <- !app_assoc. reflexivity. }
      destruct this as [|g this'].
      + destruct (cur s) eqn:Ec.
        * destruct (Nat.eqb (max_lines c) 0).
          -- unfold all_text. cbn [result cur stack]. rewrite Es, ?Ec. reflexivity.
          -- exact Hgen.
        * exact Hgen.
      + exact Hgen. }
  destruct (Nat.ltb (cur_len s + gwidth text) (line_width c)); [exact Hpush|].
  destruct (Nat.eqb (cur_len s + gwidth text) (line_width c)); [|exact Hsplit].
  destruct rest as [|nl [|x rest']]; [exact Hpush | | exact Hsplit].
  destruct (is_nl_sec nl); [|exact Hsplit].
  unfold all_text. cbn [result cur stack]. rewrite Es, row_text_app. unfold stack_text. cbn.
  rewrite ?app_nil_r, <- ?app_assoc. reflexivity.
Qed.

Lemma wloop_text fuel c : forall s st s', wloop fuel c s = Some (st, s') -> all_text s' = all_text s.
Proof.
  induction fuel as [|f IH]; intros s st s' H; [discriminate|]. cbn in H.
  pose proof (wstep_text c s) as Hs. destruct (wstep c s) as [s1|[st1 s1]].
  - rewrite (IH _ _ _ H). exact Hs.
  - inversion H; subst. exact Hs.
Qed.

Arguments gwidth : simpl never.
Lemma gwidth_nil : gwidth [] = 0. Proof. reflexivity. Qed.

(* ---- visible text *)
Definition vis (t : list gr) : list gr := filter (fun g => Nat.ltb 0 (snd g)) t.
Lemma vis_app a b : vis (a ++ b) = vis a ++ vis b.
Proof. apply filter_app. Qed.
Lemma vis_zero t : gwidth t = 0 -> vis t = [].
Proof.
  unfold gwidth, vis. induction t as [|g t IH]; simpl; intros H; [reflexivity|].
  destruct (Nat.ltb_spec 0 (snd g)); [lia | apply IH; lia].
Qed.

Definition ends_left (r : row) : Prop := exists r', r = r' ++ [SSymLeft].

Definition Inv (c : wcfg) (s : wst) : Prop :=
  cur_len s = gwidth (row_text (cur s)) /\
  row_width (cur s) = cur_len s /\
  cur_len s <= line_width c /\
  (stack s <> [] -> cur_len s < line_width c) /\
  Forall (fun r => row_width r <= line_width c /\ ends_left r) (result s).

Lemma Inv_init c line : 2 <= line_width c -> Inv c (mkWst line [] 0 []).
Proof. intros H. unfold Inv; cbn. repeat split; try (intros; lia). constructor. Qed.

Lemma narrow_no_step c s : line_width c <= 1 -> exists r, wstep c s = inr r.
Proof.
  intros H. unfold wstep. destruct (stack s) as [|[st t] rest]; [eexists; reflexivity|].
  unfold limit_reached, max_lines. replace (Nat.leb (line_width c) SYM_W) with true
    by (symmetry; apply Nat.leb_le; unfold SYM_W; lia).
  replace (Nat.ltb 0 1 && Nat.leb 1 (length (result s) + 1)) with true
    by (symmetry; apply andb_true_iff; split; [reflexivity | apply Nat.leb_le; lia]).
  eexists; reflexivity.
Qed.

Lemma Forall_snoc {A} (P : A -> Prop) l x : Forall P l -> P x -> Forall P (l ++ [x]).
Proof. intros H1 H2. apply Forall_app. split; [exact H1 | constructor; [exact H2 | constructor]]. Qed.

Lemma wstep_inv c s : 2 <= line_width c -> Inv c s ->
  match wstep c s with inl s' => Inv c s' | inr (_, s') => Inv c s' end.
Proof.
  intros Hw (Hlen & Hrw & Hle & Hlt & Hres).
  unfold wstep. destruct (stack s) as [|[style text] rest] eqn:Es.
  { unfold Inv. rewrite Es. repeat split; try assumption; try (intros E; contradiction). }
  assert (Hcl : cur_len s < line_width c) by (apply Hlt; discriminate).
  destruct (limit_reached c s).
  { unfold Inv. rewrite Es. repeat split; assumption. }
  cbv zeta.
  assert (Hpush_lt : cur_len s + gwidth text < line_width c ->
     Inv c (mkWst rest (cur s ++ [SText style text]) (cur_len s + gwidth text) (result s))).
  { intros Hn. unfold Inv; cbn [cur cur_len stack result].
    rewrite row_text_app, row_width_app, gwidth_app. unfold row_text at 2. cbn.
    rewrite app_nil_r. repeat split; try (intros; lia); try assumption. }
  set (split_case :=
    if Nat.eqb (gwidth text - (cur_len s + gwidth text - line_width c) - SYM_W) 0
    then _ else _).
  assert (Hsplit : line_width c <= cur_len s + gwidth text ->
          match split_case with inl s' => Inv c s' | inr (_, s') => Inv c s' end).
  { intros Hge. subst split_case. unfold SYM_W.
    destruct (Nat.eqb_spec (gwidth text - (cur_len s + gwidth text - line_width c) - 1) 0) as [E0|E0].
    - unfold Inv; cbn [cur cur_len stack result]. cbn. repeat split; try (intros; lia).
      apply Forall_snoc; [exact Hres|]. split; [|eexists; reflexivity].
      rewrite row_width_app. cbn. lia.
    - pose proof (split_fit_spec (gwidth text - (cur_len s + gwidth text - line_width c) - 1) text) as Hsf.
      destruct (split_fit _ text) as [this next]. destruct Hsf as [_ Hfit].
      assert (Hgen : Inv c (mkWst ((style, next) :: rest) [] 0 (result s ++ [cur s ++ [SText style this; SSymLeft]]))).
      { unfold Inv; cbn [cur cur_len stack result]. cbn. repeat split; try (intros; lia).
        apply Forall_snoc; [exact Hres|]. split.
        - rewrite row_width_app. cbn. lia.
        - exists (cur s ++ [SText style this]). rewrite <- app_assoc. reflexivity. }
      destruct this as [|g this'].
      + destruct (cur s) eqn:Ec.
        * destruct (Nat.eqb (max_lines c) 0).
          -- unfold Inv; cbn [cur cur_len stack result]. cbn. repeat split; try (intros; lia). exact Hres.
          -- exact Hgen.
        * exact Hgen.
      + exact Hgen. }
  destruct (Nat.ltb_spec (cur_len s + gwidth text) (line_width c)) as [Hn|Hn]; [exact (Hpush_lt Hn)|].
  destruct (Nat.eqb_spec (cur_len s + gwidth text) (line_width c)) as [He|He]; [|exact (Hsplit Hn)].
  destruct rest as [|nl [|x rest']]; [ | | exact (Hsplit Hn)].
  - unfold Inv; cbn [cur cur_len stack result].
    rewrite row_text_app, row_width_app, gwidth_app. unfold row_text at 2. cbn.
    rewrite app_nil_r. repeat split; try (intros; lia); try assumption; try (intros E; contradiction).
  - destruct (is_nl_sec nl) eqn:Enl; [|exact (Hsplit Hn)].
    unfold Inv; cbn [cur cur_len stack result].
    rewrite row_text_app, row_width_app, gwidth_app. unfold row_text at 2. cbn.
    rewrite app_nil_r, gwidth_app.
    assert (Hz : gwidth (snd nl) = 0).
    { unfold is_nl_sec in Enl. destruct (snd nl) as [|[i w] [|? ?]]; try discriminate.
      apply andb_true_iff in Enl. destruct Enl as [_ Enl]. apply Nat.eqb_eq in Enl. cbn in Enl. subst w. reflexivity. }
    repeat split; try (intros; lia); try assumption; try (intros E; contradiction).
Qed.

Lemma wloop_inv fuel c : 2 <= line_width c -> forall s st s', Inv c s -> wloop fuel c s = Some (st, s') -> Inv c s'.
Proof.
  intros Hw. induction fuel as [|f IH]; intros s st s' Hi H; [discriminate|]. cbn in H.
  pose proof (wstep_inv c s Hw Hi) as Hs. destruct (wstep c s) as [s1|[st1 s1]].
  - exact (IH _ _ _ Hs H).
  - inversion H; subst. exact Hs.
Qed.

(* a LineLimit stop leaves work on the stack *)
Lemma wstep_limit_stack c s s' : wstep c s = inr (LineLimit, s') -> stack s' <> [].
Proof.
  unfold wstep. destruct (stack s) as [|[style text] rest] eqn:Es; [discriminate|].
  destruct (limit_reached c s). { intros H; inversion H; subst. rewrite Es. discriminate. }
  cbv zeta.
  set (split_case :=
    if Nat.eqb (gwidth text - (cur_len s + gwidth text - line_width c) - SYM_W) 0
    then _ else _).
  assert (Hsplit : split_case = inr (LineLimit, s') -> stack s' <> []).
  { subst split_case. destruct (Nat.eqb _ 0); [discriminate|].
    destruct (split_fit _ text) as [this next].
    destruct this; [|discriminate]. destruct (cur s); [|discriminate].
    destruct (Nat.eqb (max_lines c) 0); [|discriminate].
    intros H; inversion H; subst. cbn. discriminate. }
  destruct (Nat.ltb _ (line_width c)); [discriminate|].
  destruct (Nat.eqb _ (line_width c)); [|exact Hsplit].
  destruct rest as [|nl [|x rest']]; [discriminate | | exact Hsplit].
  destruct (is_nl_sec nl); [discriminate | exact Hsplit].
Qed.

Lemma wstep_empty_stack c s s' : wstep c s = inr (StackEmpty, s') -> stack s' = [].
Proof.
  unfold wstep. destruct (stack s) as [|[style text] rest] eqn:Es.
  { intros H; inversion H; subst. exact Es. }
  destruct (limit_reached c s); [discriminate|].
  cbv zeta.
  set (split_case :=
    if Nat.eqb (gwidth text - (cur_len s + gwidth text - line_width c) - SYM_W) 0
    then _ else _).
  assert (Hsplit : split_case = inr (StackEmpty, s') -> stack s' = []).
  { subst split_case. destruct (Nat.eqb _ 0); [discriminate|].
    destruct (split_fit _ text) as [this next].
    destruct this; [|discriminate]. destruct (cur s); [|discriminate].
    destruct (Nat.eqb (max_lines c) 0); discriminate. }
  destruct (Nat.ltb _ (line_width c)); [discriminate|].
  destruct (Nat.eqb _ (line_width c)); [|exact Hsplit].
  destruct rest as [|nl [|x rest']]; [discriminate | | exact Hsplit].
  destruct (is_nl_sec nl); [discriminate | exact Hsplit].
Qed.

Lemma wloop_stop_stack fuel c : forall s st s', wloop fuel c s = Some (st, s') ->
  match st with StackEmpty => stack s' = [] | LineLimit => stack s' <> [] end.
Proof.
  induction fuel as [|f IH]; intros s st s' H; [discriminate|]. cbn in H.
  destruct (wstep c s) as [s1|[st1 s1]] eqn:E; [exact (IH _ _ _ H)|].
  inversion H; subst. destruct st; [exact (wstep_empty_stack _ _ _ E) | exact (wstep_limit_stack _ _ _ E)].
Qed.

(* ---- finishing *)
Lemma replace_last_sym_left r' : replace_last_sym (r' ++ [SSymLeft]) = r' ++ [SSymRight].
Proof. unfold replace_last_sym. rewrite rev_app_distr. cbn. rewrite rev_involutive. reflexivity. Qed.

Lemma row_text_sym r' x : seg_text x = [] -> row_text (r' ++ [x]) = row_text r'.
Proof. intros H. rewrite row_text_app. unfold row_text at 2. cbn. rewrite H. cbn. apply app_nil_r. Qed.

Lemma rows_text_last_app (rs : list row) (extra : row) : rs <> [] ->
  rows_text (removelast rs ++ [last rs [] ++ extra]) = rows_text rs ++ row_text extra.
Proof.
  intros Hne. rewrite (app_removelast_last [] Hne) at 3.
  rewrite !rows_text_app. unfold rows_text at 2 4. cbn. rewrite !app_nil_r, row_text_app, app_assoc. reflexivity.
Qed.

Lemma row_text_stack st : row_text (map (fun x : sec => SText (fst x) (snd x)) st) = stack_text st.
Proof. unfold row_text, stack_text. rewrite map_map. reflexivity. Qed.

Theorem finish_visible_text c st s : Inv c s ->
  vis (rows_text (finish_wrap c st s)) = vis (all_text s).
Proof.
  intros (Hlen & Hrw & Hle & Hlt & Hres). unfold finish_wrap, all_text.
  set (p := match result s with [first] => _ | _ => (result s, cur s) end).
  assert (Hp : rows_text (fst p) = rows_text (result s) /\ row_text (snd p) = row_text (cur s)).
  { subst p. destruct (result s) as [|first [|? ?]] eqn:Er; try (split; reflexivity).
    destruct (Nat.ltb 0 (cur_len s)); [|split; reflexivity].
    destruct (_ && _); [|split; reflexivity]. cbn [fst snd]. split.
    - inversion Hres as [|? ? [_ [r' Hr']] _]; subst. rewrite replace_last_sym_left.
      unfold rows_text. cbn. rewrite !app_nil_r, !row_text_sym by reflexivity. reflexivity.
    - reflexivity. }
  destruct p as [res1 cur1]. cbn [fst snd] in Hp. destruct Hp as [Hp1 Hp2].
  set (res2 := if Nat.ltb 0 (cur_len s) then res1 ++ [cur1] else res1).
  assert (H2 : vis (rows_text res2) = vis (rows_text (result s) ++ row_text (cur s))).
  { subst res2. destruct (Nat.ltb_spec 0 (cur_len s)) as [Hpos|Hz].
    - rewrite rows_text_app. unfold rows_text at 2. cbn. rewrite app_nil_r, Hp1, Hp2. reflexivity.
    - rewrite vis_app, (vis_zero (row_text (cur s))) by lia. rewrite app_nil_r, Hp1. reflexivity. }
  set (res3 := match st with LineLimit => _ | StackEmpty => res2 end).
  assert (H3 : rows_text res3 = rows_text res2).
  { subst res3. destruct st; [reflexivity|]. destruct (Nat.eqb _ _); [reflexivity|].
    rewrite rows_text_app. unfold rows_text at 2. cbn. apply app_nil_r. }
  destruct (stack s) as [|x xs] eqn:Es.
  - unfold stack_text. cbn. rewrite app_nil_r, H3. exact H2.
  - set (res4 := match res3 with [] => [[]] | _ => res3 end).
    assert (H4 : rows_text res4 = rows_text res3 /\ res4 <> []).
    { subst res4. destruct res3; [split; [reflexivity | discriminate] | split; [reflexivity | discriminate]]. }
    destruct H4 as [H4 Hne]. rewrite rows_text_last_app by exact Hne.
    rewrite row_text_stack, H4, H3, vis_app, H2, <- vis_app, <- app_assoc. reflexivity.
Qed.

Theorem wrap_line_visible_text fuel c line rows : 2 <= line_width c ->
  wrap_line fuel c line = Some rows -> vis (rows_text rows) = vis (stack_text line).
Proof.
  intros Hw. unfold wrap_line. destruct (wloop fuel c _) as [[st s]|] eqn:E; [|discriminate].
  intros H; inversion H; subst.
  rewrite finish_visible_text by (eapply wloop_inv; [exact Hw | apply Inv_init; exact Hw | exact E]).
  rewrite (wloop_text _ _ _ _ _ E). reflexivity.
Qed.

(* when the line is narrow enough that only the symbol fits, nothing is wrapped at all *)
Theorem wrap_line_narrow fuel c line rows : line_width c <= 1 -> line <> [] ->
  wrap_line (S fuel) c line = Some rows -> rows_text rows = stack_text line.
Proof.
  intros Hw Hne. unfold wrap_line. cbn [wloop].
  destruct (narrow_no_step c (mkWst line [] 0 []) Hw) as [[st s] Hr]. rewrite Hr.
  intros H; inversion H; subst.
  revert Hr. unfold wstep. cbn [stack]. destruct line as [|[style text] rest]; [contradiction|].
  unfold limit_reached, max_lines. replace (Nat.leb (line_width c) SYM_W) with true
    by (symmetry; apply Nat.leb_le; unfold SYM_W; lia).
  cbn [result length]. cbn. intros Hr; inversion Hr; subst.
  unfold finish_wrap. cbn. unfold max_lines.
  replace (Nat.leb (line_width c) SYM_W) with true by (symmetry; apply Nat.leb_le; unfold SYM_W; lia).
  cbn. unfold rows_text. cbn. rewrite app_nil_r.
  rewrite map_map. reflexivity.
Qed.

(* ---- widths *)
Definition fits (c : wcfg) (r : row) : Prop := row_width r <= line_width c.

Lemma replace_last_sym_width r' : row_width (replace_last_sym (r' ++ [SSymLeft])) = row_width (r' ++ [SSymLeft]).
Proof. rewrite replace_last_sym_left, !row_width_app. reflexivity. Qed.

Lemma removelast_snoc {A} (l : list A) x : removelast (l ++ [x]) = l.
Proof. apply removelast_last. Qed.

Theorem finish_rows_fit c st s : Inv c s ->
  match st with StackEmpty => stack s = [] | LineLimit => stack s <> [] end ->
  Forall (fits c) (match st with StackEmpty => finish_wrap c st s | LineLimit => removelast (finish_wrap c st s) end).
Proof.
  intros (Hlen & Hrw & Hle & Hlt & Hres) Hst. unfold finish_wrap.
  set (p := match result s with [first] => _ | _ => (result s, cur s) end).
  assert (Hp : Forall (fits c) (fst p) /\ (0 < cur_len s -> fits c (snd p))).
  { assert (Hdef : Forall (fits c) (result s) /\ (0 < cur_len s -> fits c (cur s))).
    { split; [|intros _; unfold fits; lia]. eapply Forall_impl; [|exact Hres]. intros r [Hr _]. exact Hr. }
    subst p. destruct (result s) as [|first [|? ?]] eqn:Er; try exact Hdef.
    destruct (Nat.ltb 0 (cur_len s)); [|exact Hdef].
    destruct (Nat.ltb _ _ && Nat.ltb 0 (line_width c - (cur_len s + 1))) eqn:Eb; [|exact Hdef].
    cbn [fst snd]. apply andb_true_iff in Eb. destruct Eb as [_ Eb]. apply Nat.ltb_lt in Eb. split.
    - inversion Hres as [|? ? [Hf [r' Hr']] _]; subst. constructor; [|constructor].
      unfold fits. rewrite replace_last_sym_width. exact Hf.
    - intros _. unfold fits. cbn. fold (row_width (cur s)). lia. }
  destruct p as [res1 cur1]. cbn [fst snd] in Hp. destruct Hp as [Hp1 Hp2].
  set (res2 := if Nat.ltb 0 (cur_len s) then res1 ++ [cur1] else res1).
  assert (H2 : Forall (fits c) res2).
  { subst res2. destruct (Nat.ltb_spec 0 (cur_len s)) as [Hpos|Hz]; [|exact Hp1].
    apply Forall_snoc; [exact Hp1 | exact (Hp2 Hpos)]. }
  set (res3 := match st with LineLimit => _ | StackEmpty => res2 end).
  assert (H3 : Forall (fits c) res3).
  { subst res3. destruct st; [exact H2|]. destruct (Nat.eqb _ _); [exact H2|].
    apply Forall_snoc; [exact H2 | unfold fits; cbn; lia]. }
  destruct st.
  - rewrite Hst. exact H3.
  - destruct (stack s) as [|x xs]; [contradiction|].
    rewrite removelast_snoc.
    destruct res3 as [|r rs]; [constructor|].
    set (l := r :: rs) in *. clearbody l. clear -H3.
    induction l as [|a l IH]; [constructor|]. cbn. destruct l; [constructor|].
    inversion H3; subst. constructor; [assumption | apply IH; assumption].
Qed.

(* ---- termination: fuel from a measure *)
Definition glen (st : list sec) : nat := fold_right (fun x acc => length (snd x) + acc) 0 st.
Definition curbit (r : row) : nat := match r with [] => 0 | _ => 1 end.
Definition mu (c : wcfg) (s : wst) : nat :=
  2 * glen (stack s) + 2 * length (stack s) + curbit (cur s) + (max_lines c - length (result s)).

Definition wrap_fuel (c : wcfg) (line : list sec) : nat := S (mu c (mkWst line [] 0 [])).

Lemma glen_cons st t r : glen ((st, t) :: r) = length t + glen r.
Proof. reflexivity. Qed.
Arguments glen : simpl never.

Lemma split_fit_len w t : let (a, b) := split_fit w t in length a + length b = length t.
Proof.
  pose proof (split_fit_spec w t) as H. destruct (split_fit w t) as [a b]. destruct H as [H _].
  rewrite <- H, app_length. reflexivity.
Qed.

Lemma curbit_snoc r x : curbit (r ++ [x]) = 1.
Proof. destruct r; reflexivity. Qed.

Lemma curbit_le r : curbit r <= 1.
Proof. destruct r; cbn; lia. Qed.

Lemma wstep_decreases c s s' : 2 <= line_width c -> Inv c s -> wstep c s = inl s' -> mu c s' < mu c s.
Proof.
  intros Hw (Hlen & Hrw & Hle & Hlt & Hres).
  unfold wstep. destruct (stack s) as [|[style text] rest] eqn:Es; [discriminate|].
  assert (Hcl : cur_len s < line_width c) by (apply Hlt; discriminate).
  destruct (limit_reached c s) eqn:Elim; [discriminate|].
  cbv zeta.
  assert (Hpush : forall cl, mu c (mkWst rest (cur s ++ [SText style text]) cl (result s)) < mu c s).
  { intros cl. unfold mu; cbn [cur stack result]. rewrite Es, curbit_snoc, glen_cons. cbn [length]. pose proof (curbit_le (cur s)). lia. }
  set (split_case :=
    if Nat.eqb (gwidth text - (cur_len s + gwidth text - line_width c) - SYM_W) 0
    then _ else _).
  assert (Hsplit : line_width c <= cur_len s + gwidth text -> split_case = inl s' -> mu c s' < mu c s).
  { intros Hge. subst split_case. unfold SYM_W.
    destruct (Nat.eqb_spec (gwidth text - (cur_len s + gwidth text - line_width c) - 1) 0) as [E0|E0].
    - intros H; inversion H; subst. unfold mu; cbn [cur stack result]. rewrite Es, app_length. cbn [length curbit].
      assert (cur s <> []) as Hc. { intros E. rewrite E in Hrw. cbn in Hrw. lia. }
      destruct (cur s); [contradiction|]. cbn [curbit]. rewrite !glen_cons. lia.
    - pose proof (split_fit_len (gwidth text - (cur_len s + gwidth text - line_width c) - 1) text) as Hsl.
      destruct (split_fit _ text) as [this next].
      assert (Hgen : forall row, this <> [] \/ cur s <> [] \/ max_lines c <> 0 ->
          mu c (mkWst ((style, next) :: rest) [] 0 (result s ++ [row])) < mu c s).
      { intros row Hcase. unfold mu; cbn [cur stack result]. rewrite Es, app_length, !glen_cons. cbn [length curbit].
        unfold limit_reached in Elim.
        destruct Hcase as [Ht|[Hc|Hm]].
        - destruct this; [contradiction|]. cbn [length] in Hsl. pose proof (curbit_le (cur s)). lia.
        - destruct (cur s); [contradiction|]. cbn [curbit]. lia.
        - apply andb_false_iff in Elim. destruct Elim as [El|El].
          + apply Nat.ltb_ge in El. lia.
          + apply Nat.leb_gt in El. pose proof (curbit_le (cur s)). lia. }
      destruct this as [|g this'].
      + destruct (cur s) eqn:Ec.
        * destruct (Nat.eqb_spec (max_lines c) 0) as [Em|Em]; [discriminate|].
          intros H; inversion H; subst. apply Hgen. right; right; exact Em.
        * intros H; inversion H; subst. apply Hgen. right; left; discriminate.
      + intros H; inversion H; subst. apply Hgen. left; discriminate. }
  destruct (Nat.ltb_spec (cur_len s + gwidth text) (line_width c)) as [Hn|Hn].
  { intros H; inversion H; subst. apply Hpush. }
  destruct (Nat.eqb_spec (cur_len s + gwidth text) (line_width c)) as [He|He]; [|exact (Hsplit Hn)].
  destruct rest as [|nl [|x rest']]; [ | | exact (Hsplit Hn)].
  - intros H; inversion H; subst. apply Hpush.
  - destruct (is_nl_sec nl) eqn:Enl; [|exact (Hsplit Hn)].
    intros H; inversion H; subst. unfold mu; cbn [cur stack result]. rewrite Es. destruct nl as [nst nt]. rewrite !glen_cons. cbn [length].
    change (glen []) with 0.
    match goal with |- context [curbit ?r] => pose proof (curbit_le r) end. lia.
Qed.

Lemma wloop_terminates c : 2 <= line_width c -> forall fuel s, Inv c s -> mu c s < fuel -> wloop fuel c s <> None.
Proof.
  intros Hw. induction fuel as [|f IH]; intros s Hi Hm; [lia|]. cbn.
  pose proof (wstep_inv c s Hw Hi) as Hs. pose proof (wstep_decreases c s) as Hd.
  destruct (wstep c s) as [s1|r]; [|discriminate].
  apply IH; [exact Hs|]. specialize (Hd s1 Hw Hi eq_refl). lia.
Qed.

Theorem wrap_line_terminates c line : wrap_line (wrap_fuel c line) c line <> None.
Proof.
  unfold wrap_line, wrap_fuel.
  destruct (Nat.le_gt_cases 2 (line_width c)) as [Hw|Hw].
  - pose proof (wloop_terminates c Hw (S (mu c (mkWst line [] 0 []))) _ (Inv_init c line Hw) (Nat.lt_succ_diag_r _)) as H.
    destruct (wloop _ c _) as [[st s]|]; [discriminate | contradiction].
  - cbn [wloop]. destruct (narrow_no_step c (mkWst line [] 0 []) ltac:(lia)) as [[st s] Hr]. rewrite Hr. discriminate.
Qed.

(* ---- unlimited wrapping never cuts: if every cluster is narrower than the panel, the loop
   ends only when the stack is empty *)
Definition narrow (c : wcfg) (st : list sec) : Prop :=
  Forall (fun x : sec => Forall (fun g : gr => snd g < line_width c) (snd x)) st.

Lemma split_fit_head w g t : snd g <= w -> fst (split_fit w (g :: t)) <> [].
Proof.
  intros H. cbn. replace (Nat.leb (snd g) w) with true by (symmetry; apply Nat.leb_le; exact H).
  destruct (split_fit (w - snd g) t). cbn. discriminate.
Qed.

Lemma wstep_narrow c s : narrow c (stack s) ->
  match wstep c s with inl s' => narrow c (stack s') | inr (_, s') => narrow c (stack s') end.
Proof.
  intros Hn. unfold wstep. destruct (stack s) as [|[style text] rest] eqn:Es.
  { rewrite Es. exact Hn. }
  destruct (limit_reached c s). { rewrite Es. exact Hn. }
  cbv zeta. inversion Hn as [|? ? Ht Hr]; subst. cbn [snd] in Ht.
  set (split_case :=
    if Nat.eqb (gwidth text - (cur_len s + gwidth text - line_width c) - SYM_W) 0
    then _ else _).
  assert (Hsplit : match split_case with inl s' => narrow c (stack s') | inr (_, s') => narrow c (stack s') end).
  { subst split_case. destruct (Nat.eqb _ 0); [exact Hn|].
    pose proof (split_fit_spec (gwidth text - (cur_len s + gwidth text - line_width c) - SYM_W) text) as Hsf.
    destruct (split_fit _ text) as [this next]. destruct Hsf as [Hsf _].
    assert (Hnext : narrow c ((style, next) :: rest)).
    { constructor; [|exact Hr]. cbn [snd]. rewrite <- Hsf in Ht. apply Forall_app in Ht. tauto. }
    destruct this; [|exact Hnext]. destruct (cur s); [|exact Hnext].
    destruct (Nat.eqb (max_lines c) 0); [exact Hn | exact Hnext]. }
  destruct (Nat.ltb _ (line_width c)); [exact Hr|].
  destruct (Nat.eqb _ (line_width c)); [|exact Hsplit].
  destruct rest as [|nl [|x rest']]; [exact Hr | | exact Hsplit].
  destruct (is_nl_sec nl); [constructor | exact Hsplit].
Qed.

Lemma wstep_unlimited_stop c s st s' : 2 <= line_width c -> max_lines c = 0 -> Inv c s -> narrow c (stack s) ->
  wstep c s = inr (st, s') -> st = StackEmpty.
Proof.
  intros Hw Hm (Hlen & Hrw & Hle & Hlt & Hres) Hn. unfold wstep.
  destruct (stack s) as [|[style text] rest] eqn:Es. { intros H; inversion H; reflexivity. }
  unfold limit_reached. rewrite Hm. change (Nat.ltb 0 0) with false. cbn [andb]. cbv zeta.
  inversion Hn as [|? ? Ht Hr]; subst. cbn [snd] in Ht.
  set (split_case :=
    if Nat.eqb (gwidth text - (cur_len s + gwidth text - line_width c) - SYM_W) 0
    then _ else _).
  assert (Hsplit : line_width c <= cur_len s + gwidth text -> split_case = inr (st, s') -> st = StackEmpty).
  { intros Hge. subst split_case. unfold SYM_W. destruct (Nat.eqb _ 0); [discriminate|].
    destruct text as [|g t].
    { change (gwidth []) with 0 in Hge. assert (cur_len s < line_width c) by (apply Hlt; discriminate). lia. }
    destruct (cur s) eqn:Ec.
    - cbn in Hrw. rewrite <- Hrw.
      match goal with |- context [split_fit ?w (g :: t)] =>
        pose proof (split_fit_head w g t) as Hh; destruct (split_fit w (g :: t)) as [this next] eqn:Esf end.
      destruct this; [|discriminate]. exfalso. apply Hh; [|exact (f_equal fst Esf)].
      inversion Ht; subst. rewrite <- Hrw in Hge. lia.
    - destruct (split_fit _ (g :: t)) as [this next]. destruct this; discriminate. }
  destruct (Nat.ltb_spec (cur_len s + gwidth text) (line_width c)) as [Hl|Hl]; [intros H; discriminate H|].
  destruct (Nat.eqb _ (line_width c)); [|exact (Hsplit Hl)].
  destruct rest as [|nl [|x rest']]; [intros H; discriminate H | | exact (Hsplit Hl)].
  destruct (is_nl_sec nl); [intros H; discriminate H | exact (Hsplit Hl)].
Qed.

Lemma wloop_unlimited_stop fuel c : 2 <= line_width c -> max_lines c = 0 ->
  forall s st s', Inv c s -> narrow c (stack s) -> wloop fuel c s = Some (st, s') -> st = StackEmpty.
Proof.
  intros Hw Hm. induction fuel as [|f IH]; intros s st s' Hi Hn H; [discriminate|]. cbn in H.
  pose proof (wstep_inv c s Hw Hi) as Hs. pose proof (wstep_narrow c s Hn) as Hn'.
  destruct (wstep c s) as [s1|[st1 s1]] eqn:E.
  - exact (IH _ _ _ Hs Hn' H).
  - inversion H; subst. exact (wstep_unlimited_stop c s st s' Hw Hm Hi Hn E).
Qed.

Theorem wrap_line_rows_fit fuel c line rows : 2 <= line_width c ->
  wrap_line fuel c line = Some rows -> Forall (fits c) (removelast rows).
Proof.
  intros Hw. unfold wrap_line. destruct (wloop fuel c _) as [[st s]|] eqn:E; [|discriminate].
  intros H; inversion H; subst.
  assert (Hi : Inv c s) by (eapply wloop_inv; [exact Hw | apply Inv_init; exact Hw | exact E]).
  pose proof (finish_rows_fit c st s Hi (wloop_stop_stack _ _ _ _ _ E)) as Hf.
  destruct st; [|exact Hf].
  set (l := finish_wrap c StackEmpty s) in *. clearbody l. clear -Hf.
  induction l as [|a l IH]; [constructor|]. cbn. destruct l; [constructor|].
  inversion Hf; subst. constructor; [assumption | apply IH; assumption].
Qed.

Theorem wrap_line_unlimited fuel c line rows : 2 <= line_width c -> max_lines_cfg c = 0 ->
  narrow c line -> wrap_line fuel c line = Some rows ->
  Forall (fits c) rows /\ vis (rows_text rows) = vis (stack_text line).
Proof.
  intros Hw Hm Hn Hr. split; [|exact (wrap_line_visible_text fuel c line rows Hw Hr)].
  revert Hr. unfold wrap_line. destruct (wloop fuel c _) as [[st s]|] eqn:E; [|discriminate].
  intros H; inversion H; subst.
  assert (Hi : Inv c s) by (eapply wloop_inv; [exact Hw | apply Inv_init; exact Hw | exact E]).
  assert (Hml : max_lines c = 0).
  { unfold max_lines. replace (Nat.leb (line_width c) SYM_W) with false; [exact Hm|].
    symmetry. apply Nat.leb_gt. unfold SYM_W. lia. }
  assert (st = StackEmpty) as ->.
  { eapply (wloop_unlimited_stop fuel c Hw Hml); [apply Inv_init; exact Hw | exact Hn | exact E]. }
  exact (finish_rows_fit c StackEmpty s Hi (wloop_stop_stack _ _ _ _ _ E)).
Qed.
