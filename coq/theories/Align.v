(* src/align.rs: the edit-distance table (gap-open penalty, candidates in the order
   Insertion / Deletion / NoOp, first minimum wins) and the read-back of operations — C06.

   [C i j] is the table cell for the first i tokens of x and the first j tokens of y, as a
   recursive specification; [table] computes the same cells row by row (what the Rust code
   and the extracted model do); [trace] is Alignment::operations, whose loop stops at a cell
   with parent index 0: the first row, the first column, or the diagonal step from the
   origin. *)
From Coq Require Import List Arith Bool Lia.
Import ListNotations.

Inductive op := ONoOp | ODel | OIns.
Record cell := mkc { cost : nat; cop : op }.

Definition DELETION_COST := 2.
Definition INSERTION_COST := 2.
Definition INITIAL_MISMATCH_PENALTY := 1.

Definition pen (c : cell) := match cop c with ONoOp => INITIAL_MISMATCH_PENALTY | _ => 0 end.

(* candidates [Insertion(up); Deletion(left); NoOp(diag)], min_by_key = first minimum *)
Definition choose (up left diag : cell) (eq : bool) : cell :=
  let ci := cost up + INSERTION_COST + pen up in
  let cd := cost left + DELETION_COST + pen left in
  let best := if cd <? ci then mkc cd ODel else mkc ci OIns in
  if eq && (cost diag <? cost best) then mkc (cost diag) ONoOp else best.

Section Align.
Variable T : Type.
Variable eqb : T -> T -> bool.
Variable d : T.
Variables x y : list T.

Fixpoint C (i : nat) : nat -> cell :=
  match i with
  | 0 => fun j => match j with 0 => mkc 0 ONoOp | _ => mkc (j * INSERTION_COST + INITIAL_MISMATCH_PENALTY) OIns end
  | S i' => fix Cj (j : nat) : cell :=
      match j with
      | 0 => mkc (S i' * DELETION_COST + INITIAL_MISMATCH_PENALTY) ODel
      | S j' => choose (Cj j') (C i' (S j')) (C i' j') (eqb (nth i' x d) (nth j' y d))
      end
  end.

(* ---- the table, row by row *)
Definition row0 : list cell :=
  map (fun j => match j with 0 => mkc 0 ONoOp | _ => mkc (j * INSERTION_COST + INITIAL_MISMATCH_PENALTY) OIns end)
      (seq 0 (S (length y))).

(* cells 1.. of a row: [cur] is the cell just computed (same row, previous column),
   [diag :: ups] is the previous row from the previous column on *)
Fixpoint build (xi : T) (cur diag : cell) (ups : list cell) (ys : list T) : list cell :=
  match ys, ups with
  | yj :: ys', up :: ups' =>
      let c := choose cur up diag (eqb xi yj) in c :: build xi c up ups' ys'
  | _, _ => []
  end.

Definition next_row (prev : list cell) (i' : nat) (xi : T) : list cell :=
  let first := mkc (S i' * DELETION_COST + INITIAL_MISMATCH_PENALTY) ODel in
  match prev with
  | diag :: ups => first :: build xi first diag ups y
  | [] => [first]
  end.

Fixpoint rows_from (prev : list cell) (i' : nat) (xs : list T) : list (list cell) :=
  match xs with
  | [] => []
  | xi :: xs' => let r := next_row prev i' xi in r :: rows_from r (S i') xs'
  end.

Definition table : list (list cell) := row0 :: rows_from row0 0 x.

Definition cell_at (i j : nat) : cell := nth j (nth i table []) (mkc 0 ONoOp).

(* ---- Alignment::operations *)
Definition stop (i j : nat) (c : cell) : bool :=
  (i =? 0) || (j =? 0) || ((i =? 1) && (j =? 1) && match cop c with ONoOp => true | _ => false end).

Fixpoint trace_with (get : nat -> nat -> cell) (fuel i j : nat) : list op :=
  match fuel with
  | 0 => []
  | S f =>
    let c := get i j in
    if stop i j c then [cop c] else
    match cop c with
    | ONoOp => trace_with get f (i - 1) (j - 1) ++ [ONoOp]
    | ODel => trace_with get f (i - 1) j ++ [ODel]
    | OIns => trace_with get f i (j - 1) ++ [OIns]
    end
  end.

Definition trace := trace_with C.
Definition operations : list op := trace_with cell_at (length x + length y) (length x) (length y).

End Align.
