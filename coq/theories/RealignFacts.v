From Coq Require Import List Bool Arith Lia.
Import ListNotations.
From DV Require Import Realign.

Lemma lefts_app a b : lefts (a ++ b) = lefts a ++ lefts b.
Proof. apply flat_map_app. Qed.
Lemma rights_app a b : rights (a ++ b) = rights a ++ rights b.
Proof. apply flat_map_app. Qed.

Lemma lefts_RL l : lefts (map RL l) = l.
Proof. induction l; cbn; [reflexivity | f_equal; assumption]. Qed.
Lemma rights_RL l : rights (map RL l) = [].
Proof. induction l; cbn; [reflexivity | assumption]. Qed.
Lemma lefts_RR l : lefts (map RR l) = [].
Proof. induction l; cbn; [reflexivity | assumption]. Qed.
Lemma rights_RR l : rights (map RR l) = l.
Proof. induction l; cbn; [reflexivity | f_equal; assumption]. Qed.

Lemma lefts_RB ms ps n : forall s, lefts (map (fun i => RB (ms + i) (ps + i)) (seq s n)) = seq (ms + s) n.
Proof. induction n as [|n IH]; intros s; cbn; [reflexivity|]. f_equal. rewrite IH. f_equal. lia. Qed.
Lemma rights_RB ms ps n : forall s, rights (map (fun i => RB (ms + i) (ps + i)) (seq s n)) = seq (ps + s) n.
Proof. induction n as [|n IH]; intros s; cbn; [reflexivity|]. f_equal. rewrite IH. f_equal. lia. Qed.

Lemma total_cons k l : total (k :: l) = k + total l.
Proof. reflexivity. Qed.

Lemma seq_split s a b : seq s (a + b) = seq s a ++ seq (s + a) b.
Proof. apply seq_app. Qed.

(* every wrapped row of every removed line appears exactly once on the left, in order; same on
   the right; whatever the wrap counts *)
Theorem realign_sides al : forall wm wp me pe ms ps rows,
  length wm = nleft al -> length wp = nright al ->
  realign al wm wp me pe ms ps = Some rows ->
  lefts rows = seq ms (total wm) /\ rights rows = seq ps (total wp).
Proof.
  induction al as [|e r IH]; intros wm wp me pe ms ps rows Hm Hp H.
  - cbn in *. inversion H; subst. destruct wm; [|discriminate]. destruct wp; [|discriminate]. split; reflexivity.
  - destruct e as [m|p|m p]; cbn [realign nleft nright] in *.
    + destruct wm as [|k wm']; [discriminate|]. destruct (Nat.eqb m me); [|discriminate].
      destruct (realign r wm' wp (S me) pe (ms + k) ps) as [rest|] eqn:E; [|discriminate].
      cbn [option_map] in H. inversion H; subst. cbn in Hm.
      destruct (IH wm' wp (S me) pe (ms + k) ps rest ltac:(lia) Hp E) as [H1 H2].
      rewrite lefts_app, rights_app, lefts_RL, rights_RL, H1, H2. cbn [total fold_right].
      split; [rewrite seq_split; reflexivity | reflexivity].
    + destruct wp as [|k wp']; [discriminate|]. destruct (Nat.eqb p pe); [|discriminate].
      destruct (realign r wm wp' me (S pe) ms (ps + k)) as [rest|] eqn:E; [|discriminate].
      cbn [option_map] in H. inversion H; subst. cbn in Hp.
      destruct (IH wm wp' me (S pe) ms (ps + k) rest Hm ltac:(lia) E) as [H1 H2].
      rewrite lefts_app, rights_app, lefts_RR, rights_RR, H1, H2. cbn [total fold_right].
      split; [reflexivity | rewrite seq_split; reflexivity].
    + destruct wm as [|km wm']; [discriminate|]. destruct wp as [|kp wp']; [discriminate|].
      destruct (Nat.eqb m me && Nat.eqb p pe); [|discriminate].
      destruct (realign r wm' wp' (S me) (S pe) (ms + km) (ps + kp)) as [rest|] eqn:E; [|discriminate].
      cbn [option_map] in H. inversion H; subst. cbn in Hm, Hp.
      destruct (IH wm' wp' (S me) (S pe) (ms + km) (ps + kp) rest ltac:(lia) ltac:(lia) E) as [H1 H2].
      rewrite !lefts_app, !rights_app, lefts_RB, rights_RB, H1, H2. cbn [total fold_right].
      rewrite !Nat.add_0_r.
      destruct (Nat.ltb_spec kp km) as [Hlt|Hge].
      * rewrite lefts_RL, rights_RL. replace (Nat.min km kp) with kp by lia. split.
        -- rewrite app_nil_r || idtac. replace km with (kp + (km - kp)) at 3 by lia.
           rewrite !seq_split. rewrite <- !app_assoc. f_equal. f_equal. f_equal. lia.
        -- rewrite app_nil_r. rewrite seq_split. reflexivity.
      * rewrite lefts_RR, rights_RR. replace (Nat.min km kp) with km by lia. split.
        -- rewrite app_nil_r. rewrite seq_split. reflexivity.
        -- replace kp with (km + (kp - km)) at 3 by lia.
           rewrite !seq_split. rewrite <- !app_assoc. f_equal. f_equal. f_equal. lia.
Qed.

(* the asserts of wrap_minusplus_block hold (no panic) for the alignments the painter builds *)
Theorem realign_total al : forall wm wp me pe ms ps,
  ordered al me pe = true -> length wm = nleft al -> length wp = nright al ->
  realign al wm wp me pe ms ps <> None.
Proof.
  induction al as [|e r IH]; intros wm wp me pe ms ps Ho Hm Hp; [discriminate|].
  destruct e as [m|p|m p]; cbn [realign ordered nleft nright] in *.
  - apply andb_true_iff in Ho. destruct Ho as [H1 H2]. destruct wm as [|k wm']; [discriminate|]. rewrite H1.
    specialize (IH wm' wp (S me) pe (ms + k) ps H2 ltac:(cbn in Hm; lia) Hp).
    destruct (realign r wm' wp (S me) pe (ms + k) ps); [discriminate | contradiction].
  - apply andb_true_iff in Ho. destruct Ho as [H1 H2]. destruct wp as [|k wp']; [discriminate|]. rewrite H1.
    specialize (IH wm wp' me (S pe) ms (ps + k) H2 Hm ltac:(cbn in Hp; lia)).
    destruct (realign r wm wp' me (S pe) ms (ps + k)); [discriminate | contradiction].
  - apply andb_true_iff in Ho. destruct Ho as [H1 H2]. destruct wm as [|km wm']; [discriminate|].
    destruct wp as [|kp wp']; [discriminate|]. rewrite H1.
    specialize (IH wm' wp' (S me) (S pe) (ms + km) (ps + kp) H2 ltac:(cbn in Hm; lia) ltac:(cbn in Hp; lia)).
    destruct (realign r wm' wp' (S me) (S pe) (ms + km) (ps + kp)); [discriminate | contradiction].
Qed.

(* paired lines share a row: the first wrapped rows of a removed line and of the added line it
   is aligned with are on the same output row *)
Theorem realign_pairs_share_row al1 m p al2 : forall wm wp me pe ms ps rows,
  realign (al1 ++ EB m p :: al2) wm wp me pe ms ps = Some rows ->
  length wm = nleft (al1 ++ EB m p :: al2) -> length wp = nright (al1 ++ EB m p :: al2) ->
  Forall (fun k => 1 <= k) wm -> Forall (fun k => 1 <= k) wp ->
  In (RB (ms + total (firstn (nleft al1) wm)) (ps + total (firstn (nright al1) wp))) rows.
Proof.
  induction al1 as [|e r IH]; intros wm wp me pe ms ps rows H Hm Hp Fm Fp.
  - cbn [app realign nleft nright firstn total fold_right] in *.
    destruct wm as [|km wm']; [discriminate|]. destruct wp as [|kp wp']; [discriminate|].
    destruct (Nat.eqb m me && Nat.eqb p pe); [|discriminate].
    destruct (realign al2 wm' wp' (S me) (S pe) (ms + km) (ps + kp)) as [rest|]; [|discriminate].
    cbn [option_map] in H. inversion H; subst. inversion Fm; subst. inversion Fp; subst.
    rewrite !Nat.add_0_r. apply in_or_app. left. apply in_or_app. left.
    destruct (Nat.min km kp) as [|n] eqn:En; [lia|]. cbn. left. rewrite !Nat.add_0_r. reflexivity.
  - destruct e as [m'|p'|m' p']; cbn [app realign nleft nright] in *.
    + destruct wm as [|k wm']; [discriminate|]. destruct (Nat.eqb m' me); [|discriminate].
      destruct (realign (r ++ EB m p :: al2) wm' wp (S me) pe (ms + k) ps) as [rest|] eqn:E; [|discriminate].
      cbn [option_map] in H. inversion H; subst. inversion Fm; subst.
      apply in_or_app. right. cbn [firstn]. rewrite ?total_cons, ?Nat.add_assoc.
      apply (IH wm' wp (S me) pe (ms + k) ps rest E); [cbn in Hm; lia | exact Hp | assumption | exact Fp].
    + destruct wp as [|k wp']; [discriminate|]. destruct (Nat.eqb p' pe); [|discriminate].
      destruct (realign (r ++ EB m p :: al2) wm wp' me (S pe) ms (ps + k)) as [rest|] eqn:E; [|discriminate].
      cbn [option_map] in H. inversion H; subst. inversion Fp; subst.
      apply in_or_app. right. cbn [firstn]. rewrite ?total_cons, ?Nat.add_assoc.
      apply (IH wm wp' me (S pe) ms (ps + k) rest E); [exact Hm | cbn in Hp; lia | exact Fm | assumption].
    + destruct wm as [|km wm']; [discriminate|]. destruct wp as [|kp wp']; [discriminate|].
      destruct (Nat.eqb m' me && Nat.eqb p' pe); [|discriminate].
      destruct (realign (r ++ EB m p :: al2) wm' wp' (S me) (S pe) (ms + km) (ps + kp)) as [rest|] eqn:E; [|discriminate].
      cbn [option_map] in H. inversion H; subst. inversion Fm; subst. inversion Fp; subst.
      apply in_or_app. right. cbn [firstn]. rewrite ?total_cons, ?Nat.add_assoc.
      apply (IH wm' wp' (S me) (S pe) (ms + km) (ps + kp) rest E); [cbn in Hm; lia | cbn in Hp; lia | assumption | assumption].
Qed.
