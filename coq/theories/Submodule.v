(* The submodule short-form handler (src/handlers/submodule.rs): directly after a hunk header a line
   `-Subproject commit <40 hex>[-dirty]` is held back, and a following `+Subproject commit <40 hex>`
   line is written together with it as `<12 hex>..<12 hex>`.  With --color-only the handler claims
   nothing (C02); without it, it claims pointer lines only (C01; the repaired defect F34 was that any
   line with the prefix was claimed).  That the code has this shape is pinned from the source on
   every run (GenSubmodule.v). *)
From Coq Require Import List Bool NArith String.
Import ListNotations.
From DV Require Import Text.
Local Open Scope N_scope.

Inductive sstate := AfterHunkHeader | HeldMinus (minus_commit : text) | Elsewhere.

Definition is_hex (c : N) : bool := ((48 <=? c) && (c <=? 57)) || ((97 <=? c) && (c <=? 102)).

(* SUBMODULE_SHORT_LINE_REGEX, for one marker: ^<marker>Subproject commit ([0-9a-f]{40})(-dirty)?$ *)
Definition sub_pointer (marker : text) (l : text) : option text :=
  match strip_prefix (marker ++ lit "Subproject commit ") l with
  | Some rest =>
      let c := firstn 40 rest in
      let tail := skipn 40 rest in
      if Nat.eqb (List.length c) 40 && forallb is_hex c && (is_empty tail || text_eqb tail (lit "-dirty"))
      then Some c else None
  | None => None
  end.

Inductive sout := Merged (minus_commit plus_commit : text).   (* the row `m[..12]..p[..12]` *)

(* handle_submodule_short_line: None = not claimed (the line goes on to the next handler) *)
Definition sub_handle (color_only : bool) (st : sstate) (l : text) : option (sstate * option sout) :=
  if color_only then None
  else match st with
       | AfterHunkHeader => match sub_pointer (lit "-") l with Some c => Some (HeldMinus c, None) | None => None end
       | HeldMinus m => match sub_pointer (lit "+") l with Some c => Some (HeldMinus m, Some (Merged m c)) | None => None end
       | Elsewhere => None
       end.

Definition sub_shown (o : sout) : text := match o with Merged m p => firstn 12 m ++ lit ".." ++ firstn 12 p end.
