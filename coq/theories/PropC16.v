(* C16 — grep output keeps every hit's path, line number and code; rg --json highlights are
   the reported submatches.  Statements only. *)
From Coq Require Import List Bool Arith.
Import ListNotations.
From DV Require Import GrepSections GrepSectionsFacts GrepTabs.

(* the style sections of a hit always concatenate to its code — whatever offsets rg reports,
   no byte of the line is dropped, duplicated or reordered *)
Theorem C16_sections_partition : forall l subs, well_formed l = true ->
  exists secs, make_style_sections l subs = Some secs /\ concat (map snd secs) = l.
Proof. exact make_style_sections_total. Qed.

(* the highlighted spans are exactly the reported submatches (sorted, disjoint, in range, on
   character boundaries — what rg emits) *)
Theorem C16_highlights_are_submatches : forall l subs secs, valid_from l 0 subs ->
  make_style_sections l subs = Some secs ->
  matches secs = map (fun se => firstn (snd se - fst se) (skipn (fst se) l)) subs.
Proof. exact make_style_sections_matches. Qed.

(* tabs: when tabs occur only in the leading indentation, the uniformly shifted offsets select
   in the expanded line exactly the text they selected in the original line *)
Theorem C16_leading_tabs_exact : forall w k rest se, 1 <= w -> Forall (fun b => b <> TAB) rest ->
  k <= fst se ->
  span (expand_tabs w (repeat TAB k ++ rest)) (shift_submatch w (repeat TAB k ++ rest) se) =
  span (repeat TAB k ++ rest) se.
Proof. exact shifted_span_exact. Qed.

Example C16_example :
  let l := [9; 9; 102; 111; 111; 40; 120; 41] in
  span (expand_tabs 4 l) (shift_submatch 4 l (2, 5)) = [102; 111; 111] /\ shift 4 l = 6.
Proof. vm_compute. split; reflexivity. Qed.
