(* C16 — grep output keeps every hit's path, line number and code; rg --json highlights are
   the reported submatches.  Statements only. *)
From Coq Require Import List Bool Arith.
Import ListNotations.
From DV Require Import Text GrepSections GrepSectionsFacts GrepTabs GrepColour GrepColourFacts GenGrep.

(* the style sections of a hit always concatenate to its code — whatever offsets rg reports,
   no byte of the line is dropped, duplicated or reordered *)
Theorem C16_sections_partition : forall l subs, well_formed l = true ->
  exists secs, make_style_sections l subs = Some secs /\ concat (map snd secs) = l.
Proof. exact make_style_sections_total. Qed.

(* the highlighted spans are exactly the reported submatches (sorted, disjoint, in range, on
   character boundaries — what rg emits) *)
Theorem C16_highlights_are_submatches : forall l subs secs, valid_from l 0 subs ->
  make_style_sections l subs = Some secs ->
  matches secs = map (fun se => firstn (snd se - fst se) (skipn (fst se) l)) subs.
Proof. exact make_style_sections_matches. Qed.

(* tabs: when tabs occur only in the leading indentation, the uniformly shifted offsets select
   in the expanded line exactly the text they selected in the original line *)
Theorem C16_leading_tabs_exact : forall w k rest se, 1 <= w -> Forall (fun b => b <> TAB) rest ->
  k <= fst se ->
  span (expand_tabs w (repeat TAB k ++ rest)) (shift_submatch w (repeat TAB k ++ rest) se) =
  span (repeat TAB k ++ rest) se.
Proof. exact shifted_span_exact. Qed.

(* coloured grep output (git's palette: path magenta, separators cyan, line number green) is read
   exactly.  The regex of the current tree is the one the direct parser implements (checked from
   the source on every run) ... *)
Theorem C16_code_colour_regex : colour_regex_is_modelled = true.
Proof. reflexivity. Qed.

(* ... with a line number, path / kind / number / code are read back exactly — for every path
   without an escape character (colons, dashes, digits, spaces, no extension: anything) and for
   every code whatsoever ... *)
Theorem C16_coloured_line_numbered : forall path s ds code,
  forallb not_esc path = true -> ds <> [] -> forallb is_digit ds = true ->
  parse (print path s (Some ds) code) = Some (path, s, Some ds, code).
Proof. exact parse_print_numbered. Qed.

(* ... and without a line number as well, unless the code itself begins with a coloured line
   number look-alike (code that starts with any character but ESC, or is empty, never does) *)
Theorem C16_coloured_line_plain : forall path s code,
  forallb not_esc path = true -> parse_number s code = None ->
  parse (print path s None code) = Some (path, s, None, code).
Proof. exact parse_print_plain. Qed.

Theorem C16_plain_code_is_no_number : forall s c r, c <> ESC -> parse_number s (c :: r) = None.
Proof. exact parse_number_plain_code. Qed.

Example C16_example :
  let l := [9; 9; 102; 111; 111; 40; 120; 41] in
  span (expand_tabs 4 l) (shift_submatch 4 l (2, 5)) = [102; 111; 111] /\ shift 4 l = 6.
Proof. vm_compute. split; reflexivity. Qed.
