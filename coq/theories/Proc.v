(* Model of the calling-process protocol of src/utils/process.rs (C20).

   Shared state: the CALLER cell (Pending until determined), the CALLER_INFO_SOURCE flag,
   the condition variable (abstracted to "a notification happened since the waiter went
   to sleep").  Two threads: the background determination (BG) and the main thread, which
   optionally publishes a known command and then queries n times.  Steps are at lock
   granularity: everything done while holding the mutex is one atomic step.  A schedule is
   any list of thread ids, including spurious wake-ups of a waiting query.

   The shape of the three code fragments is a parameter ([params]); the translator
   (tools/translate.py, pattern T-proc) regenerates GenProc.code_params from the current
   source, and ProcFacts proves the properties for every [good] parameter set. *)
From Coq Require Import List Bool.
Import ListNotations.

Record params := mkParams {
  bg_guard : bool;        (* BG writes its guess only when the source is still GUESSED *)
  guard_under_lock : bool;(* ... and reads the source flag while holding the mutex *)
  bg_notify : bool;       (* BG calls notify_all before releasing the lock *)
  pub_marks_known : bool; (* set_calling_process stores KNOWN inside the critical section *)
  pub_notify : bool;      (* set_calling_process calls notify_all *)
  query_waits : bool      (* calling_process waits while the cell is Pending *)
}.

Definition good (p : params) : bool :=
  bg_guard p && guard_under_lock p && bg_notify p && pub_marks_known p && pub_notify p && query_waits p.

Inductive val := Pending | G | K.
Inductive bgpc := BCompute | BWantLock (seen_known : bool) | BDone.
Inductive mpc := MPublish (n : nat) | MQuery (n : nat) | MWait (n : nat) | MDone.
Record st := mk {
  caller : val; known : bool; bg : bgpc; mn : mpc; results : list val; notified : bool }.
Inductive tid := TBg | TMain | TSpurious.

Definition is_pending v := match v with Pending => true | _ => false end.
Definition after_query n :=
  match n with 0 => MDone | S m => match m with 0 => MDone | _ => MQuery m end end.

Section Model.
Variable P : params.

(* one atomic step of a thread; None = not enabled *)
Definition step (t : tid) (s : st) : option st :=
  match t with
  | TBg =>
    match bg s with
    | BCompute => Some (mk (caller s) (known s) (BWantLock (known s)) (mn s) (results s) (notified s))
    | BWantLock seen =>
        Some (mk (if bg_guard P && (if guard_under_lock P then known s else seen)
                  then caller s else G) (known s) BDone (mn s)
                 (results s) (notified s || bg_notify P))
    | BDone => None
    end
  | TMain =>
    match mn s with
    | MPublish n =>
        Some (mk K (known s || pub_marks_known P) (bg s)
                 (match n with 0 => MDone | _ => MQuery n end) (results s)
                 (notified s || pub_notify P))
    | MQuery n =>
        if query_waits P && is_pending (caller s)
        then Some (mk (caller s) (known s) (bg s) (MWait n) (results s) false)
        else Some (mk (caller s) (known s) (bg s) (after_query n)
                      (results s ++ [caller s]) (notified s))
    | MWait n =>
        if notified s
        then Some (mk (caller s) (known s) (bg s) (MQuery n) (results s) (notified s))
        else None
    | MDone => None
    end
  | TSpurious =>
    match mn s with
    | MWait n => Some (mk (caller s) (known s) (bg s) (MQuery n) (results s) (notified s))
    | _ => None
    end
  end.

Fixpoint run (sched : list tid) (s : st) : st :=
  match sched with
  | [] => s
  | t :: r => match step t s with Some s' => run r s' | None => run r s end
  end.

Definition init (publish : bool) (n : nat) : st :=
  mk Pending false BCompute
     (if publish then MPublish n else match n with 0 => MDone | _ => MQuery n end)
     [] false.

Definition finished s := bg s = BDone /\ mn s = MDone.

(* Executable layer used by the correspondence check: an order of critical sections
   (as forced on the implementation through the ordering points) is replayed on the model.
   [EBgArrive] is BG reaching its lock acquisition (having read whatever it reads before),
   [EBgLock] its critical section, [EPub] the publication, [EQueryStart] a query up to its
   first look at the cell, [EQueryEnd] the rest of it.  [None] = the order is infeasible
   (the thread that must move is blocked). *)
Inductive ev := EBgArrive | EBgLock | EPub | EQueryStart | EQueryEnd.

Definition mn_is_query s := match mn s with MQuery _ => true | _ => false end.
Definition mn_is_wait s := match mn s with MWait _ => true | _ => false end.

Definition exec_ev (e : ev) (s : st) : option st :=
  match e with
  | EBgArrive => match bg s with BCompute => step TBg s | _ => None end
  | EBgLock => match bg s with BWantLock _ => step TBg s | _ => None end
  | EPub => match mn s with MPublish _ => step TMain s | _ => None end
  | EQueryStart => if mn_is_query s then step TMain s else None
  | EQueryEnd =>
      (* the query has already returned, or it is waiting and must be woken *)
      if mn_is_wait s then
        match step TMain s with
        | Some s1 => match step TMain s1 with
                     | Some s2 => if mn_is_wait s2 then None else Some s2
                     | None => None
                     end
        | None => None
        end
      else Some s
  end.

Fixpoint exec (es : list ev) (s : st) : option st :=
  match es with
  | [] => Some s
  | e :: r => match exec_ev e s with Some s' => exec r s' | None => None end
  end.

End Model.
