(* The path printed in a hunk header (emit_hunk_header_line, src/handlers/hunk_header.rs): the file
   the hunk belongs to — the new name, or the old one when the new side is /dev/null (a deleted
   file).  Which side is tested and which is printed in either case is read from the source on every
   run (GenHunkPath.v) — C05. *)
From Coq Require Import List Bool NArith String.
Import ListNotations.
From DV Require Import Text.

Inductive fside := OldSide | NewSide.

Definition dev_null : text := lit "/dev/null".

Section Path.
  Variables tested on_null otherwise : fside.
  Definition sel (d : fside) (old new : text) : text := match d with OldSide => old | NewSide => new end.
  Definition header_path (old new : text) : text :=
    if text_eqb (sel tested old new) dev_null then sel on_null old new else sel otherwise old new.
End Path.

Lemma path_of_existing_file old new : text_eqb new dev_null = false ->
  header_path NewSide OldSide NewSide old new = new.
Proof. intros H. unfold header_path, sel. now rewrite H. Qed.

Lemma path_of_deleted_file old new : text_eqb new dev_null = true ->
  header_path NewSide OldSide NewSide old new = old.
Proof. intros H. unfold header_path, sel. now rewrite H. Qed.

(* testing the old side instead prints the old name of a renamed file *)
Example old_side_test_prints_old_name :
  header_path OldSide NewSide OldSide (lit "lib/old.rs") (lit "lib/new.rs") = lit "lib/old.rs".
Proof. reflexivity. Qed.
