(* The line state machine of src/delta.rs + src/handlers/{commit_meta,diff_header*,
   hunk_header,hunk}.rs + the buffers of src/paint.rs, at the level of output *items*
   (C01 C02 C04 C10 C11 C14).

   Scope: input from git (two-way unified diffs, optionally wrapped in `git log`/`git show`
   metadata), default (non-raw) file/hunk-header styles, raw commit style; [color_only]
   as a configuration switch.  Lines are classified by the same prefix tests as the code;
   handlers are tried in the order of StateMachine::consume, and a handler that declines a
   line may still have side effects.  Out of scope (left to the black-box oracles): combined
   diffs and conflict regions, plain `diff -u`, submodule lines, blame/grep/rg lines.

   Every output item carries the index of the input line it renders ([origin]); items are
   first appended to [buf] (Painter::output_buffer) or written directly ([out]). *)
From Coq Require Import String.
From Coq Require Import List Bool NArith Arith.
Import ListNotations.
From DV Require Import Text.

Inductive lkind := KMinus | KPlus | KZero | KOther.

Inductive item :=
| IRaw (t : text)                          (* a line emitted unchanged *)
| IFileHeader (t : text) (mode : text)     (* file header; under color_only the raw line *)
| IHunkHeader (frag : text) (n : N) (raw : text) (* hunk header (frag, new-file start) *)
| ILine (k : lkind) (t : text).            (* a hunk body line, marker removed, tabs expanded *)

Definition oitem := (nat * item)%type.     (* origin line index, item *)

Inductive stt :=
| SUnknown | SCommitMeta | SDiffHeader
| SHunkHeader (frag : text) (n : N) (raw : text) (origin : nat)
| SHunkZero | SHunkMinus | SHunkPlus.

Inductive fev := NoEvent | Change | Rename | Copy.

Record cfg := mkCfg {
  color_only : bool;
  tab_width : nat;
  line_buffer_size : nat
}.

Record sm := mkSm {
  state : stt;
  source_git : bool;                        (* Source::GitDiff detected *)
  minus_file : text; plus_file : text;
  minus_ev : fev;
  diff_line : text;
  mode_info : text;
  cur : option (text * text);               (* current_file_pair *)
  handled : option (text * text);           (* handled_diff_header_header_line_file_pair *)
  minus_lines : list (nat * text);          (* Painter::minus_lines *)
  plus_lines : list (nat * text);           (* Painter::plus_lines *)
  buf : list oitem;                         (* Painter::output_buffer *)
  out : list oitem                          (* what has reached the writer *)
}.

Definition init : sm :=
  mkSm SUnknown false [] [] NoEvent [] [] None None [] [] [] [].

(* ---- functional record updates *)
Definition set_state s v := mkSm v (source_git s) (minus_file s) (plus_file s) (minus_ev s) (diff_line s) (mode_info s) (cur s) (handled s) (minus_lines s) (plus_lines s) (buf s) (out s).
Definition set_source s v := mkSm (state s) v (minus_file s) (plus_file s) (minus_ev s) (diff_line s) (mode_info s) (cur s) (handled s) (minus_lines s) (plus_lines s) (buf s) (out s).
Definition set_minus_file s v := mkSm (state s) (source_git s) v (plus_file s) (minus_ev s) (diff_line s) (mode_info s) (cur s) (handled s) (minus_lines s) (plus_lines s) (buf s) (out s).
Definition set_plus_file s v := mkSm (state s) (source_git s) (minus_file s) v (minus_ev s) (diff_line s) (mode_info s) (cur s) (handled s) (minus_lines s) (plus_lines s) (buf s) (out s).
Definition set_minus_ev s v := mkSm (state s) (source_git s) (minus_file s) (plus_file s) v (diff_line s) (mode_info s) (cur s) (handled s) (minus_lines s) (plus_lines s) (buf s) (out s).
Definition set_diff_line s v := mkSm (state s) (source_git s) (minus_file s) (plus_file s) (minus_ev s) v (mode_info s) (cur s) (handled s) (minus_lines s) (plus_lines s) (buf s) (out s).
Definition set_mode_info s v := mkSm (state s) (source_git s) (minus_file s) (plus_file s) (minus_ev s) (diff_line s) v (cur s) (handled s) (minus_lines s) (plus_lines s) (buf s) (out s).
Definition set_cur s v := mkSm (state s) (source_git s) (minus_file s) (plus_file s) (minus_ev s) (diff_line s) (mode_info s) v (handled s) (minus_lines s) (plus_lines s) (buf s) (out s).
Definition set_handled s v := mkSm (state s) (source_git s) (minus_file s) (plus_file s) (minus_ev s) (diff_line s) (mode_info s) (cur s) v (minus_lines s) (plus_lines s) (buf s) (out s).
Definition set_minus_lines s v := mkSm (state s) (source_git s) (minus_file s) (plus_file s) (minus_ev s) (diff_line s) (mode_info s) (cur s) (handled s) v (plus_lines s) (buf s) (out s).
Definition set_plus_lines s v := mkSm (state s) (source_git s) (minus_file s) (plus_file s) (minus_ev s) (diff_line s) (mode_info s) (cur s) (handled s) (minus_lines s) v (buf s) (out s).
Definition set_buf s v := mkSm (state s) (source_git s) (minus_file s) (plus_file s) (minus_ev s) (diff_line s) (mode_info s) (cur s) (handled s) (minus_lines s) (plus_lines s) v (out s).
Definition set_out s v := mkSm (state s) (source_git s) (minus_file s) (plus_file s) (minus_ev s) (diff_line s) (mode_info s) (cur s) (handled s) (minus_lines s) (plus_lines s) (buf s) v.

(* ---- painter *)
(* Painter::paint_buffered_minus_and_plus_lines: render the buffered removed lines, then the
   buffered added lines, into the output buffer; clear both. *)
Definition paint_buffered (s : sm) : sm :=
  let items := map (fun p => (fst p, ILine KMinus (snd p))) (minus_lines s) ++
               map (fun p => (fst p, ILine KPlus (snd p))) (plus_lines s) in
  set_plus_lines (set_minus_lines (set_buf s (buf s ++ items)) []) [].

(* Painter::emit *)
Definition emit (s : sm) : sm := set_buf (set_out s (out s ++ buf s)) [].

(* a direct write to painter.writer *)
Definition write (s : sm) (it : oitem) : sm := set_out s (out s ++ [it]).

Definition in_diff_header (s : sm) : bool :=
  match state s with SDiffHeader => true | _ => false end.

(* ---- paths *)
Definition dev_null : text := lit "/dev/null"%string.
Definition diff_prefixes : list text :=
  [lit "a/"%string; lit "b/"%string; lit "c/"%string; lit "i/"%string; lit "o/"%string; lit "w/"%string].
Definition quote : N := 34%N.

Definition remove_surrounding_quotes (p : text) : text :=
  if starts_with [quote] p && ends_with [quote] p && Nat.leb 1 (length p)
  then removelast (tl p) else p.

Definition strip_trailing_tab (p : text) : text :=
  if ends_with [tab] p then removelast p else p.

(* _parse_file_path *)
Definition parse_file_path (path : text) (git : bool) : text :=
  let p := strip_trailing_tab (remove_surrounding_quotes path) in
  if text_eqb p dev_null then dev_null
  else if git && existsb (fun x => starts_with x p) diff_prefixes then skipn 2 p
  else if git then p
  else fst (split_at tab p).

(* get_repeated_file_path_from_diff_line; grapheme clusters are taken to be single scalar
   values (the generators' path alphabet has no combining marks).  The code indexes
   line[midpoint] without a bounds check: [None] here stands for "no repeated path", the
   empty-remainder case is excluded from the domain (defect F5, see DESIGN). *)
Definition repeated_path (line : text) : option text :=
  match strip_prefix (lit "diff --git "%string) line with
  | None => None
  | Some l =>
      let mid := Nat.div (length l) 2 in
      match nth_error l mid with
      | Some c =>
          if N.eqb c space then
            let a := parse_file_path (firstn mid l) true in
            let b := parse_file_path (skipn (S mid) l) true in
            if text_eqb a b then Some a else None
          else None
      | None => None
      end
  end.

Definition name_of_diff_line (line : text) : text :=
  match repeated_path line with Some p => p | None => [] end.

Definition arrow : text := [10230%N; space; space].   (* config.right_arrow = "⟶  " *)

(* get_file_change_description_from_file_paths with the default (empty) modified-label and
   default labels *)
Definition describe (s : sm) : text :=
  let m := minus_file s in
  let p := plus_file s in
  if text_eqb m p then m
  else if text_eqb p dev_null then lit "removed: "%string ++ m
  else if text_eqb m dev_null then lit "added: "%string ++ p
  else (match minus_ev s with Rename => lit "renamed: "%string | Copy => lit "copied: "%string | _ => [] end)
       ++ m ++ [space] ++ arrow ++ [space] ++ p.

(* write_generic_diff_header_header_line: writes directly; consumes mode_info *)
Definition write_file_header (idx : nat) (t : text) (s : sm) : sm :=
  set_mode_info (write s (idx, IFileHeader t (mode_info s))) [].

(* handle_pending_line_with_diff_name *)
Definition pending (idx : nat) (c : cfg) (s : sm) : sm :=
  if negb (in_diff_header s) then s
  else
    let s := emit s in   (* the output buffer goes first (repaired defect F1) *)
    if negb (is_empty (mode_info s)) then
      (* shown now: mark as handled (repaired defect F19) *)
      set_handled (write_file_header idx (name_of_diff_line (diff_line s)) s) (cur s)
    else if negb (color_only c) && negb (opt_text_pair_eqb (handled s) (cur s)) then
      set_handled (write_file_header idx (describe s) s) (cur s)
    else s.

Definition should_skip (c : cfg) (s : sm) : bool := in_diff_header s && negb (color_only c).

Definition emit_unchanged (idx : nat) (raw : text) (s : sm) : sm :=
  write (emit s) (idx, IRaw raw).

(* ---- hunk header parsing: the regex  @+ ([^@]+)@+(.*\s?)  and, inside group 1, every
   [-+](\d+)(,(\d+))?  ; the number shown is the start of the last coordinate *)
Definition at_sign : N := 64%N.
Definition not_at (c : N) : bool := negb (N.eqb c at_sign).
Definition is_at (c : N) : bool := N.eqb c at_sign.

Fixpoint last_coord_start (l : text) (acc : option N) (fuel : nat) : option N :=
  match fuel with
  | O => acc
  | S f =>
      match l with
      | [] => acc
      | c :: r =>
          if (N.eqb c 43 || N.eqb c 45)%bool then
            let (ds, rest) := take_while is_digit r in
            match ds with
            | [] => last_coord_start r acc f
            | _ => last_coord_start rest (Some (digits_val 0 ds)) f
            end
          else last_coord_start r acc f
      end
  end.

Definition parse_hunk_header (line : text) : option (text * N) :=
  let (ats, r1) := take_while is_at line in
  match ats, r1 with
  | _ :: _, sp :: r2 =>
      if N.eqb sp space then
        let (g1, r3) := take_while not_at r2 in
        match g1 with
        | [] => None
        | _ =>
            let (ats2, frag) := take_while is_at r3 in
            match ats2 with
            | [] => None
            | _ => match last_coord_start g1 None (S (length g1)) with
                   | Some n => Some (frag, n)
                   | None => None   (* no coordinate: the code panics here (defect F3) *)
                   end
            end
        end
      else None
  | _, _ => None
  end.

(* ---- handlers, in the order of StateMachine::consume.  Each returns the new state and
   whether it claimed the line. *)
Definition handler := nat -> cfg -> text -> sm -> sm * bool.

Definition h_commit : handler := fun idx c line s =>
  if starts_with (lit "commit "%string) line then
    (set_state (pending idx c (paint_buffered s)) SCommitMeta, false)
  else (s, false).

Definition h_diff : handler := fun idx c line s =>
  if starts_with (lit "diff "%string) line then
    let s1 := set_state (paint_buffered s) SDiffHeader in
    let s2 := set_diff_line (set_handled (pending idx c s1) None) line in
    let name := name_of_diff_line line in
    let s3 := set_cur (set_minus_ev (set_plus_file (set_minus_file s2 name) name) Change)
                      (Some (name, name)) in
    ((if should_skip c s3 then s3 else emit_unchanged idx line s3), true)
  else (s, false).

Definition h_fileop : handler := fun idx c line s =>
  let del := starts_with (lit "deleted file mode "%string) line in
  let add := starts_with (lit "new file mode "%string) line in
  if in_diff_header s && (del || add) then
    let name := name_of_diff_line (diff_line s) in
    let s1 := if del then set_plus_file (set_minus_file s name) dev_null
              else set_plus_file (set_minus_file s dev_null) name in
    let s2 := set_cur (set_minus_ev s1 Change) (Some (minus_file s1, plus_file s1)) in
    if color_only c then (write_file_header idx line (emit s2), true)
    else (s2, negb (opt_text_pair_eqb (handled s2) (cur s2)))
  else (s, false).

Definition h_minus : handler := fun idx c line s =>
  if in_diff_header s then
    let upd :=
      match strip_prefix (lit "--- "%string) line with
      | Some p => Some (parse_file_path p (source_git s), Change)
      | None =>
        match strip_prefix (lit "rename from "%string) line with
        | Some p => Some (p, Rename)
        | None => match strip_prefix (lit "copy from "%string) line with
                  | Some p => Some (p, Copy)
                  | None => None
                  end
        end
      end in
    match upd with
    | Some (p, ev) =>
        let s1 := paint_buffered (set_minus_ev (set_minus_file s p) ev) in
        if color_only c then (write_file_header idx line (emit s1), true) else (s1, false)
    | None => (s, false)
    end
  else (s, false).

Definition h_plus : handler := fun idx c line s =>
  if in_diff_header s then
    let upd :=
      match strip_prefix (lit "+++ "%string) line with
      | Some p => Some (parse_file_path p (source_git s))
      | None =>
        match strip_prefix (lit "rename to "%string) line with
        | Some p => Some p
        | None => strip_prefix (lit "copy to "%string) line
        end
      end in
    match upd with
    | Some p =>
        let s0 := set_plus_file s p in
        let s1 := paint_buffered (set_cur s0 (Some (minus_file s0, plus_file s0))) in
        if color_only c then (write_file_header idx line (emit s1), true)
        else if negb (opt_text_pair_eqb (handled s1) (cur s1)) then
          (set_handled (write_file_header idx (describe s1) (emit s1)) (cur s1), false)
        else (s1, false)
    | None => (s, false)
    end
  else (s, false).

Definition h_hunk_header : handler := fun idx c line s =>
  if starts_with (lit "@@"%string) line then
    match parse_hunk_header line with
    | Some (frag, n) => (set_state s (SHunkHeader frag n line idx), true)
    | None => (s, false)
    end
  else (s, false).

Definition h_mode : handler := fun idx c line s =>
  match strip_prefix (lit "old mode "%string) line with
  | Some suf =>
      let s1 := set_state s SDiffHeader in
      if negb (color_only c) then (set_mode_info s1 suf, true) else (s1, false)
  | None =>
    match strip_prefix (lit "new mode "%string) line with
    | Some suf =>
        let s1 := set_state s SDiffHeader in
        if negb (color_only c) && negb (is_empty (mode_info s1)) then
          let old := mode_info s1 in
          let info :=
            if text_eqb old (lit "100644"%string) && text_eqb suf (lit "100755"%string) then lit "mode +x"%string
            else if text_eqb old (lit "100755"%string) && text_eqb suf (lit "100644"%string) then lit "mode -x"%string
            else lit "mode "%string ++ old ++ [space] ++ arrow ++ [space] ++ suf in
          (set_mode_info s1 info, true)
        else (s1, false)
    | None => (s, false)
    end
  end.

Definition binary_suffix : text := lit " (binary file)"%string.

Definition h_misc : handler := fun idx c line s =>
  if starts_with (lit "Binary files "%string) line then
    if negb (color_only c) then
      if is_empty (minus_file s) && is_empty (plus_file s) then
        (set_handled (emit_unchanged idx line s) (cur s), true)
      else
        let s1 := if text_eqb (minus_file s) dev_null then s
                  else set_minus_file s (minus_file s ++ binary_suffix) in
        let s2 := if text_eqb (plus_file s1) dev_null then s1
                  else set_plus_file s1 (plus_file s1 ++ binary_suffix) in
        (s2, true)
    else
      let s1 := paint_buffered s in
      let s2 := if in_diff_header s1 then s1 else set_state s1 SDiffHeader in
      (write_file_header idx line (emit s2), true)
  else (s, false).

Definition in_hunk (s : sm) : bool :=
  match state s with
  | SHunkHeader _ _ _ _ | SHunkZero | SHunkMinus | SHunkPlus => true
  | _ => false
  end.

(* emit_hunk_header_line *)
Definition emit_hunk_header (s : sm) : sm :=
  match state s with
  | SHunkHeader frag n raw origin =>
      write (emit (paint_buffered s)) (origin, IHunkHeader frag n raw)
  | _ => s
  end.

(* new_line_state: how a line inside a hunk is classified by its first character *)
Inductive hline := HLMinus | HLPlus | HLZero | HLEmpty | HLOther.
Definition line_kind (line : text) : hline :=
  match line with
  | 45%N :: _ => HLMinus   (* '-' *)
  | 43%N :: _ => HLPlus    (* '+' *)
  | 32%N :: _ => HLZero    (* ' ' *)
  | [] => HLEmpty
  | _ => HLOther
  end.

Definition h_hunk : handler := fun idx c line s =>
  if in_hunk s then
    let s0 := if Nat.ltb (line_buffer_size c) (length (minus_lines s)) ||
                 Nat.ltb (line_buffer_size c) (length (plus_lines s))
              then paint_buffered s else s in
    let s1 := emit_hunk_header s0 in
    let body := expand_tabs (tab_width c) (tl line) in
    let s2 :=
      match line_kind line with
      | HLMinus =>
          let s' := match state s1 with SHunkPlus => paint_buffered s1 | _ => s1 end in
          set_state (set_minus_lines s' (minus_lines s' ++ [(idx, body)])) SHunkMinus
      | HLPlus =>
          set_state (set_plus_lines s1 (plus_lines s1 ++ [(idx, body)])) SHunkPlus
      | HLZero =>
          let s' := paint_buffered s1 in
          set_state (set_buf s' (buf s' ++ [(idx, ILine KZero body)])) SHunkZero
      | HLEmpty =>     (* empty line: treated as an unchanged line with empty text *)
          let s' := paint_buffered s1 in
          set_state (set_buf s' (buf s' ++ [(idx, ILine KZero [])])) SHunkZero
      | HLOther =>     (* e.g. "\ No newline at end of file": raw line, tabs expanded *)
          let s' := paint_buffered s1 in
          set_state (set_buf s' (buf s' ++ [(idx, ILine KOther (expand_tabs (tab_width c) line))]))
                    SHunkZero
      end in
    (emit s2, true)
  else (s, false).

(* handle_git_show_file_line / handle_blame_line / handle_grep_line all begin with an
   unconditional painter.emit(); none of them claims a line of the modelled domain. *)
Definition h_tail_emit : handler := fun idx c line s => (emit s, false).

Definition handlers : list handler :=
  [h_commit; h_diff; h_fileop; h_minus; h_plus; h_hunk_header; h_mode; h_misc; h_hunk; h_tail_emit].

Fixpoint run_handlers (hs : list handler) (idx : nat) (c : cfg) (line : text) (s : sm) : sm * bool :=
  match hs with
  | [] => (s, false)
  | h :: r => let (s', claimed) := h idx c line s in
              if claimed then (s', true) else run_handlers r idx c line s'
  end.

Definition detect_git (line : text) : bool :=
  starts_with (lit "commit "%string) line || starts_with (lit "diff --git "%string) line ||
  starts_with (lit "diff --cc "%string) line || starts_with (lit "diff --combined "%string) line.

Definition step (c : cfg) (s : sm) (il : nat * text) : sm :=
  let (idx, line) := il in
  let s0 := if source_git s then s else set_source s (detect_git line) in
  let (s1, claimed) := run_handlers handlers idx c line s0 in
  if claimed then s1
  else if should_skip c s1 then s1
  else emit_unchanged idx line s1.

Definition finish (idx : nat) (c : cfg) (s : sm) : sm :=
  emit (paint_buffered (pending idx c s)).

Fixpoint number_from (i : nat) (ls : list text) : list (nat * text) :=
  match ls with [] => [] | l :: r => (i, l) :: number_from (S i) r end.

Definition steps (c : cfg) (ls : list (nat * text)) (s : sm) : sm := fold_left (step c) ls s.

Definition run (c : cfg) (lines : list text) : list oitem :=
  out (finish (length lines) c (steps c (number_from 0 lines) init)).

(* number of terminal rows an item occupies *)
Definition rows_of (c : cfg) (it : item) : nat :=
  match it with
  | IRaw _ => 1
  | IFileHeader _ _ => if color_only c then 1 else 3
  | IHunkHeader _ _ _ => if color_only c then 1 else 4
  | ILine _ _ => 1
  end.
