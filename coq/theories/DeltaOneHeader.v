(* C14: a plain modified-file section gets exactly one file header, naming its file, from
   any state — symbolic in the path. *)
From Coq Require Import String.
From Coq Require Import List Bool NArith Arith Lia.
Import ListNotations.
From DV Require Import Text Delta DeltaProj DeltaFacts DeltaHeader.

Definition git_diff_line (x y : N) (P : text) : text :=
  lit "diff --git "%string ++ (x :: slash :: P) ++ space :: y :: slash :: P.
Definition minus_line (x : N) (P : text) : text := lit "--- "%string ++ x :: slash :: P.
Definition plus_line (y : N) (P : text) : text := lit "+++ "%string ++ y :: slash :: P.
Definition index_line : text := lit "index 1111111..2222222 100644"%string.

Lemma rh_skip h r i c l s s' : h i c l s = (s', false) ->
  run_handlers (h :: r) i c l s = run_handlers r i c l s'.
Proof. intros H. cbn [run_handlers]. rewrite H. reflexivity. Qed.

Lemma rh_claim h r i c l s s' : h i c l s = (s', true) -> run_handlers (h :: r) i c l s = (s', true).
Proof. intros H. cbn [run_handlers]. rewrite H. reflexivity. Qed.

Lemma in_hunk_header_false s : in_diff_header s = true -> in_hunk s = false.
Proof. unfold in_hunk, in_diff_header. destruct (state s); auto; discriminate. Qed.

Lemma idh_emit s : in_diff_header (emit s) = in_diff_header s.
Proof. unfold in_diff_header. proj. reflexivity. Qed.
Lemma idh_paint s : in_diff_header (paint_buffered s) = in_diff_header s.
Proof. unfold in_diff_header. proj. reflexivity. Qed.

Ltac hs := intros; cbv beta delta [h_commit h_diff h_fileop h_minus h_plus h_hunk_header h_mode h_misc h_hunk h_tail_emit
                                   git_diff_line minus_line plus_line index_line]; cbn.

(* ---- index line *)
Lemma idx_commit i c s : h_commit i c index_line s = (s, false). Proof. hs. reflexivity. Qed.
Lemma idx_diff i c s : h_diff i c index_line s = (s, false). Proof. hs. reflexivity. Qed.
Lemma idx_fileop i c s : h_fileop i c index_line s = (s, false).
Proof. hs. rewrite andb_false_r. reflexivity. Qed.
Lemma idx_minus i c s : h_minus i c index_line s = (s, false).
Proof. hs. destruct (in_diff_header s); reflexivity. Qed.
Lemma idx_plus i c s : h_plus i c index_line s = (s, false).
Proof. hs. destruct (in_diff_header s); reflexivity. Qed.
Lemma idx_hh i c s : h_hunk_header i c index_line s = (s, false). Proof. hs. reflexivity. Qed.
Lemma idx_mode i c s : h_mode i c index_line s = (s, false). Proof. hs. reflexivity. Qed.
Lemma idx_misc i c s : h_misc i c index_line s = (s, false). Proof. hs. reflexivity. Qed.
Lemma any_hunk i c l s : in_hunk s = false -> h_hunk i c l s = (s, false).
Proof. intros H. unfold h_hunk. rewrite H. reflexivity. Qed.

Lemma step_index c s i : color_only c = false -> in_diff_header s = true -> source_git s = true ->
  step c s (i, index_line) = emit s.
Proof.
  intros Hc Hd Hg. unfold step. rewrite Hg. unfold handlers.
  rewrite (rh_skip _ _ _ _ _ _ _ (idx_commit i c s)), (rh_skip _ _ _ _ _ _ _ (idx_diff i c s)),
    (rh_skip _ _ _ _ _ _ _ (idx_fileop i c s)), (rh_skip _ _ _ _ _ _ _ (idx_minus i c s)),
    (rh_skip _ _ _ _ _ _ _ (idx_plus i c s)), (rh_skip _ _ _ _ _ _ _ (idx_hh i c s)),
    (rh_skip _ _ _ _ _ _ _ (idx_mode i c s)), (rh_skip _ _ _ _ _ _ _ (idx_misc i c s)),
    (rh_skip _ _ _ _ _ _ _ (any_hunk i c _ s (in_hunk_header_false s Hd))).
  change (run_handlers [h_tail_emit] i c index_line s) with (emit s, false). cbv iota beta.
  unfold should_skip. rewrite idh_emit, Hd, Hc. reflexivity.
Qed.

(* ---- "--- x/P" *)
Lemma mi_commit i c x P s : h_commit i c (minus_line x P) s = (s, false). Proof. hs. reflexivity. Qed.
Lemma mi_diff i c x P s : h_diff i c (minus_line x P) s = (s, false). Proof. hs. reflexivity. Qed.
Lemma mi_fileop i c x P s : h_fileop i c (minus_line x P) s = (s, false).
Proof. hs. rewrite andb_false_r. reflexivity. Qed.
Lemma mi_minus i c x P s : color_only c = false -> in_diff_header s = true -> source_git s = true ->
  mnemonic x = true -> ends_with [tab] P = false ->
  h_minus i c (minus_line x P) s = (paint_buffered (set_minus_ev (set_minus_file s P) Change), false).
Proof.
  intros Hc Hd Hg Hx Ht. unfold h_minus. rewrite Hd.
  replace (strip_prefix (lit "--- "%string) (minus_line x P)) with (Some (x :: slash :: P)) by reflexivity.
  cbv iota beta. rewrite Hg, (parse_prefixed x P Hx Ht), Hc. reflexivity.
Qed.
Lemma mi_plus i c x P s : h_plus i c (minus_line x P) s = (s, false).
Proof. hs. destruct (in_diff_header s); reflexivity. Qed.
Lemma mi_hh i c x P s : h_hunk_header i c (minus_line x P) s = (s, false). Proof. hs. reflexivity. Qed.
Lemma mi_mode i c x P s : h_mode i c (minus_line x P) s = (s, false). Proof. hs. reflexivity. Qed.
Lemma mi_misc i c x P s : h_misc i c (minus_line x P) s = (s, false). Proof. hs. reflexivity. Qed.

Lemma idh_set_minus s p ev : in_diff_header (paint_buffered (set_minus_ev (set_minus_file s p) ev)) = in_diff_header s.
Proof. unfold in_diff_header. proj. reflexivity. Qed.

Lemma step_minus c s i x P : color_only c = false -> in_diff_header s = true -> source_git s = true ->
  mnemonic x = true -> ends_with [tab] P = false ->
  step c s (i, minus_line x P) = emit (paint_buffered (set_minus_ev (set_minus_file s P) Change)).
Proof.
  intros Hc Hd Hg Hx Ht. unfold step. rewrite Hg. unfold handlers.
  set (s1 := paint_buffered (set_minus_ev (set_minus_file s P) Change)).
  assert (Hd1 : in_diff_header s1 = true) by (subst s1; rewrite idh_set_minus; exact Hd).
  rewrite (rh_skip _ _ _ _ _ _ _ (mi_commit i c x P s)), (rh_skip _ _ _ _ _ _ _ (mi_diff i c x P s)),
    (rh_skip _ _ _ _ _ _ _ (mi_fileop i c x P s)), (rh_skip _ _ _ _ _ _ _ (mi_minus i c x P s Hc Hd Hg Hx Ht)).
  fold s1.
  rewrite (rh_skip _ _ _ _ _ _ _ (mi_plus i c x P s1)), (rh_skip _ _ _ _ _ _ _ (mi_hh i c x P s1)),
    (rh_skip _ _ _ _ _ _ _ (mi_mode i c x P s1)), (rh_skip _ _ _ _ _ _ _ (mi_misc i c x P s1)),
    (rh_skip _ _ _ _ _ _ _ (any_hunk i c _ s1 (in_hunk_header_false s1 Hd1))).
  change (run_handlers [h_tail_emit] i c (minus_line x P) s1) with (emit s1, false). cbv iota beta.
  unfold should_skip. rewrite idh_emit, Hd1, Hc. reflexivity.
Qed.

(* ---- "+++ y/P" *)
Lemma pl_commit i c y P s : h_commit i c (plus_line y P) s = (s, false). Proof. hs. reflexivity. Qed.
Lemma pl_diff i c y P s : h_diff i c (plus_line y P) s = (s, false). Proof. hs. reflexivity. Qed.
Lemma pl_fileop i c y P s : h_fileop i c (plus_line y P) s = (s, false).
Proof. hs. rewrite andb_false_r. reflexivity. Qed.
Lemma pl_minus i c y P s : h_minus i c (plus_line y P) s = (s, false).
Proof. hs. destruct (in_diff_header s); reflexivity. Qed.
Lemma pl_hh i c y P s : h_hunk_header i c (plus_line y P) s = (s, false). Proof. hs. reflexivity. Qed.
Lemma pl_mode i c y P s : h_mode i c (plus_line y P) s = (s, false). Proof. hs. reflexivity. Qed.
Lemma pl_misc i c y P s : h_misc i c (plus_line y P) s = (s, false). Proof. hs. reflexivity. Qed.

Lemma text_eqb_refl t : text_eqb t t = true.
Proof. induction t as [|a t IH]; cbn; [reflexivity | rewrite N.eqb_refl; exact IH]. Qed.

(* the state after "+++": the header of the section, named by describe, is written once *)
Definition after_plus (i : nat) (P : text) (s : sm) : sm :=
  let s0 := set_plus_file s P in
  let s1 := paint_buffered (set_cur s0 (Some (minus_file s0, plus_file s0))) in
  set_handled (write_file_header i (describe s1) (emit s1)) (cur s1).

Lemma pl_plus i c y P s : color_only c = false -> in_diff_header s = true -> source_git s = true ->
  mnemonic y = true -> ends_with [tab] P = false -> handled s = None ->
  h_plus i c (plus_line y P) s = (after_plus i P s, false).
Proof.
  intros Hc Hd Hg Hy Ht Hh. unfold h_plus. rewrite Hd.
  replace (strip_prefix (lit "+++ "%string) (plus_line y P)) with (Some (y :: slash :: P)) by reflexivity.
  cbv iota beta. rewrite Hg, (parse_prefixed y P Hy Ht), Hc. cbv zeta.
  set (s0 := set_plus_file s P). set (s1 := paint_buffered (set_cur s0 (Some (minus_file s0, plus_file s0)))).
  assert (handled s1 = None) as -> by (subst s1 s0; proj; exact Hh).
  assert (cur s1 = Some (minus_file s0, plus_file s0)) as Hcur by (subst s1; proj; reflexivity).
  rewrite Hcur. cbn [opt_text_pair_eqb negb]. unfold after_plus. fold s0. fold s1. rewrite Hcur. reflexivity.
Qed.

Lemma idh_after_plus i P s : in_diff_header (after_plus i P s) = in_diff_header s.
Proof. unfold after_plus, write_file_header, in_diff_header. cbv zeta. proj. reflexivity. Qed.

Lemma step_plus c s i y P : color_only c = false -> in_diff_header s = true -> source_git s = true ->
  mnemonic y = true -> ends_with [tab] P = false -> handled s = None ->
  step c s (i, plus_line y P) = emit (after_plus i P s).
Proof.
  intros Hc Hd Hg Hy Ht Hh. unfold step. rewrite Hg. unfold handlers.
  set (s1 := after_plus i P s).
  assert (Hd1 : in_diff_header s1 = true) by (subst s1; rewrite idh_after_plus; exact Hd).
  rewrite (rh_skip _ _ _ _ _ _ _ (pl_commit i c y P s)), (rh_skip _ _ _ _ _ _ _ (pl_diff i c y P s)),
    (rh_skip _ _ _ _ _ _ _ (pl_fileop i c y P s)), (rh_skip _ _ _ _ _ _ _ (pl_minus i c y P s)),
    (rh_skip _ _ _ _ _ _ _ (pl_plus i c y P s Hc Hd Hg Hy Ht Hh)).
  fold s1.
  rewrite (rh_skip _ _ _ _ _ _ _ (pl_hh i c y P s1)),
    (rh_skip _ _ _ _ _ _ _ (pl_mode i c y P s1)), (rh_skip _ _ _ _ _ _ _ (pl_misc i c y P s1)),
    (rh_skip _ _ _ _ _ _ _ (any_hunk i c _ s1 (in_hunk_header_false s1 Hd1))).
  change (run_handlers [h_tail_emit] i c (plus_line y P) s1) with (emit s1, false). cbv iota beta.
  unfold should_skip. rewrite idh_emit, Hd1, Hc. reflexivity.
Qed.

(* ---- "diff --git x/P y/P" *)
Definition after_diff (i : nat) (c : cfg) (x y : N) (P : text) (s : sm) : sm :=
  let s0 := if source_git s then s else set_source s true in
  let s1 := set_state (paint_buffered s0) SDiffHeader in
  let s2 := set_diff_line (set_handled (pending i c s1) None) (git_diff_line x y P) in
  set_cur (set_minus_ev (set_plus_file (set_minus_file s2 P) P) Change) (Some (P, P)).

Lemma df_commit i c x y P s : h_commit i c (git_diff_line x y P) s = (s, false). Proof. hs. reflexivity. Qed.

Lemma name_of_diff x y P : mnemonic x = true -> mnemonic y = true -> ends_with [tab] P = false ->
  name_of_diff_line (git_diff_line x y P) = P.
Proof. intros Hx Hy Ht. unfold name_of_diff_line. unfold git_diff_line. rewrite (diff_line_path x y P Hx Hy Ht). reflexivity. Qed.

Lemma detect_git_diff x y P : detect_git (git_diff_line x y P) = true.
Proof. reflexivity. Qed.

Lemma step_diff c s i x y P : color_only c = false ->
  mnemonic x = true -> mnemonic y = true -> ends_with [tab] P = false ->
  step c s (i, git_diff_line x y P) = after_diff i c x y P s.
Proof.
  intros Hc Hx Hy Ht. unfold step. rewrite detect_git_diff.
  set (s0 := if source_git s then s else set_source s true). unfold handlers.
  rewrite (rh_skip _ _ _ _ _ _ _ (df_commit i c x y P s0)).
  assert (Hd : h_diff i c (git_diff_line x y P) s0 = (after_diff i c x y P s, true)).
  { unfold h_diff. replace (starts_with (lit "diff "%string) (git_diff_line x y P)) with true by reflexivity.
    cbv zeta. rewrite (name_of_diff x y P Hx Hy Ht). unfold should_skip.
    assert (in_diff_header
      (set_cur (set_minus_ev (set_plus_file (set_minus_file
        (set_diff_line (set_handled (pending i c (set_state (paint_buffered s0) SDiffHeader)) None) (git_diff_line x y P)) P) P) Change)
        (Some (P, P))) = true) as ->.
    { unfold in_diff_header. proj.
      unfold pending. destruct (negb (in_diff_header (set_state (paint_buffered s0) SDiffHeader))) eqn:E.
      - unfold in_diff_header in E. proj. cbn in E. discriminate.
      - clear E. cbv zeta.
        destruct (negb (is_empty (mode_info (emit (set_state (paint_buffered s0) SDiffHeader))))).
        + unfold write_file_header. proj. reflexivity.
        + destruct (negb (color_only c) && _); [unfold write_file_header; proj; reflexivity | proj; reflexivity]. }
    rewrite Hc. cbn [negb andb]. unfold after_diff. fold s0. reflexivity. }
  rewrite (rh_claim _ _ _ _ _ _ _ Hd). reflexivity.
Qed.

(* ---- the section *)
Lemma mode_info_pending i c s : in_diff_header s = true -> mode_info (pending i c s) = [].
Proof.
  intros Hd. unfold pending. rewrite Hd. cbn [negb]. cbv zeta.
  destruct (is_empty (mode_info (emit s))) eqn:E; cbn [negb].
  - assert (Hm : mode_info (emit s) = []) by (destruct (mode_info (emit s)); [reflexivity | discriminate]).
    destruct (negb (color_only c) && _).
    + unfold write_file_header. proj. reflexivity.
    + exact Hm.
  - unfold write_file_header. proj. reflexivity.
Qed.

Lemma all_items_hm s v w : all_items (set_handled (set_mode_info s v) w) = all_items s.
Proof. unfold all_items, painted. autorewrite with proj. reflexivity. Qed.
Lemma all_items_minus s p ev : all_items (set_minus_ev (set_minus_file s p) ev) = all_items s.
Proof. unfold all_items, painted. autorewrite with proj. reflexivity. Qed.
Lemma all_items_cur_plus s p v : all_items (set_cur (set_plus_file s p) v) = all_items s.
Proof. unfold all_items, painted. autorewrite with proj. reflexivity. Qed.

(* ---- the three lines after the diff line, from a state about which only facts are known *)
Lemma chain_from c sa i x y P : color_only c = false -> mnemonic x = true -> mnemonic y = true ->
  ends_with [tab] P = false ->
  in_diff_header sa = true -> source_git sa = true -> handled sa = None -> mode_info sa = [] ->
  let s' := fold_left (step c) [(S i, index_line); (S (S i), minus_line x P); (S (S (S i)), plus_line y P)] sa in
  all_items s' = all_items sa ++ [(S (S (S i)), IFileHeader P [])] /\
  handled s' = Some (P, P) /\ in_diff_header s' = true.
Proof.
  intros Hc Hx Hy Ht Ha1 Ha2 Ha3 Ha5. cbn [fold_left].
  rewrite (step_index c sa (S i) Hc Ha1 Ha2).
  set (sb := emit sa).
  assert (Hb1 : in_diff_header sb = true) by (subst sb; rewrite idh_emit; exact Ha1).
  assert (Hb2 : source_git sb = true) by (subst sb; autorewrite with proj; exact Ha2).
  rewrite (step_minus c sb (S (S i)) x P Hc Hb1 Hb2 Hx Ht).
  set (sc := emit (paint_buffered (set_minus_ev (set_minus_file sb P) Change))).
  assert (Hc1 : in_diff_header sc = true) by (subst sc; rewrite idh_emit, idh_set_minus; exact Hb1).
  assert (Hc2 : source_git sc = true) by (subst sc; autorewrite with proj; exact Hb2).
  assert (Hc3 : handled sc = None) by (subst sc sb; autorewrite with proj; exact Ha3).
  rewrite (step_plus c sc (S (S (S i))) y P Hc Hc1 Hc2 Hy Ht Hc3).
  assert (Hmf : minus_file sc = P) by (subst sc; autorewrite with proj; reflexivity).
  assert (Hmi : mode_info sc = []) by (subst sc sb; autorewrite with proj; exact Ha5).
  assert (Hit : all_items sc = all_items sa).
  { subst sc. rewrite all_items_emit, all_items_paint, all_items_minus. subst sb. apply all_items_emit. }
  clearbody sc. clear sb Hb1 Hb2.
  unfold after_plus. cbv zeta.
  set (s0' := set_plus_file sc P).
  set (s1' := paint_buffered (set_cur s0' (Some (minus_file s0', plus_file s0')))).
  assert (Hmf' : minus_file s0' = P) by (subst s0'; autorewrite with proj; exact Hmf).
  assert (Hpf' : plus_file s0' = P) by (subst s0'; autorewrite with proj; reflexivity).
  assert (Hdesc : describe s1' = P).
  { unfold describe. assert (minus_file s1' = P) as -> by (subst s1'; autorewrite with proj; exact Hmf').
    assert (plus_file s1' = P) as -> by (subst s1'; autorewrite with proj; exact Hpf').
    rewrite text_eqb_refl. reflexivity. }
  rewrite Hdesc.
  assert (Hcur : cur s1' = Some (P, P)) by (subst s1'; autorewrite with proj; rewrite Hmf', Hpf'; reflexivity).
  rewrite Hcur.
  assert (Hm1 : mode_info (emit s1') = []) by (subst s1' s0'; autorewrite with proj; exact Hmi).
  assert (Hq : quiet (emit s1')).
  { destruct (emit_spec s1') as (_ & _ & Em & Ep & _).
    destruct (quiet_paint (set_cur s0' (Some (minus_file s0', plus_file s0')))) as [Q1 Q2].
    fold s1' in Q1, Q2. split; congruence. }
  assert (Hbuf : buf (emit s1') = []) by (destruct (emit_spec s1') as (_ & Eb & _); exact Eb).
  assert (Hit1 : all_items s1' = all_items sa).
  { subst s1'. rewrite all_items_paint. subst s0'. rewrite all_items_cur_plus. exact Hit. }
  assert (Hd1' : in_diff_header s1' = true).
  { subst s1' s0'. rewrite idh_paint. unfold in_diff_header. autorewrite with proj. exact Hc1. }
  clearbody s1'. clear s0' Hmf' Hpf'.
  split; [|split].
  - rewrite all_items_emit. unfold write_file_header. rewrite Hm1.
    rewrite all_items_hm, (all_items_write _ _ Hbuf Hq), all_items_emit, Hit1. reflexivity.
  - autorewrite with proj. reflexivity.
  - rewrite idh_emit. unfold in_diff_header, write_file_header. autorewrite with proj. exact Hd1'.
Qed.

Lemma sg_pending i c s : source_git (pending i c s) = source_git s.
Proof.
  unfold pending. destruct (negb (in_diff_header s)); [reflexivity|]. cbv zeta.
  destruct (negb (is_empty _)); [unfold write_file_header; autorewrite with proj; reflexivity|].
  destruct (negb (color_only c) && _); [unfold write_file_header; autorewrite with proj; reflexivity |
                                        autorewrite with proj; reflexivity].
Qed.

Lemma idh_pending i c s : in_diff_header (pending i c s) = in_diff_header s.
Proof.
  unfold pending. destruct (negb (in_diff_header s)) eqn:E; [reflexivity|]. cbv zeta.
  destruct (negb (is_empty _)); [unfold write_file_header, in_diff_header; autorewrite with proj; reflexivity|].
  destruct (negb (color_only c) && _); [unfold write_file_header, in_diff_header; autorewrite with proj; reflexivity |
                                        unfold in_diff_header; autorewrite with proj; reflexivity].
Qed.

Lemma after_diff_facts fl L P :
  let sa := set_cur (set_minus_ev (set_plus_file (set_minus_file (set_diff_line (set_handled fl None) L) P) P) Change) (Some (P, P)) in
  in_diff_header sa = in_diff_header fl /\ source_git sa = source_git fl /\ handled sa = None /\
  mode_info sa = mode_info fl /\ all_items sa = all_items fl.
Proof.
  cbv zeta. split; [unfold in_diff_header; autorewrite with proj; reflexivity|].
  split; [autorewrite with proj; reflexivity|]. split; [autorewrite with proj; reflexivity|].
  split; [autorewrite with proj; reflexivity|]. unfold all_items, painted. autorewrite with proj. reflexivity.
Qed.

Lemma fl_cons {A B} (f : A -> B -> A) (x : B) r (a : A) : fold_left f (x :: r) a = fold_left f r (f a x).
Proof. reflexivity. Qed.

Section OneHeader.
  Variables (c : cfg) (s : sm) (i : nat) (x y : N) (P : text).
  Hypothesis Hc : color_only c = false.
  Hypothesis Hx : mnemonic x = true.
  Hypothesis Hy : mnemonic y = true.
  Hypothesis Ht : ends_with [tab] P = false.

  Definition flushed : sm :=
    pending i c (set_state (paint_buffered (if source_git s then s else set_source s true)) SDiffHeader).

  Lemma sa_facts : let sa := after_diff i c x y P s in
                   in_diff_header sa = true /\ source_git sa = true /\ handled sa = None /\
                   mode_info sa = [] /\ all_items sa = all_items flushed.
  Proof.
    cbv zeta. unfold after_diff, flushed.
    set (s0 := if source_git s then s else set_source s true).
    set (s1 := set_state (paint_buffered s0) SDiffHeader).
    assert (Hd1 : in_diff_header s1 = true) by (subst s1; unfold in_diff_header; autorewrite with proj; reflexivity).
    assert (Hs0 : source_git s0 = true)
      by (subst s0; destruct (source_git s) eqn:E; [exact E | autorewrite with proj; reflexivity]).
    assert (Hs1 : source_git s1 = true) by (subst s1; autorewrite with proj; exact Hs0).
    clearbody s1. clear s0 Hs0.
    pose proof (idh_pending i c s1) as G1. pose proof (sg_pending i c s1) as G2.
    pose proof (mode_info_pending i c s1 Hd1) as G3.
    set (fl := pending i c s1) in *. clearbody fl.
    destruct (after_diff_facts fl (git_diff_line x y P) P) as (F1 & F2 & F3 & F4 & F5). cbv zeta in *.
    rewrite F1, F2, F3, F4, F5, G1, G2, G3. repeat split; assumption.
  Qed.

  (* From ANY state, the four lines of a modified-file section add — after whatever the previous
     section still had pending — exactly one item: the file header naming P; the section's pair is
     then marked handled, so no further header can follow for it. *)
  Theorem mod_section_one_header :
    let s' := steps c (number_from i [git_diff_line x y P; index_line; minus_line x P; plus_line y P]) s in
    all_items s' = all_items flushed ++ [(S (S (S i)), IFileHeader P [])] /\
    handled s' = Some (P, P) /\ in_diff_header s' = true.
  Proof.
    destruct sa_facts as (Ha1 & Ha2 & Ha3 & Ha5 & Ha6).
    unfold steps. cbn [number_from]. rewrite fl_cons.
    rewrite (step_diff c s i x y P Hc Hx Hy Ht).
    rewrite <- Ha6.
    pose proof (chain_from c (after_diff i c x y P s) i x y P Hc Hx Hy Ht Ha1 Ha2 Ha3 Ha5) as H.
    cbv zeta in H. exact H.
  Qed.
End OneHeader.
