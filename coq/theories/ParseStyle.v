(* Style strings (src/parse_style.rs parse_ansi_term_style, src/style.rs Display) at the
   level of words: the string has been lower-cased, split at whitespace and stripped of
   quotes, and each colour word has been resolved to a colour (C12).  The word-level lexer
   is part of the correspondence harness; colours come from src/color.rs parse_color. *)
From Coq Require Import List Bool NArith Arith.
Import ListNotations.
From DV Require Import AnsiTerm.

Inductive attr := ABlink | ABold | ADim | AHidden | AItalic | AReverse | AStrike | AUl.

Inductive word :=
| WAttr (a : attr)
| WOmit | WRaw
| WHunkFlag                      (* line-number | file | omit-code-fragment *)
| WSyntax | WAuto
| WColor (c : option color).     (* "normal" = None *)

Record pstyle := mkP { sty : style; omitted : bool; israw : bool; syntax : bool }.

Inductive presult := POk (p : pstyle) | PErr (why : nat).
(* why: 1 = 'syntax' used as background, 2 = more than two colours *)

Definition set_attr (a : attr) (s : style) : style :=
  match a with
  | ABlink => set_blink s | ABold => set_bold s | ADim => set_dim s | AHidden => set_hid s
  | AItalic => set_ital s | AReverse => set_rev s | AStrike => set_strike s | AUl => set_ul s
  end.

(* loop state of parse_ansi_term_style *)
Record pst := mkS {
  cur : style; seen_fg : bool; seen_bg : bool; fg_auto : bool; bg_auto : bool;
  seen_omit : bool; seen_raw : bool; p_omit : bool; p_raw : bool; p_syntax : bool }.

Definition pinit : pst := mkS plain false false false false false false false false false.

Definition dflt_fg (d : option pstyle) : option color := match d with Some p => fg (sty p) | None => None end.
Definition dflt_bg (d : option pstyle) : option color := match d with Some p => bg (sty p) | None => None end.
Definition dflt_syntax (d : option pstyle) : bool := match d with Some p => syntax p | None => false end.
Definition dflt_omit (d : option pstyle) : bool := match d with Some p => omitted p | None => false end.
Definition dflt_raw (d : option pstyle) : bool := match d with Some p => israw p | None => false end.

Definition pstep (d : option pstyle) (s : pst) (w : word) : pst + nat :=
  match w with
  | WAttr a => inl (mkS (set_attr a (cur s)) (seen_fg s) (seen_bg s) (fg_auto s) (bg_auto s)
                        (seen_omit s) (seen_raw s) (p_omit s) (p_raw s) (p_syntax s))
  | WOmit => inl (mkS (cur s) (seen_fg s) (seen_bg s) (fg_auto s) (bg_auto s)
                      true (seen_raw s) true (p_raw s) (p_syntax s))
  | WRaw => inl (mkS (cur s) (seen_fg s) (seen_bg s) (fg_auto s) (bg_auto s)
                     (seen_omit s) true (p_omit s) true (p_syntax s))
  | WHunkFlag => inl s
  | _ =>
    if negb (seen_fg s) then
      match w with
      | WSyntax => inl (mkS (cur s) true (seen_bg s) (fg_auto s) (bg_auto s)
                            (seen_omit s) (seen_raw s) (p_omit s) (p_raw s) true)
      | WAuto => inl (mkS (set_fg (dflt_fg d) (cur s)) true (seen_bg s) true (bg_auto s)
                          (seen_omit s) (seen_raw s) (p_omit s) (p_raw s) (dflt_syntax d))
      | WColor c => inl (mkS (set_fg c (cur s)) true (seen_bg s) (fg_auto s) (bg_auto s)
                             (seen_omit s) (seen_raw s) (p_omit s) (p_raw s) (p_syntax s))
      | _ => inl s
      end
    else if negb (seen_bg s) then
      match w with
      | WSyntax => inr 1
      | WAuto => inl (mkS (set_bg (dflt_bg d) (cur s)) (seen_fg s) true (fg_auto s) true
                          (seen_omit s) (seen_raw s) (p_omit s) (p_raw s) (p_syntax s))
      | WColor c => inl (mkS (set_bg c (cur s)) (seen_fg s) true (fg_auto s) (bg_auto s)
                             (seen_omit s) (seen_raw s) (p_omit s) (p_raw s) (p_syntax s))
      | _ => inl s
      end
    else inr 2
  end.

Fixpoint ploop (d : option pstyle) (s : pst) (ws : list word) : pst + nat :=
  match ws with
  | [] => inl s
  | w :: r => match pstep d s w with inl s' => ploop d s' r | inr e => inr e end
  end.

Definition pfinish (d : option pstyle) (s : pst) : pstyle :=
  let both := fg_auto s && bg_auto s in
  mkP (cur s)
      (if both && negb (seen_omit s) then dflt_omit d else p_omit s)
      (if both && negb (seen_raw s) then dflt_raw d else p_raw s)
      (p_syntax s).

Definition parse (d : option pstyle) (ws : list word) : presult :=
  match ploop d pinit ws with inl s => POk (pfinish d s) | inr e => PErr e end.

(* ---- Display for Style *)
Definition b2w (b : bool) (w : word) : list word := if b then [w] else [].

Definition display (p : pstyle) : list word :=
  if israw p then [WRaw] else
  b2w (omitted p) WOmit ++
  b2w (blink (sty p)) (WAttr ABlink) ++ b2w (bold (sty p)) (WAttr ABold) ++
  b2w (dim (sty p)) (WAttr ADim) ++ b2w (hid (sty p)) (WAttr AHidden) ++
  b2w (ital (sty p)) (WAttr AItalic) ++ b2w (rev (sty p)) (WAttr AReverse) ++
  b2w (strike (sty p)) (WAttr AStrike) ++ b2w (ul (sty p)) (WAttr AUl) ++
  [if syntax p then WSyntax else WColor (fg (sty p))] ++
  match bg (sty p) with Some c => [WColor (Some c)] | None => [] end.
