(* GrepLine::expand_tabs (src/handlers/grep.rs): tabs of the code are expanded and every
   submatch offset is shifted by the growth of the line — exact when the tabs are leading. *)
From Coq Require Import List Bool Arith Lia.
Import ListNotations.

Definition TAB := 9.
Definition SPACE := 32.

Definition expand_tabs (w : nat) (l : list nat) : list nat :=
  flat_map (fun b => if Nat.eqb b TAB then repeat SPACE w else [b]) l.

(* code.len().saturating_sub(old_len) *)
Definition shift (w : nat) (l : list nat) : nat := length (expand_tabs w l) - length l.

Definition shift_submatch (w : nat) (l : list nat) (se : nat * nat) : nat * nat :=
  (fst se + shift w l, snd se + shift w l).

Definition span (l : list nat) (se : nat * nat) : list nat := firstn (snd se - fst se) (skipn (fst se) l).

Lemma expand_no_tabs w l : Forall (fun b => b <> TAB) l -> expand_tabs w l = l.
Proof.
  induction 1 as [|b r Hb _ IH]; [reflexivity|]. cbn.
  destruct (Nat.eqb_spec b TAB); [contradiction|]. cbn. f_equal. exact IH.
Qed.

Lemma expand_leading w k rest : Forall (fun b => b <> TAB) rest ->
  expand_tabs w (repeat TAB k ++ rest) = repeat SPACE (k * w) ++ rest.
Proof.
  intros Hr. unfold expand_tabs. rewrite flat_map_app. fold (expand_tabs w rest). rewrite (expand_no_tabs w rest Hr).
  f_equal. induction k as [|k IH]; [reflexivity|]. cbn [repeat flat_map]. rewrite Nat.eqb_refl, IH.
  cbn [Nat.mul]. rewrite repeat_app. reflexivity.
Qed.

Lemma skipn_app_ge {A} (a b : list A) n : length a <= n -> skipn n (a ++ b) = skipn (n - length a) b.
Proof.
  revert n. induction a as [|x a IH]; intros n H; cbn in *; [rewrite Nat.sub_0_r; reflexivity|].
  destruct n; [lia|]. cbn. apply IH. lia.
Qed.

(* with tabs only in the leading indentation, a submatch that lies after the indentation
   selects the same text in the expanded line once shifted *)
Theorem shifted_span_exact w k rest se : 1 <= w -> Forall (fun b => b <> TAB) rest ->
  k <= fst se ->
  span (expand_tabs w (repeat TAB k ++ rest)) (shift_submatch w (repeat TAB k ++ rest) se) =
  span (repeat TAB k ++ rest) se.
Proof.
  intros Hw Hr Hk. unfold span, shift_submatch, shift. cbn [fst snd].
  rewrite (expand_leading w k rest Hr). rewrite !app_length, !repeat_length.
  assert (Hs : k * w + length rest - (k + length rest) = k * w - k) by nia.
  rewrite Hs.
  replace (snd se + (k * w - k) - (fst se + (k * w - k))) with (snd se - fst se) by lia.
  f_equal.
  rewrite skipn_app_ge by (rewrite repeat_length; nia).
  rewrite skipn_app_ge by (rewrite repeat_length; lia).
  rewrite !repeat_length. f_equal. nia.
Qed.
