From Coq Require Import List NArith Bool Lia.
Import ListNotations.
From DV Require Import AnsiTerm.
Local Open Scope N_scope.
Arguments N.add : simpl never.
Arguments N.sub : simpl never.

(* chain of setters that [prefix_codes e] performs *)
Definition chain (e s : style) : style :=
  let s := if bold e then set_bold s else s in
  let s := if dim e then set_dim s else s in
  let s := if ital e then set_ital s else s in
  let s := if ul e then set_ul s else s in
  let s := if blink e then set_blink s else s in
  let s := if rev e then set_rev s else s in
  let s := if hid e then set_hid s else s in
  let s := if strike e then set_strike s else s in
  let s := match bg e with Some c => set_bg (Some c) s | None => s end in
  match fg e with Some c => set_fg (Some c) s | None => s end.

Lemma apply_fg c r s : wf_color c -> apply_sgr (fg_codes c ++ r) s = apply_sgr r (set_fg (Some c) s).
Proof.
  intros Hc. destruct c as [n|n|a b d]; cbn [fg_codes bg_codes app apply_sgr wf_color] in *.
  - assert (E: forall k, (30 + n =? k) = false -> True) by auto.
    replace (30 + n =? 0) with false by (symmetry; apply N.eqb_neq; lia).
    replace (30 + n =? 1) with false by (symmetry; apply N.eqb_neq; lia).
    replace (30 + n =? 2) with false by (symmetry; apply N.eqb_neq; lia).
    replace (30 + n =? 3) with false by (symmetry; apply N.eqb_neq; lia).
    replace (30 + n =? 4) with false by (symmetry; apply N.eqb_neq; lia).
    replace (30 + n =? 5) with false by (symmetry; apply N.eqb_neq; lia).
    replace (30 + n =? 6) with false by (symmetry; apply N.eqb_neq; lia).
    replace (30 + n =? 7) with false by (symmetry; apply N.eqb_neq; lia).
    replace (30 + n =? 8) with false by (symmetry; apply N.eqb_neq; lia).
    replace (30 + n =? 9) with false by (symmetry; apply N.eqb_neq; lia).
    replace (30 <=? 30 + n) with true by (symmetry; apply N.leb_le; lia).
    replace (30 + n <=? 37) with true by (symmetry; apply N.leb_le; lia).
    cbn [andb orb]. replace (30 + n - 30) with n by lia. reflexivity.
  - reflexivity.
  - reflexivity.
Qed.
Lemma apply_bg c r s : wf_color c -> apply_sgr (bg_codes c ++ r) s = apply_sgr r (set_bg (Some c) s).
Proof.
  intros Hc. destruct c as [n|n|a b d]; cbn [fg_codes bg_codes app apply_sgr wf_color] in *.
  - replace (40 + n =? 0) with false by (symmetry; apply N.eqb_neq; lia).
    replace (40 + n =? 1) with false by (symmetry; apply N.eqb_neq; lia).
    replace (40 + n =? 2) with false by (symmetry; apply N.eqb_neq; lia).
    replace (40 + n =? 3) with false by (symmetry; apply N.eqb_neq; lia).
    replace (40 + n =? 4) with false by (symmetry; apply N.eqb_neq; lia).
    replace (40 + n =? 5) with false by (symmetry; apply N.eqb_neq; lia).
    replace (40 + n =? 6) with false by (symmetry; apply N.eqb_neq; lia).
    replace (40 + n =? 7) with false by (symmetry; apply N.eqb_neq; lia).
    replace (40 + n =? 8) with false by (symmetry; apply N.eqb_neq; lia).
    replace (40 + n =? 9) with false by (symmetry; apply N.eqb_neq; lia).
    replace (30 <=? 40 + n) with true by (symmetry; apply N.leb_le; lia).
    replace (40 + n <=? 37) with false by (symmetry; apply N.leb_gt; lia).
    replace (40 <=? 40 + n) with true by (symmetry; apply N.leb_le; lia).
    replace (40 + n <=? 47) with true by (symmetry; apply N.leb_le; lia).
    cbn [andb orb]. replace (40 + n - 40) with n by lia. reflexivity.
  - reflexivity.
  - reflexivity.
Qed.

Lemma prefix_codes_chain e s : wf_style e -> apply_sgr (prefix_codes e) s = chain e s.
Proof.
  intros [Hf Hb]. unfold prefix_codes, chain.
  destruct e as [f b bo di it u bl rv hi st]; simpl in *.
  destruct bo, di, it, u, bl, rv, hi, st; cbn [b2l app apply_sgr N.eqb Pos.eqb orb andb N.leb];
  (destruct b as [cb|]; [rewrite (apply_bg cb) by exact Hb|]; simpl app;
   (destruct f as [cf|]; [rewrite <- (app_nil_r (fg_codes cf)); rewrite (apply_fg cf) by exact Hf|]; reflexivity)).
Qed.

Lemma chain_fields e s :
  chain e s = mk (match fg e with Some c => Some c | None => fg s end)
                 (match bg e with Some c => Some c | None => bg s end)
                 (bold s || bold e) (dim s || dim e) (ital s || ital e) (ul s || ul e)
                 (blink s || blink e) (rev s || rev e) (hid s || hid e) (strike s || strike e).
Proof.
  destruct e as [f b bo di it u bl rv hi st], s as [f' b' bo' di' it' u' bl' rv' hi' st'].
  unfold chain; cbn.
  destruct bo, di, it, u, bl, rv, hi, st, f, b; cbn; rewrite ?orb_true_r, ?orb_false_r; reflexivity.
Qed.

Lemma chain_plain s : chain s plain = s.
Proof. rewrite chain_fields. destruct s as [f b bo di it u bl rv hi st]; cbn. destruct f, b; reflexivity. Time Qed.

Lemma is_plain_true s : is_plain s = true -> s = plain.
Proof. apply style_eqb_eq. Time Qed.

Lemma decode_prefix s st r : wf_style s ->
  decode st (prefix s ++ r) = decode (chain s st) r.
Proof.
  intros W. unfold prefix. destruct (is_plain s) eqn:E.
  - apply is_plain_true in E. subst s. cbn [app]. rewrite chain_fields. destruct st; cbn. rewrite !orb_false_r. reflexivity.
  - cbn [app decode]. unfold sgr. rewrite prefix_codes_chain by exact W. reflexivity.
Qed.

Lemma wf_extra a b e : wf_style b -> between a b = Extra e -> wf_style e.
Proof.
  intros [Wf Wb]. unfold between. destruct (style_eqb a b); [discriminate|].
  match goal with |- (if ?c then _ else _) = _ -> _ => destruct c end; [discriminate|].
  intro H; inversion H; subst; clear H. split; cbn.
  - destruct (ocolor_eqb (fg a) (fg b)); auto.
  - destruct (ocolor_eqb (bg a) (bg b)); auto.
Qed.

Lemma lost_field x y : lost x y = false -> x || xorb x y = y.
Proof. destruct x, y; cbn; congruence. Time Qed.
Lemma color_field fa fb :
  (match fa with Some _ => match fb with Some _ => false | None => true end | None => false end) = false ->
  match (if ocolor_eqb fa fb then None else fb) with Some c => Some c | None => fa end = fb.
Proof.
  intros H. destruct (ocolor_eqb_spec fa fb) as [E|NE]; [exact E|].
  destruct fb as [c|]; [reflexivity|]. destruct fa; [discriminate|congruence].
Qed.
Lemma between_extra a b e : between a b = Extra e -> chain e a = b.
Proof.
  unfold between. destruct (style_eqb a b); [discriminate|].
  match goal with |- (if ?c then _ else _) = _ -> _ => destruct c eqn:L end; [discriminate|].
  intro H; inversion H; subst; clear H. rewrite chain_fields; cbn [fg bg bold dim ital ul blink rev hid strike].
  repeat (apply orb_false_elim in L; destruct L as [L ?]).
  destruct b as [f' b' bo' di' it' u' bl' rv' hi' st']; cbn [fg bg bold dim ital ul blink rev hid strike] in *.
  f_equal. all: try (apply lost_field; assumption).
  - exact (color_field _ _ H0).
  - exact (color_field _ _ H).
Qed.

Lemma between_nodiff a b : between a b = NoDiff -> a = b.
Proof.
  unfold between. destruct (style_eqb a b) eqn:E; [intros _; apply style_eqb_eq; exact E|].
  match goal with |- (if ?c then _ else _) = _ -> _ => destruct c end; discriminate.
Qed.

Theorem strings_tail_correct : forall l prev,
  Forall (fun p => wf_style (fst p)) l ->
  decode prev (strings_tail prev l) = (l, plain).
Proof.
  induction l as [|[s t] r IH]; intros prev W.
  - cbn. destruct (is_plain prev) eqn:E; cbn; [apply is_plain_true in E; subst; reflexivity | reflexivity].
  - inversion W as [|? ? Ws Wr]; subst. cbn [fst] in Ws. cbn [strings_tail].
    destruct (between prev s) eqn:B.
    + rewrite decode_prefix by (eapply wf_extra; eauto).
      rewrite (between_extra _ _ _ B). cbn [decode]. rewrite IH by exact Wr. reflexivity.
    + cbn [app decode]. unfold RESET. cbn [decode sgr apply_sgr N.eqb].
      change (RESET :: prefix s ++ Txt t :: strings_tail s r) with ([RESET] ++ prefix s ++ Txt t :: strings_tail s r) in *.
      rewrite decode_prefix by exact Ws. rewrite chain_plain. cbn [decode]. rewrite IH by exact Wr. reflexivity.
    + apply between_nodiff in B; subst. cbn [app decode]. rewrite IH by exact Wr. reflexivity.
Qed.

Theorem ansi_strings_balanced : forall l,
  Forall (fun p => wf_style (fst p)) l ->
  decode plain (ansi_strings l) = (l, plain).
Proof.
  intros [|[s t] r] W; [reflexivity|].
  inversion W as [|? ? Ws Wr]; subst. cbn [fst] in Ws. cbn [ansi_strings].
  rewrite decode_prefix by exact Ws. rewrite chain_plain. cbn [decode].
  rewrite strings_tail_correct by exact Wr. reflexivity.
Qed.

