(* C05 corollary: in the unified view the old-file numbers shown grow strictly down the hunk
   (no two rows show the same old-file line), and likewise the new-file numbers. *)
From Coq Require Import List Bool NArith Arith Lia.
Import ListNotations.
From DV Require Import LineNo LineNoFacts.
Local Open Scope N_scope.

Definition is_old (k : kind) : bool := match k with KMinus | KZero => true | _ => false end.
Definition is_new (k : kind) : bool := match k with KPlus | KZero => true | _ => false end.

Lemma olds_app a k b : is_old k = true -> olds (a ++ k :: b) = olds a + 1 + olds b.
Proof.
  intros H. unfold olds. rewrite filter_app, app_length. cbn [filter].
  unfold is_old in H. rewrite H. cbn [length]. lia.
Qed.
Lemma news_app a k b : is_new k = true -> news (a ++ k :: b) = news a + 1 + news b.
Proof.
  intros H. unfold news. rewrite filter_app, app_length. cbn [filter].
  unfold is_new in H. rewrite H. cbn [length]. lia.
Qed.

Theorem unified_old_increasing : forall pre k1 mid k2 post l r,
  is_old k1 = true -> is_old k2 = true ->
  let out := run_unified (l, r) (pre ++ k1 :: mid ++ k2 :: post) in
  exists a b, option_map fst (nth_error out (length pre)) = Some (Some a) /\
              option_map fst (nth_error out (length (pre ++ k1 :: mid))) = Some (Some b) /\ a < b.
Proof.
  intros pre k1 mid k2 post l r H1 H2. cbv zeta.
  exists (l + olds pre), (l + olds (pre ++ k1 :: mid)). split; [|split].
  - rewrite unified_numbers. destruct k1; try discriminate; reflexivity.
  - replace (pre ++ k1 :: mid ++ k2 :: post) with ((pre ++ k1 :: mid) ++ k2 :: post)
      by (rewrite <- app_assoc; reflexivity).
    rewrite unified_numbers. destruct k2; try discriminate; reflexivity.
  - rewrite (olds_app pre k1 mid H1). lia.
Qed.

Theorem unified_new_increasing : forall pre k1 mid k2 post l r,
  is_new k1 = true -> is_new k2 = true ->
  let out := run_unified (l, r) (pre ++ k1 :: mid ++ k2 :: post) in
  exists a b, option_map snd (nth_error out (length pre)) = Some (Some a) /\
              option_map snd (nth_error out (length (pre ++ k1 :: mid))) = Some (Some b) /\ a < b.
Proof.
  intros pre k1 mid k2 post l r H1 H2. cbv zeta.
  exists (r + news pre), (r + news (pre ++ k1 :: mid)). split; [|split].
  - rewrite unified_numbers. destruct k1; try discriminate; reflexivity.
  - replace (pre ++ k1 :: mid ++ k2 :: post) with ((pre ++ k1 :: mid) ++ k2 :: post)
      by (rewrite <- app_assoc; reflexivity).
    rewrite unified_numbers. destruct k2; try discriminate; reflexivity.
  - rewrite (news_app pre k1 mid H1). lia.
Qed.
