(* src/wrapping.rs wrap_minusplus_block: after wrapping, the alignment of removed and added
   lines is rebuilt over the wrapped rows — C07 (every line once per side, in order; paired lines
   share a row).  An alignment entry names original line indices; a row names wrapped-row
   indices per side. *)
From Coq Require Import List Bool Arith Lia.
Import ListNotations.

Inductive ent := EL (m : nat) | ER (p : nat) | EB (m p : nat).
Inductive row := RL (i : nat) | RR (j : nat) | RB (i j : nat).

(* state: next expected original indices (the code asserts them), next wrapped-row indices *)
Fixpoint realign (al : list ent) (wm wp : list nat) (me pe ms ps : nat) : option (list row) :=
  match al with
  | [] => Some []
  | EL m :: r =>
      match wm with
      | k :: wm' => if Nat.eqb m me
                    then option_map (app (map RL (seq ms k))) (realign r wm' wp (S me) pe (ms + k) ps)
                    else None
      | [] => None
      end
  | ER p :: r =>
      match wp with
      | k :: wp' => if Nat.eqb p pe
                    then option_map (app (map RR (seq ps k))) (realign r wm wp' me (S pe) ms (ps + k))
                    else None
      | [] => None
      end
  | EB m p :: r =>
      match wm, wp with
      | km :: wm', kp :: wp' =>
          if Nat.eqb m me && Nat.eqb p pe then
            let both := map (fun i => RB (ms + i) (ps + i)) (seq 0 (Nat.min km kp)) in
            let extra := if Nat.ltb kp km then map RL (seq (ms + kp) (km - kp))
                         else map RR (seq (ps + km) (kp - km)) in
            option_map (app (both ++ extra)) (realign r wm' wp' (S me) (S pe) (ms + km) (ps + kp))
          else None
      | _, _ => None
      end
  end.

Definition lefts (rows : list row) : list nat :=
  flat_map (fun r => match r with RL i => [i] | RB i _ => [i] | RR _ => [] end) rows.
Definition rights (rows : list row) : list nat :=
  flat_map (fun r => match r with RR j => [j] | RB _ j => [j] | RL _ => [] end) rows.

Fixpoint nleft (al : list ent) : nat := match al with [] => 0 | ER _ :: r => nleft r | _ :: r => S (nleft r) end.
Fixpoint nright (al : list ent) : nat := match al with [] => 0 | EL _ :: r => nright r | _ :: r => S (nright r) end.

(* the alignment the painter produces: original indices in order on both sides *)
Fixpoint ordered (al : list ent) (me pe : nat) : bool :=
  match al with
  | [] => true
  | EL m :: r => Nat.eqb m me && ordered r (S me) pe
  | ER p :: r => Nat.eqb p pe && ordered r me (S pe)
  | EB m p :: r => Nat.eqb m me && Nat.eqb p pe && ordered r (S me) (S pe)
  end.

Definition total (l : list nat) : nat := fold_right Nat.add 0 l.
