(* Which differ `delta FILE_A FILE_B` starts (src/subcommands/diff.rs build_diff_cmd): `git diff
   --no-index`, unless git is older than 2.42 (or absent) and an operand comes from process
   substitution (/dev/fd/N, /proc/self/fd/N) — git < 2.42 would diff the link, not the content; then
   plain `diff`.  The guard is translated from the source on every run (GenDiffer.v) — C18. *)
From Coq Require Import Bool NArith.
Local Open Scope N_scope.

Definition version := (N * N)%type.
Definition version_ge (a b : version) : bool :=
  (fst b <? fst a) || ((fst a =? fst b) && (snd b <=? snd a)).
