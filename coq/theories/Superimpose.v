(* src/paint.rs superimpose_style_sections (explode / zip / coalesce) and Painter::get_syntax —
   C15.  A diff style is (foreground, background, attributes, asks-for-syntax); a syntect style
   is an optional foreground (None = the null style: no highlighting). *)
From Coq Require Import List Bool NArith Arith.
Import ListNotations.

Record dstyle := mkD { fg : option N; bg : option N; attrs : N; syn : bool }.
Definition sstyle := option N.

Definition dstyle_eqb (a b : dstyle) : bool :=
  match fg a, fg b with Some x, Some y => N.eqb x y | None, None => true | _, _ => false end &&
  match bg a, bg b with Some x, Some y => N.eqb x y | None, None => true | _, _ => false end &&
  N.eqb (attrs a) (attrs b) && Bool.eqb (syn a) (syn b).
Definition sstyle_eqb (a b : sstyle) : bool :=
  match a, b with Some x, Some y => N.eqb x y | None, None => true | _, _ => false end.

Definition ch := N.

Definition explode {S} (secs : list (S * list ch)) : list (S * ch) :=
  flat_map (fun sc => map (fun c => (fst sc, c)) (snd sc)) secs.

Fixpoint zip {A B} (a : list A) (b : list B) : list (A * B) :=
  match a, b with x :: a', y :: b' => (x, y) :: zip a' b' | _, _ => [] end.

(* the two annotations must describe the same text; otherwise the line is shown without
   syntax highlighting (the repaired behaviour) *)
Definition agree (s : list (sstyle * ch)) (d : list (dstyle * ch)) : bool :=
  forallb (fun p => N.eqb (snd (fst p)) (snd (snd p))) (zip s d).

Definition pairs (s : list (sstyle * ch)) (d : list (dstyle * ch)) : list ((sstyle * dstyle) * ch) :=
  let s' := if agree s d then s else map (fun x => (None, snd x)) d in
  map (fun p => ((fst (fst p), fst (snd p)), snd (fst p))) (zip s' d).

Definition pair_eqb (a b : sstyle * dstyle) : bool := sstyle_eqb (fst a) (fst b) && dstyle_eqb (snd a) (snd b).

(* maximal runs of equal style pairs *)
Fixpoint coalesce (l : list ((sstyle * dstyle) * ch)) : list ((sstyle * dstyle) * list ch) :=
  match l with
  | [] => []
  | (p, c) :: r =>
      match coalesce r with
      | (p', s) :: rest => if pair_eqb p p' then (p, c :: s) :: rest else (p, [c]) :: (p', s) :: rest
      | [] => [(p, [c])]
      end
  end.

Definition make_style (p : sstyle * dstyle) : dstyle :=
  match fst p with
  | Some f => if syn (snd p) then mkD (Some f) (bg (snd p)) (attrs (snd p)) (syn (snd p)) else snd p
  | None => snd p
  end.

Definition NL : ch := 10%N.

Fixpoint strip_last_nl (l : list (dstyle * list ch)) : list (dstyle * list ch) :=
  match l with
  | [] => []
  | [(st, s)] => [(st, match rev s with c :: r => if N.eqb c NL then rev r else s | [] => s end)]
  | x :: r => x :: strip_last_nl r
  end.

Definition superimpose_raw (syntax : list (sstyle * list ch)) (diff : list (dstyle * list ch)) : list (dstyle * list ch) :=
  map (fun ps => (make_style (fst ps), snd ps)) (coalesce (pairs (explode syntax) (explode diff))).

Definition superimpose (syntax : list (sstyle * list ch)) (diff : list (dstyle * list ch)) : list (dstyle * list ch) :=
  strip_last_nl (superimpose_raw syntax diff).

(* what a terminal shows: per character (char, fg, bg, attrs) *)
Definition cells (out : list (dstyle * list ch)) : list (ch * option N * option N * N) :=
  map (fun sc => (snd sc, fg (fst sc), bg (fst sc), attrs (fst sc))) (explode out).

(* ---- language selection (Painter::get_syntax): `lookup` is syntect's table of
   extensions and whole names; `fallback` the configured default language *)
Section Syntax.
  Variable L : Type.
  Variable lookup : list ch -> option L.
  Variable fallback : option L.
  Variable builtin : L.

  Definition get_syntax (whole_name_first : bool) (min_len : nat) (file_name ext : list ch) : L :=
    let found :=
      if negb (match ext with [] => true | _ => false end) || Nat.ltb min_len (length file_name) then
        if whole_name_first
        then match lookup file_name with Some l => Some l | None => lookup ext end
        else match lookup ext with Some l => Some l | None => lookup file_name end
      else None in
    match found with
    | Some l => l
    | None => match fallback with Some l => l | None => builtin end
    end.
End Syntax.
