(* The side-by-side adjustment of the removed-line styles in set_options (src/options/set.rs,
   "make minus-line styles have syntax-highlighting iff side-by-side"): with side-by-side on, the
   default `normal <bg>` of minus-style / minus-emph-style becomes `syntax <bg>` — unless the user
   gave the option on the command line.  Which command-line key guards which option is read from the
   source on every run (GenSbs.v) — C13 (a command-line value is the effective value). *)
From Coq Require Import List Bool NArith String.
Import ListNotations.
From DV Require Import Text.

Inductive sopt := MinusStyle | MinusEmphStyle.

Definition sopt_eqb (a b : sopt) : bool :=
  match a, b with MinusStyle, MinusStyle | MinusEmphStyle, MinusEmphStyle => true | _, _ => false end.

(* `normal X` -> `syntax X`; anything else is left alone *)
Definition to_syntax (v : text) : text :=
  match strip_prefix (lit "normal ") v with
  | Some rest => lit "syntax " ++ rest
  | None => v
  end.

Section Adjust.
  (* the key whose presence on the command line switches the rewrite of option o off *)
  Variable guard : sopt -> sopt.
  (* user_supplied_option(key, arg_matches) *)
  Variable supplied : sopt -> bool.

  Definition adjust (side_by_side : bool) (o : sopt) (v : text) : text :=
    if side_by_side && negb (supplied (guard o)) then to_syntax v else v.
End Adjust.

Lemma adjust_keeps_supplied guard supplied sbs o v :
  guard o = o -> supplied o = true -> adjust guard supplied sbs o v = v.
Proof.
  intros Hg Hs. unfold adjust. rewrite Hg, Hs. now rewrite andb_false_r.
Qed.

Lemma adjust_off guard supplied o v : adjust guard supplied false o v = v.
Proof. reflexivity. Qed.

Lemma to_syntax_other v : strip_prefix (lit "normal ") v = None -> to_syntax v = v.
Proof. intros H. unfold to_syntax. now rewrite H. Qed.

(* the guard matters: when the rewrite of minus-emph-style looks at the key of minus-style, a
   command-line `normal 88` becomes `syntax 88` *)
Example wrong_guard_overrides_command_line :
  let guard := fun _ : sopt => MinusStyle in
  let supplied := fun o => sopt_eqb o MinusEmphStyle in
  adjust guard supplied true MinusEmphStyle (lit "normal 88") = lit "syntax 88".
Proof. reflexivity. Qed.
