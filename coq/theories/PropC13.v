(* C13 — option values resolve by the documented precedence.  Statements only, over the model
   of gather_features / get_option_value (Options.v), for every table of built-in features. *)
From Coq Require Import List Bool NArith.
Import ListNotations.
From DV Require Import Options OptionsFacts OptionsTerm GenFeatures.

(* the structure read from the current tree: features are examined in sorted order (the
   repaired defect F11 was a hash-map order here), side-by-side enables line-numbers *)
Lemma C13_code_structure :
  flags_examined_in_sorted_order = true /\ assoc 7%N builtin_children = Some [4%N] /\
  builtin_names = [0; 1; 2; 3; 4; 5; 6; 7]%N.
Proof. repeat split. Qed.

Theorem C13_cli_wins : forall builtins order fuel c gc d v,
  c_value c = Some v -> resolve builtins order fuel c gc d = v.
Proof. exact cli_wins. Qed.

Theorem C13_main_section_beats_features : forall builtins order fuel c gc d v,
  c_value c = None -> c_no_gitconfig c = false -> sec_value (main gc) = Some v ->
  resolve builtins order fuel c gc d = v.
Proof. exact main_section_beats_features. Qed.

Theorem C13_env_parameter_overrides_file : forall s v, s_env_value s = Some v -> sec_value s = Some v.
Proof. exact env_parameter_overrides_file. Qed.

Theorem C13_highest_priority_feature_wins : forall builtins gc hi f lo v,
  Forall (fun g => feature_value builtins gc g = None) hi -> feature_value builtins gc f = Some v ->
  from_features builtins gc (hi ++ f :: lo) = Some v.
Proof. exact highest_priority_feature_wins. Qed.

Theorem C13_custom_section_beats_builtin : forall builtins gc f v,
  sec_value (sec_of gc f) = Some v -> feature_value builtins gc f = Some v.
Proof. exact custom_section_beats_builtin_of_same_name. Qed.

Theorem C13_features_then_default : forall builtins order fuel c gc d,
  c_value c = None -> c_no_gitconfig c = false -> sec_value (main gc) = None ->
  resolve builtins order fuel c gc d =
  match from_features builtins gc (rev (gather builtins order fuel c gc)) with Some v => v | None => d end.
Proof. exact resolve_from_features. Qed.

Theorem C13_default_last : forall builtins order fuel c gc d,
  c_value c = None -> c_no_gitconfig c = false -> sec_value (main gc) = None ->
  Forall (fun f => feature_value builtins gc f = None) (rev (gather builtins order fuel c gc)) ->
  resolve builtins order fuel c gc d = d.
Proof. exact default_last. Qed.

Theorem C13_no_gitconfig_ignores : forall builtins order fuel c gc d,
  c_no_gitconfig c = true ->
  resolve builtins order fuel c gc d =
  resolve builtins order fuel (without_flag c) (mkGc empty_section []) d.
Proof. exact no_gitconfig_ignores. Qed.

(* the model is a function: the same sources always give the same result (the iteration
   orders it depends on are the fixed lists above) *)
Theorem C13_deterministic : forall builtins order fuel c gc d,
  resolve builtins order fuel c gc d = resolve builtins order fuel c gc d.
Proof. reflexivity. Qed.

(* gathering terminates: the recursion over feature lists (which may mention each other, or
   themselves) is bounded by the number of distinct names — any two fuels above it give the
   same result, so the model's fuel never decides an answer *)
Theorem C13_gathering_terminates : forall builtins order U c gc n m,
  (forall f b, assoc f builtins = Some b -> In f U) -> NoDup U ->
  (forall f s, assoc f (custom gc) = Some s -> In f U) ->
  S (length U) < n -> S (length U) < m ->
  gather builtins order n c gc = gather builtins order m c gc.
Proof. exact gather_enough_fuel. Qed.

(* The side-by-side adjustment of the removed-line styles happens after resolution (set_options):
   the guards read from the current tree test each option's own command-line key ... *)
From Coq Require Import String.
From DV Require Import Text SbsStyles GenSbs.

Theorem C13_sbs_guards_own_key : forall o, code_guard o = o.
Proof. intros []; reflexivity. Qed.

(* ... so a value given on the command line is left exactly as given, whatever enabled side-by-side;
   with side-by-side off nothing is rewritten; and only values of the form `normal X` ever are *)
Theorem C13_sbs_keeps_command_line_value : forall supplied sbs o v,
  supplied o = true -> adjust code_guard supplied sbs o v = v.
Proof. intros supplied sbs o v. exact (adjust_keeps_supplied code_guard supplied sbs o v (C13_sbs_guards_own_key o)). Qed.

Theorem C13_sbs_off_no_rewrite : forall supplied o v, adjust code_guard supplied false o v = v.
Proof. exact (adjust_off code_guard). Qed.

Theorem C13_sbs_rewrites_only_normal : forall v, strip_prefix (lit "normal "%string) v = None -> to_syntax v = v.
Proof. exact to_syntax_other. Qed.
