(* C09 — output lines are self-contained terminal text.  Statements only. *)
From Coq Require Import List Bool NArith.
Import ListNotations.
From DV Require Import AnsiTerm AnsiTermProofs Trunc TruncFacts.

(* ansi_term's ANSIStrings, decoded by an independently written SGR interpreter: from the
   default rendition, any list of styled strings is shown string by string in exactly its
   style, and the terminal ends in the default rendition — for every list. *)
Theorem C09_ansistrings_balanced : forall l,
  Forall (fun p => wf_style (fst p)) l -> decode plain (ansi_strings l) = (l, plain).
Proof. exact ansi_strings_balanced. Qed.

(* the same from any rendition the previous run left *)
Theorem C09_strings_tail_balanced : forall l prev,
  Forall (fun p => wf_style (fst p)) l -> decode prev (strings_tail prev l) = (l, plain).
Proof. exact strings_tail_correct. Qed.

(* A line that ends with a reset ends in the default rendition, whatever precedes it:
   Painter::right_fill_background_color appends <fill prefix> ESC[0K ESC[0m. *)
Theorem C09_reset_terminated : forall ts st,
  snd (decode st (ts ++ [RESET])) = plain.
Proof.
  induction ts as [|t r IH]; intros st.
  - reflexivity.
  - destruct t as [ps|tx]; cbn [app decode].
    + apply IH.
    + specialize (IH st). destruct (decode st (r ++ [RESET])) as [cells fin]. exact IH.
Qed.

(* balanced pieces compose: rows are concatenations of painted runs *)
Theorem C09_balanced_concat : forall a b ca cb,
  decode plain a = (ca, plain) -> decode plain b = (cb, plain) ->
  decode plain (a ++ b) = (ca ++ cb, plain).
Proof.
  assert (G : forall a st b, decode st (a ++ b) =
            let '(c1, s1) := decode st a in let '(c2, s2) := decode s1 b in (c1 ++ c2, s2)).
  { induction a as [|t r IH]; intros st b; cbn [app decode].
    - destruct (decode st b); reflexivity.
    - destruct t as [ps|tx].
      + apply IH.
      + rewrite IH. destruct (decode st r) as [c1 s1]. destruct (decode s1 b) as [c2 s2]. reflexivity. }
  intros a b ca cb Ha Hb. rewrite G, Ha, Hb. reflexivity.
Qed.

(* ... any number of them: a row assembled from any list of balanced pieces shows exactly the
   pieces' cells in order and ends in the default rendition *)
Theorem C09_balanced_concat_all : forall pieces,
  Forall (fun p => decode plain (fst p) = (snd p, plain)) pieces ->
  decode plain (concat (map fst pieces)) = (concat (map snd pieces), plain).
Proof.
  induction pieces as [|[a ca] r IH]; intros H; [reflexivity|].
  inversion H as [|? ? Ha Hr]; subst. cbn [map concat fst snd] in *.
  apply C09_balanced_concat; [exact Ha | exact (IH Hr)].
Qed.

(* truncation (side-by-side panels, --max-line-length) keeps every escape sequence of the line,
   whole and in order, and adds those of the truncation mark only when it cuts: what was
   balanced before the cut stays balanced *)
Theorem C09_truncate_keeps_sequences : forall fill dw items tail,
  ansi_of (truncate_str fill dw items tail) =
  ansi_in items ++ (if Nat.leb (items_width items) dw then [] else ansi_in tail).
Proof. exact truncate_str_keeps_sequences. Qed.
