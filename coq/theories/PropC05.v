(* C05 — displayed line numbers are the true old/new file line numbers.  Statements only. *)
From Coq Require Import List Bool NArith.
Import ListNotations.
From DV Require Import LineNo LineNoFacts LineNoMono.
Local Open Scope N_scope.

(* Unified view: whatever precedes it in the hunk, the k-th painted line shows
   old start + (removed and unchanged lines before it) for removed lines,
   new start + (added and unchanged lines before it) for added lines, both for unchanged
   lines, and nothing on a continuation row. *)
Theorem C05_unified : forall pre k post l r,
  nth_error (run_unified (l, r) (pre ++ k :: post)) (length pre) =
  Some (match k with
        | KMinus => (Some (l + olds pre), None)
        | KPlus => (None, Some (r + news pre))
        | KZero => (Some (l + olds pre), Some (r + news pre))
        | KWrapped => (None, None)
        end).
Proof. exact unified_numbers. Qed.

(* Consequently the old-file numbers shown grow strictly down a hunk — no two rows show the same
   old-file line, whatever lies between them — and likewise the new-file numbers. *)
Theorem C05_unified_old_numbers_increase : forall pre k1 mid k2 post l r,
  is_old k1 = true -> is_old k2 = true ->
  let out := run_unified (l, r) (pre ++ k1 :: mid ++ k2 :: post) in
  exists a b, option_map fst (nth_error out (length pre)) = Some (Some a) /\
              option_map fst (nth_error out (length (pre ++ k1 :: mid))) = Some (Some b) /\ a < b.
Proof. exact unified_old_increasing. Qed.

Theorem C05_unified_new_numbers_increase : forall pre k1 mid k2 post l r,
  is_new k1 = true -> is_new k2 = true ->
  let out := run_unified (l, r) (pre ++ k1 :: mid ++ k2 :: post) in
  exists a b, option_map snd (nth_error out (length pre)) = Some (Some a) /\
              option_map snd (nth_error out (length (pre ++ k1 :: mid))) = Some (Some b) /\ a < b.
Proof. exact unified_new_increasing. Qed.

(* Side-by-side: for every sequence of rows (pairings and wrap counts of any shape) the row
   loop — left panel without increment, right panel with, placeholders painted in the opposite
   state, and the counter correction at the end of the loop body — shows each line's true
   number on the first row of that line on its own side, nothing on continuation rows and
   placeholder halves, and ends with the counters at start + lines per side. *)
Theorem C05_side_by_side : forall rows l r,
  forallb row_ok rows = true ->
  run_sbs (l, r) rows = (spec_sbs l r rows, (l + count_first fst rows, r + count_first snd rows)).
Proof. exact sbs_numbers. Qed.

(* Non-vacuity: a paired row, a wrapped removed line, an unpaired added line *)
Example C05_example :
  fst (run_sbs (10, 20) [(HFirst, HFirst); (HFirst, HNone); (HWrapped, HNone); (HNone, HFirst); (HFirst, HWrapped)]) =
  [(Some 10, Some 20); (Some 11, None); (None, None); (None, Some 21); (Some 12, None)].
Proof. vm_compute. reflexivity. Qed.

(* The path printed in a hunk header (when the hunk-header style includes it): the choice read from
   the current tree (GenHunkPath.v) prints the new name of the file the hunk belongs to — also for a
   renamed file — and the old name exactly when the new side is /dev/null (a deleted file). *)
From DV Require Import Text HunkPath GenHunkPath.

Theorem C05_hunk_header_path_is_new_name : forall old new,
  text_eqb new dev_null = false -> header_path code_tested code_on_null code_otherwise old new = new.
Proof. exact path_of_existing_file. Qed.

Theorem C05_hunk_header_path_of_deleted_file : forall old new,
  text_eqb new dev_null = true -> header_path code_tested code_on_null code_otherwise old new = old.
Proof. exact path_of_deleted_file. Qed.
