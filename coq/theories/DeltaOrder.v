(* Global order theorem for the line state machine (unified view, color_only = false):
   the history [all_items] is append-only along every execution, under one local side
   condition on the input (a mode line or a "Binary files" line does not arrive while
   removed/added lines are buffered — git prints those lines only in file headers). *)
From Coq Require Import String.
From Coq Require Import List Bool NArith Arith Lia.
Import ListNotations.
From DV Require Import Text Delta DeltaProj DeltaFacts.

Definition App (s t : sm) : Prop := exists d, all_items t = all_items s ++ d.

Lemma App_refl s : App s s.
Proof. exists []. rewrite app_nil_r. reflexivity. Qed.
Lemma App_trans a b c : App a b -> App b c -> App a c.
Proof. intros [d1 H1] [d2 H2]. exists (d1 ++ d2). rewrite H2, H1, app_assoc. reflexivity. Qed.
Lemma App_eq s t : all_items t = all_items s -> App s t.
Proof. intros H. exists []. rewrite H, app_nil_r. reflexivity. Qed.

Lemma App_paint s : App s (paint_buffered s).
Proof. apply App_eq, all_items_paint. Qed.
Lemma App_emit s : App s (emit s).
Proof. apply App_eq, all_items_emit. Qed.
Lemma App_write s it : buf s = [] -> quiet s -> App s (write s it).
Proof. intros Hb Hq. exists [it]. apply all_items_write; assumption. Qed.

(* buffers are non-empty only in hunk states *)
Definition MInv (s : sm) : Prop := in_hunk s = false -> quiet s.

Definition special (l : text) : bool :=
  starts_with (lit "old mode "%string) l || starts_with (lit "new mode "%string) l ||
  starts_with (lit "Binary files "%string) l.

Definition side (s : sm) (l : text) : Prop := special l = true -> quiet s.

Lemma quiet_emit s : quiet s -> quiet (emit s).
Proof. intros [A B]. destruct (emit_spec s) as (_ & _ & Hm & Hp & _). split; congruence. Qed.
Lemma quiet_write s it : quiet s -> quiet (write s it).
Proof. intros [A B]. destruct (write_spec s it) as (_ & _ & Hm & Hp & _). split; congruence. Qed.

Lemma wfh_facts i t s :
  buf s = [] -> quiet s ->
  App s (write_file_header i t s) /\ quiet (write_file_header i t s) /\
  state (write_file_header i t s) = state s /\ buf (write_file_header i t s) = [].
Proof.
  intros Hb Hq. unfold write_file_header. split; [|split; [|split]].
  - exists [(i, IFileHeader t (mode_info s))].
    change (all_items (write s (i, IFileHeader t (mode_info s))) = all_items s ++ [(i, IFileHeader t (mode_info s))]).
    apply all_items_write; assumption.
  - apply (quiet_write s (i, IFileHeader t (mode_info s)) Hq).
  - reflexivity.
  - exact Hb.
Qed.

Lemma pending_facts i c s :
  (in_diff_header s = true -> quiet s) ->
  App s (pending i c s) /\ (quiet s -> quiet (pending i c s)) /\
  state (pending i c s) = state s /\
  minus_lines (pending i c s) = minus_lines s /\ plus_lines (pending i c s) = plus_lines s.
Proof.
  intros Hq. unfold pending. destruct (in_diff_header s) eqn:E; cbn [negb].
  2: { split; [apply App_refl|]. split; [intros H; exact H|]. repeat split; reflexivity. }
  specialize (Hq eq_refl).
  assert (Qe : quiet (emit s)) by (apply quiet_emit; exact Hq).
  assert (Be : buf (emit s) = []) by apply emit_spec.
  assert (Se : state (emit s) = state s) by apply emit_spec.
  destruct (negb (is_empty (mode_info (emit s)))).
  - destruct (wfh_facts i (name_of_diff_line (diff_line (emit s))) (emit s) Be Qe) as (A & Q & S & _).
    split; [eapply App_trans; [apply App_emit|]; eapply App_trans; [exact A | apply App_eq; reflexivity]|].
    split; [intros _; exact Q|]. split; [cbn; congruence|].
    destruct Q as [Qm Qp]. destruct Hq as [Hm Hp]. split; cbn; congruence.
  - destruct (negb (color_only c) && negb (opt_text_pair_eqb (handled (emit s)) (cur (emit s)))).
    + destruct (wfh_facts i (describe (emit s)) (emit s) Be Qe) as (A & Q & S & _).
      split; [eapply App_trans; [apply App_emit|]; eapply App_trans; [exact A | apply App_eq; reflexivity]|].
      split; [intros _; exact Q|]. split; [cbn; congruence|].
      destruct Q as [Qm Qp]. destruct Hq as [Hm Hp]. split; cbn; congruence.
    + split; [apply App_emit|]. split; [intros _; exact Qe|]. split; [exact Se|].
      destruct (emit_spec s) as (_ & _ & Hm & Hp & _). split; assumption.
Qed.

Lemma emit_unchanged_facts i t s :
  quiet s ->
  App s (emit_unchanged i t s) /\ quiet (emit_unchanged i t s) /\
  state (emit_unchanged i t s) = state s.
Proof.
  intros Hq. unfold emit_unchanged.
  assert (Qe : quiet (emit s)) by (apply quiet_emit; exact Hq).
  split; [|split].
  - eapply App_trans; [apply App_emit|]. apply App_write; [apply emit_spec | exact Qe].
  - apply quiet_write. exact Qe.
  - destruct (write_spec (emit s) (i, IRaw t)) as (_ & _ & _ & _ & S). rewrite S. apply emit_spec.
Qed.

(* the invariant carried along every execution *)
Definition GI (s : sm) : Prop := MInv s /\ HInv s.

(* what each handler guarantees (color_only = false): the history only grows, the invariant
   is kept, and if the line is passed on, the side condition still holds for the next
   handler *)
Definition good (c : cfg) (h : handler) : Prop :=
  forall i l s, GI s -> side s l ->
    App s (fst (h i c l s)) /\ GI (fst (h i c l s)) /\
    (snd (h i c l s) = false -> side (fst (h i c l s)) l).

Ltac decline G Hs := split; [apply App_refl|]; split; [exact G|]; intros _; exact Hs.

Section Unified.
Variable c : cfg.
Hypothesis Hc : color_only c = false.

Lemma HInv_quiet s : quiet s -> HInv s.
Proof. intros [_ Hp]. unfold HInv. destruct (state s); auto. Qed.

Lemma GI_quiet s : quiet s -> GI s.
Proof. intros Q. split; [intros _; exact Q | apply HInv_quiet; exact Q]. Qed.

Lemma good_h_commit : good c h_commit.
Proof.
  intros i l s G Hs. unfold h_commit.
  destruct (starts_with (lit "commit "%string) l); cbn [fst snd].
  2: { decline G Hs. }
  assert (Qp : quiet (paint_buffered s)) by apply quiet_paint.
  destruct (pending_facts i c (paint_buffered s) (fun _ => Qp)) as (A & Q & S & _).
  specialize (Q Qp).
  split; [eapply App_trans; [apply App_paint|]; eapply App_trans; [exact A | apply App_eq; reflexivity]|].
  split; [apply GI_quiet; exact Q | intros _ _; exact Q].
Qed.

Lemma good_h_diff : good c h_diff.
Proof.
  intros i l s G Hs. unfold h_diff.
  destruct (starts_with (lit "diff "%string) l); cbn [fst snd].
  2: { decline G Hs. }
  set (s1 := set_state (paint_buffered s) SDiffHeader).
  assert (Q1 : quiet s1) by apply (quiet_paint s).
  destruct (pending_facts i c s1 (fun _ => Q1)) as (A & Q & S & _). specialize (Q Q1).
  cbv zeta.
  match goal with |- context [should_skip c ?x] =>
    assert (Hsk : should_skip c x = true) end.
  { unfold should_skip, in_diff_header. rewrite Hc. autorewrite with proj. rewrite S. reflexivity. }
  rewrite Hsk. cbn [fst snd].
  split; [|split; [apply GI_quiet; exact Q | discriminate]].
  eapply App_trans; [apply App_paint|]. eapply App_trans; [apply App_eq; reflexivity|].
  eapply App_trans; [exact A | apply App_eq; reflexivity].
Qed.

Lemma good_h_fileop : good c h_fileop.
Proof.
  intros i l s G Hs. unfold h_fileop. rewrite Hc.
  destruct (in_diff_header s && _); cbn [fst snd].
  2: { decline G Hs. }
  cbv zeta. cbn [fst snd].
  match goal with |- App s ?x /\ _ => assert (E : all_items x = all_items s /\ (quiet s -> quiet x) /\ state x = state s /\ plus_lines x = plus_lines s) end.
  { destruct (starts_with (lit "deleted file mode "%string) l);
      (split; [reflexivity|]; split; [intros Q; exact Q|]; split; reflexivity). }
  destruct E as (Ea & Eq & Es & Ep).
  split; [apply App_eq; exact Ea|]. split.
  - destruct G as [HM HH]. split.
    + unfold MInv, in_hunk. rewrite Es. intros H. apply Eq, HM. exact H.
    + unfold HInv. rewrite Es, Ep. exact HH.
  - intros _ Hsp. apply Eq, Hs, Hsp.
Qed.

(* setters that do not touch buffers or state keep everything we track *)
Lemma GI_same s t : state t = state s -> minus_lines t = minus_lines s -> plus_lines t = plus_lines s ->
  GI s -> GI t.
Proof.
  intros Es Em Ep [HM HH]. split.
  - unfold MInv, in_hunk, quiet. rewrite Es, Em, Ep. exact HM.
  - unfold HInv. rewrite Es, Ep. exact HH.
Qed.

Lemma good_h_minus : good c h_minus.
Proof.
  intros i l s G Hs. unfold h_minus. rewrite Hc.
  destruct (in_diff_header s); [|cbn [fst snd]; decline G Hs].
  match goal with |- context [match ?u with Some _ => _ | None => _ end] => destruct u as [[p ev]|] end;
    cbn [fst snd]; [|decline G Hs].
  match goal with |- context [paint_buffered ?x] =>
    assert (Q : quiet (paint_buffered x)) by apply quiet_paint;
    split; [eapply App_trans; [apply App_eq; reflexivity | apply (App_paint x)]|] end.
  split; [apply GI_quiet; exact Q | intros _ _; exact Q].
Qed.

Lemma good_h_plus : good c h_plus.
Proof.
  intros i l s G Hs. unfold h_plus. rewrite Hc.
  destruct (in_diff_header s); [|cbn [fst snd]; decline G Hs].
  match goal with |- context [match ?u with Some _ => _ | None => _ end] => destruct u as [p|] end;
    cbn [fst snd]; [|decline G Hs].
  cbv zeta.
  match goal with |- context [paint_buffered ?x] =>
    set (s1 := paint_buffered x);
    assert (Q : quiet s1) by apply quiet_paint;
    assert (A1 : App s s1) by (eapply App_trans; [apply App_eq; reflexivity | apply (App_paint x)]) end.
  destruct (negb (opt_text_pair_eqb (handled s1) (cur s1))); cbn [fst snd].
  - assert (Qe : quiet (emit s1)) by (apply quiet_emit; exact Q).
    assert (Be : buf (emit s1) = []) by apply emit_spec.
    destruct (wfh_facts i (describe s1) (emit s1) Be Qe) as (A & Q' & _ & _).
    split; [eapply App_trans; [exact A1|]; eapply App_trans; [apply App_emit|];
            eapply App_trans; [exact A | apply App_eq; reflexivity]|].
    split; [apply GI_quiet; exact Q' | intros _ _; exact Q'].
  - split; [exact A1|]. split; [apply GI_quiet; exact Q | intros _ _; exact Q].
Qed.

Lemma good_h_hunk_header : good c h_hunk_header.
Proof.
  intros i l s G Hs. unfold h_hunk_header.
  destruct (starts_with (lit "@@"%string) l); [|cbn [fst snd]; decline G Hs].
  destruct (parse_hunk_header l) as [[frag n]|]; cbn [fst snd]; [|decline G Hs].
  split; [apply App_eq; reflexivity|]. split; [|discriminate].
  split.
  - unfold MInv, in_hunk. autorewrite with proj. discriminate.
  - unfold HInv. autorewrite with proj. exact I.
Qed.

Lemma special_old l suf : strip_prefix (lit "old mode "%string) l = Some suf -> special l = true.
Proof.
  unfold strip_prefix, special. destruct (starts_with (lit "old mode "%string) l); [reflexivity | discriminate].
Qed.
Lemma special_new l suf : strip_prefix (lit "new mode "%string) l = Some suf -> special l = true.
Proof.
  unfold strip_prefix, special. destruct (starts_with (lit "new mode "%string) l);
    [intros _; apply orb_true_iff; left; apply orb_true_r | discriminate].
Qed.

Lemma good_h_mode : good c h_mode.
Proof.
  intros i l s G Hs. unfold h_mode. rewrite Hc. cbn [negb andb].
  destruct (strip_prefix (lit "old mode "%string) l) as [suf|] eqn:E1.
  - pose proof (Hs (special_old l suf E1)) as Q. cbn [fst snd].
    split; [apply App_eq; reflexivity|]. split; [apply GI_quiet; exact Q | discriminate].
  - destruct (strip_prefix (lit "new mode "%string) l) as [suf|] eqn:E2; [|cbn [fst snd]; decline G Hs].
    pose proof (Hs (special_new l suf E2)) as Q. cbv zeta.
    destruct (negb (is_empty (mode_info (set_state s SDiffHeader)))); cbn [fst snd].
    + split; [apply App_eq; reflexivity|]. split; [apply GI_quiet; exact Q | discriminate].
    + split; [apply App_eq; reflexivity|]. split; [apply GI_quiet; exact Q | intros _ _; exact Q].
Qed.

Lemma special_bin l : starts_with (lit "Binary files "%string) l = true -> special l = true.
Proof. intros H. unfold special. rewrite H. apply orb_true_r. Qed.

Lemma good_h_misc : good c h_misc.
Proof.
  intros i l s G Hs. unfold h_misc. rewrite Hc. cbn [negb].
  destruct (starts_with (lit "Binary files "%string) l) eqn:E; [|cbn [fst snd]; decline G Hs].
  pose proof (Hs (special_bin l E)) as Q.
  destruct (is_empty (minus_file s) && is_empty (plus_file s)); cbn [fst snd].
  - destruct (emit_unchanged_facts i l s Q) as (A & Q' & _).
    split; [eapply App_trans; [exact A | apply App_eq; reflexivity]|].
    split; [apply GI_quiet; exact Q' | discriminate].
  - cbv zeta.
    split; [apply App_eq; destruct (text_eqb (minus_file s) dev_null);
            match goal with |- context [text_eqb (plus_file ?x) dev_null] => destruct (text_eqb (plus_file x) dev_null) end; reflexivity|].
    split; [|discriminate]. apply GI_quiet.
    destruct (text_eqb (minus_file s) dev_null);
      match goal with |- context [text_eqb (plus_file ?x) dev_null] => destruct (text_eqb (plus_file x) dev_null) end; exact Q.
Qed.

Lemma h_hunk_any i l s :
  in_hunk s = true -> HInv s ->
  App s (fst (h_hunk i c l s)) /\ HInv (fst (h_hunk i c l s)) /\ in_hunk (fst (h_hunk i c l s)) = true.
Proof.
  intros Hh HI. rewrite (h_hunk_unfold i c l s Hh).
  destruct (hunk_pre_facts c s) as (Ha & Hs & Hq). specialize (Hq HI).
  set (s1 := hunk_pre c s) in *.
  assert (A1 : App s s1) by (eexists; exact Ha).
  cbv zeta.
  destruct (line_kind l);
    match goal with |- context [emit ?x] =>
      let Hp := fresh "Hp'" in let Hst := fresh "Hs'" in
      destruct (emit_spec x) as (_ & _ & _ & Hp & Hst);
      unfold HInv, in_hunk; rewrite Hst, Hp; clear Hp Hst;
      split; [eapply App_trans; [exact A1|]; eapply App_trans; [|apply (App_emit x)]|]
    end.
  - (* '-' *)
    assert (Hp : plus_lines (match state s1 with SHunkPlus => paint_buffered s1 | _ => s1 end) = []).
    { rewrite Hs. unfold in_hunk in Hh. destruct (state s) eqn:E; try discriminate; auto;
        try apply Hq; apply paint_buffered_spec. }
    eexists. rewrite all_items_set_state, all_items_app_minus by exact Hp.
    destruct (state s1); rewrite ?all_items_paint; reflexivity.
  - autorewrite with proj.
    assert (Hp : plus_lines (match state s1 with SHunkPlus => paint_buffered s1 | _ => s1 end) = []).
    { rewrite Hs. unfold in_hunk in Hh. destruct (state s) eqn:E; try discriminate; auto;
        try apply Hq; apply paint_buffered_spec. }
    auto.
  - (* '+' *) eexists. rewrite all_items_set_state, all_items_app_plus. reflexivity.
  - autorewrite with proj. auto.
  - (* ' ' *) eexists. rewrite all_items_set_state, all_items_app_buf_painted. reflexivity.
  - autorewrite with proj. destruct (paint_buffered_spec s1) as (_ & _ & _ & Hp & _). auto.
  - (* empty *) eexists. rewrite all_items_set_state, all_items_app_buf_painted. reflexivity.
  - autorewrite with proj. destruct (paint_buffered_spec s1) as (_ & _ & _ & Hp & _). auto.
  - (* other *) eexists. rewrite all_items_set_state, all_items_app_buf_painted. reflexivity.
  - autorewrite with proj. destruct (paint_buffered_spec s1) as (_ & _ & _ & Hp & _). auto.
Qed.

Lemma good_h_hunk : good c h_hunk.
Proof.
  intros i l s G Hs. destruct (in_hunk s) eqn:Hh.
  - destruct G as [HM HH]. destruct (h_hunk_any i l s Hh HH) as (A & HI & Hin).
    split; [exact A|]. split.
    + split; [intros H; rewrite Hin in H; discriminate | exact HI].
    + unfold h_hunk. rewrite Hh. discriminate.
  - unfold h_hunk. rewrite Hh. cbn [fst snd]. decline G Hs.
Qed.

Lemma good_h_tail : good c h_tail_emit.
Proof.
  intros i l s G Hs. unfold h_tail_emit. cbn [fst snd].
  destruct (emit_spec s) as (_ & _ & Hm & Hp & Hst).
  split; [apply App_emit|]. split.
  - apply (GI_same s (emit s) Hst Hm Hp G).
  - intros _ Hsp. apply quiet_emit, Hs, Hsp.
Qed.

Lemma good_run_handlers hs :
  (forall h, In h hs -> good c h) ->
  forall i l s, GI s -> side s l ->
    App s (fst (run_handlers hs i c l s)) /\ GI (fst (run_handlers hs i c l s)) /\
    (snd (run_handlers hs i c l s) = false -> side (fst (run_handlers hs i c l s)) l).
Proof.
  induction hs as [|h r IH]; intros Hg i l s G Hs; cbn [run_handlers].
  - cbn [fst snd]. decline G Hs.
  - destruct (Hg h (or_introl eq_refl) i l s G Hs) as (A & G' & S').
    destruct (h i c l s) as [s' cl]. cbn [fst snd] in *.
    destruct cl; cbn [fst snd].
    + split; [exact A|]. split; [exact G' | discriminate].
    + destruct (IH (fun h' Hin => Hg h' (or_intror Hin)) i l s' G' (S' eq_refl)) as (A2 & G2 & S2).
      split; [eapply App_trans; eassumption|]. split; assumption.
Qed.

Lemma good_handlers : forall h, In h handlers -> good c h.
Proof.
  intros h Hin. unfold handlers in Hin. cbn in Hin.
  repeat (destruct Hin as [<-|Hin];
    [auto using good_h_commit, good_h_diff, good_h_fileop, good_h_minus, good_h_plus,
       good_h_hunk_header, good_h_mode, good_h_misc, good_h_hunk, good_h_tail|]).
  contradiction.
Qed.

Lemma GI_set_source s v : GI s -> GI (set_source s v).
Proof. intros G. apply (GI_same s (set_source s v)); auto. Qed.

Lemma run_handlers_suffix pre suf i l : forall s s1,
  run_handlers (pre ++ suf) i c l s = (s1, false) ->
  exists s', run_handlers suf i c l s' = (s1, false).
Proof.
  induction pre as [|h r IH]; intros s s1 H; cbn [app run_handlers] in H.
  - exists s. exact H.
  - destruct (h i c l s) as [s' cl]. destruct cl; [discriminate|]. apply (IH s' s1 H).
Qed.

Lemma unclaimed_not_in_hunk i l s s1 :
  run_handlers handlers i c l s = (s1, false) -> in_hunk s1 = false.
Proof.
  intros H.
  change handlers with ([h_commit; h_diff; h_fileop; h_minus; h_plus; h_hunk_header; h_mode; h_misc]
                        ++ [h_hunk; h_tail_emit]) in H.
  destruct (run_handlers_suffix _ _ i l s s1 H) as (s' & H'). clear H.
  cbn [run_handlers] in H'. unfold h_hunk in H'.
  destruct (in_hunk s') eqn:E; [discriminate|].
  unfold h_tail_emit in H'. inversion H'. unfold in_hunk. 
  destruct (emit_spec s') as (_ & _ & _ & _ & Hst). rewrite Hst. exact E.
Qed.

(* One input line, any state satisfying the invariant: the history only grows. *)
Theorem step_append s i l :
  GI s -> side s l -> App s (step c s (i, l)) /\ GI (step c s (i, l)).
Proof.
  intros G Hs. unfold step.
  set (s0 := if source_git s then s else set_source s (detect_git l)).
  assert (G0 : GI s0) by (subst s0; destruct (source_git s); [exact G | apply GI_set_source; exact G]).
  assert (A0 : App s s0) by (subst s0; destruct (source_git s); [apply App_refl | apply App_eq; reflexivity]).
  assert (S0 : side s0 l) by (subst s0; destruct (source_git s); [exact Hs | exact Hs]).
  destruct (good_run_handlers handlers good_handlers i l s0 G0 S0) as (A & G' & S').
  pose proof (unclaimed_not_in_hunk i l s0) as Hu.
  destruct (run_handlers handlers i c l s0) as [s1 cl]. cbn [fst snd] in *.
  destruct cl; [split; [eapply App_trans; eassumption | exact G']|].
  destruct (should_skip c s1) eqn:Sk; [split; [eapply App_trans; eassumption | exact G']|].
  assert (Q : quiet s1) by (destruct G' as [HM _]; apply HM, (Hu s1 eq_refl)).
  destruct (emit_unchanged_facts i l s1 Q) as (A2 & Q2 & _).
  split; [eapply App_trans; [exact A0|]; eapply App_trans; eassumption | apply GI_quiet; exact Q2].
Qed.

(* The side condition along a whole input: checked line by line against the states the
   machine actually goes through. *)
Fixpoint sides (s : sm) (ls : list (nat * text)) : Prop :=
  match ls with
  | [] => True
  | il :: r => side s (snd il) /\ sides (step c s il) r
  end.

Theorem steps_append ls : forall s,
  GI s -> sides s ls -> App s (steps c ls s) /\ GI (steps c ls s).
Proof.
  induction ls as [|[i l] r IH]; intros s G Hs; cbn [steps fold_left].
  - split; [apply App_refl | exact G].
  - destruct Hs as [H1 H2]. destruct (step_append s i l G H1) as (A & G').
    destruct (IH _ G' H2) as (A2 & G2). split; [eapply App_trans; eassumption | exact G2].
Qed.

(* end of input flushes everything: the output is the whole history *)
Lemma finish_all i s : GI s -> out (finish i c s) = all_items (pending i c s) /\ App s (pending i c s).
Proof.
  intros [HM HH]. unfold finish.
  assert (Hq : in_diff_header s = true -> quiet s).
  { intros H. apply HM. unfold in_hunk. unfold in_diff_header in H. destruct (state s); auto; discriminate. }
  destruct (pending_facts i c s Hq) as (A & _). split; [|exact A].
  destruct (emit_spec (paint_buffered (pending i c s))) as (Ho & _).
  destruct (paint_buffered_spec (pending i c s)) as (Ho' & Hb' & _).
  rewrite Ho, Ho', Hb'. unfold all_items. reflexivity.
Qed.

Lemma GI_init : GI init.
Proof. apply GI_quiet. split; reflexivity. Qed.

Lemma sides_app a : forall s b, sides s (a ++ b) <-> sides s a /\ sides (steps c a s) b.
Proof.
  induction a as [|il r IH]; intros s b; cbn [app sides steps fold_left].
  - tauto.
  - rewrite IH. unfold steps. tauto.
Qed.

Lemma steps_app a b s : steps c (a ++ b) s = steps c b (steps c a s).
Proof. unfold steps. apply fold_left_app. Qed.

(* C01 end to end (model): wherever a hunk stands in the input, the final output contains
   its header item and then its body lines, once, contiguously, in input order, with only
   the marker column removed and tabs expanded. *)
Theorem hunk_in_final_output pre r frag n body post :
  let hdr := 64%N :: 64%N :: r in
  let input := pre ++ (hdr :: body) ++ post in
  parse_hunk_header hdr = Some (frag, n) ->
  Forall (fun l => body_line l = true) body -> body <> [] ->
  sides init (number_from 0 input) ->
  exists A B,
    run c input =
    A ++ [(length pre, IHunkHeader frag n hdr)] ++ render_body c (S (length pre)) body ++ B.
Proof.
  intros hdr input Hp Hf Hne Hs. subst input.
  unfold run. rewrite !number_from_app in *. cbn [plus] in *.
  rewrite !steps_app.
  apply sides_app in Hs. destruct Hs as [Hs1 Hs2]. apply sides_app in Hs2. destruct Hs2 as [Hs2 Hs3].
  match goal with |- context [finish ?k c (steps c ?l3 (steps c ?l2 ?s1))] =>
    destruct (steps_append _ init GI_init Hs1) as (A1 & G1);
    destruct (steps_append l2 s1 G1 Hs2) as (_ & G2);
    pose proof (hunk_once_in_order c s1 (length pre) r frag n body Hp Hf Hne) as H2;
    destruct (steps_append l3 (steps c l2 s1) G2 Hs3) as ([d3 A3] & G3);
    destruct (finish_all k (steps c l3 (steps c l2 s1)) G3) as (F & [d4 A4]);
    exists (all_items s1), (d3 ++ d4);
    rewrite F, A4, A3
  end.
  subst hdr. unfold text in *. rewrite H2. rewrite <- !app_assoc. reflexivity.
Qed.

(* decidable form of the side condition, for examples and for the harness *)
Definition quietb (s : sm) : bool :=
  match minus_lines s, plus_lines s with [], [] => true | _, _ => false end.
Definition sideb (s : sm) (l : text) : bool := negb (special l) || quietb s.
Fixpoint sidesb (s : sm) (ls : list (nat * text)) : bool :=
  match ls with
  | [] => true
  | il :: r => sideb s (snd il) && sidesb (step c s il) r
  end.

Lemma sidesb_sides ls : forall s, sidesb s ls = true -> sides s ls.
Proof.
  induction ls as [|il r IH]; intros s H; cbn [sidesb sides] in *; [exact I|].
  apply andb_true_iff in H. destruct H as [H1 H2]. split; [|apply IH; exact H2].
  unfold side, sideb in *. intros Hsp. rewrite Hsp in H1. cbn in H1.
  unfold quietb in H1. unfold quiet.
  destruct (minus_lines s); [|discriminate]. destruct (plus_lines s); [|discriminate]. auto.
Qed.

(* inputs without mode / binary lines satisfy it trivially *)
Lemma sides_no_special ls : forall s,
  Forall (fun il => special (snd il) = false) ls -> sides s ls.
Proof.
  induction ls as [|il r IH]; intros s H; cbn [sides]; [exact I|].
  inversion H as [|? ? H1 H2]; subst. split; [|apply IH; exact H2].
  intros Hsp. rewrite H1 in Hsp. discriminate.
Qed.
End Unified.
