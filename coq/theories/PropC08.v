(* C08 — git's default colouring is ignored.  Statements only, over the escape-sequence
   parser table regenerated from the crate linked into delta (GenVte.v). *)
From Coq Require Import List Bool NArith.
Import ListNotations.
From DV Require Import GenVte Vte VteFacts.
Local Open Scope N_scope.

(* Plain text — valid UTF-8 without ESC — is kept byte for byte, and the parser is back in
   its ground state after it. *)
Theorem C08_plain_text_kept : forall l, wf_text l = true -> run ground l = (ground, l).
Proof. exact run_plain. Qed.

(* An SGR sequence (ESC [ parameters m, including the empty reset ESC[m) contributes no text
   and returns to the ground state. *)
Theorem C08_sgr_invisible : forall ps,
  forallb is_param ps = true -> run ground (sgr_bytes ps) = (ground, []).
Proof. exact run_sgr. Qed.

(* Whatever SGR sequences are inserted between whole characters of a plain text, what
   ansi::strip_ansi_codes returns is the plain text: delta parses, measures, pairs and
   highlights the same line whether or not git coloured it. *)
Theorem C08_strip_colourise : forall segs,
  forallb seg_wf segs = true ->
  strip (concat (map seg_bytes segs)) = concat (map seg_text segs) /\
  fst (run vinit (concat (map seg_bytes segs))) = ground.
Proof. exact strip_colourise. Qed.

(* Non-vacuity: git's colouring of a removed line with a two-byte and a three-byte character *)
Example C08_example :
  strip ([27; 91; 51; 49; 109; 45; 27; 91; 109] ++ [27; 91; 51; 49; 109] ++ [97; 195; 169; 230; 151; 165] ++ [27; 91; 109])
  = [45; 97; 195; 169; 230; 151; 165].
Proof. vm_compute. reflexivity. Qed.

(* CRLF files: git's colouring separates the carriage return from the line feed.  The clean-up in
   ingest_line_utf8 has the shape Ingest.v models (pinned from the source on every run) ... *)
From DV Require Import Ingest IngestFacts GenIngest.

Theorem C08_cr_cleanup_is_modelled : cr_cleanup_is_modelled = true.
Proof. reflexivity. Qed.

(* ... and under it a line whose carriage return is followed by any number of SGR sequences (ESC[m,
   ESC[0m, a double reset, the reset of a whitespace-error highlight ...) is ingested as the same
   line without the carriage return — exactly what is read when the diff is not coloured *)
Theorem C08_coloured_crlf_is_plain : forall body pss,
  forallb (forallb is_param) pss = true ->
  drop_cr nothing_visible (body ++ Ingest.CR :: concat (map sgr_bytes pss)) = body ++ concat (map sgr_bytes pss).
Proof. exact coloured_crlf_is_plain. Qed.
