(* Pager selection and exit status (src/utils/bat/output.rs try_pager, bat's
   get_pager_executable as called from src/env.rs, src/main.rs run_app) — C18.
   A command word is abstracted to its file stem class and an identity. *)
From Coq Require Import List Bool Arith ZArith.
Import ListNotations.

Definition LESS := 0.
Definition MORE := 1.
Definition MOST := 2.
Definition SELF := 3.          (* the running binary: delta *)

Record word := mkWord { stem : nat; wid : nat }.
Definition less_word := mkWord LESS 0.

Inductive src := SConfig | SDeltaPager | SEnvPager | SDefault.

(* bat::config::get_pager_executable(None): BAT_PAGER, then PAGER (more / most / the running
   binary are replaced by less), then less — and only the binary is kept *)
Definition bat_exec (bat_pager pager : option (list word)) : option word :=
  match bat_pager, pager with
  | Some ws, _ => hd_error ws
  | None, Some ws =>
      match ws with
      | [] => None
      | b :: _ => if Nat.eqb (stem b) MORE || Nat.eqb (stem b) MOST || Nat.eqb (stem b) SELF
                  then Some less_word else Some b
      end
  | None, None => Some less_word
  end.

Record choice := mkChoice { cmd : list word; replace_args : bool; source : src }.

Definition choose (config delta_pager : option (list word)) (be : option word) : choice :=
  match config with
  | Some ws => mkChoice ws false SConfig
  | None =>
      match delta_pager with
      | Some ws => mkChoice ws false SDeltaPager
      | None => match be with
                | Some b => mkChoice [b] true SEnvPager
                | None => mkChoice [less_word] false SDefault
                end
      end
  end.

Inductive arg := AUser (w : word) | ARaw | ANoInit | AQuit.
Inductive outcome := Stdout | Fatal | Spawn (bin : word) (args : list arg).

Definition launch (resolvable : word -> bool) (auto old_less : bool) (c : choice) : outcome :=
  match cmd c with
  | [] => Stdout
  | b :: args =>
      if Nat.eqb (stem b) LESS then
        if resolvable b then
          Spawn b (match args, replace_args c with
                   | _ :: _, false => map AUser args
                   | _, _ => [ARaw] ++ (if old_less then [ANoInit] else []) ++ (if auto then [AQuit] else [])
                   end)
        else Stdout
      else if Nat.eqb (stem b) SELF then Fatal
      else if resolvable b then Spawn b (map AUser args) else Stdout
  end.

Definition select (resolvable : word -> bool) (auto old_less : bool)
                  (config delta_pager bat_pager pager : option (list word)) : outcome :=
  launch resolvable auto old_less (choose config delta_pager (bat_exec bat_pager pager)).

(* ---- exit status *)
Inductive call := CStdin | CDiff (status : Z) | CSub (status : option Z).
Inductive wres := WOk | WBrokenPipe | WOther.

Definition ERROR_EXIT : Z := 2.

Definition exit_status (c : call) (w : wres) : Z :=
  match w with
  | WBrokenPipe => 0
  | WOther => ERROR_EXIT
  | WOk => match c with
           | CStdin => 0
           | CDiff s => s
           | CSub (Some s) => s
           | CSub None => ERROR_EXIT
           end
  end%Z.
