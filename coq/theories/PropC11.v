(* C11 — output is streamed: bounded lag behind the input, never revised. *)
From Coq Require Import String.
From Coq Require Import List Bool NArith.
Import ListNotations.
From DV Require Import Text Delta DeltaFacts DeltaLag.

(* What has been written after any prefix of the input is a prefix both of what delta
   writes for that prefix on its own and of what it writes for the whole input. *)
Theorem C11_written_is_prefix : forall c (pre post : list text),
  let s := steps c (number_from 0 pre) init in
  (exists d, run c pre = out s ++ d) /\ (exists d, run c (pre ++ post) = out s ++ d).
Proof. exact written_is_prefix. Qed.

(* Whenever the last line received is a hunk body line — from any state, after any input —
   nothing rendered waits in the output buffer, and each of the two line buffers holds at
   most line_buffer_size + 1 lines. *)
Theorem C11_lag_bound : forall c s i l,
  in_hunk s = true -> body_line l = true ->
  let s' := step c s (i, l) in
  buf s' = [] /\ in_hunk s' = true /\
  length (minus_lines s') <= S (line_buffer_size c) /\
  length (plus_lines s') <= S (line_buffer_size c).
Proof. exact hunk_step_lag. Qed.

(* ... and so throughout a hunk body of any length: after every non-empty prefix of any run of
   body lines, from any in-hunk state, the same bound holds (no bound on the hunk's size). *)
Theorem C11_lag_bound_whole_hunk : forall c (ls : list (nat * text)) s,
  in_hunk s = true -> Forall (fun il => body_line (snd il) = true) ls ->
  forall pre post, ls = pre ++ post -> pre <> [] ->
  let s' := steps c pre s in
  buf s' = [] /\ in_hunk s' = true /\
  length (minus_lines s') <= S (line_buffer_size c) /\
  length (plus_lines s') <= S (line_buffer_size c).
Proof. exact hunk_body_lag. Qed.

(* the bound is reached: B = 1, two removed lines are both held *)
Example C11_bound_tight :
  let s := steps (mkCfg false 4 1)
             (number_from 0 [lit "@@ -1,2 +1,2 @@"%string; lit "-a"%string; lit "-b"%string]) init in
  length (minus_lines s) = 2 /\ buf s = [].
Proof. vm_compute. split; reflexivity. Qed.
