(* AmbiguousDiffMinusCounter (src/handlers/hunk_header.rs) and its use in handle_hunk_line /
   test_diff_header_minus_line: in plain `diff -u` output a removed line whose text begins
   with "-- " looks like a `--- ` file header; delta tells them apart by counting the old-file
   lines announced by the hunk header — C01 / C14.  Which line kinds are counted is read from
   the source on every run (GenCounter.v). *)
From Coq Require Import List Bool ZArith Lia.
Import ListNotations.
Local Open Scope Z_scope.

Definition RELEVANT_IF_GT : Z := -4096.

Inductive hkind := HMinus | HZero | HPlus | HOther.

(* three_dashes_expected: is a `--- ` line a file header now? *)
Definition three_dashes_expected (c : Z) : bool :=
  if RELEVANT_IF_GT <? c then c <=? 0 else true.

Definition must_count (c : Z) : bool := RELEVANT_IF_GT <? c.

(* count_from(lines) when the hunk header is read *)
Definition arm (c : Z) (old_lines : Z) : Z := if must_count c then old_lines else c.

Section Counter.
  (* the line kinds after which handle_hunk_line calls count_line() *)
  Variable counted : hkind -> bool.

  Definition count_line (c : Z) (k : hkind) : Z := if counted k then c - 1 else c.
  Definition after (c : Z) (ks : list hkind) : Z := fold_left count_line ks c.

  Definition n_counted (ks : list hkind) : Z := Z.of_nat (length (filter counted ks)).
End Counter.

(* the old-file lines of a hunk body: removed and unchanged ones *)
Definition is_old (k : hkind) : bool := match k with HMinus | HZero => true | _ => false end.
