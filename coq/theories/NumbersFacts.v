From Coq Require Import List Bool NArith Lia.
Import ListNotations.
From DV Require Import Numbers.
Local Open Scope N_scope.

Definition value (ds : list N) : N := fold_left (fun a d => a * 10 + d) ds 0.

Lemma fold_value_mono ds : forall a b, a <= b -> fold_left (fun a d => a * 10 + d) ds a <= fold_left (fun a d => a * 10 + d) ds b.
Proof. induction ds as [|d r IH]; intros a b H; cbn; [exact H | apply IH; lia]. Qed.

Lemma fold_value_ge ds : forall a, a <= fold_left (fun a d => a * 10 + d) ds a.
Proof.
  induction ds as [|d r IH]; intros a; cbn; [lia|].
  specialize (IH (a * 10 + d)). lia.
Qed.

Lemma parse_digits_spec ds : forall acc, acc <= USIZE_MAX ->
  match parse_digits acc ds with
  | Some n => n = fold_left (fun a d => a * 10 + d) ds acc /\ n <= USIZE_MAX
  | None => USIZE_MAX < fold_left (fun a d => a * 10 + d) ds acc
  end.
Proof.
  induction ds as [|d r IH]; intros acc Ha; cbn [parse_digits fold_left]; [split; [reflexivity | exact Ha]|].
  destruct (N.leb_spec (acc * 10 + d) USIZE_MAX) as [H|H].
  - apply IH; exact H.
  - pose proof (fold_value_ge r (acc * 10 + d)). lia.
Qed.

(* parse::<usize> succeeds exactly when the decimal value fits, and returns it *)
Theorem parse_usize_spec ds n : parse_usize ds = Some n <-> ds <> [] /\ value ds = n /\ n <= USIZE_MAX.
Proof.
  unfold parse_usize, value. destruct ds as [|d r].
  - split; [discriminate | intros [H _]; contradiction].
  - pose proof (parse_digits_spec (d :: r) 0 ltac:(unfold USIZE_MAX; lia)) as H.
    destruct (parse_digits 0 (d :: r)) as [m|].
    + destruct H as [H1 H2]. split.
      * intros E; inversion E; subst. split; [discriminate | split; [reflexivity | exact H2]].
      * intros (_ & E & _). rewrite <- E, <- H1. reflexivity.
    + split; [discriminate|]. intros (_ & E & L). rewrite E in H. lia.
Qed.

Theorem parse_usize_overflow ds : ds <> [] -> (parse_usize ds = None <-> USIZE_MAX < value ds).
Proof.
  intros Hne. unfold parse_usize, value. destruct ds as [|d r]; [contradiction|].
  pose proof (parse_digits_spec (d :: r) 0 ltac:(unfold USIZE_MAX; lia)) as H.
  destruct (parse_digits 0 (d :: r)) as [m|]; [|tauto].
  destruct H as [H1 H2]. split; [discriminate|]. rewrite <- H1. lia.
Qed.

Lemma parse_coord_range c n d : parse_coord c = Some (n, d) -> n <= USIZE_MAX /\ d <= USIZE_MAX.
Proof.
  unfold parse_coord. destruct (parse_usize (fst c)) as [m|] eqn:E; [|discriminate].
  apply parse_usize_spec in E. destruct E as (_ & _ & Hm).
  destruct (snd c) as [ds|].
  - destruct (parse_usize ds) as [k|] eqn:E2; [|discriminate].
    apply parse_usize_spec in E2. destruct E2 as (_ & _ & Hk).
    intros H; inversion H; subst. split; assumption.
  - intros H; inversion H; subst. split; [assumption | unfold USIZE_MAX; lia].
Qed.

Lemma parse_coords_range cs : forall l, parse_coords cs = Some l ->
  length l = length cs /\ Forall (fun x => fst x <= USIZE_MAX /\ snd x <= USIZE_MAX) l.
Proof.
  induction cs as [|c r IH]; intros l; cbn.
  - intros H; inversion H; subst. split; [reflexivity | constructor].
  - destruct (parse_coord c) as [[n d]|] eqn:E; [|discriminate].
    destruct (parse_coords r) as [xs|]; [|discriminate].
    intros H; inversion H; subst. destruct (IH xs eq_refl) as [Hl Hf]. split; [cbn; congruence|].
    constructor; [exact (parse_coord_range c n d E) | exact Hf].
Qed.

(* what the handler gets is never empty (the indexing [0] and [len-1] is in range) and every
   number fits a machine word *)
Theorem hunk_numbers_in_range cs l : parse_hunk_numbers cs = Some l ->
  l <> [] /\ length l = length cs /\ Forall (fun x => fst x <= USIZE_MAX /\ snd x <= USIZE_MAX) l.
Proof.
  unfold parse_hunk_numbers. destruct (parse_coords cs) as [xs|] eqn:E; [|discriminate].
  destruct (parse_coords_range cs xs E) as [Hl Hf].
  destruct xs; [discriminate|]. intros H; inversion H; subst. split; [discriminate | split; assumption].
Qed.

Theorem hunk_numbers_rejects cs : parse_hunk_numbers cs = None <->
  cs = [] \/ exists c, In c cs /\ parse_coord c = None.
Proof.
  unfold parse_hunk_numbers. split.
  - destruct (parse_coords cs) as [xs|] eqn:E.
    + destruct xs; [|discriminate]. intros _. left.
      destruct (parse_coords_range cs [] E) as [Hl _]. destruct cs; [reflexivity | discriminate].
    + intros _. right. revert E. induction cs as [|c r IH]; cbn; [discriminate|].
      destruct (parse_coord c) eqn:Ec.
      * destruct (parse_coords r) eqn:Er; [discriminate|]. intros _.
        destruct (IH eq_refl) as [c' [Hin Hc']]. exists c'. split; [right; exact Hin | exact Hc'].
      * intros _. exists c. split; [left; reflexivity | exact Ec].
  - intros [->|[c [Hin Hc]]]; [reflexivity|].
    assert (parse_coords cs = None) as ->; [|reflexivity].
    induction cs as [|c' r IH]; [contradiction|]. cbn. destruct Hin as [->|Hin].
    + rewrite Hc. reflexivity.
    + rewrite (IH Hin). destruct (parse_coord c'); reflexivity.
Qed.

Lemma sat_add_range a b : sat_add a b <= USIZE_MAX.
Proof. unfold sat_add. lia. Qed.

Lemma sat_add_exact a b : a + b <= USIZE_MAX -> sat_add a b = a + b.
Proof. unfold sat_add. lia. Qed.

Theorem hunk_max_range l : hunk_max l <= USIZE_MAX.
Proof.
  induction l as [|x r IH]; [unfold hunk_max, USIZE_MAX; cbn; lia|].
  change (hunk_max (x :: r)) with (N.max (sat_add (fst x) (snd x)) (hunk_max r)).
  pose proof (sat_add_range (fst x) (snd x)). lia.
Qed.

(* the line counters stay machine integers whatever the number of lines, and are exact
   until they reach the largest value *)
Theorem bump_range k : forall c, c <= USIZE_MAX -> bump k c <= USIZE_MAX.
Proof. induction k as [|k IH]; intros c H; cbn; [exact H | apply IH, sat_add_range]. Qed.

Theorem bump_exact k : forall c, c + N.of_nat k <= USIZE_MAX -> bump k c = c + N.of_nat k.
Proof.
  induction k as [|k IH]; intros c H; cbn [bump]; [lia|].
  rewrite sat_add_exact by lia. rewrite IH by lia. lia.
Qed.
