(* Line-number bookkeeping (src/features/line_numbers.rs linenumbers_and_styles,
   src/paint.rs paint_line's `increment`, src/features/side_by_side.rs the row loop with its
   left-counter correction) — C05. *)
From Coq Require Import List Bool NArith Arith Lia.
Import ListNotations.
Local Open Scope N_scope.

(* ---- unified view: lines are painted in history order *)
Inductive kind := KMinus | KPlus | KZero | KWrapped.   (* KWrapped: continuation row, no number *)

Definition shown := (option N * option N)%type.          (* old-file number, new-file number *)

Definition paint_unified (lr : N * N) (k : kind) : (N * N) * shown :=
  let (l, r) := lr in
  match k with
  | KMinus => ((l + 1, r), (Some l, None))
  | KPlus => ((l, r + 1), (None, Some r))
  | KZero => ((l + 1, r + 1), (Some l, Some r))
  | KWrapped => ((l, r), (None, None))
  end.

Fixpoint run_unified (lr : N * N) (ks : list kind) : list shown :=
  match ks with
  | [] => []
  | k :: rest => let (lr', s) := paint_unified lr k in s :: run_unified lr' rest
  end.

(* ---- side-by-side: one row = a left half and a right half *)
Inductive half := HFirst | HWrapped | HNone.   (* first row of a line / continuation / placeholder *)

(* linenumbers_and_styles with the state and `increment` that paint_line passes *)
Inductive lstate := SMinus | SPlus | SMinusWrapped | SPlusWrapped.

Definition numbers_and_increment (lr : N * N) (s : lstate) (increment : bool) : (N * N) * shown :=
  let (l, r) := lr in
  let inc := if increment then 1 else 0 in
  match s with
  | SMinus => ((l + inc, r), (Some l, None))
  | SPlus => ((l, r + inc), (None, Some r))
  | SMinusWrapped | SPlusWrapped => ((l, r), (None, None))
  end.

(* left panel: state of the minus line, or — for a placeholder — the opposite of the constant
   HunkMinus state, i.e. HunkPlus; never increments; only the left field is emitted *)
Definition left_state (h : half) : lstate :=
  match h with HFirst => SMinus | HWrapped => SMinusWrapped | HNone => SPlus end.
(* right panel: state of the plus line, or the opposite of HunkPlus, i.e. HunkMinus;
   increments; only the right field is emitted *)
Definition right_state (h : half) : lstate :=
  match h with HFirst => SPlus | HWrapped => SPlusWrapped | HNone => SMinus end.

Definition sbs_row (lr : N * N) (row : half * half) : (N * N) * (option N * option N) :=
  let (lh, rh) := row in
  let (lr1, s1) := numbers_and_increment lr (left_state lh) false in
  let (lr2, s2) := numbers_and_increment lr1 (right_state rh) true in
  (* the correction at the end of the loop body *)
  let (l2, r2) := lr2 in
  let l3 :=
    match lh, rh with
    | HWrapped, HNone => l2 - 1                       (* (HunkMinusWrapped, HunkPlus, Some, None) *)
    | HWrapped, _ => l2                               (* wrapped on the left: nothing *)
    | HFirst, HFirst | HFirst, HWrapped => l2 + 1     (* (_, _, Some, Some) *)
    | _, _ => l2
    end in
  ((l3, r2), (fst s1, snd s2)).

Fixpoint run_sbs (lr : N * N) (rows : list (half * half)) : list (option N * option N) * (N * N) :=
  match rows with
  | [] => ([], lr)
  | row :: rest =>
      let (lr', s) := sbs_row lr row in
      let (ss, fin) := run_sbs lr' rest in (s :: ss, fin)
  end.

(* ---- what must be shown *)
Definition count_first (f : half * half -> half) (rows : list (half * half)) : N :=
  N.of_nat (length (filter (fun r => match f r with HFirst => true | _ => false end) rows)).

Fixpoint spec_sbs (l r : N) (rows : list (half * half)) : list (option N * option N) :=
  match rows with
  | [] => []
  | (lh, rh) :: rest =>
      ((match lh with HFirst => Some l | _ => None end),
       (match rh with HFirst => Some r | _ => None end))
      :: spec_sbs (match lh with HFirst => l + 1 | _ => l end)
                  (match rh with HFirst => r + 1 | _ => r end) rest
  end.

Definition row_ok (row : half * half) : bool :=
  match row with (HNone, HNone) => false | _ => true end.
