(* File hyperlinks (src/features/hyperlinks.rs format_osc8_file_hyperlink): the configured template
   with {path}, {host} and {line} replaced (str::replace, one placeholder after the other), wrapped
   in OSC 8 — C19 (links point at the right target; a link without a line number names no line).
   The three replacement statements are pinned from the source on every run (GenLinks.v). *)
From Coq Require Import List Bool NArith Arith String.
Import ListNotations.
From DV Require Import Text.
Local Open Scope N_scope.

(* str::replace(pat, rep): leftmost, non-overlapping; [skip] = characters of a match still to pass *)
Fixpoint repl (pat rep : text) (skip : nat) (s : text) : text :=
  match s with
  | [] => []
  | c :: r =>
      match skip with
      | S k => repl pat rep k r
      | O => if starts_with pat s then rep ++ repl pat rep (List.length pat - 1) r
             else c :: repl pat rep 0 r
      end
  end.

Definition replace (pat rep s : text) : text := repl pat rep 0 s.

Definition P_PATH : text := lit "{path}".
Definition P_HOST : text := lit "{host}".
Definition P_LINE : text := lit "{line}".

(* format!("{n}") *)
Fixpoint digits_fuel (fuel : nat) (n : N) (acc : text) : text :=
  match fuel with
  | O => acc
  | S f => let d := 48 + n mod 10 in
           if n <? 10 then d :: acc else digits_fuel f (n / 10) (d :: acc)
  end.
Definition decimal (n : N) : text := digits_fuel (S (N.to_nat (N.log2 n))) n [].

Definition file_url (fmt path : text) (host : option text) (line : option N) : text :=
  let u := replace P_PATH path fmt in
  let u := match host with Some h => replace P_HOST h u | None => u end in
  replace P_LINE (match line with Some n => decimal n | None => [] end) u.

Definition ESC : N := 27.
Definition osc8_open (url : text) : text := ESC :: lit "]8;;" ++ url ++ [ESC; 92].
Definition osc8_close : text := ESC :: lit "]8;;" ++ [ESC; 92].
Definition osc8 (url txt : text) : text := osc8_open url ++ txt ++ osc8_close.

Definition file_link (fmt path : text) (host : option text) (line : option N) (txt : text) : text :=
  osc8 (file_url fmt path host line) txt.
