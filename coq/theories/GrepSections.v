(* src/handlers/grep.rs make_style_sections: the style sections of a grep hit from the
   submatch offsets reported by `rg --json` — C16/C03.  A line is a list of bytes each
   flagged with "starts a character"; offsets count bytes; slicing a str outside the line
   or inside a character panics in Rust, here it is None. *)
From Coq Require Import List Bool Arith Lia.
Import ListNotations.

Definition byte := (nat * bool)%type.          (* value, starts a character *)
Definition line := list byte.

Definition bdy (l : line) (off : nat) : bool :=
  Nat.eqb off (length l) || match nth_error l off with Some (_, s) => s | None => false end.

(* &line[a..b] *)
Definition slice (l : line) (a b : nat) : option line :=
  if Nat.leb a b && Nat.leb b (length l) && bdy l a && bdy l b
  then Some (firstn (b - a) (skipn a l)) else None.

Inductive kind := Match | NonMatch.

(* the loop over submatches, with the validity test of the repaired code *)
Fixpoint sections_from (l : line) (curr : nat) (subs : list (nat * nat)) : option (list (kind * line)) :=
  match subs with
  | [] => if Nat.ltb curr (length l)
          then match slice l curr (length l) with Some t => Some [(NonMatch, t)] | None => None end
          else Some []
  | (s, e) :: r =>
      if Nat.ltb s curr || Nat.ltb e s || Nat.ltb (length l) e || negb (bdy l s) || negb (bdy l e)
      then sections_from l curr r                      (* ignored *)
      else
        match (if Nat.ltb curr s then slice l curr s else Some []), slice l s e, sections_from l e r with
        | Some pre, Some m, Some rest =>
            Some ((if Nat.ltb curr s then [(NonMatch, pre)] else []) ++ (Match, m) :: rest)
        | _, _, _ => None
        end
  end.

Definition make_style_sections (l : line) (subs : list (nat * nat)) : option (list (kind * line)) :=
  sections_from l 0 subs.

Definition well_formed (l : line) : bool := match l with [] => true | (_, s) :: _ => s end.
