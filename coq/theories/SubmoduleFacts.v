From Coq Require Import List Bool NArith String.
Import ListNotations.
From DV Require Import Text Submodule.

(* C02: with --color-only no line is ever taken out of the line-for-line path *)
Theorem color_only_claims_nothing st l : sub_handle true st l = None.
Proof. reflexivity. Qed.

(* C01: a claimed line is a pointer line of the marker the state expects *)
Theorem claims_only_pointer_lines co st l r :
  sub_handle co st l = Some r ->
  (st = AfterHunkHeader /\ exists c, sub_pointer (lit "-") l = Some c) \/
  (exists m, st = HeldMinus m /\ exists c, sub_pointer (lit "+") l = Some c).
Proof.
  unfold sub_handle. destruct co; [discriminate|]. destruct st as [|m|]; [| |discriminate].
  - destruct (sub_pointer (lit "-") l) as [c|] eqn:E; [|discriminate]. intros _. left. split; [reflexivity|]. now exists c.
  - destruct (sub_pointer (lit "+") l) as [c|] eqn:E; [|discriminate]. intros _. right. exists m. split; [reflexivity|]. now exists c.
Qed.

(* text that merely begins like a pointer line is not claimed (the repaired defect F34) *)
Example prose_not_claimed :
  sub_handle false AfterHunkHeader (lit "-Subproject commit is a thing") = None.
Proof. reflexivity. Qed.

(* the known finding F33 in the model: the removed pointer line itself produces no row; only a
   following added pointer line does, and then the two are one row *)
Example removed_pointer_alone_shows_nothing :
  exists s, sub_handle false AfterHunkHeader (lit "-Subproject commit 1111111111111111111111111111111111111111") = Some (s, None).
Proof. eexists. reflexivity. Qed.

Example pair_is_one_row :
  match sub_handle false AfterHunkHeader (lit "-Subproject commit 1111111111111111111111111111111111111111") with
  | Some (s, None) =>
      match sub_handle false s (lit "+Subproject commit 2222222222222222222222222222222222222222-dirty") with
      | Some (_, Some o) => sub_shown o = lit "111111111111..222222222222"
      | _ => False
      end
  | _ => False
  end.
Proof. reflexivity. Qed.
