From Coq Require Import String.
From Coq Require Import List Bool NArith Lia.
Import ListNotations.
From DV Require Import Text GrepColour.

Lemma starts_with_app p r : starts_with p (p ++ r) = true.
Proof. induction p as [|x p IH]; cbn; [reflexivity | rewrite N.eqb_refl; exact IH]. Qed.

Lemma strip_prefix_app p r : strip_prefix p (p ++ r) = Some r.
Proof.
  unfold strip_prefix. rewrite starts_with_app. f_equal.
  induction p as [|x p IH]; cbn; [reflexivity | exact IH].
Qed.

Lemma take_while_stop f a x r : forallb f a = true -> f x = false ->
  take_while f (a ++ x :: r) = (a, x :: r).
Proof.
  induction a as [|y a IH]; intros Ha Hx; cbn.
  - rewrite Hx. reflexivity.
  - cbn in Ha. apply andb_true_iff in Ha. destruct Ha as [Hy Ha]. rewrite Hy, (IH Ha Hx). reflexivity.
Qed.

Lemma sep_of_char s : sep_of (sep_char s) = Some s.
Proof. destruct s; reflexivity. Qed.

Lemma is_digit_esc : is_digit ESC = false. Proof. reflexivity. Qed.
Lemma not_esc_esc : not_esc ESC = false. Proof. reflexivity. Qed.

Lemma reset_cons r : c_reset ++ r = ESC :: (lit "[m"%string ++ r).
Proof. reflexivity. Qed.

Lemma parse_number_print s ds code : ds <> [] -> forallb is_digit ds = true ->
  parse_number s (c_num ++ ds ++ c_reset ++ c_sep ++ sep_char s :: c_reset ++ code) = Some (ds, code).
Proof.
  intros Hne Hd. unfold parse_number. rewrite strip_prefix_app.
  rewrite (reset_cons (c_sep ++ sep_char s :: c_reset ++ code)).
  rewrite (take_while_stop is_digit ds ESC _ Hd is_digit_esc).
  destruct ds as [|d ds']; [contradiction|].
  rewrite <- (reset_cons (c_sep ++ sep_char s :: c_reset ++ code)).
  rewrite strip_prefix_app, strip_prefix_app, N.eqb_refl, strip_prefix_app. reflexivity.
Qed.

Lemma parse_head path s rest : forallb not_esc path = true ->
  parse (c_path ++ path ++ c_reset ++ c_sep ++ sep_char s :: c_reset ++ rest) =
  match parse_number s rest with
  | Some (ds, code) => Some (path, s, Some ds, code)
  | None => Some (path, s, None, rest)
  end.
Proof.
  intros Hp. unfold parse. rewrite strip_prefix_app.
  rewrite (reset_cons (c_sep ++ sep_char s :: c_reset ++ rest)).
  rewrite (take_while_stop not_esc path ESC _ Hp not_esc_esc).
  rewrite <- (reset_cons (c_sep ++ sep_char s :: c_reset ++ rest)).
  rewrite strip_prefix_app, strip_prefix_app, sep_of_char, strip_prefix_app. reflexivity.
Qed.

(* with a line number: read back exactly, whatever the code is *)
Theorem parse_print_numbered path s ds code :
  forallb not_esc path = true -> ds <> [] -> forallb is_digit ds = true ->
  parse (print path s (Some ds) code) = Some (path, s, Some ds, code).
Proof.
  intros Hp Hne Hd. unfold print. rewrite (parse_head path s _ Hp), (parse_number_print s ds code Hne Hd). reflexivity.
Qed.

(* without a line number: read back exactly unless the code itself begins like a coloured line number *)
Theorem parse_print_plain path s code :
  forallb not_esc path = true -> parse_number s code = None ->
  parse (print path s None code) = Some (path, s, None, code).
Proof. intros Hp Hn. unfold print. rewrite (parse_head path s _ Hp), Hn. reflexivity. Qed.

(* code that does not begin with an escape character can never look like a line number *)
Lemma parse_number_plain_code s c r : c <> ESC -> parse_number s (c :: r) = None.
Proof.
  intros H. unfold parse_number, strip_prefix, c_num. cbn [starts_with].
  replace (N.eqb ESC c) with false by (symmetry; apply N.eqb_neq; congruence). reflexivity.
Qed.

Lemma parse_number_empty s : parse_number s [] = None.
Proof. reflexivity. Qed.
