From Coq Require Import Bool NArith.
From DV Require Import BlameNumbers GenBlameNumbers.
Local Open Scope N_scope.

(* the code blanks the field exactly when the documented rule does not show the number *)
Theorem blank_iff_not_shown m r l : code_blank m r l = negb (shown_spec m r l).
Proof.
  destruct m as [|n|]; cbn [code_blank shown_spec].
  - now rewrite negb_involutive.
  - destruct r; cbn [negb andb orb]; [reflexivity|reflexivity].
  - reflexivity.
Qed.

Theorem number_shown_at_block_start m l : code_blank m false l = false.
Proof. destruct m; reflexivity. Qed.

Theorem every_n_shows_multiples n r l : l mod n = 0 -> code_blank (Every n) r l = false.
Proof. intros H. cbn [code_blank]. rewrite H. cbn. now rewrite andb_false_r. Qed.
