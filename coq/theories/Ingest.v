(* The carriage-return clean-up of StateMachine::ingest_line_utf8 (src/delta.rs) on the bytes of one
   input line: byte_lines has already removed a CR directly before the LF; when git's colouring put
   escape sequences between the CR and the LF, the LAST CR of the line is removed iff nothing with
   a display width follows it — C08 (a coloured CRLF line is the plain line), C04 (a CR that is
   followed by visible text is kept, byte for byte).  The shape of the code (whole line searched
   for the last CR, width test on everything after it) is pinned from the source on every run
   (GenIngest.v). *)
From Coq Require Import List Bool NArith.
Import ListNotations.
From DV Require Import Vte.
Local Open Scope N_scope.

Definition CR : N := 13.

(* (before, after) the last CR of the line — str::rfind('\r') *)
Fixpoint split_last_cr (l : list N) : option (list N * list N) :=
  match l with
  | [] => None
  | x :: r =>
      match split_last_cr r with
      | Some (a, b) => Some (x :: a, b)
      | None => if x =? CR then Some ([], r) else None
      end
  end.

Section Width.
  (* measure_text_width(rest) == 0, on the bytes after the CR *)
  Variable width0 : list N -> bool.

  Definition drop_cr (l : list N) : list N :=
    match split_last_cr l with
    | Some (a, b) => if width0 b then a ++ b else l
    | None => l
    end.
End Width.

(* byte_lines: the line terminator is LF or CR LF *)
Definition chop_cr (l : list N) : list N :=
  match rev l with
  | x :: r => if x =? CR then rev r else l
  | [] => l
  end.

(* the instance used for the correspondence: after the escape sequences are stripped nothing is
   left (the generated text after a CR has no zero-width characters) *)
Definition nothing_visible (b : list N) : bool := match strip b with [] => true | _ => false end.

Definition ingest (l : list N) : list N := drop_cr nothing_visible (chop_cr l).
