(* Pass-through of text that is not part of a diff (C04). *)
From Coq Require Import String.
From Coq Require Import List Bool NArith Arith Lia.
Import ListNotations.
From DV Require Import Text Delta DeltaProj DeltaFacts DeltaOrder.

(* before the first construct, or in commit metadata / message *)
Definition outside (s : sm) : bool :=
  match state s with SUnknown | SCommitMeta => true | _ => false end.

(* the prefixes that open a construct the state machine renders (in the modelled scope) *)
Definition marker (l : text) : bool :=
  starts_with (lit "commit "%string) l || starts_with (lit "diff "%string) l ||
  starts_with (lit "@@"%string) l || starts_with (lit "old mode "%string) l ||
  starts_with (lit "new mode "%string) l || starts_with (lit "Binary files "%string) l.

Lemma marker_parts l : marker l = false ->
  starts_with (lit "commit "%string) l = false /\ starts_with (lit "diff "%string) l = false /\
  starts_with (lit "@@"%string) l = false /\ starts_with (lit "old mode "%string) l = false /\
  starts_with (lit "new mode "%string) l = false /\ starts_with (lit "Binary files "%string) l = false.
Proof.
  unfold marker. intros H. repeat (apply orb_false_iff in H; destruct H as [H ?]). auto 10.
Qed.

Lemma outside_not_header s : outside s = true -> in_diff_header s = false /\ in_hunk s = false.
Proof. unfold outside, in_diff_header, in_hunk. destruct (state s); try discriminate; auto. Qed.

(* Outside a diff, a line that starts with no marker is emitted unchanged, and the machine
   stays outside: for both settings of color_only. *)
Theorem passthrough_step c s i l :
  outside s = true -> marker l = false ->
  exists s0, step c s (i, l) = emit_unchanged i l (emit s0) /\
             all_items s0 = all_items s /\ state s0 = state s /\
             minus_lines s0 = minus_lines s /\ plus_lines s0 = plus_lines s /\ buf s0 = buf s.
Proof.
  intros Ho Hm. destruct (marker_parts l Hm) as (M1 & M2 & M3 & M4 & M5 & M6).
  destruct (outside_not_header s Ho) as (Hd & Hh).
  unfold step.
  set (s0 := if source_git s then s else set_source s (detect_git l)).
  assert (E0 : all_items s0 = all_items s /\ state s0 = state s /\ minus_lines s0 = minus_lines s /\
               plus_lines s0 = plus_lines s /\ buf s0 = buf s /\
               in_diff_header s0 = false /\ in_hunk s0 = false)
    by (subst s0; destruct (source_git s); repeat split; auto).
  destruct E0 as (A0 & S0 & Mi0 & Pl0 & B0 & D0 & H0).
  exists s0. split; [|repeat split; assumption].
  unfold handlers. cbn [run_handlers].
  unfold h_commit. rewrite M1.
  unfold h_diff. rewrite M2.
  unfold h_fileop. rewrite D0. cbn [andb].
  unfold h_minus. rewrite D0.
  unfold h_plus. rewrite D0.
  unfold h_hunk_header. rewrite M3.
  unfold h_mode, strip_prefix. rewrite M4, M5.
  unfold h_misc. rewrite M6.
  unfold h_hunk. rewrite H0.
  unfold h_tail_emit. cbn [fst snd].
  assert (Hsk : should_skip c (emit s0) = false).
  { unfold should_skip, in_diff_header. destruct (emit_spec s0) as (_ & _ & _ & _ & St). rewrite St.
    unfold in_diff_header in D0. destruct (state s0); try discriminate; reflexivity. }
  rewrite Hsk. reflexivity.
Qed.

Lemma emit_unchanged_state_eq i t s : state (emit_unchanged i t s) = state s.
Proof.
  unfold emit_unchanged. destruct (write_spec (emit s) (i, IRaw t)) as (_ & _ & _ & _ & S1).
  rewrite S1. apply emit_spec.
Qed.

(* A whole block of marker-free text outside a diff: the history grows by exactly these
   lines, unchanged, in order; the machine stays outside. *)
Theorem passthrough_block c ls : forall j s,
  outside s = true -> quiet s -> Forall (fun l => marker l = false) ls ->
  all_items (steps c (number_from j ls) s) =
    all_items s ++ map (fun il => (fst il, IRaw (snd il))) (number_from j ls) /\
  outside (steps c (number_from j ls) s) = true /\ quiet (steps c (number_from j ls) s).
Proof.
  induction ls as [|l r IH]; intros j s Ho Hq Hf.
  - cbn. rewrite app_nil_r. auto.
  - inversion Hf as [|? ? Hl Hr]; subst.
    destruct (passthrough_step c s j l Ho Hl) as (s0 & Hst & A0 & S0 & Mi0 & Pl0 & B0).
    cbn [number_from steps fold_left]. rewrite Hst.
    assert (Q0 : quiet s0) by (destruct Hq; split; congruence).
    assert (Qe : quiet (emit s0)) by (apply quiet_emit; exact Q0).
    destruct (emit_unchanged_facts j l (emit s0) Qe) as (_ & Q2 & St2).
    assert (Ho2 : outside (emit_unchanged j l (emit s0)) = true).
    { unfold outside. rewrite St2. destruct (emit_spec s0) as (_ & _ & _ & _ & St). rewrite St, S0. exact Ho. }
    match goal with |- context [fold_left (step c) ?ls ?st] => change (fold_left (step c) ls st) with (steps c ls st) end.
    destruct (IH (S j) _ Ho2 Q2 Hr) as (A & O & Q).
    split; [|split; assumption].
    rewrite A. unfold emit_unchanged at 1.
    rewrite all_items_write; [|apply emit_spec | apply quiet_emit; exact Qe].
    rewrite !all_items_emit, A0. cbn [map fst snd]. rewrite <- app_assoc. reflexivity.
Qed.
