(* Text = list of Unicode scalar values.  Small, total string functions. *)
From Coq Require Import Ascii String.
From Coq Require Import List Bool NArith.
Import ListNotations.

Definition text := list N.

Definition lit (s : string) : text := map N_of_ascii (list_ascii_of_string s).

Fixpoint text_eqb (a b : text) : bool :=
  match a, b with
  | [], [] => true
  | x :: a', y :: b' => N.eqb x y && text_eqb a' b'
  | _, _ => false
  end.

Fixpoint starts_with (p l : text) : bool :=
  match p, l with
  | [], _ => true
  | x :: p', y :: l' => N.eqb x y && starts_with p' l'
  | _ :: _, [] => false
  end.

Definition strip_prefix (p l : text) : option text :=
  if starts_with p l then Some (skipn (length p) l) else None.

Definition ends_with (p l : text) : bool := starts_with (rev p) (rev l).

Definition is_empty (l : text) : bool := match l with [] => true | _ => false end.

Definition opt_text_pair_eqb (a b : option (text * text)) : bool :=
  match a, b with
  | None, None => true
  | Some (a1, a2), Some (b1, b2) => text_eqb a1 b1 && text_eqb a2 b2
  | _, _ => false
  end.

(* split at the first occurrence of c: (before, Some after) or (all, None) *)
Fixpoint split_at (c : N) (l : text) : text * option text :=
  match l with
  | [] => ([], None)
  | x :: r => if N.eqb x c then ([], Some r)
              else let (a, b) := split_at c r in (x :: a, b)
  end.

Definition tab : N := 9%N.
Definition space : N := 32%N.

Fixpoint repeat_n (c : N) (n : nat) : text :=
  match n with O => [] | S m => c :: repeat_n c m end.

(* utils::tabs::expand with the default tab configuration: every tab becomes [w] spaces;
   width 0 leaves tabs alone *)
Fixpoint expand_tabs (w : nat) (l : text) : text :=
  match l with
  | [] => []
  | x :: r => if N.eqb x tab && negb (Nat.eqb w 0) then repeat_n space w ++ expand_tabs w r
              else x :: expand_tabs w r
  end.

Definition is_digit (c : N) : bool := N.leb 48 c && N.leb c 57.

(* decimal value of a digit string (unbounded) *)
Fixpoint digits_val (acc : N) (l : text) : N :=
  match l with
  | [] => acc
  | c :: r => digits_val (acc * 10 + (c - 48))%N r
  end.

Fixpoint take_while (f : N -> bool) (l : text) : text * text :=
  match l with
  | [] => ([], [])
  | x :: r => if f x then let (a, b) := take_while f r in (x :: a, b) else ([], l)
  end.
