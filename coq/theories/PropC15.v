(* C15 — syntax highlighting only recolours foregrounds, by the file's language.
   Statements only. *)
From Coq Require Import List Bool NArith Arith.
Import ListNotations.
From DV Require Import Superimpose SuperimposeFacts GenSyntax.

(* characters, background colours and attributes are the diff styles', whatever the
   highlighter (theme) says — for every pair of section lists over the same line *)
Theorem C15_text_bg_attrs_kept : forall syntax diff, length (explode syntax) = length (explode diff) ->
  map (fun c => (fst (fst (fst c)), snd (fst c), snd c)) (cells (superimpose_raw syntax diff)) =
  map (fun dc => (snd dc, bg (fst dc), attrs (fst dc))) (explode diff).
Proof. exact raw_keeps_text_bg_attrs. Qed.

(* switching the theme changes nothing but foreground colours *)
Theorem C15_theme_independent : forall s1 s2 diff,
  length (explode s1) = length (explode diff) -> length (explode s2) = length (explode diff) ->
  map (fun c => (fst (fst (fst c)), snd (fst c), snd c)) (cells (superimpose_raw s1 diff)) =
  map (fun c => (fst (fst (fst c)), snd (fst c), snd c)) (cells (superimpose_raw s2 diff)).
Proof. exact raw_theme_independent. Qed.

(* text whose style does not ask for `syntax` keeps exactly its configured foreground *)
Theorem C15_no_syntax_keeps_fg : forall syntax diff, length (explode syntax) = length (explode diff) ->
  Forall (fun sc => syn (fst sc) = false) diff ->
  cells (superimpose_raw syntax diff) = map (fun dc => (snd dc, fg (fst dc), bg (fst dc), attrs (fst dc))) (explode diff).
Proof. exact raw_no_syntax_keeps_fg. Qed.

(* where the style asks for syntax, the foreground is the highlighter's exactly where it has one *)
Theorem C15_cell_fg : forall syntax diff,
  map (fun c => snd (fst (fst c))) (cells (superimpose_raw syntax diff)) =
  map (fun x => match fst (fst x) with
                | Some f => if syn (snd (fst x)) then Some f else fg (snd (fst x))
                | None => fg (snd (fst x))
                end) (pairs (explode syntax) (explode diff)).
Proof. exact raw_cell_fg. Qed.

(* the terminating newline is the only character removed afterwards *)
Theorem C15_only_newline_removed : forall l, exists tail, explode l = explode (strip_last_nl l) ++ tail /\
  (tail = [] \/ exists st, tail = [(st, NL)]).
Proof. exact strip_last_nl_spec. Qed.

(* language: the code looks the whole file name up first (generated from the source) ... *)
Theorem C15_code_lookup_order : whole_name_first = true /\ min_whole_name_len = 4.
Proof. split; reflexivity. Qed.

(* ... so a whole name that names a language decides (Makefile, CMakeLists.txt), names of the
   same kind share a language, and unknown names get the configured default *)
Theorem C15_whole_name_decides : forall (L : Type) lookup fallback (builtin : L) n ext l,
  lookup n = Some l -> (ext <> [] \/ 4 < length n) ->
  get_syntax L lookup fallback builtin whole_name_first min_whole_name_len n ext = l.
Proof. exact whole_name_decides. Qed.

Theorem C15_same_extension_same_language : forall (L : Type) lookup fallback (builtin : L) n1 n2 ext,
  ext <> [] -> lookup n1 = None -> lookup n2 = None ->
  get_syntax L lookup fallback builtin whole_name_first min_whole_name_len n1 ext =
  get_syntax L lookup fallback builtin whole_name_first min_whole_name_len n2 ext.
Proof. exact same_extension_same_language. Qed.

Theorem C15_unknown_gets_default : forall (L : Type) lookup fallback (builtin : L) n ext,
  lookup n = None -> lookup ext = None ->
  get_syntax L lookup fallback builtin whole_name_first min_whole_name_len n ext =
  match fallback with Some l => l | None => builtin end.
Proof. exact unknown_gets_default. Qed.

Example C15_example :
  cells (superimpose [(Some 81%N, [108; 101; 116]%N); (None, [32; 120; 10]%N)]
                     [(mkD None (Some 22%N) 0 true, [108; 101]%N); (mkD (Some 231%N) (Some 28%N) 1 false, [116; 32; 120; 10]%N)]) =
  [(108, Some 81, Some 22, 0); (101, Some 81, Some 22, 0); (116, Some 231, Some 28, 1); (32, Some 231, Some 28, 1); (120, Some 231, Some 28, 1)]%N.
Proof. vm_compute. reflexivity. Qed.
