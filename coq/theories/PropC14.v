(* C14 — one header per file section (right file, right event) and one per hunk.
   Statements only. *)
From Coq Require Import String.
From Coq Require Import List Bool NArith.
Import ListNotations.
From DV Require Import Text Delta DeltaFacts DeltaHeader DeltaOneHeader.

(* The path delta takes from a `diff --git x/P y/P` line is P, for every path P that does not
   end in a tab — spaces, non-ASCII characters, names that look like a prefix ("a/b/x"),
   any two of git's mnemonic prefixes. *)
Theorem C14_diff_line_path : forall x y P,
  mnemonic x = true -> mnemonic y = true -> ends_with [tab] P = false ->
  repeated_path (lit "diff --git "%string ++ (x :: slash :: P) ++ space :: y :: slash :: P) = Some P.
Proof. exact diff_line_path. Qed.

(* ... and from `--- x/P` / `+++ y/P` lines *)
Theorem C14_marker_line_path : forall x P,
  mnemonic x = true -> ends_with [tab] P = false ->
  parse_file_path (x :: slash :: P) true = P.
Proof. exact parse_prefixed. Qed.

(* The code fragment shown in a hunk header is exactly the text git put after the closing
   "@@" of the header line. *)
Theorem C14_fragment_unchanged : forall g1 frag n,
  g1 <> [] -> forallb not_at g1 = true ->
  match frag with c :: _ => is_at c = false | [] => True end ->
  last_coord_start g1 None (S (length g1)) = Some n ->
  parse_hunk_header (lit "@@ "%string ++ g1 ++ lit "@@"%string ++ frag) = Some (frag, n).
Proof. exact fragment_unchanged. Qed.

(* Every hunk is introduced by exactly one hunk-header item, placed directly before its
   first line, from any state (restated from the C01 development). *)
Theorem C14_one_hunk_header : forall c s i r frag n body,
  parse_hunk_header (64%N :: 64%N :: r) = Some (frag, n) ->
  Forall (fun l => body_line l = true) body -> body <> [] ->
  all_items (steps c (number_from i ((64%N :: 64%N :: r) :: body)) s) =
  all_items s ++ [(i, IHunkHeader frag n (64%N :: 64%N :: r))] ++ render_body c (S i) body.
Proof. exact hunk_once_in_order. Qed.

(* One header per file section: from ANY state, the four header lines of a modified-file section
   (`diff --git x/P y/P`, `index`, `--- x/P`, `+++ y/P`) add to everything rendered so far —
   after whatever the previous section still had pending — exactly one item, the file header
   naming P; the section is then marked handled, so nothing can add a second one. For every
   path P (not ending in a tab) and every pair of git's mnemonic prefixes. *)
Theorem C14_one_file_header : forall c s i x y P,
  color_only c = false -> mnemonic x = true -> mnemonic y = true -> ends_with [tab] P = false ->
  let s' := steps c (number_from i [git_diff_line x y P; index_line; minus_line x P; plus_line y P]) s in
  all_items s' = all_items (flushed c s i) ++ [(S (S (S i)), IFileHeader P [])] /\
  handled s' = Some (P, P) /\ in_diff_header s' = true.
Proof. exact mod_section_one_header. Qed.

(* Non-vacuity: one header per section, with label, both paths for a rename, mode change
   and binary file reported; the renamed-and-modified section has a single header although
   both the `rename to` and the `+++` line name the file. *)
Example C14_example :
  map snd (filter (fun it => match snd it with IFileHeader _ _ => true | _ => false end)
    (run (mkCfg false 4 32)
      [lit "diff --git a/o.rs b/n.rs"%string; lit "similarity index 90%"%string; lit "rename from o.rs"%string;
       lit "rename to n.rs"%string; lit "index 1..2 100644"%string; lit "--- a/o.rs"%string; lit "+++ b/n.rs"%string;
       lit "@@ -1 +1 @@"%string; lit "-a"%string; lit "+b"%string;
       lit "diff --git a/m b/m"%string; lit "old mode 100644"%string; lit "new mode 100755"%string;
       lit "diff --git a/b.bin b/b.bin"%string; lit "index 1..2 100644"%string;
       lit "Binary files a/b.bin and b/b.bin differ"%string;
       lit "diff --git a/d c.txt b/d c.txt"%string; lit "deleted file mode 100644"%string; lit "index 1..0"%string;
       lit "--- a/d c.txt"%string; lit "+++ /dev/null"%string; lit "@@ -1 +0,0 @@"%string; lit "-x"%string])) =
  [IFileHeader (lit "renamed: o.rs "%string ++ arrow ++ lit " n.rs"%string) [];
   IFileHeader (lit "m"%string) (lit "mode +x"%string);
   IFileHeader (lit "b.bin (binary file)"%string) [];
   IFileHeader (lit "removed: d c.txt"%string) []].
Proof. vm_compute. reflexivity. Qed.
