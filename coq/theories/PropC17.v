(* C17 — blame colours follow commits.  Statements only. *)
From Coq Require Import List Arith Bool NArith.
Import ListNotations.
From DV Require Import Blame BlameFacts.

(* For every sequence of attributions (keys) and every palette of n >= 2 pairwise distinct
   colours, the colour assignment does not hit an "unreachable" arm, and the rendered rows
   satisfy the three clauses of the property ([Spec]/[row_ok] in BlameFacts):
   same attribution as the line above => same colour; different attribution => different
   colour; a reappearing attribution keeps the colour of its last appearance unless that
   collides with the line above. *)
Theorem C17_colours_follow_commits : forall n ks, 2 <= n ->
  exists cs, length cs = length ks /\
             run n init (plain ks) = Ok (map Some cs) /\
             Spec [] (combine ks cs).
Proof. intros n ks Hn. exact (run_plain_spec n ks Hn init [] R_init). Qed.

(* Whatever mixture of git-coloured and plain lines arrives, a colour is assigned to every
   line (the former delta_unreachable arms are gone: repaired defect F17). *)
Theorem C17_colour_assignment_total : forall n ls st,
  exists cs, run n st ls = Ok cs /\ length cs = length ls.
Proof. exact run_total. Qed.

(* the decidable form of the specification used as oracle on the implementation *)
Theorem C17_oracle_is_spec : forall rows, specb [] rows = true <-> Spec [] rows.
Proof. intros rows. exact (specb_spec rows []). Qed.

(* colours are palette indices *)
Theorem C17_colour_in_palette : forall n m o, 0 < n -> next_color n m o < n.
Proof. exact next_color_lt. Qed.

(* Non-vacuity: three colours, an attribution reappearing with and without collision. *)
Example C17_example :
  run 3 init (plain [1; 2; 3; 4; 5; 3; 6; 6; 1]%N) =
  Ok (map Some [0; 1; 2; 0; 1; 2; 0; 0; 1]).
Proof. vm_compute. reflexivity. Qed.

(* Line numbers.  The condition under which format_blame_line_number leaves the number field blank is
   translated from the source on every run (GenBlameNumbers.v); it is the negation of the documented
   rule (every line / start of a block / start of a block and every N-th line), so in every mode the
   first line of a block carries its number, and in every-N mode so does every N-th line. *)
From DV Require Import BlameNumbers GenBlameNumbers BlameNumbersFacts.

Theorem C17_number_blank_iff_not_shown : forall m r l, code_blank m r l = negb (shown_spec m r l).
Proof. exact blank_iff_not_shown. Qed.

Theorem C17_number_shown_at_block_start : forall m l, code_blank m false l = false.
Proof. exact number_shown_at_block_start. Qed.

Theorem C17_every_n_shows_multiples : forall n r l, (l mod n = 0)%N -> code_blank (Every n) r l = false.
Proof. exact every_n_shows_multiples. Qed.
