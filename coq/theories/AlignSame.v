(* Two identical token lists: the table's diagonal is all (0, NoOp), and the operations read
   back are NoOp for every token — a line that did not change gets no emphasis (C06). *)
From Coq Require Import List Arith Bool Lia.
Import ListNotations.
From DV Require Import Align AlignFacts.

Lemma choose_diag0 up left : choose up left (mkc 0 ONoOp) true = mkc 0 ONoOp.
Proof.
  unfold choose, INSERTION_COST, DELETION_COST. cbn [andb cost].
  destruct (cost left + 2 + pen left <? cost up + 2 + pen up); cbn [cost].
  - assert (E : 0 <? cost left + 2 + pen left = true) by (apply Nat.ltb_lt; lia). rewrite E. reflexivity.
  - assert (E : 0 <? cost up + 2 + pen up = true) by (apply Nat.ltb_lt; lia). rewrite E. reflexivity.
Qed.

Lemma repeat_snoc (A : Type) (a : A) n : repeat a n ++ [a] = repeat a (S n).
Proof. induction n as [|n IH]; [reflexivity|]. cbn [repeat app]. rewrite IH. reflexivity. Qed.

Section Same.
Variable T : Type.
Variable eqb : T -> T -> bool.
Hypothesis eqb_refl : forall a, eqb a a = true.
Variable d : T.
Variable x : list T.

Lemma diag_zero : forall i, C T eqb d x x i i = mkc 0 ONoOp.
Proof.
  induction i as [|i IH]; [reflexivity|].
  rewrite C_SS, IH, eqb_refl. apply choose_diag0.
Qed.

Lemma trace_same : forall n i, 1 <= i <= n -> trace T eqb d x x n i i = repeat ONoOp i.
Proof.
  induction n as [|n IH]; intros i Hi; [lia|].
  unfold trace. cbn [trace_with]. fold (trace T eqb d x x). rewrite diag_zero. cbn [cop].
  destruct i as [|[|i]]; [lia|reflexivity|].
  replace (stop (S (S i)) (S (S i)) (mkc 0 ONoOp)) with false by reflexivity.
  replace (S (S i) - 1) with (S i) by lia. rewrite IH by lia. apply repeat_snoc.
Qed.

Theorem operations_same : x <> [] -> operations T eqb x x = repeat ONoOp (length x).
Proof.
  intros Hx. assert (1 <= length x) by (destruct x; [contradiction | cbn; lia]).
  unfold operations.
  rewrite (trace_with_ext T x x (cell_at T eqb x x) (C T eqb d x x)
             (fun i j Hi Hj => table_spec T eqb d x x i j Hi Hj)) by lia.
  apply trace_same. lia.
Qed.

End Same.

(* Every token of either line gets exactly one annotation: the operations that consume a token
   of x (NoOp, Deletion) are as many as x has tokens, likewise NoOp / Insertion for y. *)
Theorem operations_cover (T : Type) (eqb : T -> T -> bool) :
  (forall a b, eqb a b = true <-> a = b) ->
  forall d x y, x <> [] -> y <> [] -> nth 0 x d = nth 0 y d ->
  length (filter (fun o => match o with OIns => false | _ => true end) (operations T eqb x y)) = length x /\
  length (filter (fun o => match o with ODel => false | _ => true end) (operations T eqb x y)) = length y.
Proof.
  intros H d x y Hx Hy Hh. apply ok_lengths. exact (operations_valid T eqb H d x y Hx Hy Hh).
Qed.
