(* The coloured form of a grep line (git grep --color / rg --color with git's palette), as
   matched by GrepLineRegex::WithColor in src/handlers/grep.rs, written as a direct parser:
     ESC[35m PATH ESC[m ESC[36m SEP ESC[m [ ESC[32m DIGITS ESC[m ESC[36m SEP ESC[m ] CODE
   PATH = [^ESC]*, SEP one of ':' '-' '='.  C16: coloured grep output is read exactly,
   whatever path and code contain. *)
From Coq Require Import String.
From Coq Require Import List Bool NArith.
Import ListNotations.
From DV Require Import Text.

Definition ESC : N := 27%N.
Definition c_path : text := ESC :: lit "[35m"%string.
Definition c_reset : text := ESC :: lit "[m"%string.
Definition c_sep : text := ESC :: lit "[36m"%string.
Definition c_num : text := ESC :: lit "[32m"%string.

Inductive sep := SMatch | SNoMatch | SHeader.
Definition sep_char (s : sep) : N := match s with SMatch => 58 | SNoMatch => 45 | SHeader => 61 end%N.
Definition sep_of (c : N) : option sep :=
  if N.eqb c 58 then Some SMatch else if N.eqb c 45 then Some SNoMatch else if N.eqb c 61 then Some SHeader else None.

(* what git prints *)
Definition print (path : text) (s : sep) (num : option text) (code : text) : text :=
  c_path ++ path ++ c_reset ++ c_sep ++ sep_char s :: c_reset ++
  match num with
  | Some ds => c_num ++ ds ++ c_reset ++ c_sep ++ sep_char s :: c_reset ++ code
  | None => code
  end.

Definition not_esc (c : N) : bool := negb (N.eqb c ESC).

(* the optional group: ESC[32m digits+ ESC[m ESC[36m SEP ESC[m with the same separator *)
Definition parse_number (s : sep) (l : text) : option (text * text) :=
  match strip_prefix c_num l with
  | None => None
  | Some l1 =>
      let (ds, l2) := take_while is_digit l1 in
      match ds with
      | [] => None
      | _ =>
        match strip_prefix c_reset l2 with
        | None => None
        | Some l3 =>
          match strip_prefix c_sep l3 with
          | None => None
          | Some (c :: l4) =>
              if N.eqb c (sep_char s) then
                match strip_prefix c_reset l4 with Some l5 => Some (ds, l5) | None => None end
              else None
          | Some [] => None
          end
        end
      end
  end.

Definition parse (line : text) : option (text * sep * option text * text) :=
  match strip_prefix c_path line with
  | None => None
  | Some l1 =>
      let (path, l2) := take_while not_esc l1 in
      match strip_prefix c_reset l2 with
      | None => None
      | Some l3 =>
        match strip_prefix c_sep l3 with
        | Some (c :: l4) =>
            match sep_of c with
            | None => None
            | Some s =>
                match strip_prefix c_reset l4 with
                | None => None
                | Some l5 =>
                    match parse_number s l5 with
                    | Some (ds, code) => Some (path, s, Some ds, code)
                    | None => Some (path, s, None, l5)
                    end
                end
            end
        | _ => None
        end
      end
  end.
