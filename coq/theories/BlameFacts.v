(* Proofs about the blame colour model: for every key sequence and every palette size >= 2. *)
From Coq Require Import List Arith Bool NArith Lia.
Import ListNotations.
From DV Require Import Blame.

(* ---- the specification, on the rendered rows alone (most recent row first in [hist]) *)
Definition row_ok (hist : list (key * nat)) (k : key) (c : nat) : Prop :=
  match hist with
  | [] => True
  | (pk, pc) :: _ =>
      (k = pk -> c = pc) /\                       (* same attribution: same colour *)
      (k <> pk -> c <> pc) /\                     (* different attribution: different colour *)
      (forall kc, lookup k hist = Some kc -> kc <> pc -> c = kc)
        (* a reappearing attribution keeps the colour of its last appearance unless that
           collides with the line above *)
  end.

Fixpoint Spec (hist : list (key * nat)) (rows : list (key * nat)) : Prop :=
  match rows with
  | [] => True
  | (k, c) :: r => row_ok hist k c /\ Spec ((k, c) :: hist) r
  end.

(* ---- arithmetic: the two palette slots tried by get_next_color differ *)
Lemma succ_mod_neq n a : 2 <= n -> (a + 1) mod n <> a mod n.
Proof.
  intros Hn E.
  assert (Hn0 : n <> 0) by lia.
  pose proof (Nat.div_mod_eq a n) as Ha.
  pose proof (Nat.mod_upper_bound a n Hn0) as Hr.
  destruct (Nat.eq_dec (a mod n + 1) n) as [Hw|Hw].
  - assert (Hz : (a + 1) mod n = 0).
    { replace (a + 1) with (0 + (a / n + 1) * n) by nia. rewrite Nat.mod_add by exact Hn0.
      apply Nat.mod_small. lia. }
    lia.
  - assert (Hs : (a + 1) mod n = a mod n + 1).
    { symmetry. apply (Nat.mod_unique (a + 1) n (a / n)); [lia | nia]. }
    lia.
Qed.

Lemma next_color_avoids n m x : 2 <= n -> next_color n m (Some x) <> x.
Proof.
  intros Hn. unfold next_color. cbn [opt_nat_eqb].
  destruct (Nat.eqb (length m mod n) x) eqn:E.
  - apply Nat.eqb_eq in E. rewrite <- E. apply succ_mod_neq. exact Hn.
  - apply Nat.eqb_neq in E. exact E.
Qed.

Lemma lookup_insert k' k c m :
  lookup k' (insert k c m) = if N.eqb k' k then Some c else lookup k' m.
Proof.
  induction m as [|[k0 c0] r IH]; cbn.
  - reflexivity.
  - destruct (N.eqb k k0) eqn:E0; cbn.
    + apply N.eqb_eq in E0. subst k0. destruct (N.eqb k' k); reflexivity.
    + destruct (N.eqb k' k0) eqn:E1.
      * apply N.eqb_eq in E1. subst k0.
        destruct (N.eqb k' k) eqn:E2; [|reflexivity].
        apply N.eqb_eq in E2. subst k'. rewrite N.eqb_refl in E0. discriminate.
      * exact IH.
Qed.

(* ---- the relation between the model state and the rows rendered so far *)
Definition R (st : bst) (hist : list (key * nat)) : Prop :=
  (forall k, lookup k (cmap st) = lookup k hist) /\
  prev st = match hist with [] => None | (pk, _) :: _ => Some pk end.

Lemma R_init : R init [].
Proof. split; reflexivity. Qed.

Lemma step_plain n st hist k :
  2 <= n -> R st hist ->
  exists c, step n st (k, false) = Ok (mkB (insert k c (cmap st)) (Some k), Some c) /\
            row_ok hist k c /\ R (mkB (insert k c (cmap st)) (Some k)) ((k, c) :: hist).
Proof.
  intros Hn [Hm Hp].
  assert (HR : forall c, R (mkB (insert k c (cmap st)) (Some k)) ((k, c) :: hist)).
  { intros c. split; [|reflexivity]. intros k'. cbn [cmap lookup]. rewrite lookup_insert.
    destruct (N.eqb k' k); [reflexivity | apply Hm]. }
  unfold step, get_color, is_repeat. rewrite Hp, (Hm k).
  destruct hist as [|[pk pc] h].
  - (* first line *)
    cbn [lookup]. eexists. split; [reflexivity|]. split; [exact I | apply HR].
  - rewrite (Hm pk). cbn [lookup]. rewrite N.eqb_refl.
    destruct (N.eqb k pk) eqn:Ek.
    + (* same key as the line above *)
      apply N.eqb_eq in Ek. subst pk. rewrite N.eqb_refl.
      eexists. split; [reflexivity|]. split; [|apply HR].
      cbn. rewrite N.eqb_refl. split; [reflexivity|]. split.
      * intros H; exfalso; apply H; reflexivity.
      * intros kc Hkc _. inversion Hkc. reflexivity.
    + assert (Hne : k <> pk) by (apply N.eqb_neq; exact Ek).
      rewrite N.eqb_sym, Ek.
      destruct (lookup k h) as [kc|] eqn:Hl.
      * destruct (Nat.eqb kc pc) eqn:Ec.
        -- apply Nat.eqb_eq in Ec. subst pc.
           eexists. split; [reflexivity|]. split; [|apply HR].
           cbn. rewrite Ek. repeat split.
           ++ intros H; contradiction.
           ++ intros _. apply next_color_avoids. exact Hn.
           ++ intros kc' Hk' Hneq. rewrite Hl in Hk'. inversion Hk'. subst. contradiction.
        -- apply Nat.eqb_neq in Ec.
           eexists. split; [reflexivity|]. split; [|apply HR].
           cbn. rewrite Ek. repeat split.
           ++ intros H; contradiction.
           ++ intros _. exact Ec.
           ++ intros kc' Hk' _. rewrite Hl in Hk'. inversion Hk'. reflexivity.
      * eexists. split; [reflexivity|]. split; [|apply HR].
        cbn. rewrite Ek. repeat split.
        -- intros H; contradiction.
        -- intros _. apply next_color_avoids. exact Hn.
        -- intros kc' Hk'. rewrite Hl in Hk'. discriminate.
Qed.

(* no input, coloured by git or not, makes the colour assignment fail *)
Lemma run_total n ls : forall st, exists cs, run n st ls = Ok cs /\ length cs = length ls.
Proof.
  induction ls as [|[k g] r IH]; intros st; cbn [run].
  - exists []. split; reflexivity.
  - unfold step. destruct g.
    + destruct (IH (mkB (cmap st) (Some k))) as (cs & Hr & Hl). rewrite Hr.
      eexists. split; [reflexivity|]. cbn. rewrite Hl. reflexivity.
    + assert (Hg : exists c, get_color n st k = Ok c).
      { unfold get_color. destruct (lookup k (cmap st)); [|eexists; reflexivity].
        destruct (match prev st with Some p => lookup p (cmap st) | None => None end);
          [|eexists; reflexivity].
        destruct (is_repeat st k); [eexists; reflexivity|].
        destruct (Nat.eqb _ _); eexists; reflexivity. }
      destruct Hg as (c & Hc). rewrite Hc.
      destruct (IH (mkB (insert k c (cmap st)) (Some k))) as (cs & Hr & Hl). rewrite Hr.
      eexists. split; [reflexivity|]. cbn. rewrite Hl. reflexivity.
Qed.

Theorem run_plain_spec n ks : 2 <= n ->
  forall st hist, R st hist ->
  exists cs, length cs = length ks /\
             run n st (plain ks) = Ok (map Some cs) /\
             Spec hist (combine ks cs).
Proof.
  intros Hn. induction ks as [|k r IH]; intros st hist HR.
  - exists []. repeat split.
  - destruct (step_plain n st hist k Hn HR) as (c & Hs & Hrow & HR').
    destruct (IH _ _ HR') as (cs & Hlen & Hrun & Hspec).
    exists (c :: cs). split; [cbn; lia|]. split.
    + cbn [plain map run]. rewrite Hs. fold (plain r). rewrite Hrun. reflexivity.
    + cbn. split; assumption.
Qed.

(* colours are palette indices *)
Lemma next_color_lt n m o : 0 < n -> next_color n m o < n.
Proof.
  intros Hn. unfold next_color. destruct (opt_nat_eqb _ _); apply Nat.mod_upper_bound; lia.
Qed.

(* the boolean oracle is the specification *)
Lemma row_okb_spec hist k c : row_okb hist k c = true <-> row_ok hist k c.
Proof.
  unfold row_okb, row_ok. destruct hist as [|[pk pc] h]; [tauto|].
  rewrite andb_true_iff. split.
  - intros [H1 H2]. destruct (N.eqb k pk) eqn:Ek.
    + apply N.eqb_eq in Ek. apply Nat.eqb_eq in H1. subst. repeat split.
      * intros H; exfalso; apply H; reflexivity.
      * intros kc Hk Hne. rewrite Hk in H2. destruct (Nat.eqb kc pc) eqn:E.
        -- apply Nat.eqb_eq in E. contradiction.
        -- apply Nat.eqb_eq in H2. exact H2.
    + apply N.eqb_neq in Ek. apply negb_true_iff, Nat.eqb_neq in H1. repeat split.
      * intros H; contradiction.
      * intros _. exact H1.
      * intros kc Hk Hne. rewrite Hk in H2. destruct (Nat.eqb kc pc) eqn:E.
        -- apply Nat.eqb_eq in E. contradiction.
        -- apply Nat.eqb_eq in H2. exact H2.
  - intros (HA & HB & HC). split.
    + destruct (N.eqb k pk) eqn:Ek.
      * apply N.eqb_eq in Ek. apply Nat.eqb_eq. auto.
      * apply N.eqb_neq in Ek. apply negb_true_iff, Nat.eqb_neq. auto.
    + destruct (lookup k ((pk, pc) :: h)) as [kc|] eqn:Hl; [|reflexivity].
      destruct (Nat.eqb kc pc) eqn:E; [reflexivity|].
      apply Nat.eqb_neq in E. apply Nat.eqb_eq. apply HC; auto.
Qed.

Lemma specb_spec rows : forall hist, specb hist rows = true <-> Spec hist rows.
Proof.
  induction rows as [|[k c] r IH]; intros hist; cbn; [tauto|].
  rewrite andb_true_iff, row_okb_spec, IH. tauto.
Qed.
