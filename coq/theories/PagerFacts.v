From Coq Require Import List Bool Arith ZArith Lia.
Import ListNotations.
From DV Require Import Pager.

Lemma config_wins r a o ws dp bp p : select r a o (Some ws) dp bp p = launch r a o (mkChoice ws false SConfig).
Proof. reflexivity. Qed.

Lemma delta_pager_wins r a o ws bp p : select r a o None (Some ws) bp p = launch r a o (mkChoice ws false SDeltaPager).
Proof. reflexivity. Qed.

Lemma bat_pager_wins r a o b ws p : select r a o None None (Some (b :: ws)) p = launch r a o (mkChoice [b] true SEnvPager).
Proof. reflexivity. Qed.

Lemma default_is_less r a o : select r a o None None None None = launch r a o (mkChoice [less_word] true SEnvPager).
Proof. reflexivity. Qed.

(* what is spawned when the pager comes from PAGER is never more, most or delta itself *)
Lemma pager_env_never_colourless r a o ws b args :
  select r a o None None None (Some ws) = Spawn b args ->
  stem b <> MORE /\ stem b <> MOST /\ stem b <> SELF.
Proof.
  unfold select, bat_exec. destruct ws as [|w ws'].
  - cbn. destruct (r less_word); [|discriminate]. intros H; inversion H; subst. cbn. repeat split; discriminate.
  - destruct (Nat.eqb_spec (stem w) MORE) as [E1|E1]; cbn [orb].
    { cbn. destruct (r less_word); [|discriminate]. intros H; inversion H; subst. cbn. repeat split; discriminate. }
    destruct (Nat.eqb_spec (stem w) MOST) as [E2|E2]; cbn [orb].
    { cbn. destruct (r less_word); [|discriminate]. intros H; inversion H; subst. cbn. repeat split; discriminate. }
    destruct (Nat.eqb_spec (stem w) SELF) as [E3|E3]; cbn [orb].
    { cbn. destruct (r less_word); [|discriminate]. intros H; inversion H; subst. cbn. repeat split; discriminate. }
    cbn. destruct (Nat.eqb_spec (stem w) LESS) as [E4|E4].
    + destruct (r w); [|discriminate]. intros H; inversion H; subst. repeat split; assumption.
    + replace (Nat.eqb (stem w) SELF) with false by (symmetry; apply Nat.eqb_neq; exact E3).
      destruct (r w); [|discriminate]. intros H; inversion H; subst. repeat split; assumption.
Qed.

(* less is told to pass colours through whenever its arguments are delta's to choose: the
   command came from BAT_PAGER / PAGER / the default, or the user named less without arguments *)
Lemma less_gets_raw r a o c b args :
  launch r a o c = Spawn b args -> stem b = LESS ->
  (replace_args c = true \/ tl (cmd c) = []) -> In ARaw args.
Proof.
  unfold launch. destruct (cmd c) as [|w ws]; [discriminate|].
  destruct (Nat.eqb_spec (stem w) LESS) as [E|E].
  - destruct (r w); [|discriminate]. intros H; inversion H; subst. intros _ [Hr|Hn].
    + rewrite Hr. destruct ws; left; reflexivity.
    + cbn in Hn. subst ws. left; reflexivity.
  - destruct (Nat.eqb (stem w) SELF); [discriminate|]. destruct (r w); [|discriminate].
    intros H; inversion H; subst. intros Hs. contradiction.
Qed.

(* the user's own arguments are passed on untouched *)
Lemma user_args_kept r a o c b args w ws :
  cmd c = w :: ws -> ws <> [] -> replace_args c = false ->
  launch r a o c = Spawn b args -> b = w /\ args = map AUser ws.
Proof.
  intros Hc Hne Hr. unfold launch. rewrite Hc, Hr.
  destruct (Nat.eqb (stem w) LESS).
  - destruct (r w); [|discriminate]. destruct ws; [contradiction|]. intros H; inversion H; split; reflexivity.
  - destruct (Nat.eqb (stem w) SELF); [discriminate|]. destruct (r w); [|discriminate].
    intros H; inversion H; split; reflexivity.
Qed.

Lemma broken_pipe_silent c : exit_status c WBrokenPipe = 0%Z.
Proof. reflexivity. Qed.

Lemma stdin_exit_zero : exit_status CStdin WOk = 0%Z.
Proof. reflexivity. Qed.

Lemma status_passthrough s : exit_status (CDiff s) WOk = s /\ exit_status (CSub (Some s)) WOk = s.
Proof. split; reflexivity. Qed.
