(* C19 — hyperlinks are transparent.  Statements only, over the parser table regenerated
   from the crate linked into delta. *)
From Coq Require Import List Bool NArith.
Import ListNotations.
From DV Require Import GenVte Vte VteFacts.
Local Open Scope N_scope.

(* An OSC sequence — in particular the OSC 8 opener "ESC ] 8 ; params ; url ST" and closer
   "ESC ] 8 ; ; ST", with ST = ESC \ or BEL — contributes no text and leaves the parser in
   its ground state: measure_text_width, wrap points, padding and truncation, all computed on
   the text, are the same with and without hyperlinks. *)
Theorem C19_osc_zero_width : forall payload,
  forallb osc_payload_byte payload = true ->
  run ground (27 :: 93 :: payload ++ [27; 92]) = (ground, []) /\
  run ground (27 :: 93 :: payload ++ [7]) = (ground, []).
Proof. exact run_osc. Qed.

(* format_osc8_hyperlink: open ++ text ++ close strips to the text *)
Theorem C19_link_wrapper_transparent : forall url text,
  forallb osc_payload_byte url = true -> wf_text text = true ->
  strip ((27 :: 93 :: ([56; 59; 59] ++ url) ++ [27; 92]) ++ text ++ (27 :: 93 :: [56; 59; 59] ++ [27; 92])) = text.
Proof.
  intros url text Hu Ht. unfold strip. change vinit with ground.
  assert (Hp : forallb osc_payload_byte ([56; 59; 59] ++ url) = true)
    by (rewrite forallb_app, Hu; reflexivity).
  destruct (run_osc _ Hp) as [H1 _].
  destruct (run_osc [56; 59; 59] eq_refl) as [H2 _].
  rewrite run_app, H1, run_app, (run_plain text Ht).
  change (27 :: 93 :: [56; 59; 59] ++ [27; 92]) with (27 :: 93 :: [56; 59; 59] ++ [27; 92]).
  rewrite H2. cbn. apply app_nil_r.
Qed.

(* Link targets.  format_osc8_file_hyperlink has the shape Links.v models (pinned from the source on
   every run) ... *)
From Coq Require Import String.
From DV Require Import Text Links LinksFacts GenLinks.

Theorem C19_file_link_url_is_modelled : file_link_url_is_modelled = true.
Proof. reflexivity. Qed.

(* ... and for every template  pre {path} mid {line} post  without other braces, every brace-free path
   and every line number the target is exactly  pre path mid <decimal number> post; a link without a line
   number gets nothing in the place of {line}; a template without {line} (the default file://{path})
   gets the path and nothing else *)
Theorem C19_file_link_target_with_line : forall pre mid post path n,
  no_brace pre -> no_brace mid -> no_brace post -> no_brace path ->
  file_url (pre ++ P_PATH ++ mid ++ P_LINE ++ post) path None (Some n) = pre ++ path ++ mid ++ decimal n ++ post.
Proof. exact file_url_with_line. Qed.

Theorem C19_file_link_target_without_line : forall pre mid post path,
  no_brace pre -> no_brace mid -> no_brace post -> no_brace path ->
  file_url (pre ++ P_PATH ++ mid ++ P_LINE ++ post) path None None = pre ++ path ++ mid ++ post.
Proof. exact file_url_without_line. Qed.

Theorem C19_file_link_target_path_only : forall pre post path line,
  no_brace pre -> no_brace post -> no_brace path ->
  file_url (pre ++ P_PATH ++ post) path None line = pre ++ path ++ post.
Proof. exact file_url_path_only. Qed.
