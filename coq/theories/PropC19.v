(* C19 — hyperlinks are transparent.  Statements only, over the parser table regenerated
   from the crate linked into delta. *)
From Coq Require Import List Bool NArith.
Import ListNotations.
From DV Require Import GenVte Vte VteFacts.
Local Open Scope N_scope.

(* An OSC sequence — in particular the OSC 8 opener "ESC ] 8 ; params ; url ST" and closer
   "ESC ] 8 ; ; ST", with ST = ESC \ or BEL — contributes no text and leaves the parser in
   its ground state: measure_text_width, wrap points, padding and truncation, all computed on
   the text, are the same with and without hyperlinks. *)
Theorem C19_osc_zero_width : forall payload,
  forallb osc_payload_byte payload = true ->
  run ground (27 :: 93 :: payload ++ [27; 92]) = (ground, []) /\
  run ground (27 :: 93 :: payload ++ [7]) = (ground, []).
Proof. exact run_osc. Qed.

(* format_osc8_hyperlink: open ++ text ++ close strips to the text *)
Theorem C19_link_wrapper_transparent : forall url text,
  forallb osc_payload_byte url = true -> wf_text text = true ->
  strip ((27 :: 93 :: ([56; 59; 59] ++ url) ++ [27; 92]) ++ text ++ (27 :: 93 :: [56; 59; 59] ++ [27; 92])) = text.
Proof.
  intros url text Hu Ht. unfold strip. change vinit with ground.
  assert (Hp : forallb osc_payload_byte ([56; 59; 59] ++ url) = true)
    by (rewrite forallb_app, Hu; reflexivity).
  destruct (run_osc _ Hp) as [H1 _].
  destruct (run_osc [56; 59; 59] eq_refl) as [H2 _].
  rewrite run_app, H1, run_app, (run_plain text Ht).
  change (27 :: 93 :: [56; 59; 59] ++ [27; 92]) with (27 :: 93 :: [56; 59; 59] ++ [27; 92]).
  rewrite H2. cbn. apply app_nil_r.
Qed.
