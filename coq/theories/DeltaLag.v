(* C11: the one-step lag bound (DeltaFacts.hunk_step_lag) lifted to a hunk body of any length:
   after every line of the body — not only at its end — the output buffer is empty and the two
   line buffers are bounded, however many body lines the hunk has. *)
From Coq Require Import List Bool NArith Lia.
Import ListNotations.
From DV Require Import Text Delta DeltaFacts.

Definition lagged (c : cfg) (s : sm) : Prop :=
  buf s = [] /\ in_hunk s = true /\
  length (minus_lines s) <= S (line_buffer_size c) /\
  length (plus_lines s) <= S (line_buffer_size c).

Lemma hunk_body_lag c : forall (ls : list (nat * text)) s,
  in_hunk s = true -> Forall (fun il => body_line (snd il) = true) ls ->
  forall pre post, ls = pre ++ post -> pre <> [] -> lagged c (steps c pre s).
Proof.
  intros ls s Hs Hall pre post E Hne. subst ls.
  apply Forall_app in Hall. destruct Hall as [Hpre _]. clear post.
  revert s Hs Hne. induction pre as [|[i l] r IH]; intros s Hs Hne; [contradiction|].
  unfold steps. cbn [fold_left]. fold (steps c r (step c s (i, l))).
  inversion Hpre as [|? ? Hl Hr]; subst. cbn [snd] in Hl.
  pose proof (hunk_step_lag c s i l Hs Hl) as H1. cbv zeta in H1.
  destruct r as [|il r'].
  - exact H1.
  - apply (IH Hr); [exact (proj1 (proj2 H1)) | discriminate].
Qed.
