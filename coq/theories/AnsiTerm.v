(* ansi_term 0.12.1 painting vs an SGR terminal model *)
From Coq Require Import List NArith Bool Lia.
Import ListNotations.
Local Open Scope N_scope.

Inductive color := Named (n:N) (* 0..7 *) | Fixed (n:N) | RGB (r g b:N).
Record style := mk {
  fg : option color; bg : option color;
  bold : bool; dim : bool; ital : bool; ul : bool; blink : bool; rev : bool; hid : bool; strike : bool }.
Definition plain := mk None None false false false false false false false false.

Definition color_eqb (a b : color) : bool :=
  match a, b with
  | Named x, Named y => x =? y | Fixed x, Fixed y => x =? y
  | RGB a1 a2 a3, RGB b1 b2 b3 => (a1 =? b1) && (a2 =? b2) && (a3 =? b3)
  | _, _ => false end.
Lemma color_eqb_spec a b : reflect (a = b) (color_eqb a b).
Proof.
  destruct a as [x|x|r1 g1 b1], b as [y|y|r2 g2 b2]; simpl; try (constructor; congruence).
  - destruct (N.eqb_spec x y); constructor; congruence.
  - destruct (N.eqb_spec x y); constructor; congruence.
  - destruct (N.eqb_spec r1 r2), (N.eqb_spec g1 g2), (N.eqb_spec b1 b2); simpl; constructor; congruence.
Qed.
Definition ocolor_eqb (a b : option color) :=
  match a, b with Some x, Some y => color_eqb x y | None, None => true | _, _ => false end.
Lemma ocolor_eqb_spec a b : reflect (a = b) (ocolor_eqb a b).
Proof. destruct a, b; simpl; try (constructor; congruence). destruct (color_eqb_spec c c0); constructor; congruence. Qed.
Definition style_eqb (a b : style) : bool :=
  ocolor_eqb (fg a) (fg b) && ocolor_eqb (bg a) (bg b) && Bool.eqb (bold a) (bold b) && Bool.eqb (dim a) (dim b)
  && Bool.eqb (ital a) (ital b) && Bool.eqb (ul a) (ul b) && Bool.eqb (blink a) (blink b) && Bool.eqb (rev a) (rev b)
  && Bool.eqb (hid a) (hid b) && Bool.eqb (strike a) (strike b).
Lemma style_eqb_eq a b : style_eqb a b = true <-> a = b.
Proof.
  destruct a, b; unfold style_eqb; simpl. split.
  - intro H. repeat (apply andb_prop in H; destruct H as [H ?]).
    destruct (ocolor_eqb_spec fg0 fg1); try discriminate. destruct (ocolor_eqb_spec bg0 bg1); try discriminate.
    repeat match goal with H: Bool.eqb _ _ = true |- _ => apply Bool.eqb_prop in H end. congruence.
  - intro H; inversion H; subst.
    destruct (ocolor_eqb_spec fg1 fg1); [|congruence]. destruct (ocolor_eqb_spec bg1 bg1); [|congruence].
    rewrite !Bool.eqb_reflx. reflexivity.
Qed.

(* --- output tokens: an SGR sequence with parameter list, or a text chunk --- *)
Inductive tok := Sgr (ps : list N) | Txt (t : list N).

Definition fg_codes (c:color) := match c with Named n => [30+n] | Fixed n => [38;5;n] | RGB r g b => [38;2;r;g;b] end.
Definition bg_codes (c:color) := match c with Named n => [40+n] | Fixed n => [48;5;n] | RGB r g b => [48;2;r;g;b] end.
Definition is_plain (s:style) := style_eqb s plain.
Definition b2l (b:bool) (n:N) : list N := if b then [n] else [].
Definition prefix_codes (s:style) : list N :=
  b2l (bold s) 1 ++ b2l (dim s) 2 ++ b2l (ital s) 3 ++ b2l (ul s) 4 ++ b2l (blink s) 5 ++ b2l (rev s) 7 ++ b2l (hid s) 8 ++ b2l (strike s) 9
  ++ match bg s with Some c => bg_codes c | None => [] end
  ++ match fg s with Some c => fg_codes c | None => [] end.
Definition prefix (s:style) : list tok := if is_plain s then [] else [Sgr (prefix_codes s)].
Definition RESET := Sgr [0].

Inductive diff := Extra (s:style) | Reset | NoDiff.
Definition lost (a b : bool) := a && negb b.
Definition between (a b : style) : diff :=
  if style_eqb a b then NoDiff else
  if lost (bold a) (bold b) || lost (dim a) (dim b) || lost (ital a) (ital b) || lost (ul a) (ul b)
     || lost (blink a) (blink b) || lost (rev a) (rev b) || lost (hid a) (hid b) || lost (strike a) (strike b)
     || (match fg a, fg b with Some _, None => true | _, _ => false end)
     || (match bg a, bg b with Some _, None => true | _, _ => false end)
  then Reset else
  Extra (mk (if ocolor_eqb (fg a) (fg b) then None else fg b)
            (if ocolor_eqb (bg a) (bg b) then None else bg b)
            (xorb (bold a) (bold b)) (xorb (dim a) (dim b)) (xorb (ital a) (ital b)) (xorb (ul a) (ul b))
            (xorb (blink a) (blink b)) (xorb (rev a) (rev b)) (xorb (hid a) (hid b)) (xorb (strike a) (strike b))).

Fixpoint strings_tail (prev : style) (l : list (style * list N)) : list tok :=
  match l with
  | [] => if is_plain prev then [] else [RESET]
  | (s,t) :: r =>
      (match between prev s with
       | Extra e => prefix e | Reset => RESET :: prefix s | NoDiff => [] end)
      ++ Txt t :: strings_tail s r
  end.
Definition ansi_strings (l : list (style * list N)) : list tok :=
  match l with [] => [] | (s,t)::r => prefix s ++ Txt t :: strings_tail s r end.

(* --- terminal model: SGR interpretation written from ECMA-48, independent of the above --- *)
Definition set_bold s := mk (fg s) (bg s) true (dim s) (ital s) (ul s) (blink s) (rev s) (hid s) (strike s).
Definition set_dim s := mk (fg s) (bg s) (bold s) true (ital s) (ul s) (blink s) (rev s) (hid s) (strike s).
Definition set_ital s := mk (fg s) (bg s) (bold s) (dim s) true (ul s) (blink s) (rev s) (hid s) (strike s).
Definition set_ul s := mk (fg s) (bg s) (bold s) (dim s) (ital s) true (blink s) (rev s) (hid s) (strike s).
Definition set_blink s := mk (fg s) (bg s) (bold s) (dim s) (ital s) (ul s) true (rev s) (hid s) (strike s).
Definition set_rev s := mk (fg s) (bg s) (bold s) (dim s) (ital s) (ul s) (blink s) true (hid s) (strike s).
Definition set_hid s := mk (fg s) (bg s) (bold s) (dim s) (ital s) (ul s) (blink s) (rev s) true (strike s).
Definition set_strike s := mk (fg s) (bg s) (bold s) (dim s) (ital s) (ul s) (blink s) (rev s) (hid s) true.
Definition set_fg c s := mk c (bg s) (bold s) (dim s) (ital s) (ul s) (blink s) (rev s) (hid s) (strike s).
Definition set_bg c s := mk (fg s) c (bold s) (dim s) (ital s) (ul s) (blink s) (rev s) (hid s) (strike s).

Fixpoint apply_sgr (ps : list N) (s : style) : style :=
  match ps with
  | [] => s
  | p :: r =>
    if p =? 0 then apply_sgr r plain else
    if p =? 1 then apply_sgr r (set_bold s) else
    if p =? 2 then apply_sgr r (set_dim s) else
    if p =? 3 then apply_sgr r (set_ital s) else
    if p =? 4 then apply_sgr r (set_ul s) else
    if (p =? 5) || (p =? 6) then apply_sgr r (set_blink s) else
    if p =? 7 then apply_sgr r (set_rev s) else
    if p =? 8 then apply_sgr r (set_hid s) else
    if p =? 9 then apply_sgr r (set_strike s) else
    if (30 <=? p) && (p <=? 37) then apply_sgr r (set_fg (Some (Named (p-30))) s) else
    if (40 <=? p) && (p <=? 47) then apply_sgr r (set_bg (Some (Named (p-40))) s) else
    if p =? 39 then apply_sgr r (set_fg None s) else
    if p =? 49 then apply_sgr r (set_bg None s) else
    if (p =? 38) || (p =? 48) then
      match r with
      | k :: r1 =>
        if k =? 5 then
          match r1 with
          | n :: r2 => apply_sgr r2 (if p =? 38 then set_fg (Some (Fixed n)) s else set_bg (Some (Fixed n)) s)
          | [] => s end
        else if k =? 2 then
          match r1 with
          | a :: b :: c :: r2 => apply_sgr r2 (if p =? 38 then set_fg (Some (RGB a b c)) s else set_bg (Some (RGB a b c)) s)
          | _ => s end
        else s
      | [] => s end
    else apply_sgr r s
  end.
Definition sgr ps s := apply_sgr ps s.

(* decode: list of (style shown, text) and final state *)
Fixpoint decode (st : style) (ts : list tok) : list (style * list N) * style :=
  match ts with
  | [] => ([], st)
  | Sgr ps :: r => decode (sgr ps st) r
  | Txt t :: r => let '(cells, fin) := decode st r in ((st,t)::cells, fin)
  end.

Definition wf_color (c:color) := match c with Named n => n <= 7 | _ => True end.
Definition wf_style (s:style) := (match fg s with Some c => wf_color c | None => True end) /\ (match bg s with Some c => wf_color c | None => True end).

(* quick sanity *)
Definition s1 := mk (Some (Named 1)) None true false false false false false false false.
Definition s2 := mk (Some (Named 1)) (Some (Fixed 52)) true false false true false false false false.
Definition s3 := mk None (Some (RGB 1 2 3)) false false false false false false false false.
