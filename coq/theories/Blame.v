(* Model of the blame colour assignment of src/handlers/blame.rs
   (StateMachine::blame_metadata_style / get_color / get_next_color) — C17.

   Keys (the formatted metadata of a blame line) are numbers; palette colours are indices
   0..n-1 into a palette of n pairwise distinct colours.  A line may carry a colour supplied
   by git itself (blame.coloring): then delta uses it and does not record the key. *)
From Coq Require Import List Arith Bool NArith.
Import ListNotations.

Inductive result (A : Type) := Ok (a : A) | Panic (why : nat).
Arguments Ok {A} a.
Arguments Panic {A} why.

Definition key := N.
Record bst := mkB { cmap : list (key * nat); prev : option key }.

Fixpoint lookup (k : key) (m : list (key * nat)) : option nat :=
  match m with
  | [] => None
  | (k', c) :: r => if N.eqb k k' then Some c else lookup k r
  end.

(* HashMap::insert *)
Fixpoint insert (k : key) (c : nat) (m : list (key * nat)) : list (key * nat) :=
  match m with
  | [] => [(k, c)]
  | (k', c') :: r => if N.eqb k k' then (k, c) :: r else (k', c') :: insert k c r
  end.

Definition opt_nat_eqb (a b : option nat) : bool :=
  match a, b with
  | Some x, Some y => Nat.eqb x y
  | None, None => true
  | _, _ => false
  end.

(* get_next_color: palette[n_keys % n_colors], or the following one when that is the colour
   to avoid *)
Definition next_color (n : nat) (m : list (key * nat)) (other : option nat) : nat :=
  let c := length m mod n in
  if opt_nat_eqb (Some c) other then (length m + 1) mod n else c.

Definition is_repeat (st : bst) (k : key) : bool :=
  match prev st with Some p => N.eqb p k | None => false end.

Definition get_color (n : nat) (st : bst) (k : key) : result nat :=
  let pc := match prev st with Some p => lookup p (cmap st) | None => None end in
  match lookup k (cmap st) with
  | Some kc =>
      match pc with
      | Some pcv =>
          if is_repeat st k then Ok kc
          else if Nat.eqb kc pcv then Ok (next_color n (cmap st) (Some kc)) else Ok kc
      | None => Ok kc     (* the previous line was coloured by git: nothing to collide with *)
      end
  | None => Ok (next_color n (cmap st) pc)   (* new key (also when the line above, same key,
                                                was coloured by git and left no record) *)
  end.

(* one blame line: its key and whether git supplied a colour for it.
   Output: Some c = palette colour c, None = git's colour. *)
Definition step (n : nat) (st : bst) (l : key * bool) : result (bst * option nat) :=
  let (k, gitcol) := l in
  if gitcol then Ok (mkB (cmap st) (Some k), None)
  else match get_color n st k with
       | Ok c => Ok (mkB (insert k c (cmap st)) (Some k), Some c)
       | Panic w => Panic w
       end.

Fixpoint run (n : nat) (st : bst) (ls : list (key * bool)) : result (list (option nat)) :=
  match ls with
  | [] => Ok []
  | l :: r =>
      match step n st l with
      | Ok (st', c) => match run n st' r with Ok cs => Ok (c :: cs) | Panic w => Panic w end
      | Panic w => Panic w
      end
  end.

Definition init : bst := mkB [] None.

(* the same with every line uncoloured by git: keys in, palette indices out *)
Definition plain (ks : list key) : list (key * bool) := map (fun k => (k, false)) ks.

(* The property as a decidable predicate on rendered rows (key, colour), most recent row
   first in [hist]; BlameFacts proves it equivalent to the Prop-level specification.  The
   extracted version is the oracle applied to the implementation's output. *)
Definition row_okb (hist : list (key * nat)) (k : key) (c : nat) : bool :=
  match hist with
  | [] => true
  | (pk, pc) :: _ =>
      (if N.eqb k pk then Nat.eqb c pc else negb (Nat.eqb c pc)) &&
      match lookup k hist with
      | Some kc => if Nat.eqb kc pc then true else Nat.eqb c kc
      | None => true
      end
  end.

Fixpoint specb (hist : list (key * nat)) (rows : list (key * nat)) : bool :=
  match rows with
  | [] => true
  | (k, c) :: r => row_okb hist k c && specb ((k, c) :: hist) r
  end.
