From Coq Require Import Bool NArith.
From DV Require Import Differ GenDiffer.
Local Open Scope N_scope.

(* a git that cannot read process substitutions is never handed one *)
Theorem old_git_never_gets_a_pipe v pm pp :
  version_ge v (2, 42) = false -> pm || pp = true -> code_use_git v pm pp = false.
Proof. intros Hv Hp. unfold code_use_git, code_min_version. now rewrite Hv, Hp. Qed.

Theorem ordinary_files_use_git v : code_use_git v false false = true.
Proof. unfold code_use_git. now rewrite orb_true_r. Qed.

Theorem new_git_always v pm pp : version_ge v (2, 42) = true -> code_use_git v pm pp = true.
Proof. intros Hv. unfold code_use_git, code_min_version. now rewrite Hv. Qed.
