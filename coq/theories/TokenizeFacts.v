From Coq Require Import List Bool NArith Arith Lia.
Import ListNotations.
From DV Require Import Text Tokenize.

Section Facts.
Variable is_word : N -> bool.

Lemma take_word_app l : let (w, rest) := take_word is_word l in w ++ rest = l /\ length rest <= length l.
Proof.
  induction l as [|c r IH]; cbn; [split; [reflexivity | lia]|].
  destruct (is_word c); [|split; [reflexivity | cbn; lia]].
  destruct (take_word is_word r) as [w rest]. destruct IH as [E L]. cbn. rewrite E. split; [reflexivity | lia].
Qed.

Lemma toks_concat fuel : forall l, length l <= fuel -> concat (toks is_word fuel l) = l.
Proof.
  induction fuel as [|f IH]; intros l Hl.
  - destruct l; [reflexivity | cbn in Hl; lia].
  - destruct l as [|c r]; [reflexivity|]. cbn [toks].
    destruct (is_word c) eqn:E.
    + pose proof (take_word_app (c :: r)) as H. cbn [take_word] in *. rewrite E in *.
      destruct (take_word is_word r) as [w rest]. destruct H as [H1 H2]. cbn [concat].
      rewrite IH; [exact H1|]. cbn in Hl, H2. 
      assert (length rest <= length r).
      { pose proof (take_word_app r) as H3. destruct (take_word is_word r) as [w' rest'] eqn:E2.
        injection H1 as H1. apply (f_equal (@length N)) in H1. rewrite app_length in H1. lia. }
      lia.
    + cbn [concat app]. rewrite IH; [reflexivity | cbn in Hl; lia].
Qed.

(* C06: the tokens of a line concatenate to the line: nothing is lost or duplicated, and the
   first token is the empty token *)
Theorem tokenize_partition l :
  concat (tokenize is_word l) = l /\ hd_error (tokenize is_word l) = Some [].
Proof.
  unfold tokenize. destruct l as [|c r]; [split; reflexivity|].
  destruct (is_word c); cbn [concat app hd_error]; rewrite toks_concat by lia; split; reflexivity.
Qed.
End Facts.
