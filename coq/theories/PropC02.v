(* C02 — --color-only is a line-for-line filter.  Statements only, over the line state
   machine model with color_only = true. *)
From Coq Require Import String.
From Coq Require Import List Bool NArith.
Import ListNotations.
From DV Require Import Text Delta DeltaFacts DeltaColorOnly.

(* For EVERY input (arbitrary lines, not only well-formed diffs): with --color-only the
   number of output rows equals the number of input lines, under one decidable side
   condition ([safes]): a hunk-header line is followed by a line of its hunk, i.e. not
   directly by a commit / diff / @@ / mode / "Binary files" line nor by the end of input
   (git never produces that; the header would never be rendered). *)
Theorem C02_line_for_line : forall c, color_only c = true -> forall lines,
  safes c init (number_from 0 lines) -> length (run c lines) = length lines.
Proof. exact color_only_line_for_line. Qed.

(* Per line: exactly one more row is rendered, buffered or pending, from any state that has
   no mode information recorded (none ever is under --color-only). *)
Theorem C02_one_row_per_line : forall c, color_only c = true -> forall s i l,
  CI s -> safe s l -> cnt (step c s (i, l)) = S (cnt s) /\ CI (step c s (i, l)).
Proof. exact step_count. Qed.

Theorem C02_side_condition_decidable : forall c ls s, safesb c s ls = true -> safes c s ls.
Proof. exact safesb_safes. Qed.

(* Under --color-only every item is a single row. *)
Theorem C02_items_are_single_rows : forall c it, color_only c = true -> rows_of c it = 1.
Proof. intros c it H. destruct it; cbn; rewrite ?H; reflexivity. Qed.

(* Non-vacuity: a log with a renamed, a mode-only and a modified file *)
Example C02_example :
  let lines := [lit "commit 1234567"%string; lit "Author: A"%string; lit ""%string; lit "    msg"%string; lit ""%string;
     lit "diff --git a/o b/n"%string; lit "similarity index 100%"%string; lit "rename from o"%string; lit "rename to n"%string;
     lit "diff --git a/m b/m"%string; lit "old mode 100644"%string; lit "new mode 100755"%string;
     lit "diff --git a/x b/x"%string; lit "index 1..2 100644"%string; lit "--- a/x"%string; lit "+++ b/x"%string;
     lit "@@ -1,2 +1,2 @@ f"%string; lit " c"%string; lit "-o"%string; lit "+n"%string] in
  safesb (mkCfg true 0 32) init (number_from 0 lines) = true /\
  length (run (mkCfg true 0 32) lines) = length lines.
Proof. vm_compute. split; reflexivity. Qed.

(* Submodule pointer lines: with --color-only the short-form handler (shape pinned by
   GenSubmodule.v, see C01_submodule_handler_is_modelled) claims no line in any state, so these lines
   stay on the one-row-per-line path like every other hunk line. *)
From DV Require Import Submodule SubmoduleFacts GenSubmodule.

Theorem C02_submodule_handler_is_modelled : submodule_handler_is_modelled = true.
Proof. reflexivity. Qed.

Theorem C02_submodule_lines_not_claimed : forall st l, sub_handle true st l = None.
Proof. exact color_only_claims_nothing. Qed.
