(* Facts about the text/escape classification (Vte.v): plain text is kept as is, an SGR
   sequence contributes nothing and returns to the ground state, hence colouring a text
   with SGR sequences does not change what strip_ansi_codes returns (C08); an OSC 8
   hyperlink sequence contributes nothing either (C19). *)
From Coq Require Import List Bool NArith Arith Lia.
Import ListNotations.
From DV Require Import GenVte Vte.
Local Open Scope N_scope.

Definition ground : vst := mkV S_GROUND [] 0.

Lemma run_app s a b :
  run s (a ++ b) = let (s1, t1) := run s a in let (s2, t2) := run s1 b in (s2, t1 ++ t2).
Proof.
  revert s. induction a as [|x a IH]; intros s; cbn [app run].
  - destruct (run s b); reflexivity.
  - destruct (feed s x) as [s1 t1]. rewrite IH. destruct (run s1 a) as [s2 t2].
    destruct (run s2 b) as [s3 t3]. rewrite app_assoc. reflexivity.
Qed.

(* ---- finite facts about the table, by computation over all bytes *)
Definition bytes : list N := map N.of_nat (seq 0 256).

Lemma in_bytes b : b < 256 -> In b bytes.
Proof.
  intros H. unfold bytes. apply in_map_iff. exists (N.to_nat b). split; [apply N2Nat.id|].
  apply in_seq. lia.
Qed.

Definition ascii_text_ok (b : N) : bool :=
  if (b <? 128) && negb (b =? 27) then
    match feed ground b with (s, t) => (vstate s =? S_GROUND) && (match pendb s with [] => true | _ => false end)
                                        && Nat.eqb (need s) 0 && (match t with [x] => x =? b | _ => false end) end
  else true.

Lemma ascii_table : forallb ascii_text_ok bytes = true.
Proof. vm_compute. reflexivity. Qed.

Lemma feed_ascii b : b < 128 -> b <> 27 -> feed ground b = (ground, [b]).
Proof.
  intros Hb Hn. pose proof ascii_table as H. rewrite forallb_forall in H.
  specialize (H b (in_bytes b ltac:(lia))). unfold ascii_text_ok in H.
  replace (b <? 128) with true in H by (symmetry; apply N.ltb_lt; exact Hb).
  replace (b =? 27) with false in H by (symmetry; apply N.eqb_neq; exact Hn).
  cbn [andb negb] in H. destruct (feed ground b) as [s t].
  destruct s as [st pb nd]. cbn [vstate pendb need] in H.
  apply andb_true_iff in H. destruct H as [H Ht]. apply andb_true_iff in H. destruct H as [H Hnd].
  apply andb_true_iff in H. destruct H as [Hst Hpb].
  apply N.eqb_eq in Hst. destruct pb; [|discriminate]. apply Nat.eqb_eq in Hnd. subst.
  destruct t as [|x [|y t]]; try discriminate. apply N.eqb_eq in Ht. subst. reflexivity.
Qed.

Definition lead_ok (b : N) : bool :=
  if (194 <=? b) && (b <=? 244) then
    match feed ground b with
    | (s, t) => (vstate s =? S_UTF8) && (match pendb s with [x] => x =? b | _ => false end)
                && Nat.eqb (need s) (utf8_len b - 1) && (match t with [] => true | _ => false end)
    end
  else true.

Lemma lead_table : forallb lead_ok bytes = true.
Proof. vm_compute. reflexivity. Qed.

Lemma feed_lead b : 194 <= b -> b <= 244 ->
  feed ground b = (mkV S_UTF8 [b] (utf8_len b - 1), []).
Proof.
  intros H1 H2. pose proof lead_table as H. rewrite forallb_forall in H.
  specialize (H b (in_bytes b ltac:(lia))). unfold lead_ok in H.
  replace (194 <=? b) with true in H by (symmetry; apply N.leb_le; exact H1).
  replace (b <=? 244) with true in H by (symmetry; apply N.leb_le; exact H2).
  cbn [andb] in H. destruct (feed ground b) as [s t]. destruct s as [st pb nd].
  cbn [vstate pendb need] in H.
  apply andb_true_iff in H. destruct H as [H Ht]. apply andb_true_iff in H. destruct H as [H Hnd].
  apply andb_true_iff in H. destruct H as [Hst Hpb].
  apply N.eqb_eq in Hst. destruct pb as [|x [|y pb]]; try discriminate. apply N.eqb_eq in Hpb.
  apply Nat.eqb_eq in Hnd. destruct t; [|discriminate]. subst. reflexivity.
Qed.

(* ---- well-formed plain text: valid UTF-8 without ESC *)
Definition is_cont (b : N) : bool := (128 <=? b) && (b <=? 191).

Fixpoint wf_text (l : list N) : bool :=
  match l with
  | [] => true
  | b :: r =>
      if b <? 128 then negb (b =? 27) && wf_text r
      else if (194 <=? b) && (b <=? 223) then
        match r with c1 :: r1 => is_cont c1 && wf_text r1 | _ => false end
      else if (224 <=? b) && (b <=? 239) then
        match r with c1 :: c2 :: r2 => is_cont c1 && is_cont c2 && wf_text r2 | _ => false end
      else if (240 <=? b) && (b <=? 244) then
        match r with c1 :: c2 :: c3 :: r3 => is_cont c1 && is_cont c2 && is_cont c3 && wf_text r3 | _ => false end
      else false
  end.

Lemma run_plain_aux : forall n l, (length l <= n)%nat -> wf_text l = true -> run ground l = (ground, l).
Proof.
  induction n as [|n IH]; intros l Hl Hw.
  - destruct l; [reflexivity | cbn in Hl; lia].
  - destruct l as [|b r]; [reflexivity|]. cbn [wf_text] in Hw. cbn [length] in Hl.
    destruct (b <? 128) eqn:E1.
    + apply andb_true_iff in Hw. destruct Hw as [Hn Hr]. apply negb_true_iff, N.eqb_neq in Hn.
      apply N.ltb_lt in E1. cbn [run]. rewrite (feed_ascii b E1 Hn).
      rewrite (IH r ltac:(lia) Hr). reflexivity.
    + destruct ((194 <=? b) && (b <=? 223)) eqn:E2.
      * apply andb_true_iff in E2. destruct E2 as [A B]. apply N.leb_le in A, B.
        destruct r as [|c1 r1]; [discriminate|]. apply andb_true_iff in Hw. destruct Hw as [_ Hr].
        cbn [run]. rewrite (feed_lead b A ltac:(lia)).
        assert (U : utf8_len b = 2%nat) by (unfold utf8_len; replace (b <? 224) with true by (symmetry; apply N.ltb_lt; lia); reflexivity).
        rewrite U. cbn [Nat.sub]. unfold feed at 1. cbn [vstate need pendb]. cbn [N.eqb S_UTF8 Pos.eqb].
        cbn [length] in Hl. fold ground. rewrite (IH r1 ltac:(lia) Hr). reflexivity.
      * destruct ((224 <=? b) && (b <=? 239)) eqn:E3.
        -- apply andb_true_iff in E3. destruct E3 as [A B]. apply N.leb_le in A, B.
           destruct r as [|c1 [|c2 r2]]; try discriminate.
           repeat (apply andb_true_iff in Hw; destruct Hw as [Hw ?]).
           cbn [run]. rewrite (feed_lead b ltac:(lia) ltac:(lia)).
           assert (U : utf8_len b = 3%nat).
           { unfold utf8_len. replace (b <? 224) with false by (symmetry; apply N.ltb_ge; lia).
             replace (b <? 240) with true by (symmetry; apply N.ltb_lt; lia). reflexivity. }
           rewrite U. cbn [Nat.sub]. unfold feed at 1. cbn [vstate need pendb N.eqb S_UTF8 Pos.eqb].
           unfold feed at 1. cbn [vstate need pendb N.eqb S_UTF8 Pos.eqb app].
           cbn [length] in Hl. fold ground. rewrite (IH r2 ltac:(lia) H). reflexivity.
        -- destruct ((240 <=? b) && (b <=? 244)) eqn:E4; [|discriminate].
           apply andb_true_iff in E4. destruct E4 as [A B]. apply N.leb_le in A, B.
           destruct r as [|c1 [|c2 [|c3 r3]]]; try discriminate.
           repeat (apply andb_true_iff in Hw; destruct Hw as [Hw ?]).
           cbn [run]. rewrite (feed_lead b ltac:(lia) ltac:(lia)).
           assert (U : utf8_len b = 4%nat).
           { unfold utf8_len. replace (b <? 224) with false by (symmetry; apply N.ltb_ge; lia).
             replace (b <? 240) with false by (symmetry; apply N.ltb_ge; lia). reflexivity. }
           rewrite U. cbn [Nat.sub]. unfold feed at 1. cbn [vstate need pendb N.eqb S_UTF8 Pos.eqb].
           unfold feed at 1. cbn [vstate need pendb N.eqb S_UTF8 Pos.eqb app].
           unfold feed at 1. cbn [vstate need pendb N.eqb S_UTF8 Pos.eqb app].
           cbn [length] in Hl. fold ground. rewrite (IH r3 ltac:(lia) H). reflexivity.
Qed.

(* plain text is text *)
Theorem run_plain l : wf_text l = true -> run ground l = (ground, l).
Proof. apply (run_plain_aux (length l)). lia. Qed.

(* ---- SGR sequences:  ESC [ (0x30..0x3b)* m  *)
Definition is_param (b : N) : bool := (48 <=? b) && (b <=? 59).
Definition sgr_bytes (ps : list N) : list N := 27 :: 91 :: ps ++ [109].

Definition st (n : N) : vst := mkV n [] 0.

Definition vst_eqb (a b : vst) : bool :=
  (vstate a =? vstate b) && (match pendb a, pendb b with [], [] => true | _, _ => false end) &&
  Nat.eqb (need a) (need b).

Lemma vst_eqb_eq a n : vst_eqb a (st n) = true -> a = st n.
Proof.
  destruct a as [s p d]. unfold vst_eqb, st. cbn. intros H.
  apply andb_true_iff in H. destruct H as [H Hd]. apply andb_true_iff in H. destruct H as [Hs Hp].
  apply N.eqb_eq in Hs. apply Nat.eqb_eq in Hd. destruct p; [|discriminate]. subst. reflexivity.
Qed.

Definition silent_to (s : vst) (b : N) (n : N) : bool :=
  match feed s b with (s', t) => vst_eqb s' (st n) && (match t with [] => true | _ => false end) end.

Lemma silent_to_spec s b n : silent_to s b n = true -> feed s b = (st n, []).
Proof.
  unfold silent_to. destruct (feed s b) as [s' t]. intros H. apply andb_true_iff in H.
  destruct H as [H1 H2]. apply vst_eqb_eq in H1. destruct t; [|discriminate]. subst. reflexivity.
Qed.

Lemma esc_csi : feed ground 27 = (st 10, []) /\ feed (st 10) 91 = (st 1, []) /\
                feed (st 1) 109 = (ground, []) /\ feed (st 4) 109 = (ground, []).
Proof. repeat split; vm_compute; reflexivity. Qed.

Definition param_ok (b : N) : bool :=
  if is_param b then silent_to (st 1) b 4 && silent_to (st 4) b 4 else true.
Lemma param_table : forallb param_ok bytes = true.
Proof. vm_compute. reflexivity. Qed.

Lemma feed_param b : is_param b = true -> feed (st 1) b = (st 4, []) /\ feed (st 4) b = (st 4, []).
Proof.
  intros Hp. pose proof param_table as H. rewrite forallb_forall in H.
  assert (Hb : b < 256) by (unfold is_param in Hp; apply andb_true_iff in Hp; destruct Hp as [_ Hp]; apply N.leb_le in Hp; lia).
  specialize (H b (in_bytes b Hb)). unfold param_ok in H. rewrite Hp in H.
  apply andb_true_iff in H. destruct H as [H1 H2]. split; apply silent_to_spec; assumption.
Qed.

Lemma run_params ps : forallb is_param ps = true ->
  run (st 4) (ps ++ [109]) = (ground, []) /\ run (st 1) (ps ++ [109]) = (ground, []).
Proof.
  induction ps as [|p r IH]; intros Hf.
  - destruct esc_csi as (_ & _ & E1 & E4). cbn [app run]. rewrite E1, E4. split; reflexivity.
  - cbn in Hf. apply andb_true_iff in Hf. destruct Hf as [Hp Hr]. destruct (IH Hr) as [I4 I1].
    destruct (feed_param p Hp) as [F1 F4]. cbn [app run]. rewrite F1, F4, I4. split; reflexivity.
Qed.

(* an SGR sequence is not text and leaves the parser where plain text left it *)
Theorem run_sgr ps : forallb is_param ps = true -> run ground (sgr_bytes ps) = (ground, []).
Proof.
  intros Hf. destruct esc_csi as (E0 & E1 & _). unfold sgr_bytes. cbn [run]. rewrite E0, E1.
  destruct (run_params ps Hf) as [_ I1]. rewrite I1. reflexivity.
Qed.

(* ---- colouring *)
Inductive seg := Plain (t : list N) | Sgr (ps : list N).

Definition seg_bytes (s : seg) : list N := match s with Plain t => t | Sgr ps => sgr_bytes ps end.
Definition seg_text (s : seg) : list N := match s with Plain t => t | Sgr _ => [] end.
Definition seg_wf (s : seg) : bool := match s with Plain t => wf_text t | Sgr ps => forallb is_param ps end.

(* C08: whatever SGR sequences are inserted between (whole characters of) a plain text, the
   stripped line is the plain text: delta parses, measures and pairs the same line whether or
   not git coloured it. *)
Theorem strip_colourise segs :
  forallb seg_wf segs = true ->
  strip (concat (map seg_bytes segs)) = concat (map seg_text segs) /\
  fst (run vinit (concat (map seg_bytes segs))) = ground.
Proof.
  unfold strip. change vinit with ground.
  induction segs as [|s r IH]; intros Hf; [split; reflexivity|].
  cbn in Hf. apply andb_true_iff in Hf. destruct Hf as [Hs Hr]. destruct (IH Hr) as [I1 I2].
  cbn [map concat]. rewrite run_app.
  destruct s as [t|ps]; cbn [seg_bytes seg_text seg_wf] in *.
  - rewrite (run_plain t Hs). destruct (run ground (concat (map seg_bytes r))) as [s2 t2].
    cbn [fst snd] in *. subst. split; reflexivity.
  - rewrite (run_sgr ps Hs). destruct (run ground (concat (map seg_bytes r))) as [s2 t2].
    cbn [fst snd] in *. subst. split; reflexivity.
Qed.

(* ---- OSC sequences (hyperlinks):  ESC ] payload (ESC \ | BEL)  *)
Definition osc_payload_byte (b : N) : bool := (32 <=? b) && (b <=? 255).
Definition osc_ok (b : N) : bool := if osc_payload_byte b then silent_to (st 13) b 13 else true.
Lemma osc_table : forallb osc_ok bytes = true.
Proof. vm_compute. reflexivity. Qed.

Lemma osc_edges : feed ground 27 = (st 10, []) /\ feed (st 10) 93 = (st 13, []) /\
                  feed (st 13) 27 = (st 10, []) /\ feed (st 10) 92 = (ground, []) /\
                  feed (st 13) 7 = (ground, []).
Proof. repeat split; vm_compute; reflexivity. Qed.

Lemma run_osc_payload p : forallb osc_payload_byte p = true -> forall rest,
  run (st 13) (p ++ rest) = run (st 13) rest.
Proof.
  induction p as [|b r IH]; intros Hf rest; [reflexivity|].
  cbn in Hf. apply andb_true_iff in Hf. destruct Hf as [Hb Hr].
  pose proof osc_table as H. rewrite forallb_forall in H.
  assert (Hlt : b < 256) by (unfold osc_payload_byte in Hb; apply andb_true_iff in Hb; destruct Hb as [_ Hb]; apply N.leb_le in Hb; lia).
  specialize (H b (in_bytes b Hlt)). unfold osc_ok in H. rewrite Hb in H. apply silent_to_spec in H.
  cbn [app run]. rewrite H. rewrite (IH Hr rest). destruct (run (st 13) rest); reflexivity.
Qed.

(* C19: an OSC sequence (e.g. an OSC 8 hyperlink opener or closer) contributes no text, so
   widths measured on the stripped line are unaffected by hyperlinks *)
Theorem run_osc payload : forallb osc_payload_byte payload = true ->
  run ground (27 :: 93 :: payload ++ [27; 92]) = (ground, []) /\
  run ground (27 :: 93 :: payload ++ [7]) = (ground, []).
Proof.
  intros Hf. destruct osc_edges as (E0 & E1 & E2 & E3 & E4).
  split; cbn [run]; rewrite E0, E1, (run_osc_payload payload Hf); cbn [run].
  - rewrite E2, E3. reflexivity.
  - rewrite E4. reflexivity.
Qed.
