(* Option resolution (src/options/set.rs gather_features*, src/options/get.rs
   get_option_value, src/git_config) for one probe option — C13.

   Names of features are numbers; the value of the probe option is a number.  A gitconfig
   gives, for the main [delta] section and for each [delta "name"] section: the probe's value
   (if set), a `features` list (if set) and the built-in features whose boolean flag is true.
   GIT_CONFIG_PARAMETERS entries override the file per key and are merged by the harness
   into the same structure under [env_*] fields, so that the override rule is part of the
   model.  Built-in features: their own value for the probe (if any), their `features`
   default and the flags they switch on. *)
From Coq Require Import List Bool NArith Arith.
Import ListNotations.

Definition name := N.
Definition value := N.

Record section := mkSec {
  s_value : option value;          (* from the config file *)
  s_env_value : option value;      (* from GIT_CONFIG_PARAMETERS *)
  s_features : option (list name);
  s_flags : list name              (* built-in features with <flag> = true in this section *)
}.

Record gitcfg := mkGc { main : section; custom : list (name * section) }.

Record builtin := mkB { b_value : option value; b_features : list name; b_flags : list name }.

Definition empty_section : section := mkSec None None None [].

Fixpoint assoc {A} (k : name) (l : list (name * A)) : option A :=
  match l with
  | [] => None
  | (k', v) :: r => if N.eqb k k' then Some v else assoc k r
  end.

Definition mem (k : name) (l : list name) : bool := existsb (N.eqb k) l.

Section Resolve.
(* built-in features in the (sorted) order in which flags are examined *)
Variable builtins : list (name * builtin).

Definition is_builtin (f : name) : bool := match assoc f builtins with Some _ => true | None => false end.

Definition sec_of (gc : gitcfg) (f : name) : section :=
  match assoc f (custom gc) with Some s => s | None => empty_section end.

(* the effective value of the probe in a section: GIT_CONFIG_PARAMETERS wins over the file *)
Definition sec_value (s : section) : option value :=
  match s_env_value s with Some v => Some v | None => s_value s end.

(* gather_builtin_features_recursively; [feats] has its highest-priority end LAST
   (push_front = cons, the final list is read from the back by get_option_value) *)
Fixpoint g_builtin (fuel : nat) (f : name) (feats : list name) : list name :=
  match fuel with
  | O => feats
  | S n =>
    if mem f feats then feats
    else
      let feats1 := f :: feats in
      match assoc f builtins with
      | Some b =>
          let feats2 := fold_left (fun acc c => g_builtin n c acc) (rev (b_features b)) feats1 in
          fold_left (fun acc c => if mem c (b_flags b) then g_builtin n c acc else acc)
                    (map fst builtins) feats2
      | None => feats1
      end
  end.

(* gather_builtin_features_from_flags_in_gitconfig *)
Definition g_flags (fuel : nat) (s : section) (feats : list name) : list name :=
  fold_left (fun acc c => if mem c (s_flags s) then g_builtin fuel c acc else acc) (map fst builtins) feats.

(* gather_features_recursively *)
Fixpoint g_rec (fuel : nat) (gc : gitcfg) (f : name) (feats : list name) : list name :=
  match fuel with
  | O => feats
  | S n =>
    let feats1 := if is_builtin f then g_builtin (S n) f feats else f :: feats in
    let s := sec_of gc f in
    let feats2 :=
      match s_features s with
      | Some ch => fold_left (fun acc c => if mem c acc then acc else g_rec n gc c acc) (rev ch) feats1
      | None => feats1
      end in
    g_flags (S n) s feats2
  end.

Record cli := mkCli {
  c_value : option value;              (* the probe given on the command line *)
  c_features : option (list name);     (* --features *)
  c_env : option (bool * list name);   (* DELTA_FEATURES: (starts with '+', names) *)
  c_flags : list name;                 (* built-in features enabled by command-line flags *)
  c_no_gitconfig : bool
}.

(* the order in which command-line flags are examined in gather_features *)
Variable flag_order : list name.

Definition gather (fuel : nat) (c : cli) (gc0 : gitcfg) : list name :=
  let gc := if c_no_gitconfig c then mkGc empty_section [] else gc0 in
  let args := match c_features c with Some l => l | None => [] end in
  let '(input, opt_features_set) :=
    match c_env c with
    | Some (true, e) => (e ++ rev args, match c_features c with Some _ => true | None => false end)
    | Some (false, e) => (rev e, true)
    | None => (rev args, match c_features c with Some _ => true | None => false end)
    end in
  let feats1 := fold_left (fun acc f => g_rec fuel gc f acc) input [] in
  let feats2 := fold_left (fun acc f => if mem f (c_flags c) then g_builtin fuel f acc else acc) flag_order feats1 in
  let feats3 :=
    if opt_features_set then feats2
    else match s_features (main gc) with
         | Some l => fold_left (fun acc f => g_rec fuel gc f acc) (rev l) feats2
         | None => feats2
         end in
  g_flags fuel (main gc) feats3.

(* get_option_value: main section, then features from highest priority (the front of
   [feats], last pushed) ... the VecDeque is searched from the back: *)
Fixpoint from_features (gc : gitcfg) (feats_rev : list name) : option value :=
  match feats_rev with
  | [] => None
  | f :: r =>
      match sec_value (sec_of gc f) with
      | Some v => Some v
      | None =>
          match assoc f builtins with
          | Some b => match b_value b with Some v => Some v | None => from_features gc r end
          | None => from_features gc r
          end
      end
  end.

Definition resolve (fuel : nat) (c : cli) (gc0 : gitcfg) (default : value) : value :=
  let gc := if c_no_gitconfig c then mkGc empty_section [] else gc0 in
  match c_value c with
  | Some v => v
  | None =>
      match sec_value (main gc) with
      | Some v => v
      | None =>
          match from_features gc (rev (gather fuel c gc0)) with
          | Some v => v
          | None => default
          end
      end
  end.

End Resolve.
