(* C03 — delta never crashes or hangs.  Statements only: one totality / termination /
   in-range theorem per modelled component whose Rust code can panic or loop. *)
From Coq Require Import List Bool NArith Arith.
Import ListNotations.
From DV Require Import Numbers NumbersFacts GrepSections GrepSectionsFacts WrapLine WrapFacts Trunc TruncFacts Blame BlameFacts.

(* hunk headers: str::parse::<usize> succeeds exactly when the decimal value fits a machine
   word; a header whose coordinates cannot be read is not a header (no unwrap on a failed
   parse); what the handler receives is never empty (indexing [0] and [len-1] is in range) *)
Theorem C03_parse_usize : forall ds n,
  parse_usize ds = Some n <-> ds <> [] /\ value ds = n /\ (n <= USIZE_MAX)%N.
Proof. exact parse_usize_spec. Qed.

Theorem C03_hunk_numbers_in_range : forall cs l, parse_hunk_numbers cs = Some l ->
  l <> [] /\ length l = length cs /\ Forall (fun x => (fst x <= USIZE_MAX)%N /\ (snd x <= USIZE_MAX)%N) l.
Proof. exact hunk_numbers_in_range. Qed.

Theorem C03_hunk_numbers_rejects : forall cs, parse_hunk_numbers cs = None <->
  cs = [] \/ exists c, In c cs /\ parse_coord c = None.
Proof. exact hunk_numbers_rejects. Qed.

(* line counters: whatever the start and however many lines follow, the counter is a machine
   integer (no overflow), and exact below the largest value *)
Theorem C03_counters_in_range : forall k c, (c <= USIZE_MAX)%N -> (bump k c <= USIZE_MAX)%N.
Proof. exact bump_range. Qed.

Theorem C03_counters_exact : forall k c, (c + N.of_nat k <= USIZE_MAX)%N -> bump k c = (c + N.of_nat k)%N.
Proof. exact bump_exact. Qed.

Theorem C03_hunk_max_in_range : forall l, (hunk_max l <= USIZE_MAX)%N.
Proof. exact hunk_max_range. Qed.

(* rg --json submatches: for ANY offsets no slice is out of range or inside a character, and
   the sections still partition the line *)
Theorem C03_submatch_sections_total : forall l subs, well_formed l = true ->
  exists secs, make_style_sections l subs = Some secs /\ concat (map snd secs) = l.
Proof. exact make_style_sections_total. Qed.

(* side-by-side wrapping terminates on every line, width and limit *)
Theorem C03_wrap_terminates : forall c line, wrap_line (wrap_fuel c line) c line <> None.
Proof. exact wrap_line_terminates. Qed.

(* truncation never produces more columns than asked for (no underflow in the padding that follows) *)
Theorem C03_truncate_width : forall fill dw items tail, owidth (truncate_str fill dw items tail) <= dw.
Proof. exact truncate_str_width. Qed.

(* blame colour assignment reaches neither of its `unreachable!` arms, whatever mix of
   git-coloured and plain lines arrives *)
Theorem C03_blame_total : forall n ls st, exists cs, run n st ls = Ok cs /\ length cs = length ls.
Proof. exact run_total. Qed.

Example C03_example_overflow :
  parse_usize [1;8;4;4;6;7;4;4;0;7;3;7;0;9;5;5;1;6;1;6]%N = None /\
  parse_usize [1;8;4;4;6;7;4;4;0;7;3;7;0;9;5;5;1;6;1;5]%N = Some USIZE_MAX /\
  parse_hunk_numbers [] = None.
Proof. vm_compute. repeat split. Qed.

Example C03_example_submatches :
  make_style_sections [(97, true); (230, true); (151, false); (165, false); (98, true)] [(3, 1); (2, 4); (0, 1); (1, 4); (9, 12)] =
  Some [(Match, [(97, true)]); (Match, [(230, true); (151, false); (165, false)]); (NonMatch, [(98, true)])].
Proof. vm_compute. reflexivity. Qed.
