(* C12 — style strings mean what git's colour language says.  Statements only. *)
From Coq Require Import List Bool NArith.
Import ListNotations.
From DV Require Import AnsiTerm AnsiTermProofs ParseStyle ParseStyleFacts.

(* Attribute words (and omit / raw / the hunk-header flags) may stand anywhere in a style
   string: two strings with the same non-colour words in the same order and the same colour
   words in the same order parse alike — and by [C12_canonical] the non-colour words can be
   moved in front of all colour words. *)
Theorem C12_canonical : forall d ws s,
  ploop d s ws = ploop d (apply_nc s (noncolour ws)) (colourish ws).
Proof. exact ploop_canonical. Qed.

Theorem C12_attribute_position_irrelevant : forall d ws1 ws2,
  noncolour ws1 = noncolour ws2 -> colourish ws1 = colourish ws2 -> parse d ws1 = parse d ws2.
Proof. exact parse_order_insensitive. Qed.

(* foreground then background *)
Theorem C12_two_colours : forall ns c1 c2,
  forallb (fun n => negb (is_colourish n)) ns = true ->
  exists p, parse None (ns ++ [WColor c1; WColor c2]) = POk p /\
            fg (sty p) = c1 /\ bg (sty p) = c2 /\ syntax p = false.
Proof. exact parse_two_colours. Qed.

Theorem C12_third_colour_rejected : forall d ws c1 c2 c3 r,
  colourish ws = c1 :: c2 :: c3 :: r -> exists e, parse d ws = PErr e.
Proof. exact parse_three_colours_rejected. Qed.

(* what --show-config prints parses back to the very same style (for every style that is not
   'raw'; a raw style prints as "raw" and keeps its input colours) *)
Theorem C12_display_roundtrip : forall p, in_range p -> parse None (display p) = POk p.
Proof. exact display_roundtrip. Qed.

(* text painted with a style shows exactly that style — no other colour or attribute — and
   the line ends in the default rendition (independent SGR interpreter [decode]) *)
Theorem C12_paint_exact : forall s t,
  wf_style s -> decode plain (ansi_strings [(s, t)]) = ([(s, t)], plain).
Proof. exact paint_exact. Qed.

Example C12_example :
  parse None [WAttr ABold; WColor (Some (Named 1)); WAttr AUl; WColor (Some (RGB 10 11 12)); WAttr AHidden] =
  POk (mkP (mk (Some (Named 1)) (Some (RGB 10 11 12)) true false false true false false true false) false false false).
Proof. reflexivity. Qed.
