(* The row-by-row table equals the recursive specification; the operations read back from it
   are a valid edit script whenever both token lists begin with the same token (the "" that
   tokenize() puts first); what the script keeps is common to both lists. *)
From Coq Require Import List Arith Bool Lia.
Import ListNotations.
From DV Require Import Align.

Lemma skipn_cons_tail (A : Type) : forall j (l : list A) a r, a :: r = skipn j l -> r = skipn (S j) l.
Proof.
  induction j as [|j IH]; intros l a r H.
  - cbn in H. subst l. reflexivity.
  - destruct l as [|b l]; [discriminate|]. cbn in H. cbn [skipn]. apply (IH l a r H).
Qed.

Section Facts.
Variable T : Type.
Variable eqb : T -> T -> bool.
Hypothesis eqb_eq : forall a b, eqb a b = true <-> a = b.
Variable d : T.
Variables x y : list T.

Notation C := (C T eqb d x y).
Notation m := (length y).

Lemma C_SS i j : C (S i) (S j) = choose (C (S i) j) (C i (S j)) (C i j) (eqb (nth i x d) (nth j y d)).
Proof. reflexivity. Qed.
Lemma C_S0 i : C (S i) 0 = mkc (S i * DELETION_COST + INITIAL_MISMATCH_PENALTY) ODel. Proof. reflexivity. Qed.
Lemma C_0S j : C 0 (S j) = mkc (S j * INSERTION_COST + INITIAL_MISMATCH_PENALTY) OIns. Proof. reflexivity. Qed.

(* ---- table = specification *)
Definition rowC (i : nat) : list cell := map (C i) (seq 0 (S m)).

Lemma row0_spec : row0 T y = rowC 0.
Proof. unfold row0, rowC. apply map_ext. intros [|j]; reflexivity. Qed.

Lemma build_spec i' : forall ys j',
  ys = skipn j' y -> (j' <= m)%nat ->
  build T eqb (nth i' x d) (C (S i') j') (C i' j') (map (C i') (seq (S j') (m - j'))) ys =
  map (C (S i')) (seq (S j') (m - j')).
Proof.
  induction ys as [|yj ys' IH]; intros j' Hys Hj.
  - assert (m - j' = 0) as ->.
    { assert (length (skipn j' y) = 0) by (rewrite <- Hys; reflexivity). rewrite skipn_length in H. lia. }
    reflexivity.
  - assert (Hlt : j' < m).
    { assert (length (skipn j' y) = S (length ys')) by (rewrite <- Hys; reflexivity). rewrite skipn_length in H. lia. }
    replace (m - j') with (S (m - S j')) by lia. cbn [seq map build].
    assert (Hy : yj = nth j' y d).
    { rewrite <- (firstn_skipn j' y) at 1. rewrite app_nth2; rewrite firstn_length_le by lia; [|lia].
      rewrite Nat.sub_diag, <- Hys. reflexivity. }
    rewrite Hy, <- C_SS. f_equal.
    apply IH; [|lia].
    apply (skipn_cons_tail T j' y yj ys' Hys).
Qed.

Lemma next_row_spec i' : next_row T eqb y (rowC i') i' (nth i' x d) = rowC (S i').
Proof.
  unfold next_row, rowC. cbn [seq map].
  rewrite <- C_S0. f_equal.
  pose proof (build_spec i' y 0 eq_refl (Nat.le_0_l _)) as H.
  rewrite Nat.sub_0_r in H. rewrite <- seq_shift, map_map in *. exact H.
Qed.

Lemma rows_from_spec : forall xs i',
  xs = skipn i' x ->
  rows_from T eqb y (rowC i') i' xs = map rowC (seq (S i') (length xs)).
Proof.
  induction xs as [|xi xs' IH]; intros i' Hxs; [reflexivity|].
  cbn [rows_from length seq map].
  assert (Hlt : i' < length x).
  { assert (length (skipn i' x) = S (length xs')) by (rewrite <- Hxs; reflexivity). rewrite skipn_length in H. lia. }
  assert (Hx : xi = nth i' x d).
  { rewrite <- (firstn_skipn i' x) at 1. rewrite app_nth2; rewrite firstn_length_le by lia; [|lia].
    rewrite Nat.sub_diag, <- Hxs. reflexivity. }
  rewrite Hx, next_row_spec. f_equal. apply IH.
  apply (skipn_cons_tail T i' x xi xs' Hxs).
Qed.

Theorem table_spec i j : i <= length x -> j <= m -> cell_at T eqb x y i j = C i j.
Proof.
  intros Hi Hj. unfold cell_at, table. rewrite row0_spec.
  rewrite (rows_from_spec x 0 eq_refl).
  change (rowC 0 :: map rowC (seq 1 (length x))) with (map rowC (seq 0 (S (length x)))).
  rewrite (nth_indep _ [] (rowC 0)) by (rewrite map_length, seq_length; lia).
  rewrite (map_nth rowC (seq 0 (S (length x))) 0 i), seq_nth by lia. cbn [Nat.add].
  unfold rowC. rewrite (nth_indep _ _ (C i 0)) by (rewrite map_length, seq_length; lia).
  rewrite (map_nth (C i) (seq 0 (S m)) 0 j), seq_nth by lia. reflexivity.
Qed.

(* ---- the read-back is a valid edit script *)
Inductive ok : list op -> list T -> list T -> Prop :=
| ok_nil : ok [] [] []
| ok_N ops a b t : ok ops a b -> ok (ops ++ [ONoOp]) (a ++ [t]) (b ++ [t])
| ok_D ops a b t : ok ops a b -> ok (ops ++ [ODel]) (a ++ [t]) b
| ok_I ops a b t : ok ops a b -> ok (ops ++ [OIns]) a (b ++ [t]).

Hypothesis x_nonempty : x <> [].
Hypothesis y_nonempty : y <> [].
Hypothesis same_head : nth 0 x d = nth 0 y d.

Lemma C11 : C 1 1 = mkc 0 ONoOp.
Proof.
  rewrite C_SS. rewrite C_S0, C_0S. cbn [Align.C].
  replace (eqb (nth 0 x d) (nth 0 y d)) with true by (symmetry; apply eqb_eq; exact same_head).
  reflexivity.
Qed.

Lemma row1 : forall i, 2 <= i -> C i 1 = mkc (2 * (i - 1) + 1) ODel.
Proof.
  intros i Hi. destruct i as [|[|i]]; try lia. clear Hi.
  induction i as [|i IH].
  - rewrite C_SS, C_S0, C11, C_S0. unfold choose, pen, DELETION_COST, INSERTION_COST, INITIAL_MISMATCH_PENALTY; cbn [cost cop].
    destruct (eqb _ _); reflexivity.
  - rewrite C_SS. rewrite IH. rewrite !C_S0.
    unfold choose, pen, DELETION_COST, INSERTION_COST, INITIAL_MISMATCH_PENALTY; cbn [cost cop].
    replace (2 * (S (S i) - 1) + 1 + 2 + 0 <? S (S (S i)) * 2 + 1 + 2 + 0) with true by (symmetry; apply Nat.ltb_lt; lia).
    cbn [cost].
    replace (S (S i) * 2 + 1 <? 2 * (S (S i) - 1) + 1 + 2 + 0) with false by (symmetry; apply Nat.ltb_ge; lia).
    rewrite andb_false_r. f_equal. lia.
Qed.

Lemma col1 : forall j, 2 <= j -> C 1 j = mkc (2 * (j - 1) + 1) OIns.
Proof.
  intros j Hj. destruct j as [|[|j]]; try lia. clear Hj.
  induction j as [|j IH].
  - rewrite C_SS, C11, !C_0S. unfold choose, pen, DELETION_COST, INSERTION_COST, INITIAL_MISMATCH_PENALTY; cbn [cost cop].
    destruct (eqb _ _); reflexivity.
  - rewrite C_SS. rewrite IH. rewrite !C_0S.
    unfold choose, pen, DELETION_COST, INSERTION_COST, INITIAL_MISMATCH_PENALTY; cbn [cost cop].
    replace (S (S (S j)) * 2 + 1 + 2 + 0 <? 2 * (S (S j) - 1) + 1 + 2 + 0) with false by (symmetry; apply Nat.ltb_ge; lia).
    cbn [cost].
    replace (S (S j) * 2 + 1 <? 2 * (S (S j) - 1) + 1 + 2 + 0) with false by (symmetry; apply Nat.ltb_ge; lia).
    rewrite andb_false_r. f_equal. lia.
Qed.

(* a chosen NoOp pairs equal tokens *)
Lemma choose_N up left diag eq : cop (choose up left diag eq) = ONoOp -> eq = true.
Proof.
  unfold choose. destruct eq; [reflexivity|]. cbn [andb].
  destruct (_ <? _); cbn; discriminate.
Qed.

Lemma firstn_snoc (l : list T) n : n < length l -> firstn (S n) l = firstn n l ++ [nth n l d].
Proof.
  revert n; induction l as [|a l IH]; intros n H; cbn in H; [lia|].
  destruct n; [reflexivity|].
  change (firstn (S (S n)) (a :: l)) with (a :: firstn (S n) l).
  change (firstn (S n) (a :: l)) with (a :: firstn n l).
  change (nth (S n) (a :: l) d) with (nth n l d).
  rewrite IH by lia. reflexivity.
Qed.

Notation trace := (trace T eqb d x y).

Theorem trace_valid : forall n i j, i + j <= n -> 1 <= i <= length x -> 1 <= j <= length y ->
  ok (trace n i j) (firstn i x) (firstn j y).
Proof.
  induction n as [|n IH]; intros i j Hn Hi Hj; [lia|].
  unfold Align.trace. cbn [trace_with]. fold (Align.trace T eqb d x y).
  destruct (stop i j (C i j)) eqn:Hs.
  - unfold stop in Hs. destruct i as [|[|i]]; [lia| |].
    + destruct j as [|[|j]]; [lia| |].
      * rewrite C11. cbn [cop].
        change [ONoOp] with ([] ++ [ONoOp]).
        destruct x as [|x0 xs]; [contradiction|]. destruct y as [|y0 ys]; [contradiction|].
        cbn in same_head. subst y0. cbn [firstn]. change [x0] with ([] ++ [x0]). apply ok_N, ok_nil.
      * cbn in Hs. discriminate.
    + destruct j; [lia|]. cbn in Hs. discriminate.
  - destruct (cop (C i j)) eqn:O.
    + destruct i as [|i]; [lia|]. destruct j as [|j]; [lia|].
      assert (E : eqb (nth i x d) (nth j y d) = true) by (rewrite C_SS in O; eapply choose_N; eauto).
      apply eqb_eq in E.
      destruct i as [|i].
      { destruct j as [|j]; [rewrite C11 in Hs; cbn in Hs; discriminate|].
        rewrite col1 in O by lia. cbn in O. discriminate. }
      destruct j as [|j].
      { rewrite row1 in O by lia. cbn in O. discriminate. }
      replace (S (S i) - 1) with (S i) by lia. replace (S (S j) - 1) with (S j) by lia.
      rewrite (firstn_snoc x (S i)) by lia. rewrite (firstn_snoc y (S j)) by lia. rewrite <- E.
      apply ok_N. apply IH; lia.
    + destruct i as [|i]; [lia|]. destruct j as [|j]; [lia|].
      destruct i as [|i].
      { destruct j as [|j]; [rewrite C11 in O; cbn in O; discriminate|].
        rewrite col1 in O by lia. cbn in O. discriminate. }
      replace (S (S i) - 1) with (S i) by lia.
      rewrite (firstn_snoc x (S i)) by lia. apply ok_D. apply IH; lia.
    + destruct i as [|i]; [lia|]. destruct j as [|j]; [lia|].
      destruct j as [|j].
      { destruct i as [|i]; [rewrite C11 in O; cbn in O; discriminate|].
        rewrite row1 in O by lia. cbn in O. discriminate. }
      replace (S (S j) - 1) with (S j) by lia.
      rewrite (firstn_snoc y (S j)) by lia. apply ok_I. apply IH; lia.
Qed.

(* the trace only looks at cells inside the table, where table and specification agree *)
Lemma trace_with_ext (g1 g2 : nat -> nat -> cell) :
  (forall i j, i <= length x -> j <= length y -> g1 i j = g2 i j) ->
  forall n i j, i <= length x -> j <= length y -> trace_with g1 n i j = trace_with g2 n i j.
Proof.
  intros H. induction n as [|n IH]; intros i j Hi Hj; [reflexivity|].
  cbn [trace_with]. rewrite (H i j Hi Hj).
  destruct (stop i j (g2 i j)); [reflexivity|].
  destruct (cop (g2 i j)); rewrite IH by lia; reflexivity.
Qed.

Theorem operations_valid : ok (operations T eqb x y) x y.
Proof.
  assert (Hx : 1 <= length x) by (destruct x; [contradiction | cbn; lia]).
  assert (Hy : 1 <= length y) by (destruct y; [contradiction | cbn; lia]).
  unfold operations.
  rewrite (trace_with_ext (cell_at T eqb x y) C (fun i j Hi Hj => table_spec i j Hi Hj)) by lia.
  pose proof (trace_valid (length x + length y) (length x) (length y) (le_n _) (conj Hx (le_n _)) (conj Hy (le_n _))) as H.
  rewrite !firstn_all in H. exact H.
Qed.

(* ---- what a valid script says: the tokens it keeps are common to both lists, in order *)
Fixpoint keep_x (ops : list op) (a : list T) : list T :=
  match ops, a with
  | ONoOp :: r, t :: a' => t :: keep_x r a'
  | ODel :: r, _ :: a' => keep_x r a'
  | OIns :: r, _ => keep_x r a
  | _, _ => []
  end.
Fixpoint keep_y (ops : list op) (b : list T) : list T :=
  match ops, b with
  | ONoOp :: r, t :: b' => t :: keep_y r b'
  | OIns :: r, _ :: b' => keep_y r b'
  | ODel :: r, _ => keep_y r b
  | _, _ => []
  end.

Lemma keep_x_app ops : forall a ops2 a2,
  length (filter (fun o => match o with OIns => false | _ => true end) ops) = length a ->
  keep_x (ops ++ ops2) (a ++ a2) = keep_x ops a ++ keep_x ops2 a2.
Proof.
  induction ops as [|o r IH]; intros a ops2 a2 H; cbn in H.
  - destruct a; [reflexivity | discriminate].
  - destruct o; cbn in H.
    + destruct a as [|t a']; [discriminate|]. cbn. rewrite IH by (cbn in H; lia). reflexivity.
    + destruct a as [|t a']; [discriminate|]. cbn. apply IH. cbn in H; lia.
    + cbn. destruct a; apply IH; exact H.
Qed.
Lemma keep_y_app ops : forall b ops2 b2,
  length (filter (fun o => match o with ODel => false | _ => true end) ops) = length b ->
  keep_y (ops ++ ops2) (b ++ b2) = keep_y ops b ++ keep_y ops2 b2.
Proof.
  induction ops as [|o r IH]; intros b ops2 b2 H; cbn in H.
  - destruct b; [reflexivity | discriminate].
  - destruct o; cbn in H.
    + destruct b as [|t b']; [discriminate|]. cbn. rewrite IH by (cbn in H; lia). reflexivity.
    + cbn. destruct b; apply IH; exact H.
    + destruct b as [|t b']; [discriminate|]. cbn. apply IH. cbn in H; lia.
Qed.

Lemma ok_lengths ops a b : ok ops a b ->
  length (filter (fun o => match o with OIns => false | _ => true end) ops) = length a /\
  length (filter (fun o => match o with ODel => false | _ => true end) ops) = length b.
Proof.
  induction 1 as [|ops a b t H [I1 I2]|ops a b t H [I1 I2]|ops a b t H [I1 I2]];
    rewrite ?filter_app, ?app_length; cbn; try split; try lia.
Qed.

Theorem ok_common ops a b : ok ops a b -> keep_x ops a = keep_y ops b.
Proof.
  induction 1 as [|ops a b t H IH|ops a b t H IH|ops a b t H IH].
  - reflexivity.
  - destruct (ok_lengths _ _ _ H) as [L1 L2].
    rewrite (keep_x_app ops a [ONoOp] [t] L1), (keep_y_app ops b [ONoOp] [t] L2), IH. reflexivity.
  - destruct (ok_lengths _ _ _ H) as [L1 L2].
    rewrite (keep_x_app ops a [ODel] [t] L1). cbn. rewrite app_nil_r.
    rewrite <- (app_nil_r b) at 1. rewrite (keep_y_app ops b [ODel] [] L2). cbn. rewrite app_nil_r. exact IH.
  - destruct (ok_lengths _ _ _ H) as [L1 L2].
    rewrite (keep_y_app ops b [OIns] [t] L2). cbn. rewrite app_nil_r.
    rewrite <- (app_nil_r a) at 1. rewrite (keep_x_app ops a [OIns] [] L1). cbn. rewrite app_nil_r. exact IH.
Qed.

(* C06 (token level): deleting what the alignment marks as deleted from x and what it marks
   as inserted from y leaves the same tokens *)
Corollary emphasis_sound : keep_x (operations T eqb x y) x = keep_y (operations T eqb x y) y.
Proof. apply ok_common, operations_valid. Qed.

End Facts.
