(* C07 — side-by-side: lossless wrapping, rows fit the panel, truncation fills it exactly.
   Statements only. *)
From Coq Require Import List Bool NArith Arith.
Import ListNotations.
From DV Require Import WrapLine WrapFacts Trunc TruncFacts Realign RealignFacts.

(* Joining the fragments gives back the line: for every line (any styled sections, any cluster
   widths incl. double-width and zero-width), every width >= 2 and every wrap limit, the visible
   clusters of the rows, read in order, are the visible clusters of the line.  (A row made only of
   zero-width clusters — the bare newline — is dropped, hence "visible".) *)
Theorem C07_wrap_lossless : forall fuel c line rows, 2 <= line_width c ->
  wrap_line fuel c line = Some rows -> vis (rows_text rows) = vis (stack_text line).
Proof. exact wrap_line_visible_text. Qed.

(* when the text area holds no more than the wrap symbol nothing is wrapped and the line is
   returned whole *)
Theorem C07_wrap_narrow : forall fuel c line rows, line_width c <= 1 -> line <> [] ->
  wrap_line (S fuel) c line = Some rows -> rows_text rows = stack_text line.
Proof. exact wrap_line_narrow. Qed.

(* every row but the last fits the width (the last carries what is left when the wrap limit
   is reached and is truncated by the panel) *)
Theorem C07_rows_fit : forall fuel c line rows, 2 <= line_width c ->
  wrap_line fuel c line = Some rows -> Forall (fits c) (removelast rows).
Proof. exact wrap_line_rows_fit. Qed.

(* only beyond the configured number of rows is anything cut: with unlimited wrapping and
   clusters narrower than the text area every row fits, and nothing is lost *)
Theorem C07_unlimited_never_cuts : forall fuel c line rows, 2 <= line_width c -> max_lines_cfg c = 0 ->
  narrow c line -> wrap_line fuel c line = Some rows ->
  Forall (fits c) rows /\ vis (rows_text rows) = vis (stack_text line).
Proof. exact wrap_line_unlimited. Qed.

(* the wrapping loop terminates on every input: the fuel computed from the measure
   2*clusters + 2*sections + [row open] + rows left suffices *)
Theorem C07_wrap_terminates : forall c line, wrap_line (wrap_fuel c line) c line <> None.
Proof. exact wrap_line_terminates. Qed.

(* truncation of a panel row (truncate_str with a fill for a cut double-width cluster): never
   wider than the panel, exactly the panel width when something was cut, untouched when it
   fits, and every escape sequence is kept *)
Theorem C07_truncate_width : forall fill dw items tail, owidth (truncate_str fill dw items tail) <= dw.
Proof. exact truncate_str_width. Qed.

Theorem C07_truncate_exact : forall dw items tail, dw < items_width items ->
  owidth (truncate_str true dw items tail) = dw.
Proof. exact truncate_str_exact. Qed.

Theorem C07_truncate_fits_unchanged : forall fill dw items tail, items_width items <= dw ->
  truncate_str fill dw items tail = embed items.
Proof. exact truncate_str_fits_unchanged. Qed.

Theorem C07_truncate_keeps_sequences : forall fill dw items tail,
  ansi_of (truncate_str fill dw items tail) =
  ansi_in items ++ (if Nat.leb (items_width items) dw then [] else ansi_in tail).
Proof. exact truncate_str_keeps_sequences. Qed.

(* re-alignment of wrapped rows (wrap_minusplus_block): every wrapped row of every removed line
   appears exactly once on the left, in order, and every wrapped row of every added line exactly
   once on the right, whatever the wrap counts and the pairing *)
Theorem C07_rows_once_per_side : forall al wm wp me pe ms ps rows,
  length wm = nleft al -> length wp = nright al ->
  realign al wm wp me pe ms ps = Some rows ->
  lefts rows = seq ms (total wm) /\ rights rows = seq ps (total wp).
Proof. exact realign_sides. Qed.

(* paired lines share a row: the first rows of a removed line and of the added line it is
   aligned with are the two halves of one output row *)
Theorem C07_pairs_share_row : forall al1 m p al2 wm wp me pe ms ps rows,
  realign (al1 ++ EB m p :: al2) wm wp me pe ms ps = Some rows ->
  length wm = nleft (al1 ++ EB m p :: al2) -> length wp = nright (al1 ++ EB m p :: al2) ->
  Forall (fun k => 1 <= k) wm -> Forall (fun k => 1 <= k) wp ->
  In (RB (ms + total (firstn (nleft al1) wm)) (ps + total (firstn (nright al1) wp))) rows.
Proof. exact realign_pairs_share_row. Qed.

(* the asserts of wrap_minusplus_block hold for the alignments the painter builds *)
Theorem C07_realign_total : forall al wm wp me pe ms ps,
  ordered al me pe = true -> length wm = nleft al -> length wp = nright al ->
  realign al wm wp me pe ms ps <> None.
Proof. exact realign_total. Qed.

(* Non-vacuity: a line with a double-width cluster at the panel edge wraps into three rows *)
Example C07_example :
  wrap_line 50 (mkW 5 0 370)
    [(1, [(97%N, 1); (98%N, 1); (99%N, 1)]); (2, [(26085%N, 2); (100%N, 1); (101%N, 1); (102%N, 1); (103%N, 1)])] =
  Some [[SText 1 [(97%N, 1); (98%N, 1); (99%N, 1)]; SText 2 []; SSymLeft];
        [SText 2 [(26085%N, 2); (100%N, 1); (101%N, 1)]; SSymLeft];
        [SText 2 [(102%N, 1); (103%N, 1)]]].
Proof. vm_compute. reflexivity. Qed.

(* The syntax and the diff section lists of one line are wrapped separately and must come out in
   lock-step.  That holds for ordinary text, but NOT for every input: a zero-width cluster of its
   own (U+200B) after text that fills the width exactly is wrapped differently depending on where
   the section boundary falls — which is why the code falls back to the diff sections' rows when
   the two disagree (repaired defect F29) instead of asserting. *)
Example C07_split_independence_refuted :
  let c := mkW 2 0 370 in
  stack_text [(1, [(97%N, 1); (98%N, 1)]); (2, [(8203%N, 0)])] = stack_text [(1, [(97%N, 1); (98%N, 1); (8203%N, 0)])] /\
  option_map (@length WrapLine.row) (wrap_line 20 c [(1, [(97%N, 1); (98%N, 1)]); (2, [(8203%N, 0)])]) = Some 2 /\
  option_map (@length WrapLine.row) (wrap_line 20 c [(1, [(97%N, 1); (98%N, 1); (8203%N, 0)])]) = Some 1.
Proof. vm_compute. repeat split. Qed.

Example C07_realign_example :
  realign [EL 0; EB 1 0; ER 1] [1; 3] [2; 1] 0 0 0 0 =
  Some [RL 0; RB 1 0; RB 2 1; RL 3; RR 2].
Proof. vm_compute. reflexivity. Qed.

Example C07_truncate_example :
  truncate_str true 4 [IAnsi 1; IText [(97%N, 1); (98%N, 1)]; IText [(26085%N, 2); (99%N, 1)]; IAnsi 2] [IText [(8594%N, 1)]] =
  [OAnsi 1; OG (97%N, 1); OG (98%N, 1); OFill; OAnsi 2; OG (8594%N, 1)].
Proof. vm_compute. reflexivity. Qed.
