From Coq Require Import List Bool NArith Arith Lia.
Import ListNotations.
From DV Require Import LineNo.
Local Open Scope N_scope.

(* unified view: the k-th painted line shows old start + (removed and unchanged lines before
   it) and/or new start + (added and unchanged lines before it) *)
Definition olds (ks : list kind) : N :=
  N.of_nat (length (filter (fun k => match k with KMinus | KZero => true | _ => false end) ks)).
Definition news (ks : list kind) : N :=
  N.of_nat (length (filter (fun k => match k with KPlus | KZero => true | _ => false end) ks)).

Theorem unified_numbers : forall pre k post l r,
  nth_error (run_unified (l, r) (pre ++ k :: post)) (length pre) =
  Some (match k with
        | KMinus => (Some (l + olds pre), None)
        | KPlus => (None, Some (r + news pre))
        | KZero => (Some (l + olds pre), Some (r + news pre))
        | KWrapped => (None, None)
        end).
Proof.
  induction pre as [|p pre IH]; intros k post l r.
  - cbn. unfold olds, news. cbn. rewrite !N.add_0_r. destruct k; reflexivity.
  - cbn [app run_unified length nth_error]. unfold paint_unified.
    destruct p; cbn [nth_error]; rewrite IH; unfold olds, news; cbn [filter length];
      destruct k; f_equal; f_equal; try f_equal; lia.
Qed.

(* side-by-side: for every sequence of rows (each row having at least one real half), the row
   loop with its counter correction shows on the left the old-file number of each removed line
   on the first row of that line, on the right the new-file number of each added line on its
   first row, nothing on continuation rows and placeholders, and leaves the counters at
   start + number of lines on each side *)
Theorem sbs_numbers : forall rows l r,
  forallb row_ok rows = true ->
  run_sbs (l, r) rows =
  (spec_sbs l r rows, (l + count_first fst rows, r + count_first snd rows)).
Proof.
  induction rows as [|[lh rh] rest IH]; intros l r Hok.
  - cbn. unfold count_first. cbn. rewrite !N.add_0_r. reflexivity.
  - cbn in Hok. apply andb_true_iff in Hok. destruct Hok as [H1 H2].
    cbn [run_sbs spec_sbs]. unfold sbs_row.
    destruct lh, rh; try discriminate; cbn [left_state right_state numbers_and_increment fst snd];
      rewrite ?N.add_0_r; rewrite IH by exact H2; unfold count_first; cbn [filter fst snd length];
      rewrite ?N.add_0_r; try (replace (l + 1 - 1) with l by lia);
      f_equal; f_equal; lia.
Qed.
