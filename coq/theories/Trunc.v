(* src/ansi/mod.rs truncate_str_impl: cut a line that carries escape sequences to a display
   width, keeping every escape sequence, with a tail (truncation symbol) — C07/C09.
   Text clusters are (id, width) as in WrapLine; an escape sequence is an opaque id. *)
From Coq Require Import List Bool NArith Arith.
Import ListNotations.
From DV Require Import WrapLine.

Inductive item := IText (t : list gr) | IAnsi (id : N).
Inductive oel := OG (g : gr) | OFill | OAnsi (id : N).

Definition owidth (o : list oel) : nat :=
  fold_right (fun e acc => match e with OG g => snd g + acc | OFill => S acc | OAnsi _ => acc end) 0 o.

Definition items_width (items : list item) : nat :=
  fold_right (fun it acc => match it with IText t => gwidth t + acc | IAnsi _ => acc end) 0 items.

Definition embed (items : list item) : list oel :=
  flat_map (fun it => match it with IText t => map OG t | IAnsi a => [OAnsi a] end) items.

(* the inner `for g in t.graphemes(true)` loop: output, new `used`, whether the text was cut *)
Fixpoint take_text (fill : bool) (dw used : nat) (t : list gr) : list oel * nat * bool :=
  match t with
  | [] => ([], used, false)
  | g :: r =>
      if Nat.ltb dw (used + snd g) then
        ((if fill then
            if Nat.eqb (snd g) 2 && Nat.ltb used dw then [OFill]
            else if Nat.ltb 2 (snd g) then repeat OFill (dw - used) else []
          else []), used, true)
      else let '(o, u, c) := take_text fill dw (used + snd g) r in (OG g :: o, u, c)
  end.

Fixpoint trunc_items (fill : bool) (dw used : nat) (cut : bool) (items : list item) : list oel :=
  match items with
  | [] => []
  | IAnsi a :: r => OAnsi a :: trunc_items fill dw used cut r
  | IText t :: r =>
      if cut then trunc_items fill dw used cut r
      else let '(o, u, c) := take_text fill dw used t in o ++ trunc_items fill dw u c r
  end.

Definition trunc_notail (fill : bool) (dw : nat) (items : list item) : list oel :=
  if Nat.leb (items_width items) dw then embed items else trunc_items fill dw 0 false items.

Definition truncate_str (fill : bool) (dw : nat) (items tail : list item) : list oel :=
  if Nat.leb (items_width items) dw then embed items
  else
    let rt := match tail with [] => [] | _ => trunc_notail fill dw tail end in
    trunc_items fill dw (owidth rt) false items ++ rt.
