(* The machine never reads what it has written: prepending anything to the written output
   commutes with every step.  Together with the section reset and the end-of-input /
   section-boundary mirror this is the model-level content of C10. *)
From Coq Require Import String.
From Coq Require Import List Bool NArith Arith Lia.
Import ListNotations.
From DV Require Import Text Delta DeltaProj DeltaFacts DeltaOrder.

Definition prepend (P : list oitem) (s : sm) : sm := set_out s (P ++ out s).

Lemma pp_state P s : state (prepend P s) = state s. Proof. reflexivity. Qed.
Lemma pp_source P s : source_git (prepend P s) = source_git s. Proof. reflexivity. Qed.
Lemma pp_minus_file P s : minus_file (prepend P s) = minus_file s. Proof. reflexivity. Qed.
Lemma pp_plus_file P s : plus_file (prepend P s) = plus_file s. Proof. reflexivity. Qed.
Lemma pp_minus_ev P s : minus_ev (prepend P s) = minus_ev s. Proof. reflexivity. Qed.
Lemma pp_diff_line P s : diff_line (prepend P s) = diff_line s. Proof. reflexivity. Qed.
Lemma pp_mode_info P s : mode_info (prepend P s) = mode_info s. Proof. reflexivity. Qed.
Lemma pp_cur P s : cur (prepend P s) = cur s. Proof. reflexivity. Qed.
Lemma pp_handled P s : handled (prepend P s) = handled s. Proof. reflexivity. Qed.
Lemma pp_minus_lines P s : minus_lines (prepend P s) = minus_lines s. Proof. reflexivity. Qed.
Lemma pp_plus_lines P s : plus_lines (prepend P s) = plus_lines s. Proof. reflexivity. Qed.
Lemma pp_buf P s : buf (prepend P s) = buf s. Proof. reflexivity. Qed.

Lemma pp_set_state P s v : set_state (prepend P s) v = prepend P (set_state s v). Proof. reflexivity. Qed.
Lemma pp_set_source P s v : set_source (prepend P s) v = prepend P (set_source s v). Proof. reflexivity. Qed.
Lemma pp_set_minus_file P s v : set_minus_file (prepend P s) v = prepend P (set_minus_file s v). Proof. reflexivity. Qed.
Lemma pp_set_plus_file P s v : set_plus_file (prepend P s) v = prepend P (set_plus_file s v). Proof. reflexivity. Qed.
Lemma pp_set_minus_ev P s v : set_minus_ev (prepend P s) v = prepend P (set_minus_ev s v). Proof. reflexivity. Qed.
Lemma pp_set_diff_line P s v : set_diff_line (prepend P s) v = prepend P (set_diff_line s v). Proof. reflexivity. Qed.
Lemma pp_set_mode_info P s v : set_mode_info (prepend P s) v = prepend P (set_mode_info s v). Proof. reflexivity. Qed.
Lemma pp_set_cur P s v : set_cur (prepend P s) v = prepend P (set_cur s v). Proof. reflexivity. Qed.
Lemma pp_set_handled P s v : set_handled (prepend P s) v = prepend P (set_handled s v). Proof. reflexivity. Qed.
Lemma pp_set_minus_lines P s v : set_minus_lines (prepend P s) v = prepend P (set_minus_lines s v). Proof. reflexivity. Qed.
Lemma pp_set_plus_lines P s v : set_plus_lines (prepend P s) v = prepend P (set_plus_lines s v). Proof. reflexivity. Qed.
Lemma pp_set_buf P s v : set_buf (prepend P s) v = prepend P (set_buf s v). Proof. reflexivity. Qed.

Lemma pp_emit P s : emit (prepend P s) = prepend P (emit s).
Proof. unfold emit, prepend. autorewrite with proj. rewrite <- app_assoc. reflexivity. Qed.
Lemma pp_write P s it : write (prepend P s) it = prepend P (write s it).
Proof. unfold write, prepend. autorewrite with proj. rewrite <- app_assoc. reflexivity. Qed.
Lemma pp_paint P s : paint_buffered (prepend P s) = prepend P (paint_buffered s).
Proof. reflexivity. Qed.

Global Hint Rewrite pp_state pp_source pp_minus_file pp_plus_file pp_minus_ev pp_diff_line pp_mode_info
  pp_cur pp_handled pp_minus_lines pp_plus_lines pp_buf
  pp_set_state pp_set_source pp_set_minus_file pp_set_plus_file pp_set_minus_ev pp_set_diff_line
  pp_set_mode_info pp_set_cur pp_set_handled pp_set_minus_lines pp_set_plus_lines pp_set_buf
  pp_emit pp_write pp_paint : pp.

Lemma pp_in_diff_header P s : in_diff_header (prepend P s) = in_diff_header s. Proof. reflexivity. Qed.
Lemma pp_in_hunk P s : in_hunk (prepend P s) = in_hunk s. Proof. reflexivity. Qed.
Lemma pp_describe P s : describe (prepend P s) = describe s. Proof. reflexivity. Qed.
Lemma pp_should_skip c P s : should_skip c (prepend P s) = should_skip c s. Proof. reflexivity. Qed.

Lemma pp_wfh P i t s : write_file_header i t (prepend P s) = prepend P (write_file_header i t s).
Proof. unfold write_file_header. autorewrite with pp. reflexivity. Qed.

Lemma pp_pending P i c s : pending i c (prepend P s) = prepend P (pending i c s).
Proof.
  unfold pending. rewrite pp_in_diff_header. destruct (negb (in_diff_header s)); [reflexivity|].
  rewrite pp_emit. autorewrite with pp.
  destruct (negb (is_empty (mode_info (emit s)))); [rewrite pp_wfh; autorewrite with pp; reflexivity|].
  destruct (negb (color_only c) && _); [|reflexivity].
  rewrite pp_describe, pp_wfh. autorewrite with pp. reflexivity.
Qed.

Lemma pp_emit_unchanged P i t s : emit_unchanged i t (prepend P s) = prepend P (emit_unchanged i t s).
Proof. unfold emit_unchanged. autorewrite with pp. reflexivity. Qed.

Lemma pp_emit_hunk_header P s : emit_hunk_header (prepend P s) = prepend P (emit_hunk_header s).
Proof. unfold emit_hunk_header. rewrite pp_state. destruct (state s); autorewrite with pp; reflexivity. Qed.

Global Hint Rewrite pp_in_diff_header pp_in_hunk pp_describe pp_should_skip pp_wfh pp_pending
  pp_emit_unchanged pp_emit_hunk_header : pp.

Definition commutes (h : handler) : Prop :=
  forall P i c l s, h i c l (prepend P s) = (prepend P (fst (h i c l s)), snd (h i c l s)).

Ltac pp_handler :=
  intros P i c l s; cbv zeta; autorewrite with pp;
  repeat (match goal with
          | |- context [if ?b then _ else _] => destruct b
          | |- context [match ?x with _ => _ end] => destruct x
          end; autorewrite with pp; cbn [fst snd]; try reflexivity).

Lemma pp_h_commit : commutes h_commit. Proof. unfold commutes, h_commit. pp_handler. Qed.
Lemma pp_h_diff : commutes h_diff. Proof. unfold commutes, h_diff. pp_handler. Qed.
Lemma pp_h_fileop : commutes h_fileop. Proof. unfold commutes, h_fileop. pp_handler. Qed.
Lemma pp_h_minus : commutes h_minus. Proof. unfold commutes, h_minus. pp_handler. Qed.
Lemma pp_h_plus : commutes h_plus. Proof. unfold commutes, h_plus. pp_handler. Qed.
Lemma pp_h_hunk_header : commutes h_hunk_header. Proof. unfold commutes, h_hunk_header. pp_handler. Qed.
Lemma pp_h_mode : commutes h_mode. Proof. unfold commutes, h_mode. pp_handler. Qed.
Lemma pp_h_misc : commutes h_misc.
Proof.
  unfold commutes, h_misc. intros P i c l s. autorewrite with pp.
  destruct (starts_with (lit "Binary files "%string) l); [|reflexivity].
  destruct (negb (color_only c)).
  - destruct (is_empty (minus_file s) && is_empty (plus_file s)).
    + autorewrite with pp. reflexivity.
    + cbv zeta. destruct (text_eqb (minus_file s) dev_null); autorewrite with pp.
      * destruct (text_eqb (plus_file s) dev_null); autorewrite with pp; reflexivity.
      * match goal with |- context [text_eqb (plus_file ?x) dev_null] =>
          destruct (text_eqb (plus_file x) dev_null) end; autorewrite with pp; reflexivity.
  - cbv zeta. autorewrite with pp. destruct (in_diff_header (paint_buffered s)); autorewrite with pp; reflexivity.
Qed.
Lemma pp_h_hunk : commutes h_hunk. Proof. unfold commutes, h_hunk. pp_handler. Qed.
Lemma pp_h_tail : commutes h_tail_emit.
Proof. unfold commutes, h_tail_emit. intros. autorewrite with pp. reflexivity. Qed.

Lemma pp_run_handlers hs : (forall h, In h hs -> commutes h) ->
  forall P i c l s,
  run_handlers hs i c l (prepend P s) =
  (prepend P (fst (run_handlers hs i c l s)), snd (run_handlers hs i c l s)).
Proof.
  induction hs as [|h r IH]; intros Hc P i c l s; cbn [run_handlers]; [reflexivity|].
  rewrite (Hc h (or_introl eq_refl)).
  destruct (h i c l s) as [s' cl]. cbn [fst snd]. destruct cl; [reflexivity|].
  apply IH. intros h' Hin. apply Hc. right. exact Hin.
Qed.

Lemma commutes_handlers : forall h, In h handlers -> commutes h.
Proof.
  intros h Hin. unfold handlers in Hin. cbn in Hin.
  repeat (destruct Hin as [<-|Hin];
    [auto using pp_h_commit, pp_h_diff, pp_h_fileop, pp_h_minus, pp_h_plus, pp_h_hunk_header,
       pp_h_mode, pp_h_misc, pp_h_hunk, pp_h_tail|]).
  contradiction.
Qed.

(* C10: the machine never reads what it has written *)
Theorem step_prepend P c s il : step c (prepend P s) il = prepend P (step c s il).
Proof.
  destruct il as [i l]. unfold step. rewrite pp_source.
  replace (if source_git s then prepend P s else set_source (prepend P s) (detect_git l))
    with (prepend P (if source_git s then s else set_source s (detect_git l)))
    by (destruct (source_git s); reflexivity).
  rewrite (pp_run_handlers handlers commutes_handlers).
  destruct (run_handlers handlers i c l _) as [s1 cl]. cbn [fst snd].
  destruct cl; [reflexivity|]. rewrite pp_should_skip. destruct (should_skip c s1); [reflexivity|].
  apply pp_emit_unchanged.
Qed.

Theorem steps_prepend P c ls : forall s, steps c ls (prepend P s) = prepend P (steps c ls s).
Proof.
  unfold steps. induction ls as [|il r IH]; intros s; cbn [fold_left]; [reflexivity|].
  rewrite step_prepend. apply IH.
Qed.

(* C10: a `diff ` line resets the per-file state to a function of that line alone *)
Theorem section_reset c s i l :
  color_only c = false -> starts_with (lit "diff "%string) l = true ->
  let s' := step c s (i, l) in
  let name := name_of_diff_line l in
  state s' = SDiffHeader /\ minus_file s' = name /\ plus_file s' = name /\ minus_ev s' = Change /\
  diff_line s' = l /\ mode_info s' = [] /\ cur s' = Some (name, name) /\ handled s' = None /\
  minus_lines s' = [] /\ plus_lines s' = [].
Proof.
  intros Hc Hd s' name. subst s'. unfold step.
  set (s0 := if source_git s then s else set_source s (detect_git l)).
  unfold handlers. cbn [run_handlers].
  assert (Hcm : starts_with (lit "commit "%string) l = false).
  { destruct l as [|ch r]; [vm_compute in Hd; discriminate|].
    destruct (N.eqb_spec 100 ch) as [<-|Hne]; [reflexivity|].
    exfalso. apply N.eqb_neq in Hne. rewrite sw_false in Hd; [discriminate|].
    change (lit "diff "%string) with (100%N :: lit "iff "%string). cbn [hd_mismatch].
    rewrite Hne. reflexivity. }
  unfold h_commit. rewrite Hcm. unfold h_diff. rewrite Hd. cbv zeta.
  set (s1 := set_state (paint_buffered s0) SDiffHeader).
  assert (Q1 : quiet s1) by apply (quiet_paint s0).
  (* pending keeps the state, clears or keeps an empty mode_info, keeps buffers empty *)
  assert (P1 : state (pending i c s1) = SDiffHeader /\ mode_info (pending i c s1) = [] /\
               minus_lines (pending i c s1) = [] /\ plus_lines (pending i c s1) = []).
  { destruct (pending_facts i c s1 (fun _ => Q1)) as (_ & _ & S & Hm & Hp).
    destruct Q1 as [Qm Qp]. split; [rewrite S; reflexivity|]. split; [|split; congruence].
    unfold pending. replace (in_diff_header s1) with true by reflexivity. cbn [negb].
    destruct (is_empty (mode_info (emit s1))) eqn:E; cbn [negb].
    - destruct (negb (color_only c) && _);
        [unfold write_file_header; autorewrite with proj; reflexivity
        | destruct (mode_info (emit s1)); [reflexivity | discriminate E]].
    - unfold write_file_header. autorewrite with proj. reflexivity. }
  destruct P1 as (S & M & Hm & Hp).
  match goal with |- context [should_skip c ?x] => assert (Hsk : should_skip c x = true) end.
  { unfold should_skip, in_diff_header. rewrite Hc. autorewrite with proj. rewrite S. reflexivity. }
  rewrite Hsk. cbn [fst snd]. autorewrite with proj. repeat split; assumption.
Qed.

(* C10: end of input flushes exactly what the next section boundary flushes.
   [complete s]: if the machine is not in a file header, that file's header has been shown
   (true after any hunk of a complete file section). *)
Definition complete (s : sm) : Prop :=
  in_diff_header s = false ->
  mode_info s = [] /\ opt_text_pair_eqb (handled s) (cur s) = true.

Lemma all_items_wfh i t s : buf s = [] -> quiet s ->
  all_items (write_file_header i t s) = all_items s ++ [(i, IFileHeader t (mode_info s))].
Proof.
  intros Hb Hq. unfold write_file_header.
  change (all_items (write s (i, IFileHeader t (mode_info s))) = all_items s ++ [(i, IFileHeader t (mode_info s))]).
  apply all_items_write; assumption.
Qed.

(* what the pending-header logic appends, as a function of the header fields only *)
Definition pending_item (i : nat) (c : cfg) (s : sm) : list oitem :=
  if negb (is_empty (mode_info s)) then [(i, IFileHeader (name_of_diff_line (diff_line s)) (mode_info s))]
  else if negb (color_only c) && negb (opt_text_pair_eqb (handled s) (cur s))
       then [(i, IFileHeader (describe s) (mode_info s))] else [].

Lemma pending_all_items i c s : in_diff_header s = true -> quiet s ->
  all_items (pending i c s) = all_items s ++ pending_item i c s.
Proof.
  intros Hd Hq. unfold pending, pending_item. rewrite Hd. cbn [negb].
  assert (Qe : quiet (emit s)) by (apply quiet_emit; exact Hq).
  assert (Be : buf (emit s) = []) by apply emit_spec.
  change (mode_info (emit s)) with (mode_info s).
  change (handled (emit s)) with (handled s). change (cur (emit s)) with (cur s).
  destruct (negb (is_empty (mode_info s))).
  - change (all_items (set_handled (write_file_header i (name_of_diff_line (diff_line (emit s))) (emit s)) (cur s)))
      with (all_items (write_file_header i (name_of_diff_line (diff_line (emit s))) (emit s))).
    rewrite all_items_wfh by assumption. rewrite all_items_emit. reflexivity.
  - destruct (negb (color_only c) && negb (opt_text_pair_eqb (handled s) (cur s))).
    + change (all_items (set_handled (write_file_header i (describe (emit s)) (emit s)) (cur s)))
        with (all_items (write_file_header i (describe (emit s)) (emit s))).
      rewrite all_items_wfh by assumption. rewrite all_items_emit. reflexivity.
    + rewrite all_items_emit, app_nil_r. reflexivity.
Qed.

Theorem eof_mirrors_boundary c s i l :
  color_only c = false -> GI s -> complete s ->
  starts_with (lit "diff "%string) l = true ->
  all_items (step c s (i, l)) = out (finish i c s).
Proof.
  intros Hc G Hcomp Hd.
  destruct (finish_all c i s G) as (F & _). rewrite F. clear F.
  (* the boundary step *)
  unfold step.
  set (s0 := if source_git s then s else set_source s (detect_git l)).
  assert (E0 : all_items s0 = all_items s /\ in_diff_header s0 = in_diff_header s /\
               mode_info s0 = mode_info s /\ handled s0 = handled s /\ cur s0 = cur s /\
               diff_line s0 = diff_line s /\ describe s0 = describe s /\ (quiet s -> quiet s0))
    by (subst s0; destruct (source_git s);
        (do 7 (split; [reflexivity|]); intros Q; exact Q)).
  destruct E0 as (A0 & D0 & M0 & H0 & C0 & L0 & De0 & Q0).
  unfold handlers. cbn [run_handlers].
  assert (Hcm : starts_with (lit "commit "%string) l = false).
  { destruct l as [|ch r]; [vm_compute in Hd; discriminate|].
    destruct (N.eqb_spec 100 ch) as [<-|Hne]; [reflexivity|].
    exfalso. apply N.eqb_neq in Hne. rewrite sw_false in Hd; [discriminate|].
    change (lit "diff "%string) with (100%N :: lit "iff "%string). cbn [hd_mismatch].
    rewrite Hne. reflexivity. }
  unfold h_commit. rewrite Hcm. unfold h_diff. rewrite Hd. cbv zeta.
  set (s1 := set_state (paint_buffered s0) SDiffHeader).
  assert (Q1 : quiet s1) by apply (quiet_paint s0).
  destruct (pending_facts i c s1 (fun _ => Q1)) as (_ & _ & S & _).
  match goal with |- context [should_skip c ?x] => assert (Hsk : should_skip c x = true) end.
  { unfold should_skip, in_diff_header. rewrite Hc. autorewrite with proj. rewrite S. reflexivity. }
  rewrite Hsk. cbn [fst snd].
  match goal with |- all_items ?x = _ => change (all_items x) with (all_items (pending i c s1)) end.
  rewrite (pending_all_items i c s1 eq_refl Q1).
  change (all_items s1) with (all_items (paint_buffered s0)). rewrite all_items_paint, A0.
  assert (PI : pending_item i c s1 = pending_item i c s).
  { unfold pending_item.
    change (mode_info s1) with (mode_info s0). change (diff_line s1) with (diff_line s0).
    change (handled s1) with (handled s0). change (cur s1) with (cur s0).
    change (describe s1) with (describe s0).
    rewrite M0, H0, C0, L0, De0. reflexivity. }
  rewrite PI.
  (* end of input *)
  destruct (in_diff_header s) eqn:Ds.
  - destruct G as [HM _].
    assert (Qs : quiet s).
    { apply HM. unfold in_hunk. unfold in_diff_header in Ds. destruct (state s); auto; discriminate. }
    rewrite (pending_all_items i c s Ds Qs). reflexivity.
  - destruct (Hcomp Ds) as (Mi & Hh).
    unfold pending. rewrite Ds. cbn [negb].
    unfold pending_item. rewrite Mi, Hh. cbn. rewrite andb_false_r, app_nil_r. reflexivity.
Qed.
