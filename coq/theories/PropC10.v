(* C10 — file sections render independently of their neighbours.  Statements only, over the
   line state machine model (tied to the code by the correspondence of check C01 and by the
   black-box concatenation law of check C10). *)
From Coq Require Import String.
From Coq Require Import List Bool NArith.
Import ListNotations.
From DV Require Import Text Delta DeltaFacts DeltaOrder DeltaIndep.

(* A `diff ` line resets every per-file field to a function of that line alone: nothing of
   the previous section (names, events, mode information, handled-header bookkeeping,
   buffered lines) survives it — from any state. *)
Theorem C10_section_reset : forall c s i l,
  color_only c = false -> starts_with (lit "diff "%string) l = true ->
  let s' := step c s (i, l) in
  let name := name_of_diff_line l in
  state s' = SDiffHeader /\ minus_file s' = name /\ plus_file s' = name /\ minus_ev s' = Change /\
  diff_line s' = l /\ mode_info s' = [] /\ cur s' = Some (name, name) /\ handled s' = None /\
  minus_lines s' = [] /\ plus_lines s' = [].
Proof. exact section_reset. Qed.

(* The machine never reads what it has written: whatever was written before (the output of
   earlier sections) commutes with every later step. *)
Theorem C10_never_reads_output : forall P c ls s,
  steps c ls (prepend P s) = prepend P (steps c ls s).
Proof. exact steps_prepend. Qed.

(* End of input flushes exactly what the next section boundary flushes: the rendering of a
   section does not depend on whether another section follows. *)
Theorem C10_eof_mirrors_boundary : forall c s i l,
  color_only c = false -> GI s -> complete s ->
  starts_with (lit "diff "%string) l = true ->
  all_items (step c s (i, l)) = out (finish i c s).
Proof. exact eof_mirrors_boundary. Qed.

(* Non-vacuity: the concatenation law on a concrete pair (hunk ending in changed lines,
   then a mode-only section), indices dropped. *)
Example C10_example :
  let A := [lit "diff --git a/x b/x"%string; lit "--- a/x"%string; lit "+++ b/x"%string;
            lit "@@ -1,2 +1,2 @@"%string; lit " c"%string; lit "-o"%string; lit "+n"%string] in
  let B := [lit "diff --git a/y b/y"%string; lit "old mode 100644"%string; lit "new mode 100755"%string] in
  let c := mkCfg false 4 32 in
  map snd (run c (A ++ B)) = map snd (run c A) ++ map snd (run c B).
Proof. vm_compute. reflexivity. Qed.
