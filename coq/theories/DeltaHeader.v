(* Path and fragment extraction (C14). *)
From Coq Require Import String.
From Coq Require Import List Bool NArith Arith Lia.
Import ListNotations.
From DV Require Import Text Delta.

(* ---- take_while *)
Lemma take_while_app_stop f a c r :
  forallb f a = true -> f c = false -> take_while f (a ++ c :: r) = (a, c :: r).
Proof.
  induction a as [|x a IH]; cbn; intros Ha Hc.
  - rewrite Hc. reflexivity.
  - apply andb_true_iff in Ha. destruct Ha as [Hx Ha]. rewrite Hx, (IH Ha Hc). reflexivity.
Qed.

Lemma take_while_all f a : forallb f a = true -> take_while f a = (a, []).
Proof.
  induction a as [|x a IH]; cbn; intros Ha; [reflexivity|].
  apply andb_true_iff in Ha. destruct Ha as [Hx Ha]. rewrite Hx, (IH Ha). reflexivity.
Qed.

(* ---- the code fragment of a hunk header is passed on unchanged *)
(* A two-way hunk header "@@ <coordinates> @@<fragment>": the coordinates contain no '@'
   and at least one "[-+]digits"; the fragment is whatever follows the closing "@@" (git
   puts a space first, so it does not start with '@'). *)
Theorem fragment_unchanged g1 frag n :
  g1 <> [] -> forallb not_at g1 = true ->
  match frag with c :: _ => is_at c = false | [] => True end ->
  last_coord_start g1 None (S (length g1)) = Some n ->
  parse_hunk_header (lit "@@ "%string ++ g1 ++ lit "@@"%string ++ frag) = Some (frag, n).
Proof.
  intros Hne Hna Hfr Hn. unfold parse_hunk_header.
  change (lit "@@ "%string ++ g1 ++ lit "@@"%string ++ frag)
    with ([at_sign; at_sign] ++ space :: (g1 ++ [at_sign; at_sign] ++ frag)).
  rewrite take_while_app_stop by reflexivity. cbn [app].
  change (N.eqb space space) with true. cbv iota.
  change (g1 ++ at_sign :: at_sign :: frag) with (g1 ++ at_sign :: (at_sign :: frag)).
  rewrite (take_while_app_stop not_at g1 at_sign (at_sign :: frag) Hna eq_refl).
  destruct g1 as [|g g1']; [contradiction|].
  assert (Ht : take_while is_at (at_sign :: at_sign :: frag) = ([at_sign; at_sign], frag)).
  { destruct frag as [|c r].
    - reflexivity.
    - change (at_sign :: at_sign :: c :: r) with ([at_sign; at_sign] ++ c :: r).
      apply take_while_app_stop; [reflexivity | exact Hfr]. }
  rewrite Ht. rewrite Hn. reflexivity.
Qed.

(* ---- the path repeated on a `diff --git` line *)
Definition mnemonic (x : N) : bool :=
  N.eqb x 97 || N.eqb x 98 || N.eqb x 99 || N.eqb x 105 || N.eqb x 111 || N.eqb x 119.
Definition slash : N := 47%N.

Lemma ends_with_cons_last p x l :
  l <> [] -> ends_with p (x :: l) = ends_with p l \/ True.
Proof. right. exact I. Qed.

Lemma ends_with_tab_cons x l : l <> [] -> ends_with [tab] (x :: l) = ends_with [tab] l.
Proof.
  intros Hne. unfold ends_with. cbn [rev].
  destruct (rev l) as [|y r] eqn:E.
  - exfalso. apply Hne. apply (f_equal (@rev N)) in E. rewrite rev_involutive in E. exact E.
  - reflexivity.
Qed.

Lemma parse_prefixed x P :
  mnemonic x = true -> ends_with [tab] P = false ->
  parse_file_path (x :: slash :: P) true = P.
Proof.
  intros Hx Ht. unfold parse_file_path.
  assert (Hq : remove_surrounding_quotes (x :: slash :: P) = x :: slash :: P).
  { unfold remove_surrounding_quotes. cbn [starts_with].
    replace (N.eqb quote x) with false; [reflexivity|].
    unfold mnemonic in Hx. symmetry. apply N.eqb_neq. intros E. subst x. discriminate. }
  rewrite Hq.
  assert (Hs : strip_trailing_tab (x :: slash :: P) = x :: slash :: P).
  { unfold strip_trailing_tab.
    destruct P as [|p P'].
    - reflexivity.
    - rewrite ends_with_tab_cons by discriminate. rewrite ends_with_tab_cons by discriminate.
      rewrite Ht. reflexivity. }
  rewrite Hs.
  assert (Hd : text_eqb (x :: slash :: P) dev_null = false).
  { change dev_null with (slash :: lit "dev/null"%string). cbn [text_eqb].
    replace (N.eqb x slash) with false; [reflexivity|].
    unfold mnemonic in Hx. symmetry. apply N.eqb_neq. intros E. subst x. discriminate. }
  rewrite Hd. cbn [andb].
  assert (He : existsb (fun p => starts_with p (x :: slash :: P)) diff_prefixes = true).
  { unfold mnemonic in Hx. unfold diff_prefixes.
    repeat (apply orb_true_iff in Hx; destruct Hx as [Hx|Hx]);
      apply N.eqb_eq in Hx; subst x; reflexivity. }
  rewrite He. reflexivity.
Qed.

Lemma mid_split (A B : text) c :
  length A = length B ->
  let l := A ++ c :: B in
  Nat.div (length l) 2 = length A /\ nth_error l (length A) = Some c /\
  firstn (length A) l = A /\ skipn (S (length A)) l = B.
Proof.
  intros Hlen l. subst l. split; [|split; [|split]].
  - rewrite app_length. cbn [length]. rewrite <- Hlen.
    replace (length A + S (length A)) with (1 + length A * 2) by lia.
    rewrite Nat.div_add by lia. reflexivity.
  - rewrite nth_error_app2 by lia. rewrite Nat.sub_diag. reflexivity.
  - rewrite firstn_app, firstn_all, Nat.sub_diag. cbn. apply app_nil_r.
  - replace (S (length A)) with (length A + 1) by lia.
    rewrite skipn_app, skipn_all2 by lia.
    replace (length A + 1 - length A) with 1 by lia. reflexivity.
Qed.

(* For every path P (not ending in a tab) and mnemonic prefixes x/ y/:
   get_repeated_file_path_from_diff_line "diff --git x/P y/P" = Some P —
   whatever P contains: spaces, non-ASCII characters, something that looks like a prefix. *)
Theorem diff_line_path x y P :
  mnemonic x = true -> mnemonic y = true -> ends_with [tab] P = false ->
  repeated_path (lit "diff --git "%string ++ (x :: slash :: P) ++ space :: y :: slash :: P) = Some P.
Proof.
  intros Hx Hy Ht. unfold repeated_path, strip_prefix.
  assert (Hsw : starts_with (lit "diff --git "%string)
                  (lit "diff --git "%string ++ (x :: slash :: P) ++ space :: y :: slash :: P) = true) by reflexivity.
  rewrite Hsw.
  assert (Hsk : skipn (length (lit "diff --git "%string))
                  (lit "diff --git "%string ++ (x :: slash :: P) ++ space :: y :: slash :: P)
                = (x :: slash :: P) ++ space :: (y :: slash :: P)) by reflexivity.
  rewrite Hsk.
  destruct (mid_split (x :: slash :: P) (y :: slash :: P) space eq_refl) as (Hm & Hn & Hf & Hs).
  rewrite Hm, Hn. change (N.eqb space space) with true. cbv iota.
  rewrite Hf, Hs.
  rewrite (parse_prefixed x P Hx Ht), (parse_prefixed y P Hy Ht).
  assert (Heq : forall t, text_eqb t t = true).
  { induction t as [|a t IH]; cbn; [reflexivity|]. rewrite N.eqb_refl, IH. reflexivity. }
  rewrite Heq. reflexivity.
Qed.
