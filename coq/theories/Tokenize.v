(* src/edits.rs tokenize with the default word regex (\w+): maximal runs of word characters
   are tokens, every other character is a token of its own; the list starts with the empty
   token, followed by a second empty token when the line does not begin with a word — C06.
   Characters are scalar values; [is_word] stands for the regex crate's \w on the alphabet
   the correspondence uses. *)
From Coq Require Import List Bool NArith.
Import ListNotations.
From DV Require Import Text.
Local Open Scope N_scope.

Section Tok.
Variable is_word : N -> bool.

(* split off the maximal word at the front *)
Fixpoint take_word (l : text) : text * text :=
  match l with
  | c :: r => if is_word c then let (w, rest) := take_word r in (c :: w, rest) else ([], l)
  | [] => ([], [])
  end.

Fixpoint toks (fuel : nat) (l : text) : list text :=
  match fuel with
  | O => []
  | S f =>
    match l with
    | [] => []
    | c :: r =>
        if is_word c then let (w, rest) := take_word l in w :: toks f rest
        else [c] :: toks f r
    end
  end.

Definition tokenize (l : text) : list text :=
  match l with
  | [] => [[]]
  | c :: _ => if is_word c then [] :: toks (length l) l else [] :: [] :: toks (length l) l
  end.

End Tok.

(* \w on the correspondence alphabet: ASCII letters, digits, underscore, and the letters of
   the Latin-1 / CJK ranges used by the generators (validated against the regex crate on
   every run) *)
Definition default_is_word (c : N) : bool :=
  ((48 <=? c) && (c <=? 57)) || ((65 <=? c) && (c <=? 90)) || ((97 <=? c) && (c <=? 122)) || (c =? 95) ||
  ((192 <=? c) && (c <=? 591) && negb (c =? 215) && negb (c =? 247)) ||
  ((12353 <=? c) && (c <=? 12543)) || ((19968 <=? c) && (c <=? 40959)).
