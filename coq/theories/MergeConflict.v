(* Merge-conflict regions of a combined diff (src/handlers/merge_conflict.rs): the lines between
   `++<<<<<<<` and `++>>>>>>>` are stored in three buffers (ours / ancestral / theirs) and, at the
   closing marker, shown as two comparisons against the ancestor; then the buffers are cleared —
   C01 ("each side's lines appear once per comparison").  Which buffers `clear()` empties is
   read from the source on every run (GenMerge.v). *)
From Coq Require Import List Bool Arith Lia.
Import ListNotations.

Inductive side := Ours | Anc | Theirs.

(* what handle_merge_conflict_line can recognise in a line *)
Inductive cls := CBegin | CAncMark | CSep | CEnd | CBody.

Inductive mode := Outside | Inside (s : side).

Section Merge.
  Variable line : Type.
  Variable classify : line -> cls.
  (* which buffers MergeConflictLines::clear() empties *)
  Variable cleared : side -> bool.

  Inductive out :=
  | OBar                      (* write_merge_conflict_bar *)
  | OHdr (s : side)           (* write_diff_header for the comparison ancestor -> s *)
  | OMinus (l : line)         (* a line painted as the minus side of a comparison *)
  | OPlus (l : line)          (* a line painted as the plus side of a comparison *)
  | OHunk (l : line).         (* not claimed here: goes on to the hunk-line handler *)

  Record st := { md : mode; b_ours : list line; b_anc : list line; b_theirs : list line; outp : list out }.

  Definition init : st := {| md := Outside; b_ours := []; b_anc := []; b_theirs := []; outp := [] |}.

  Definition clr (s : side) (b : list line) : list line := if cleared s then [] else b.

  Definition comparison (s : st) (d : side) : list out :=
    OHdr d :: map OMinus (b_anc s) ++ map OPlus (match d with Ours => b_ours s | Theirs => b_theirs s | Anc => b_anc s end).

  (* paint_buffered_merge_conflict_lines *)
  Definition paint (s : st) : st :=
    {| md := Outside;
       b_ours := clr Ours (b_ours s); b_anc := clr Anc (b_anc s); b_theirs := clr Theirs (b_theirs s);
       outp := outp s ++ [OBar] ++ comparison s Ours ++ comparison s Theirs ++ [OBar] |}.

  Definition store (s : st) (d : side) (l : line) : st :=
    match d with
    | Ours => {| md := md s; b_ours := b_ours s ++ [l]; b_anc := b_anc s; b_theirs := b_theirs s; outp := outp s |}
    | Anc => {| md := md s; b_ours := b_ours s; b_anc := b_anc s ++ [l]; b_theirs := b_theirs s; outp := outp s |}
    | Theirs => {| md := md s; b_ours := b_ours s; b_anc := b_anc s; b_theirs := b_theirs s ++ [l]; outp := outp s |}
    end.

  Definition enter (s : st) (d : side) : st :=
    {| md := Inside d; b_ours := b_ours s; b_anc := b_anc s; b_theirs := b_theirs s; outp := outp s |}.

  (* handle_merge_conflict_line, one input line *)
  Definition step (s : st) (l : line) : st :=
    match md s with
    | Outside =>
        match classify l with
        | CBegin => enter s Ours
        | _ => {| md := Outside; b_ours := b_ours s; b_anc := b_anc s; b_theirs := b_theirs s; outp := outp s ++ [OHunk l] |}
        end
    | Inside Ours =>
        match classify l with
        | CAncMark => enter s Anc
        | CSep => enter s Theirs
        | CEnd => paint s
        | _ => store s Ours l
        end
    | Inside Anc =>
        match classify l with
        | CSep => enter s Theirs
        | CEnd => paint s
        | _ => store s Anc l
        end
    | Inside Theirs =>
        match classify l with
        | CEnd => paint s
        | _ => store s Theirs l
        end
    end.

  Definition run (ls : list line) : st := fold_left step ls init.

  (* ---- the specification: a stream is a sequence of plain hunk lines and conflict regions *)
  Record region := { r_begin : line; r_ours : list line; r_anc : option (line * list line);
                     r_sep : line; r_theirs : list line; r_end : line }.

  Inductive item := IHunk (l : line) | IRegion (r : region).

  Definition anc_lines (r : region) : list line := match r_anc r with Some (_, a) => a | None => [] end.

  Definition region_lines (r : region) : list line :=
    r_begin r :: r_ours r ++ (match r_anc r with Some (m, a) => m :: a | None => [] end) ++ r_sep r :: r_theirs r ++ [r_end r].

  Definition item_lines (i : item) : list line := match i with IHunk l => [l] | IRegion r => region_lines r end.

  (* what the property asks to see for a region: two comparisons against the ancestor *)
  Definition region_shown (r : region) : list out :=
    [OBar] ++ (OHdr Ours :: map OMinus (anc_lines r) ++ map OPlus (r_ours r))
           ++ (OHdr Theirs :: map OMinus (anc_lines r) ++ map OPlus (r_theirs r)) ++ [OBar].

  Definition item_shown (i : item) : list out := match i with IHunk l => [OHunk l] | IRegion r => region_shown r end.

  (* the lines of a region are classified as the region's grammar says *)
  Definition body_in (d : side) (l : line) : Prop :=
    match d, classify l with
    | _, CBody => True
    | Ours, CBegin => True
    | Anc, (CBegin | CAncMark) => True
    | Theirs, (CBegin | CAncMark | CSep) => True
    | _, _ => False
    end.

  Definition region_ok (r : region) : Prop :=
    classify (r_begin r) = CBegin /\ Forall (body_in Ours) (r_ours r) /\
    match r_anc r with Some (m, a) => classify m = CAncMark /\ Forall (body_in Anc) a | None => True end /\
    classify (r_sep r) = CSep /\ Forall (body_in Theirs) (r_theirs r) /\ classify (r_end r) = CEnd.

  Definition item_ok (i : item) : Prop :=
    match i with IHunk l => classify l <> CBegin | IRegion r => region_ok r end.
End Merge.

Arguments OBar {line}.
Arguments OHdr {line}.
Arguments OMinus {line}.
Arguments OPlus {line}.
Arguments OHunk {line}.
