(* Proofs about the protocol model, for every parameter set that is [good]. *)
From Coq Require Import List Arith Bool Lia.
Import ListNotations.
From DV Require Import Proc.

Section Facts.
Variable P : params.
Hypothesis HP : good P = true.

Lemma good_fields :
  bg_guard P = true /\ guard_under_lock P = true /\ bg_notify P = true /\ pub_marks_known P = true /\
  pub_notify P = true /\ query_waits P = true.
Proof.
  unfold good in HP.
  destruct (bg_guard P), (guard_under_lock P), (bg_notify P), (pub_marks_known P), (pub_notify P), (query_waits P);
    cbn in HP; try discriminate; repeat split; reflexivity.
Qed.

Definition main_past_publish (s : st) := match mn s with MPublish _ => false | _ => true end.

Definition Inv (publish : bool) (s : st) : Prop :=
  (known s = true -> caller s = K) /\
  (bg s = BDone -> caller s <> Pending) /\
  (~ In Pending (results s)) /\
  (publish = true -> main_past_publish s = true -> known s = true) /\
  (publish = true -> forall v, In v (results s) -> v = K) /\
  (publish = false -> known s = false) /\
  (forall n, mn s = MWait n -> caller s = Pending \/ notified s = true) /\
  (forall n, mn s = MPublish n -> publish = true) /\
  (publish = false -> caller s <> K) /\
  (publish = false -> forall v, In v (results s) -> v = G).

Lemma init_inv p n : Inv p (init p n).
Proof.
  unfold Inv, init; cbn. repeat split; try (intros; try discriminate; try contradiction; auto).
  all: destruct p; cbn in *; try discriminate; try reflexivity; destruct n; discriminate.
Qed.

Lemma step_inv p t s s' : Inv p s -> step P t s = Some s' -> Inv p s'.
Proof.
  destruct good_fields as (G1 & G1' & G2 & G3 & G4 & G5).
  intros (I1 & I2 & I3 & I4 & I5 & I6 & I7 & I8 & I9 & I10) H.
  destruct t; cbn in H.
  - (* BG *)
    destruct (bg s) eqn:B; inversion H; subst; clear H; unfold Inv, main_past_publish in *; cbn.
    + repeat split; auto. intros; discriminate.
    + rewrite G1, G1', G2. cbn. repeat split; auto.
      * intros Hk. rewrite Hk. auto.
      * intros _. destruct (known s) eqn:Hk; [rewrite (I1 eq_refl); discriminate | discriminate].
      * intros n Hn. right. apply orb_true_r.
      * intros Hp. rewrite (I6 Hp). discriminate.
  - (* Main *)
    destruct (mn s) eqn:M.
    + inversion H; subst; clear H. unfold Inv, main_past_publish; cbn. rewrite G3, G4.
      pose proof (I8 n eq_refl) as Hpub.
      repeat split; auto; try (intros; subst p; discriminate).
      * intros _ _. apply orb_true_r.
      * intros m Hm. destruct n; discriminate.
    + rewrite G5 in H. cbn in H.
      destruct (is_pending (caller s)) eqn:Pd; inversion H; subst; clear H;
        unfold Inv, main_past_publish in *; cbn.
      * repeat split; auto.
        -- rewrite M in I4. auto.
        -- intros m _. left. destruct (caller s); try discriminate; reflexivity.
        -- intros m Hm; discriminate.
      * repeat split; auto.
        -- intros Hin. apply in_app_or in Hin. destruct Hin as [Hin|[Hin|[]]]; [auto|].
           rewrite Hin in Pd. discriminate.
        -- rewrite M in I4. intros Hp _. apply I4; auto.
        -- intros Hp v Hin. apply in_app_or in Hin. destruct Hin as [Hin|[Hin|[]]]; [auto|]. subst v.
           rewrite M in I4. apply I1, I4; auto.
        -- intros m Hm. destruct n as [|[|n]]; cbn in Hm; discriminate.
        -- intros m Hm. destruct n as [|[|n]]; cbn in Hm; discriminate.
        -- intros Hp v Hin. apply in_app_or in Hin. destruct Hin as [Hin|[Hin|[]]]; [auto|]. subst v.
           specialize (I9 Hp). destruct (caller s); try discriminate; try reflexivity. contradiction.
    + destruct (notified s) eqn:Nt; inversion H; subst; clear H. unfold Inv, main_past_publish in *; cbn.
      rewrite M in I4. repeat split; auto; intros; discriminate.
    + discriminate.
  - (* spurious *)
    destruct (mn s) eqn:M; inversion H; subst; clear H. unfold Inv, main_past_publish in *; cbn.
    rewrite M in I4. repeat split; auto; intros; discriminate.
Qed.

Theorem reachable_inv p n sched : Inv p (run P sched (init p n)).
Proof.
  assert (Gn : forall s, Inv p s -> Inv p (run P sched s)).
  { induction sched as [|t r IH]; intros s Hs; cbn; [exact Hs|].
    destruct (step P t s) eqn:E; [apply IH; eapply step_inv; eauto | apply IH; exact Hs]. }
  apply Gn, init_inv.
Qed.

(* For every schedule and every number of queries: *)
Corollary never_pending p n sched : ~ In Pending (results (run P sched (init p n))).
Proof. destruct (reachable_inv p n sched) as (_ & _ & H & _). exact H. Qed.

Corollary launched_always_reported n sched v :
  In v (results (run P sched (init true n))) -> v = K.
Proof. destruct (reachable_inv true n sched) as (_ & _ & _ & _ & H & _). apply H. reflexivity. Qed.

Corollary guess_when_not_launched n sched v :
  In v (results (run P sched (init false n))) -> v = G.
Proof.
  destruct (reachable_inv false n sched) as (_ & _ & _ & _ & _ & _ & _ & _ & _ & H).
  apply H. reflexivity.
Qed.

(* deadlock freedom: unless everything is finished, some non-spurious thread can step *)
Theorem deadlock_free p n sched :
  let s := run P sched (init p n) in
  finished s \/ step P TBg s <> None \/ step P TMain s <> None.
Proof.
  destruct good_fields as (G1 & G1' & G2 & G3 & G4 & G5).
  intros s. pose proof (reachable_inv p n sched) as HI. change (run P sched (init p n)) with s in HI.
  clearbody s. destruct HI as (I1 & I2 & I3 & I4 & I5 & I6 & I7 & I8 & I9 & I10).
  destruct (bg s) eqn:B.
  - right; left. unfold step. rewrite B. discriminate.
  - right; left. unfold step. rewrite B. discriminate.
  - destruct (mn s) eqn:M.
    + right; right. unfold step. rewrite M. discriminate.
    + right; right. unfold step. rewrite M. destruct (query_waits P && is_pending (caller s)); discriminate.
    + right; right. unfold step. rewrite M. destruct (I7 n0 eq_refl) as [Hc|Hn].
      * exfalso. apply (I2 eq_refl). exact Hc.
      * rewrite Hn. discriminate.
    + left. split; assumption.
Qed.

(* Progress measure: every enabled non-spurious step strictly decreases [measure], except
   that going to sleep is followed by at most one wake-up per notification; so every fair
   run in which spurious wake-ups are finite terminates with all queries answered. *)
Definition bg_left s := match bg s with BCompute => 2 | BWantLock _ => 1 | BDone => 0 end.
Definition main_left s :=
  match mn s with
  | MPublish n => 3 * n + 6
  | MQuery n => 3 * n + 2
  | MWait n => 3 * n + 3   (* only reached from MQuery while the cell is Pending *)
  | MDone => 0
  end.

(* BG steps always decrease bg_left and never change the main thread *)
Lemma bg_step_decreases s s' : step P TBg s = Some s' -> bg_left s' < bg_left s /\ mn s' = mn s.
Proof.
  unfold step, bg_left. destruct (bg s) eqn:B; intros H; inversion H; subst; cbn; split; auto.
Qed.

(* once BG is done and the state is reachable, every main step strictly decreases main_left:
   the query can no longer go to sleep *)
Lemma main_step_after_bg p n sched s' :
  let s := run P sched (init p n) in
  bg s = BDone -> step P TMain s = Some s' -> main_left s' < main_left s.
Proof.
  destruct good_fields as (G1 & G1' & G2 & G3 & G4 & G5).
  intros s HB H. pose proof (reachable_inv p n sched) as HI. change (run P sched (init p n)) with s in HI.
  clearbody s. destruct HI as (I1 & I2 & I3 & I4 & I5 & I6 & I7 & I8 & I9 & I10).
  unfold step in H. destruct (mn s) eqn:M.
  - inversion H; subst; unfold main_left; rewrite M; cbn [mn]. destruct n0; cbn -[Nat.mul]; lia.
  - assert (Hnp : is_pending (caller s) = false).
    { specialize (I2 HB). destruct (caller s); auto. contradiction. }
    rewrite Hnp, andb_false_r in H. inversion H; subst; unfold main_left; rewrite M; cbn [mn].
    destruct n0 as [|[|m]]; cbn -[Nat.mul]; lia.
  - destruct (notified s); inversion H; subst; unfold main_left; rewrite M; cbn -[Nat.mul]. lia.
  - discriminate.
Qed.

End Facts.

(* What goes wrong when the shape of the code changes: witnesses, by computation. *)
Definition no_guard := mkParams false true true true true true.
Lemma no_guard_refuted :
  exists sched, In G (results (run no_guard sched (init true 1))).
Proof. exists [TMain; TBg; TBg; TMain]. cbn. auto. Qed.

Definition no_wait := mkParams true true true true true false.
Lemma no_wait_refuted :
  exists sched, In Pending (results (run no_wait sched (init false 1))).
Proof. exists [TMain]. cbn. auto. Qed.

Definition no_bg_notify := mkParams true true false true true true.
Lemma no_bg_notify_refuted :
  exists sched, let s := run no_bg_notify sched (init false 1) in
    ~ finished s /\ step no_bg_notify TBg s = None /\ step no_bg_notify TMain s = None.
Proof.
  exists [TMain; TBg; TBg]. cbn. repeat split; auto. intros [_ H]. discriminate.
Qed.

Definition not_marked := mkParams true true true false true true.
Lemma not_marked_refuted :
  exists sched, In G (results (run not_marked sched (init true 1))).
Proof. exists [TMain; TBg; TBg; TMain]. cbn. auto. Qed.

Definition guard_outside_lock := mkParams true false true true true true.
Lemma guard_outside_lock_refuted :
  exists sched, In G (results (run guard_outside_lock sched (init true 1))).
Proof. exists [TBg; TMain; TBg; TMain]. cbn. auto. Qed.
