From Coq Require Import List Bool NArith Arith Lia.
Import ListNotations.
From DV Require Import WrapLine WrapFacts Trunc.

Lemma owidth_app a b : owidth (a ++ b) = owidth a + owidth b.
Proof. unfold owidth. induction a as [|e a IH]; simpl; [reflexivity|]. destruct e; rewrite IH; lia. Qed.
Lemma owidth_fill n : owidth (repeat OFill n) = n.
Proof. unfold owidth. induction n as [|n IH]; simpl; [reflexivity | rewrite IH; reflexivity]. Qed.
Lemma owidth_cons e o : owidth (e :: o) = match e with OG g => snd g | OFill => 1 | OAnsi _ => 0 end + owidth o.
Proof. destruct e; reflexivity. Qed.
Lemma gwidth_cons g t : gwidth (g :: t) = snd g + gwidth t.
Proof. reflexivity. Qed.
Lemma owidth_embed items : owidth (embed items) = items_width items.
Proof.
  induction items as [|it r IH]; [reflexivity|]. cbn [embed flat_map]. rewrite owidth_app.
  fold (embed r). rewrite IH. destruct it as [t|a]; cbn [items_width fold_right]; fold (items_width r).
  - f_equal. induction t as [|g t IHt]; [reflexivity|]. cbn [map]. rewrite owidth_cons, gwidth_cons, IHt. reflexivity.
  - reflexivity.
Qed.
Lemma items_width_cons it r : items_width (it :: r) = match it with IText t => gwidth t | IAnsi _ => 0 end + items_width r.
Proof. destruct it; reflexivity. Qed.

(* the inner loop: never exceeds the width; not cut = everything taken; cut with fill = exactly full *)
Lemma take_text_spec fill dw t : forall used, used <= dw ->
  let '(o, u, c) := take_text fill dw used t in
  used + owidth o <= dw /\
  (c = false -> u = used + gwidth t /\ owidth o = gwidth t) /\
  (c = true -> dw < used + gwidth t /\ (fill = true -> used + owidth o = dw)).
Proof.
  induction t as [|g r IH]; intros used Hu; cbn [take_text].
  { change (owidth []) with 0. change (gwidth []) with 0. repeat split; try lia; discriminate. }
  rewrite gwidth_cons.
  destruct (Nat.ltb_spec dw (used + snd g)) as [Hc|Hc].
  - split; [|split; [discriminate|]].
    + destruct fill; [|change (owidth []) with 0; lia].
      destruct (Nat.eqb_spec (snd g) 2) as [E2|E2]; cbn [andb].
      * destruct (Nat.ltb_spec used dw); [change (owidth [OFill]) with 1; lia|].
        destruct (Nat.ltb_spec 2 (snd g)); [lia | change (owidth []) with 0; lia].
      * destruct (Nat.ltb_spec 2 (snd g)); [rewrite owidth_fill; lia | change (owidth []) with 0; lia].
    + intros _. split; [lia|]. intros ->.
      destruct (Nat.eqb_spec (snd g) 2) as [E2|E2]; cbn [andb].
      * destruct (Nat.ltb_spec used dw); [change (owidth [OFill]) with 1; lia|].
        destruct (Nat.ltb_spec 2 (snd g)); [lia | change (owidth []) with 0; lia].
      * destruct (Nat.ltb_spec 2 (snd g)); [rewrite owidth_fill; lia | change (owidth []) with 0; lia].
  - specialize (IH (used + snd g) Hc). destruct (take_text fill dw (used + snd g) r) as [[o u] c].
    destruct IH as (H1 & H2 & H3). rewrite owidth_cons. split; [lia|]. split.
    + intros E. destruct (H2 E). lia.
    + intros E. destruct (H3 E) as [H4 H5]. split; [lia|]. intros F. specialize (H5 F). lia.
Qed.

Lemma trunc_items_le fill dw items : forall used cut, used <= dw ->
  used + owidth (trunc_items fill dw used cut items) <= dw.
Proof.
  induction items as [|it r IH]; intros used cut Hu; cbn [trunc_items]; [change (owidth []) with 0; lia|].
  destruct it as [t|a].
  - destruct cut; [apply IH; exact Hu|].
    pose proof (take_text_spec fill dw t used Hu) as Ht. destruct (take_text fill dw used t) as [[o u] c].
    destruct Ht as (H1 & H2 & H3). rewrite owidth_app. destruct c.
    + (* cut: the rest contributes only escape sequences *)
      assert (Hrest : forall its u', owidth (trunc_items fill dw u' true its) = 0).
      { induction its as [|[t'|a'] its IHi]; intros u'; cbn [trunc_items]; [reflexivity | apply IHi | rewrite owidth_cons; apply IHi]. }
      rewrite Hrest. lia.
    + destruct (H2 eq_refl) as [Eu Eo]. specialize (IH u false ltac:(lia)). lia.
  - rewrite owidth_cons. apply IH; exact Hu.
Qed.

Lemma trunc_items_cut_zero fill dw its : forall u, owidth (trunc_items fill dw u true its) = 0.
Proof. induction its as [|[t'|a'] its IHi]; intros u'; cbn [trunc_items]; [reflexivity | apply IHi | rewrite owidth_cons; apply IHi]. Qed.

Lemma trunc_items_exact dw items : forall used, used <= dw -> dw < used + items_width items ->
  used + owidth (trunc_items true dw used false items) = dw.
Proof.
  induction items as [|it r IH]; intros used Hu Hw; [change (items_width []) with 0 in Hw; lia|].
  rewrite items_width_cons in Hw. cbn [trunc_items]. destruct it as [t|a].
  - pose proof (take_text_spec true dw t used Hu) as Ht. destruct (take_text true dw used t) as [[o u] c].
    destruct Ht as (H1 & H2 & H3). rewrite owidth_app. destruct c.
    + rewrite trunc_items_cut_zero. destruct (H3 eq_refl) as [_ H5]. specialize (H5 eq_refl). lia.
    + destruct (H2 eq_refl) as [Eu Eo]. specialize (IH u ltac:(lia) ltac:(lia)). lia.
  - rewrite owidth_cons. apply IH; [exact Hu | lia].
Qed.

Lemma trunc_notail_le fill dw items : owidth (trunc_notail fill dw items) <= dw.
Proof.
  unfold trunc_notail. destruct (Nat.leb_spec (items_width items) dw) as [H|H].
  - rewrite owidth_embed. exact H.
  - pose proof (trunc_items_le fill dw items 0 false ltac:(lia)). lia.
Qed.

(* the result never exceeds the requested width, and a line that had to be cut fills it exactly *)
Theorem truncate_str_width fill dw items tail : owidth (truncate_str fill dw items tail) <= dw.
Proof.
  unfold truncate_str. destruct (Nat.leb_spec (items_width items) dw) as [H|H]; [rewrite owidth_embed; exact H|].
  set (rt := match tail with [] => [] | _ => trunc_notail fill dw tail end).
  assert (Hrt : owidth rt <= dw).
  { subst rt. destruct tail; [change (owidth []) with 0; lia | apply trunc_notail_le]. }
  rewrite owidth_app. pose proof (trunc_items_le fill dw items (owidth rt) false Hrt). lia.
Qed.

Theorem truncate_str_exact dw items tail : dw < items_width items ->
  owidth (truncate_str true dw items tail) = dw.
Proof.
  intros H. unfold truncate_str. destruct (Nat.leb_spec (items_width items) dw) as [H'|_]; [lia|].
  set (rt := match tail with [] => [] | _ => trunc_notail true dw tail end).
  assert (Hrt : owidth rt <= dw).
  { subst rt. destruct tail; [change (owidth []) with 0; lia | apply trunc_notail_le]. }
  rewrite owidth_app. pose proof (trunc_items_exact dw items (owidth rt) Hrt ltac:(lia)). lia.
Qed.

Theorem truncate_str_fits_unchanged fill dw items tail : items_width items <= dw ->
  truncate_str fill dw items tail = embed items.
Proof. intros H. unfold truncate_str. destruct (Nat.leb_spec (items_width items) dw); [reflexivity | lia]. Qed.

(* every escape sequence of the line is kept, in order *)
Definition ansi_of (o : list oel) : list N := flat_map (fun e => match e with OAnsi a => [a] | _ => [] end) o.
Definition ansi_in (items : list item) : list N := flat_map (fun it => match it with IAnsi a => [a] | _ => [] end) items.

Lemma ansi_of_app a b : ansi_of (a ++ b) = ansi_of a ++ ansi_of b.
Proof. apply flat_map_app. Qed.

Lemma take_text_no_ansi fill dw t : forall used, ansi_of (fst (fst (take_text fill dw used t))) = [].
Proof.
  induction t as [|g r IH]; intros used; cbn [take_text]; [reflexivity|].
  destruct (Nat.ltb dw (used + snd g)).
  - cbn [fst]. destruct fill; [|reflexivity]. destruct (_ && _); [reflexivity|].
    destruct (Nat.ltb 2 (snd g)); [|reflexivity]. induction (dw - used) as [|n IHn]; [reflexivity | exact IHn].
  - specialize (IH (used + snd g)). destruct (take_text fill dw (used + snd g) r) as [[o u] c]. exact IH.
Qed.

Lemma trunc_items_ansi fill dw items : forall used cut, ansi_of (trunc_items fill dw used cut items) = ansi_in items.
Proof.
  induction items as [|[t|a] r IH]; intros used cut; cbn [trunc_items]; [reflexivity | |].
  - destruct cut; [apply IH|]. pose proof (take_text_no_ansi fill dw t used) as Hn.
    destruct (take_text fill dw used t) as [[o u] c]. cbn [fst] in Hn. rewrite ansi_of_app, Hn. apply IH.
  - cbn. f_equal. apply IH.
Qed.

Lemma embed_ansi items : ansi_of (embed items) = ansi_in items.
Proof.
  induction items as [|[t|a] r IH]; [reflexivity | |]; cbn [embed flat_map]; fold (embed r); rewrite ansi_of_app, IH.
  - cbn [ansi_in flat_map]. fold (ansi_in r). replace (ansi_of (map OG t)) with (@nil N); [reflexivity|].
    induction t; [reflexivity | assumption].
  - reflexivity.
Qed.

Theorem truncate_str_keeps_sequences fill dw items tail :
  ansi_of (truncate_str fill dw items tail) =
  ansi_in items ++ (if Nat.leb (items_width items) dw then [] else ansi_in tail).
Proof.
  unfold truncate_str. destruct (Nat.leb (items_width items) dw); [rewrite app_nil_r; apply embed_ansi|].
  rewrite ansi_of_app, trunc_items_ansi. f_equal.
  destruct tail as [|x xs]; [reflexivity|]. unfold trunc_notail.
  destruct (Nat.leb _ dw); [apply embed_ansi | apply trunc_items_ansi].
Qed.
