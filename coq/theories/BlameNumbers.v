(* Line numbers in blame output (src/handlers/blame.rs format_blame_line_number): whether the
   number field of a line is left blank, by line-number mode (`{n}` = every line, `{n:_block}` = at
   the start of a block, `{n:_every-N}` = at the start of a block and on every N-th line).  The three
   match arms are translated from the source on every run (GenBlameNumbers.v) — C17 ("with its line
   number"). *)
From Coq Require Import Bool NArith.
Local Open Scope N_scope.

Inductive nmode := PerBlock | Every (n : N) | On.

(* the documented rule: is the number shown? *)
Definition shown_spec (m : nmode) (is_repeat : bool) (line : N) : bool :=
  match m with
  | On => true
  | PerBlock => negb is_repeat
  | Every n => negb is_repeat || (line mod n =? 0)
  end.
