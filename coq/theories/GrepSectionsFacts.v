From Coq Require Import List Bool Arith Lia.
Import ListNotations.
From DV Require Import GrepSections.

Lemma slice_some l a b : a <= b -> b <= length l -> bdy l a = true -> bdy l b = true ->
  slice l a b = Some (firstn (b - a) (skipn a l)).
Proof.
  intros H1 H2 H3 H4. unfold slice.
  replace (Nat.leb a b) with true by (symmetry; apply Nat.leb_le; exact H1).
  replace (Nat.leb b (length l)) with true by (symmetry; apply Nat.leb_le; exact H2).
  rewrite H3, H4. reflexivity.
Qed.

Lemma bdy_len l : bdy l (length l) = true.
Proof. unfold bdy. rewrite Nat.eqb_refl. reflexivity. Qed.

Lemma my_skipn_skipn {A} (l : list A) : forall a b, skipn a (skipn b l) = skipn (b + a) l.
Proof.
  intros a b. revert l. induction b as [|b IH]; intros l; [reflexivity|].
  destruct l as [|x l]; [cbn; destruct a; reflexivity | cbn; apply IH].
Qed.

Lemma firstn_split {A} (l : list A) : forall a b, firstn (a + b) l = firstn a l ++ firstn b (skipn a l).
Proof.
  intros a b. revert l. induction a as [|a IH]; intros l; [reflexivity|].
  destruct l as [|x l]; [cbn; destruct b; reflexivity | cbn; f_equal; apply IH].
Qed.

Lemma firstn_skipn_join {A} (l : list A) a b c : a <= b -> b <= c ->
  firstn (b - a) (skipn a l) ++ firstn (c - b) (skipn b l) = firstn (c - a) (skipn a l).
Proof.
  intros H1 H2. replace (c - a) with ((b - a) + (c - b)) by lia.
  rewrite firstn_split. f_equal. rewrite my_skipn_skipn. f_equal. f_equal. lia.
Qed.

(* no slice ever fails, and the sections read in order are the rest of the line *)
Lemma sections_from_total l subs : forall curr, curr <= length l -> bdy l curr = true ->
  exists secs, sections_from l curr subs = Some secs /\ concat (map snd secs) = skipn curr l.
Proof.
  induction subs as [|[s e] r IH]; intros curr Hc Hb; cbn [sections_from].
  - destruct (Nat.ltb_spec curr (length l)) as [Hlt|Hge].
    + rewrite (slice_some l curr (length l)) by (try lia; try assumption; apply bdy_len).
      eexists; split; [reflexivity|]. cbn. rewrite app_nil_r.
      rewrite firstn_all2; [reflexivity | rewrite skipn_length; lia].
    + exists []. split; [reflexivity|]. cbn. symmetry. apply skipn_all2. lia.
  - destruct (Nat.ltb_spec s curr) as [H1|H1]; cbn [orb]; [apply IH; assumption|].
    destruct (Nat.ltb_spec e s) as [H2|H2]; cbn [orb]; [apply IH; assumption|].
    destruct (Nat.ltb_spec (length l) e) as [H3|H3]; cbn [orb]; [apply IH; assumption|].
    destruct (bdy l s) eqn:Bs; cbn [negb orb]; [|apply IH; assumption].
    destruct (bdy l e) eqn:Be; cbn [negb orb]; [|apply IH; assumption].
    destruct (IH e H3 Be) as [rest [Hr Hcat]]. rewrite Hr.
    rewrite (slice_some l s e) by assumption.
    destruct (Nat.ltb_spec curr s) as [Hlt|Hge].
    + rewrite (slice_some l curr s) by (try lia; assumption).
      eexists; split; [reflexivity|]. cbn. rewrite Hcat.
      rewrite app_assoc, firstn_skipn_join by lia.
      rewrite <- (firstn_skipn (e - curr) (skipn curr l)) at 2.
      rewrite my_skipn_skipn. replace (curr + (e - curr)) with e by lia. reflexivity.
    + assert (s = curr) by lia. subst s.
      eexists; split; [reflexivity|]. cbn. rewrite Hcat.
      rewrite <- (firstn_skipn (e - curr) (skipn curr l)) at 2.
      rewrite my_skipn_skipn. replace (curr + (e - curr)) with e by lia. reflexivity.
Qed.

Lemma bdy_zero l : well_formed l = true -> bdy l 0 = true.
Proof. unfold bdy, well_formed. destruct l as [|[v s] r]; cbn; [reflexivity | intros ->; reflexivity]. Qed.

(* for ANY list of submatch offsets — unsorted, overlapping, reversed, beyond the line, inside
   a character — no slice is out of range and the sections partition the line *)
Theorem make_style_sections_total l subs : well_formed l = true ->
  exists secs, make_style_sections l subs = Some secs /\ concat (map snd secs) = l.
Proof.
  intros Hw. unfold make_style_sections.
  destruct (sections_from_total l subs 0 (Nat.le_0_l _) (bdy_zero l Hw)) as [secs [H1 H2]].
  exists secs. split; [exact H1 | exact H2].
Qed.

(* valid = sorted, disjoint, in range, on character boundaries *)
Fixpoint valid_from (l : line) (curr : nat) (subs : list (nat * nat)) : Prop :=
  match subs with
  | [] => True
  | (s, e) :: r => curr <= s /\ s <= e /\ e <= length l /\ bdy l s = true /\ bdy l e = true /\ valid_from l e r
  end.

Definition matches (secs : list (kind * line)) : list line :=
  map snd (filter (fun x => match fst x with Match => true | NonMatch => false end) secs).

(* the highlighted spans are exactly the reported submatches when these are valid *)
Lemma sections_from_matches l subs : forall curr secs, valid_from l curr subs ->
  sections_from l curr subs = Some secs ->
  matches secs = map (fun se => firstn (snd se - fst se) (skipn (fst se) l)) subs.
Proof.
  induction subs as [|[s e] r IH]; intros curr secs Hv; cbn [sections_from].
  - destruct (Nat.ltb curr (length l)).
    + destruct (slice l curr (length l)); [|discriminate]. intros H; inversion H; reflexivity.
    + intros H; inversion H; reflexivity.
  - cbn in Hv. destruct Hv as (H1 & H2 & H3 & Bs & Be & Hv).
    replace (Nat.ltb s curr) with false by (symmetry; apply Nat.ltb_ge; lia).
    replace (Nat.ltb e s) with false by (symmetry; apply Nat.ltb_ge; lia).
    replace (Nat.ltb (length l) e) with false by (symmetry; apply Nat.ltb_ge; lia).
    rewrite Bs, Be. cbn [negb orb].
    destruct (if Nat.ltb curr s then slice l curr s else Some []) as [pre|]; [|discriminate].
    rewrite (slice_some l s e) by assumption.
    destruct (sections_from l e r) as [rest|] eqn:Er; [|discriminate].
    intros H; inversion H; subst. unfold matches.
    rewrite filter_app, map_app.
    replace (map snd (filter _ (if Nat.ltb curr s then [(NonMatch, pre)] else []))) with (@nil line)
      by (destruct (Nat.ltb curr s); reflexivity).
    cbn. f_equal. exact (IH e rest Hv Er).
Qed.

Theorem make_style_sections_matches l subs secs : valid_from l 0 subs ->
  make_style_sections l subs = Some secs ->
  matches secs = map (fun se => firstn (snd se - fst se) (skipn (fst se) l)) subs.
Proof. apply sections_from_matches. Qed.
