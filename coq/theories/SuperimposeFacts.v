From Coq Require Import List Bool NArith Arith Lia.
Import ListNotations.
From DV Require Import Superimpose.

Lemma explode_cons {S} (s : S) t r : explode ((s, t) :: r) = map (fun c => (s, c)) t ++ explode r.
Proof. reflexivity. Qed.

Lemma explode_app {S} (a b : list (S * list ch)) : explode (a ++ b) = explode a ++ explode b.
Proof. unfold explode. apply flat_map_app. Qed.

Lemma opt_eqb_eq (a b : option N) :
  match a, b with Some x, Some y => N.eqb x y | None, None => true | _, _ => false end = true -> a = b.
Proof. destruct a, b; try discriminate; [intros H; apply N.eqb_eq in H; congruence | reflexivity]. Qed.

Lemma dstyle_eqb_eq a b : dstyle_eqb a b = true -> a = b.
Proof.
  unfold dstyle_eqb. destruct a as [f1 b1 a1 s1], b as [f2 b2 a2 s2]. cbn.
  intros H. apply andb_true_iff in H. destruct H as [H Hs]. apply andb_true_iff in H. destruct H as [H Ha].
  apply andb_true_iff in H. destruct H as [Hf Hb].
  apply opt_eqb_eq in Hf. apply opt_eqb_eq in Hb. apply N.eqb_eq in Ha. apply Bool.eqb_prop in Hs. congruence.
Qed.

Lemma pair_eqb_eq a b : pair_eqb a b = true -> a = b.
Proof.
  unfold pair_eqb. destruct a as [s1 d1], b as [s2 d2]. cbn. intros H. apply andb_true_iff in H. destruct H as [Hs Hd].
  apply opt_eqb_eq in Hs. apply dstyle_eqb_eq in Hd. congruence.
Qed.

(* coalescing only groups: exploding the groups gives back the characters with their pairs *)
Lemma explode_coalesce l : explode (coalesce l) = l.
Proof.
  induction l as [|[p c] r IH]; [reflexivity|]. cbn [coalesce].
  destruct (coalesce r) as [|[p' s] rest] eqn:E.
  - rewrite <- IH. reflexivity.
  - destruct (pair_eqb p p') eqn:Ep.
    + apply pair_eqb_eq in Ep. subst p'. rewrite <- IH. reflexivity.
    + rewrite <- IH. reflexivity.
Qed.

Lemma explode_map_style {A B} (f : A -> B) (l : list (A * list ch)) :
  explode (map (fun ps => (f (fst ps), snd ps)) l) = map (fun pc => (f (fst pc), snd pc)) (explode l).
Proof.
  induction l as [|[a t] r IH]; [reflexivity|]. cbn [map]. rewrite !explode_cons, map_app, IH. f_equal.
  rewrite map_map. reflexivity.
Qed.

(* ---- per character: what coalescing and restyling produce *)
Definition cellf (x : (sstyle * dstyle) * ch) : ch * option N * option N * N :=
  (snd x, fg (make_style (fst x)), bg (snd (fst x)), attrs (snd (fst x))).

Lemma make_style_bg p : bg (make_style p) = bg (snd p) /\ attrs (make_style p) = attrs (snd p).
Proof. unfold make_style. destruct (fst p); [destruct (syn (snd p))|]; split; reflexivity. Qed.

Lemma cells_raw syntax diff :
  cells (superimpose_raw syntax diff) = map cellf (pairs (explode syntax) (explode diff)).
Proof.
  unfold cells, superimpose_raw. rewrite explode_map_style, explode_coalesce, map_map.
  apply map_ext. intros [[s d] c]. unfold cellf. cbn.
  destruct (make_style_bg (s, d)) as [H1 H2]. cbn in H1, H2. rewrite H1, H2. reflexivity.
Qed.

Lemma zip_length {A B} (a : list A) : forall (b : list B), length a = length b -> length (zip a b) = length b.
Proof. induction a as [|x a IH]; intros [|y b] H; cbn in *; try lia; try reflexivity. f_equal. apply IH. lia. Qed.

Lemma zip_snd {A B} (a : list A) : forall (b : list B), length a = length b -> map snd (zip a b) = b.
Proof. induction a as [|x a IH]; intros [|y b] H; cbn in *; try lia; try reflexivity. f_equal. apply IH. lia. Qed.

Lemma zip_fst {A B} (a : list A) : forall (b : list B), length a = length b -> map fst (zip a b) = a.
Proof. induction a as [|x a IH]; intros [|y b] H; cbn in *; try lia; try reflexivity. f_equal. apply IH. lia. Qed.

Lemma agree_chars (s : list (sstyle * ch)) : forall (d : list (dstyle * ch)), length s = length d -> agree s d = true ->
  map snd s = map snd d.
Proof.
  unfold agree. induction s as [|[ss c] s IH]; intros [|[dd c'] d] H Ha; cbn in *; try lia; try reflexivity.
  apply andb_true_iff in Ha. destruct Ha as [Hc Ha]. apply N.eqb_eq in Hc. subst c'. f_equal. apply IH; [lia | exact Ha].
Qed.

(* the diff style and the character of every position survive; only the syntect style varies *)
Lemma pairs_diff_part s d : length s = length d ->
  map (fun x => (snd (fst x), snd x)) (pairs s d) = d.
Proof.
  intros Hl. unfold pairs. destruct (agree s d) eqn:Ea.
  - pose proof (agree_chars s d Hl Ea) as Hc. rewrite map_map. cbn.
    revert d Hl Ea Hc. induction s as [|[ss c] s IH]; intros [|[dd c'] d] Hl Ea Hc; cbn in *; try lia; try reflexivity.
    inversion Hc; subst. f_equal. apply IH; [lia | | assumption].
    unfold agree in *. cbn in Ea. apply andb_true_iff in Ea. tauto.
  - rewrite map_map. cbn. clear Ea Hl.
    induction d as [|[dd c] d IH]; [reflexivity|]. cbn. f_equal. exact IH.
Qed.

(* text, background and attributes are the diff styles', whatever the highlighter says *)
Theorem raw_keeps_text_bg_attrs syntax diff : length (explode syntax) = length (explode diff) ->
  map (fun c => (fst (fst (fst c)), snd (fst c), snd c)) (cells (superimpose_raw syntax diff)) =
  map (fun dc => (snd dc, bg (fst dc), attrs (fst dc))) (explode diff).
Proof.
  intros Hl. rewrite cells_raw, map_map. rewrite <- (pairs_diff_part _ _ Hl) at 2. rewrite map_map.
  apply map_ext. intros [[s d] c]. reflexivity.
Qed.

(* hence two highlighters (themes) can differ in foreground colours only *)
Theorem raw_theme_independent s1 s2 diff :
  length (explode s1) = length (explode diff) -> length (explode s2) = length (explode diff) ->
  map (fun c => (fst (fst (fst c)), snd (fst c), snd c)) (cells (superimpose_raw s1 diff)) =
  map (fun c => (fst (fst (fst c)), snd (fst c), snd c)) (cells (superimpose_raw s2 diff)).
Proof. intros H1 H2. rewrite !raw_keeps_text_bg_attrs by assumption. reflexivity. Qed.

(* a style that does not ask for syntax keeps exactly its own foreground *)
Lemma make_style_no_syn p : syn (snd p) = false -> make_style p = snd p.
Proof. unfold make_style. intros H. destruct (fst p); [rewrite H|]; reflexivity. Qed.

Theorem raw_no_syntax_keeps_fg syntax diff : length (explode syntax) = length (explode diff) ->
  Forall (fun sc => syn (fst sc) = false) diff ->
  cells (superimpose_raw syntax diff) = map (fun dc => (snd dc, fg (fst dc), bg (fst dc), attrs (fst dc))) (explode diff).
Proof.
  intros Hl Hn. rewrite cells_raw. rewrite <- (pairs_diff_part _ _ Hl) at 2. rewrite map_map.
  assert (Hall : Forall (fun x : (sstyle * dstyle) * ch => syn (snd (fst x)) = false) (pairs (explode syntax) (explode diff))).
  { assert (Hd : Forall (fun dc : dstyle * ch => syn (fst dc) = false) (explode diff)).
    { clear Hl. induction Hn as [|[st t] r Hst _ IH]; [constructor|]. rewrite explode_cons. apply Forall_app. split; [|exact IH].
      cbn in Hst. induction t; constructor; [exact Hst | assumption]. }
    rewrite <- (pairs_diff_part _ _ Hl) in Hd. rewrite Forall_map in Hd. exact Hd. }
  induction Hall as [|[[s d] c] r Hx _ IH]; [reflexivity|]. cbn [map]. f_equal; [|exact IH].
  unfold cellf. cbn in *. rewrite (make_style_no_syn (s, d) Hx). reflexivity.
Qed.

(* a syntax-asking style takes the highlighter's foreground exactly where the highlighter has one *)
Theorem raw_cell_fg syntax diff :
  map (fun c => snd (fst (fst c))) (cells (superimpose_raw syntax diff)) =
  map (fun x => match fst (fst x) with
                | Some f => if syn (snd (fst x)) then Some f else fg (snd (fst x))
                | None => fg (snd (fst x))
                end) (pairs (explode syntax) (explode diff)).
Proof.
  rewrite cells_raw, map_map. apply map_ext. intros [[s d] c]. unfold cellf, make_style. cbn.
  destruct s; [destruct (syn d)|]; reflexivity.
Qed.

(* removing the terminating newline touches nothing but a final newline character *)
Lemma strip_last_nl_snoc l st s : strip_last_nl (l ++ [(st, s)]) =
  l ++ [(st, match rev s with c :: r => if N.eqb c NL then rev r else s | [] => s end)].
Proof.
  induction l as [|x r IH]; [reflexivity|].
  destruct r as [|y r'].
  - destruct x. reflexivity.
  - destruct x as [xs xt].
    change (strip_last_nl (((xs, xt) :: y :: r') ++ [(st, s)])) with ((xs, xt) :: strip_last_nl ((y :: r') ++ [(st, s)])).
    rewrite IH. reflexivity.
Qed.

Theorem strip_last_nl_spec l : exists tail, explode l = explode (strip_last_nl l) ++ tail /\
  (tail = [] \/ exists st, tail = [(st, NL)]).
Proof.
  destruct (rev l) as [|[st s] rl] eqn:E.
  - apply (f_equal (@rev _)) in E. rewrite rev_involutive in E. subst l. exists []. split; [reflexivity | left; reflexivity].
  - apply (f_equal (@rev _)) in E. rewrite rev_involutive in E. cbn in E. subst l.
    rewrite strip_last_nl_snoc, !explode_app.
    destruct (rev s) as [|c r] eqn:Er.
    + exists []. rewrite app_nil_r. split; [reflexivity | left; reflexivity].
    + destruct (N.eqb_spec c NL) as [Hc|Hc].
      * apply (f_equal (@rev _)) in Er. rewrite rev_involutive in Er. cbn in Er. subst s c.
        exists [(st, NL)]. split; [|right; exists st; reflexivity].
        cbn. rewrite !app_nil_r, map_app, <- app_assoc. reflexivity.
      * exists []. rewrite app_nil_r. split; [reflexivity | left; reflexivity].
Qed.

(* ---- language selection *)
Section SyntaxFacts.
  Variable L : Type.
  Variable lookup : list ch -> option L.
  Variable fallback : option L.
  Variable builtin : L.

  (* the whole name decides when it names a language (Makefile, CMakeLists.txt, ...) *)
  Theorem whole_name_decides n ext l : lookup n = Some l -> (ext <> [] \/ 4 < length n) ->
    get_syntax L lookup fallback builtin true 4 n ext = l.
  Proof.
    intros Hl Hc. unfold get_syntax.
    assert (negb (match ext with [] => true | _ => false end) || Nat.ltb 4 (length n) = true) as ->.
    { destruct Hc as [Hc|Hc]; [destruct ext; [contradiction | reflexivity]|].
      apply orb_true_iff. right. apply Nat.ltb_lt. exact Hc. }
    rewrite Hl. reflexivity.
  Qed.

  (* otherwise the extension decides: two names of the same kind get the same language *)
  Theorem same_extension_same_language n1 n2 ext : ext <> [] -> lookup n1 = None -> lookup n2 = None ->
    get_syntax L lookup fallback builtin true 4 n1 ext = get_syntax L lookup fallback builtin true 4 n2 ext.
  Proof.
    intros He H1 H2. unfold get_syntax. destruct ext; [contradiction|]. cbn. rewrite H1, H2. reflexivity.
  Qed.

  (* nothing known: the configured default language, for every such name *)
  Theorem unknown_gets_default n ext : lookup n = None -> lookup ext = None ->
    get_syntax L lookup fallback builtin true 4 n ext = match fallback with Some l => l | None => builtin end.
  Proof.
    intros H1 H2. unfold get_syntax. destruct (negb _ || _); [rewrite H1, H2|]; reflexivity.
  Qed.
End SyntaxFacts.
