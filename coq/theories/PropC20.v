(* C20 — calling-process detection gives the same answer under every thread schedule.
   Statements only; each is closed by [exact] of a lemma proved in ProcFacts. *)
From Coq Require Import List Bool.
Import ListNotations.
From DV Require Import Proc ProcFacts GenProc.

(* The tie: the shape of the code, as re-read from src/utils/process.rs on this run, is the
   one the proofs are about. *)
Lemma C20_code_shape : good code_params && shapes_exact = true.
Proof. vm_compute. reflexivity. Qed.

Lemma code_good : good code_params = true.
Proof. pose proof C20_code_shape as H. apply andb_true_iff in H. exact (proj1 H). Qed.

(* A query never returns an unfinished answer: for every schedule (spurious wake-ups
   included), with or without a publication, and any number of queries. *)
Theorem C20_never_pending : forall publish n sched,
  ~ In Pending (results (run code_params sched (init publish n))).
Proof. exact (never_pending code_params code_good). Qed.

(* A command delta itself launched is always reported as launched, whatever the position
   of the background thread's critical section. *)
Theorem C20_launched_always_reported : forall n sched v,
  In v (results (run code_params sched (init true n))) -> v = K.
Proof. exact (launched_always_reported code_params code_good). Qed.

(* Without a publication every answer is the background determination's. *)
Theorem C20_guess_when_not_launched : forall n sched v,
  In v (results (run code_params sched (init false n))) -> v = G.
Proof. exact (guess_when_not_launched code_params code_good). Qed.

(* Never blocks forever, part 1: in every reachable state either everything is finished or
   a (non-spurious) thread can move. *)
Theorem C20_deadlock_free : forall publish n sched,
  let s := run code_params sched (init publish n) in
  finished s \/ step code_params TBg s <> None \/ step code_params TMain s <> None.
Proof. exact (deadlock_free code_params code_good). Qed.

(* Never blocks forever, part 2: the background thread needs at most two steps, and once it
   is done every step of the main thread strictly decreases a measure, so a run in which
   started threads are eventually scheduled ends with all queries answered. *)
Theorem C20_bg_progress : forall s s',
  step code_params TBg s = Some s' -> bg_left s' < bg_left s /\ mn s' = mn s.
Proof. exact (bg_step_decreases code_params). Qed.

Theorem C20_main_progress : forall publish n sched s',
  let s := run code_params sched (init publish n) in
  bg s = BDone -> step code_params TMain s = Some s' -> main_left s' < main_left s.
Proof. exact (main_step_after_bg code_params code_good). Qed.

(* Non-vacuity: a schedule in which the background thread finishes between the publication
   and the first query, two queries answered. *)
Example C20_example :
  results (run code_params [TMain; TBg; TBg; TMain; TMain] (init true 2)) = [K; K].
Proof. vm_compute. reflexivity. Qed.

(* The schedules above start with the publication of a launched command, then the queries: that is
   the order of the caller too (src/main.rs run_app publishes before it builds the Config, which makes
   the first query) — read from the source on every run. *)
Theorem C20_publication_precedes_first_query : publishes_before_first_query = true.
Proof. reflexivity. Qed.
