(* Facts about the line state machine model (Delta.v). *)
From Coq Require Import String.
From Coq Require Import List Bool NArith Arith Lia.
Import ListNotations.
From DV Require Import Text Delta DeltaProj.

(* ------------------------------------------------------------------ the history *)
(* Everything that has been rendered so far, in the order in which it reaches (or will
   reach) the writer: written items, then the output buffer, then the buffered removed
   lines, then the buffered added lines. *)
Definition painted (s : sm) : list oitem :=
  map (fun p => (fst p, ILine KMinus (snd p))) (minus_lines s) ++
  map (fun p => (fst p, ILine KPlus (snd p))) (plus_lines s).

Definition all_items (s : sm) : list oitem := out s ++ buf s ++ painted s.

Definition quiet (s : sm) : Prop := minus_lines s = [] /\ plus_lines s = [].

Ltac proj := unfold all_items, painted, quiet in *; autorewrite with proj in *.

Lemma paint_buffered_spec s :
  out (paint_buffered s) = out s /\ buf (paint_buffered s) = buf s ++ painted s /\
  minus_lines (paint_buffered s) = [] /\ plus_lines (paint_buffered s) = [] /\
  state (paint_buffered s) = state s.
Proof. unfold paint_buffered, painted. autorewrite with proj. auto. Qed.

Lemma all_items_paint s : all_items (paint_buffered s) = all_items s.
Proof.
  destruct (paint_buffered_spec s) as (Ho & Hb & Hm & Hp & _).
  unfold all_items, painted at 1. rewrite Ho, Hb, Hm, Hp. cbn. rewrite app_nil_r. reflexivity.
Qed.

Lemma quiet_paint s : quiet (paint_buffered s).
Proof. destruct (paint_buffered_spec s) as (_ & _ & Hm & Hp & _). split; assumption. Qed.

Lemma painted_quiet s : quiet s -> painted s = [].
Proof. intros [Hm Hp]. unfold painted. rewrite Hm, Hp. reflexivity. Qed.

Lemma emit_spec s :
  out (emit s) = out s ++ buf s /\ buf (emit s) = [] /\
  minus_lines (emit s) = minus_lines s /\ plus_lines (emit s) = plus_lines s /\
  state (emit s) = state s.
Proof. unfold emit. autorewrite with proj. auto. Qed.

Lemma all_items_emit s : all_items (emit s) = all_items s.
Proof.
  unfold all_items, painted, emit. autorewrite with proj. cbn. rewrite <- !app_assoc. reflexivity.
Qed.

Lemma painted_emit s : painted (emit s) = painted s.
Proof. unfold painted, emit. autorewrite with proj. reflexivity. Qed.

Lemma write_spec s it :
  out (write s it) = out s ++ [it] /\ buf (write s it) = buf s /\
  minus_lines (write s it) = minus_lines s /\ plus_lines (write s it) = plus_lines s /\
  state (write s it) = state s.
Proof. unfold write. autorewrite with proj. auto. Qed.

(* a direct write keeps the order only if nothing is waiting *)
Lemma all_items_write s it :
  buf s = [] -> quiet s -> all_items (write s it) = all_items s ++ [it].
Proof.
  intros Hb Hq. unfold all_items. rewrite (painted_quiet s Hq).
  destruct (write_spec s it) as (Ho & Hb' & Hm & Hp & _).
  assert (Hq' : quiet (write s it)) by (destruct Hq; split; congruence).
  rewrite (painted_quiet _ Hq'), Ho, Hb', Hb. cbn. rewrite !app_nil_r. reflexivity.
Qed.

(* ------------------------------------------------------------------ monotone output *)
Definition ext (s s' : sm) : Prop := exists d, out s' = out s ++ d.

Lemma ext_refl s : ext s s.
Proof. exists []. rewrite app_nil_r. reflexivity. Qed.

Lemma ext_trans a b c : ext a b -> ext b c -> ext a c.
Proof. intros [d1 H1] [d2 H2]. exists (d1 ++ d2). rewrite H2, H1, app_assoc. reflexivity. Qed.

Lemma ext_out_eq s s' : out s' = out s -> ext s s'.
Proof. intros H. exists []. rewrite H, app_nil_r. reflexivity. Qed.

Lemma ext_paint s : ext s (paint_buffered s).
Proof. apply ext_out_eq. apply paint_buffered_spec. Qed.
Lemma ext_emit s : ext s (emit s).
Proof. exists (buf s). apply emit_spec. Qed.
Lemma ext_write s it : ext s (write s it).
Proof. exists [it]. apply write_spec. Qed.

Ltac ext_setter := apply ext_out_eq; autorewrite with proj; reflexivity.

Lemma ext_write_file_header i t s : ext s (write_file_header i t s).
Proof.
  unfold write_file_header. eapply ext_trans; [apply ext_write|]. ext_setter.
Qed.

Lemma ext_pending i c s : ext s (pending i c s).
Proof.
  unfold pending. destruct (negb (in_diff_header s)); [apply ext_refl|].
  eapply ext_trans; [apply ext_emit|].
  destruct (negb (is_empty (mode_info (emit s)))).
  - apply ext_write_file_header.
  - destruct (negb (color_only c) && negb (opt_text_pair_eqb (handled (emit s)) (cur (emit s)))).
    + eapply ext_trans; [apply ext_write_file_header|]. ext_setter.
    + apply ext_refl.
Qed.

Lemma ext_emit_unchanged i t s : ext s (emit_unchanged i t s).
Proof. unfold emit_unchanged. eapply ext_trans; [apply ext_emit | apply ext_write]. Qed.

(* composition lemmas: "if we got to t by extending, applying f still extends" *)
Lemma ext_set_state s t v : ext s t -> ext s (set_state t v).
Proof. intros H. eapply ext_trans; [exact H | ext_setter]. Qed.
Lemma ext_set_source s t v : ext s t -> ext s (set_source t v).
Proof. intros H. eapply ext_trans; [exact H | ext_setter]. Qed.
Lemma ext_set_minus_file s t v : ext s t -> ext s (set_minus_file t v).
Proof. intros H. eapply ext_trans; [exact H | ext_setter]. Qed.
Lemma ext_set_plus_file s t v : ext s t -> ext s (set_plus_file t v).
Proof. intros H. eapply ext_trans; [exact H | ext_setter]. Qed.
Lemma ext_set_minus_ev s t v : ext s t -> ext s (set_minus_ev t v).
Proof. intros H. eapply ext_trans; [exact H | ext_setter]. Qed.
Lemma ext_set_diff_line s t v : ext s t -> ext s (set_diff_line t v).
Proof. intros H. eapply ext_trans; [exact H | ext_setter]. Qed.
Lemma ext_set_mode_info s t v : ext s t -> ext s (set_mode_info t v).
Proof. intros H. eapply ext_trans; [exact H | ext_setter]. Qed.
Lemma ext_set_cur s t v : ext s t -> ext s (set_cur t v).
Proof. intros H. eapply ext_trans; [exact H | ext_setter]. Qed.
Lemma ext_set_handled s t v : ext s t -> ext s (set_handled t v).
Proof. intros H. eapply ext_trans; [exact H | ext_setter]. Qed.
Lemma ext_set_minus_lines s t v : ext s t -> ext s (set_minus_lines t v).
Proof. intros H. eapply ext_trans; [exact H | ext_setter]. Qed.
Lemma ext_set_plus_lines s t v : ext s t -> ext s (set_plus_lines t v).
Proof. intros H. eapply ext_trans; [exact H | ext_setter]. Qed.
Lemma ext_set_buf s t v : ext s t -> ext s (set_buf t v).
Proof. intros H. eapply ext_trans; [exact H | ext_setter]. Qed.
Lemma ext_then_paint s t : ext s t -> ext s (paint_buffered t).
Proof. intros H. eapply ext_trans; [exact H | apply ext_paint]. Qed.
Lemma ext_then_emit s t : ext s t -> ext s (emit t).
Proof. intros H. eapply ext_trans; [exact H | apply ext_emit]. Qed.
Lemma ext_then_write s t it : ext s t -> ext s (write t it).
Proof. intros H. eapply ext_trans; [exact H | apply ext_write]. Qed.
Lemma ext_then_wfh s t i x : ext s t -> ext s (write_file_header i x t).
Proof. intros H. eapply ext_trans; [exact H | apply ext_write_file_header]. Qed.
Lemma ext_then_pending s t i c : ext s t -> ext s (pending i c t).
Proof. intros H. eapply ext_trans; [exact H | apply ext_pending]. Qed.
Lemma ext_then_emit_unchanged s t i x : ext s t -> ext s (emit_unchanged i x t).
Proof. intros H. eapply ext_trans; [exact H | apply ext_emit_unchanged]. Qed.

Global Hint Resolve ext_refl ext_set_state ext_set_source ext_set_minus_file ext_set_plus_file
  ext_set_minus_ev ext_set_diff_line ext_set_mode_info ext_set_cur ext_set_handled
  ext_set_minus_lines ext_set_plus_lines ext_set_buf ext_then_paint ext_then_emit ext_then_write
  ext_then_wfh ext_then_pending ext_then_emit_unchanged : ext.

(* break a handler body into its branches *)
Ltac branches :=
  repeat match goal with
         | |- context [if ?b then _ else _] => destruct b
         | |- context [match ?x with _ => _ end] => destruct x
         end.

Ltac ext_handler := intros; cbv zeta; branches; cbn [fst]; auto 12 with ext.

Lemma ext_h_commit i c l s : ext s (fst (h_commit i c l s)).
Proof. unfold h_commit. ext_handler. Qed.
Lemma ext_h_diff i c l s : ext s (fst (h_diff i c l s)).
Proof. unfold h_diff. ext_handler. Qed.
Lemma ext_h_fileop i c l s : ext s (fst (h_fileop i c l s)).
Proof. unfold h_fileop. ext_handler. Qed.
Lemma ext_h_minus i c l s : ext s (fst (h_minus i c l s)).
Proof. unfold h_minus. ext_handler. Qed.
Lemma ext_h_plus i c l s : ext s (fst (h_plus i c l s)).
Proof. unfold h_plus. ext_handler. Qed.
Lemma ext_h_hunk_header i c l s : ext s (fst (h_hunk_header i c l s)).
Proof. unfold h_hunk_header. ext_handler. Qed.
Lemma ext_h_mode i c l s : ext s (fst (h_mode i c l s)).
Proof. unfold h_mode. ext_handler. Qed.
Lemma ext_h_misc i c l s : ext s (fst (h_misc i c l s)).
Proof. unfold h_misc. ext_handler. Qed.

Lemma ext_emit_hunk_header s : ext s (emit_hunk_header s).
Proof. unfold emit_hunk_header. destruct (state s); auto 8 with ext. Qed.
Lemma ext_then_ehh s t : ext s t -> ext s (emit_hunk_header t).
Proof. intros H. eapply ext_trans; [exact H | apply ext_emit_hunk_header]. Qed.
Global Hint Resolve ext_then_ehh : ext.

Lemma ext_h_hunk i c l s : ext s (fst (h_hunk i c l s)).
Proof.
  unfold h_hunk. destruct (in_hunk s); [|apply ext_refl]. cbv zeta. cbn [fst].
  apply ext_then_emit.
  match goal with |- context [if ?b then paint_buffered s else s] =>
    set (s0 := if b then paint_buffered s else s);
    assert (H0 : ext s s0) by (subst s0; destruct b; auto with ext) end.
  assert (H1 : ext s (emit_hunk_header s0)) by auto with ext.
  destruct (line_kind l); auto 8 with ext.
  destruct (state (emit_hunk_header s0)); auto 8 with ext.
Qed.

Lemma ext_h_tail i c l s : ext s (fst (h_tail_emit i c l s)).
Proof. unfold h_tail_emit. cbn. apply ext_emit. Qed.

Lemma ext_run_handlers hs i c l :
  (forall h, In h hs -> forall s, ext s (fst (h i c l s))) ->
  forall s, ext s (fst (run_handlers hs i c l s)).
Proof.
  induction hs as [|h r IH]; intros Hh s; cbn [run_handlers].
  - apply ext_refl.
  - pose proof (Hh h (or_introl eq_refl) s) as H1.
    destruct (h i c l s) as [s' cl]. cbn [fst] in H1.
    destruct cl; [exact H1|].
    eapply ext_trans; [exact H1|]. apply IH. intros h' Hin. apply Hh. right. exact Hin.
Qed.

Lemma ext_handlers i c l s : ext s (fst (run_handlers handlers i c l s)).
Proof.
  apply ext_run_handlers. intros h Hin s'. unfold handlers in Hin. cbn in Hin.
  repeat (destruct Hin as [<-|Hin]; [auto using ext_h_commit, ext_h_diff, ext_h_fileop, ext_h_minus,
    ext_h_plus, ext_h_hunk_header, ext_h_mode, ext_h_misc, ext_h_hunk, ext_h_tail|]).
  contradiction.
Qed.

Lemma ext_step c s il : ext s (step c s il).
Proof.
  destruct il as [i l]. unfold step.
  set (s0 := if source_git s then s else set_source s (detect_git l)).
  assert (H0 : ext s s0) by (subst s0; destruct (source_git s); auto with ext).
  pose proof (ext_handlers i c l s0) as H1.
  destruct (run_handlers handlers i c l s0) as [s1 cl]. cbn [fst] in H1.
  destruct cl; [eapply ext_trans; eauto|].
  destruct (should_skip c s1); [eapply ext_trans; eauto|].
  eapply ext_trans; [exact H0|]. eapply ext_trans; [exact H1|]. apply ext_emit_unchanged.
Qed.

Lemma ext_steps c ls : forall s, ext s (steps c ls s).
Proof.
  unfold steps. induction ls as [|il r IH]; intros s; cbn [fold_left].
  - apply ext_refl.
  - eapply ext_trans; [apply ext_step | apply IH].
Qed.

Lemma ext_finish i c s : ext s (finish i c s).
Proof. unfold finish. auto with ext. Qed.

Lemma number_from_app i a b :
  number_from i (a ++ b) = number_from i a ++ number_from (i + length a) b.
Proof.
  revert i. induction a as [|x a IH]; intros i; cbn.
  - rewrite Nat.add_0_r. reflexivity.
  - rewrite IH. replace (S i + length a) with (i + S (length a)) by lia. reflexivity.
Qed.

(* C11: what has been written after any prefix of the input is a prefix of what is written
   for that prefix on its own (end of input reached there) and for the whole input *)
Theorem written_is_prefix c (pre post : list text) :
  let s := steps c (number_from 0 pre) init in
  (exists d, run c pre = out s ++ d) /\ (exists d, run c (pre ++ post) = out s ++ d).
Proof.
  intros s. split.
  - unfold run. fold s. apply ext_finish.
  - unfold run. rewrite number_from_app. unfold steps at 1. rewrite fold_left_app.
    fold (steps c (number_from 0 pre) init). fold s.
    fold (steps c (number_from (0 + length pre) post) s).
    eapply ext_trans; [apply ext_steps | apply ext_finish].
Qed.

(* ------------------------------------------------------------------ hunk body lines *)
Definition body_char (ch : N) : bool :=
  N.eqb ch 32 || N.eqb ch 43 || N.eqb ch 45 || N.eqb ch 92.   (* ' ' '+' '-' '\' *)
Definition body_line (l : text) : bool :=
  match l with ch :: _ => body_char ch | [] => false end.

Lemma body_char_cases ch : body_char ch = true -> ch = 32%N \/ ch = 43%N \/ ch = 45%N \/ ch = 92%N.
Proof.
  unfold body_char. rewrite !orb_true_iff, !N.eqb_eq. tauto.
Qed.

Definition hd_mismatch (p : text) (ch : N) : bool :=
  match p with a :: _ => negb (N.eqb a ch) | [] => false end.

Lemma sw_false p ch r : hd_mismatch p ch = true -> starts_with p (ch :: r) = false.
Proof.
  destruct p as [|a p]; cbn; [discriminate|]. intros H. apply negb_true_iff in H. rewrite H. reflexivity.
Qed.

Lemma sp_none p ch r : hd_mismatch p ch = true -> strip_prefix p (ch :: r) = None.
Proof. intros H. unfold strip_prefix. rewrite (sw_false _ _ _ H). reflexivity. Qed.

Ltac body_mismatch H :=
  let E := fresh "E" in
  destruct (body_char_cases _ H) as [E|[E|[E|E]]]; rewrite E; vm_compute; reflexivity.

Lemma h_commit_body i c ch r s : body_char ch = true -> h_commit i c (ch :: r) s = (s, false).
Proof.
  intros H. unfold h_commit. rewrite sw_false; [reflexivity|]. body_mismatch H.
Qed.

Lemma h_diff_body i c ch r s : body_char ch = true -> h_diff i c (ch :: r) s = (s, false).
Proof.
  intros H. unfold h_diff. rewrite sw_false; [reflexivity|]. body_mismatch H.
Qed.

Lemma in_hunk_not_header s : in_hunk s = true -> in_diff_header s = false.
Proof. unfold in_hunk, in_diff_header. destruct (state s); auto; discriminate. Qed.

Lemma h_fileop_hunk i c l s : in_hunk s = true -> h_fileop i c l s = (s, false).
Proof. intros H. unfold h_fileop. rewrite (in_hunk_not_header s H). reflexivity. Qed.
Lemma h_minus_hunk i c l s : in_hunk s = true -> h_minus i c l s = (s, false).
Proof. intros H. unfold h_minus. rewrite (in_hunk_not_header s H). reflexivity. Qed.
Lemma h_plus_hunk i c l s : in_hunk s = true -> h_plus i c l s = (s, false).
Proof. intros H. unfold h_plus. rewrite (in_hunk_not_header s H). reflexivity. Qed.

Lemma h_hunk_header_body i c ch r s : body_char ch = true -> h_hunk_header i c (ch :: r) s = (s, false).
Proof.
  intros H. unfold h_hunk_header. rewrite sw_false; [reflexivity|]. body_mismatch H.
Qed.

Lemma h_mode_body i c ch r s : body_char ch = true -> h_mode i c (ch :: r) s = (s, false).
Proof.
  intros H. unfold h_mode. rewrite !sp_none; [reflexivity| |]; body_mismatch H.
Qed.

Lemma h_misc_body i c ch r s : body_char ch = true -> h_misc i c (ch :: r) s = (s, false).
Proof.
  intros H. unfold h_misc. rewrite sw_false; [reflexivity|]. body_mismatch H.
Qed.

Lemma detect_git_body ch r : body_char ch = true -> detect_git (ch :: r) = false.
Proof.
  intros H. unfold detect_git. rewrite !sw_false; [reflexivity| | | |]; body_mismatch H.
Qed.

Lemma set_source_same s : set_source s (source_git s) = s.
Proof. destruct s; reflexivity. Qed.

Lemma h_hunk_claims i c l s : in_hunk s = true -> snd (h_hunk i c l s) = true.
Proof. intros H. unfold h_hunk. rewrite H. reflexivity. Qed.

(* In a hunk state, a body line is handled by the hunk handler and by nothing else. *)
Lemma step_body c s i l :
  in_hunk s = true -> body_line l = true ->
  step c s (i, l) = fst (h_hunk i c l s).
Proof.
  intros Hh Hb. destruct l as [|ch r]; [discriminate|]. cbn [body_line] in Hb.
  unfold step. rewrite (detect_git_body ch r Hb).
  assert (Hs : (if source_git s then s else set_source s false) = s).
  { destruct (source_git s) eqn:E; [reflexivity|]. rewrite <- E. apply set_source_same. }
  rewrite Hs.
  unfold handlers. cbn [run_handlers].
  rewrite (h_commit_body i c ch r s Hb), (h_diff_body i c ch r s Hb), (h_fileop_hunk i c _ s Hh),
    (h_minus_hunk i c _ s Hh), (h_plus_hunk i c _ s Hh), (h_hunk_header_body i c ch r s Hb),
    (h_mode_body i c ch r s Hb), (h_misc_body i c ch r s Hb).
  pose proof (h_hunk_claims i c (ch :: r) s Hh) as Hc.
  destruct (h_hunk i c (ch :: r) s) as [s' cl]. cbn [snd] in Hc. subst cl. reflexivity.
Qed.

Definition flush_if_full (c : cfg) (s : sm) : sm :=
  if Nat.ltb (line_buffer_size c) (length (minus_lines s)) ||
     Nat.ltb (line_buffer_size c) (length (plus_lines s))
  then paint_buffered s else s.

Lemma flush_if_full_bounds c s :
  length (minus_lines (flush_if_full c s)) <= line_buffer_size c /\
  length (plus_lines (flush_if_full c s)) <= line_buffer_size c /\
  state (flush_if_full c s) = state s.
Proof.
  unfold flush_if_full.
  destruct (Nat.ltb_spec (line_buffer_size c) (length (minus_lines s)));
  destruct (Nat.ltb_spec (line_buffer_size c) (length (plus_lines s))); cbn [orb];
  try (destruct (paint_buffered_spec s) as (_ & _ & Hm & Hp & Hs); rewrite Hm, Hp, Hs; cbn;
       repeat split; auto; lia).
  repeat split; auto; lia.
Qed.

Lemma emit_hunk_header_bounds s :
  length (minus_lines (emit_hunk_header s)) <= length (minus_lines s) /\
  length (plus_lines (emit_hunk_header s)) <= length (plus_lines s) /\
  buf (emit_hunk_header s) = match state s with SHunkHeader _ _ _ _ => [] | _ => buf s end /\
  state (emit_hunk_header s) = state s /\
  (match state s with SHunkHeader _ _ _ _ => quiet (emit_hunk_header s) | _ => True end).
Proof.
  unfold emit_hunk_header, quiet. destruct (state s) eqn:E; try (rewrite E; repeat split; auto; lia).
  destruct (paint_buffered_spec s) as (Ho & Hb & Hm & Hp & Hs).
  destruct (emit_spec (paint_buffered s)) as (Ho' & Hb' & Hm' & Hp' & Hs').
  destruct (write_spec (emit (paint_buffered s)) (origin, IHunkHeader frag n raw)) as (Ho2 & Hb2 & Hm2 & Hp2 & Hs2).
  rewrite Hm2, Hp2, Hb2, Hs2, Hm', Hp', Hb', Hs', Hm, Hp, Hs, E. cbn. repeat split; auto; lia.
Qed.

(* the state before the line is dispatched on its first character *)
Definition hunk_pre (c : cfg) (s : sm) : sm := emit_hunk_header (flush_if_full c s).

Lemma h_hunk_unfold i c l s : in_hunk s = true ->
  fst (h_hunk i c l s) =
  emit (let s1 := hunk_pre c s in
        let body := expand_tabs (tab_width c) (tl l) in
        match line_kind l with
        | HLMinus =>
            let s' := match state s1 with SHunkPlus => paint_buffered s1 | _ => s1 end in
            set_state (set_minus_lines s' (minus_lines s' ++ [(i, body)])) SHunkMinus
        | HLPlus => set_state (set_plus_lines s1 (plus_lines s1 ++ [(i, body)])) SHunkPlus
        | HLZero =>
            let s' := paint_buffered s1 in
            set_state (set_buf s' (buf s' ++ [(i, ILine KZero body)])) SHunkZero
        | HLEmpty =>
            let s' := paint_buffered s1 in
            set_state (set_buf s' (buf s' ++ [(i, ILine KZero [])])) SHunkZero
        | HLOther =>
            let s' := paint_buffered s1 in
            set_state (set_buf s' (buf s' ++ [(i, ILine KOther (expand_tabs (tab_width c) l))])) SHunkZero
        end).
Proof. intros H. unfold h_hunk. rewrite H. reflexivity. Qed.

(* C11 (lag): after a body line, nothing rendered is waiting in the output buffer, and each
   of the two line buffers holds at most line_buffer_size + 1 lines — whatever came before. *)
Theorem hunk_step_lag c s i l :
  in_hunk s = true -> body_line l = true ->
  let s' := step c s (i, l) in
  buf s' = [] /\ in_hunk s' = true /\
  length (minus_lines s') <= S (line_buffer_size c) /\
  length (plus_lines s') <= S (line_buffer_size c).
Proof.
  intros Hh Hb s'. subst s'. rewrite (step_body c s i l Hh Hb), (h_hunk_unfold i c l s Hh).
  destruct l as [|ch r]; [discriminate|]. cbn [body_line] in Hb.
  destruct (flush_if_full_bounds c s) as (Fm & Fp & Fs).
  destruct (emit_hunk_header_bounds (flush_if_full c s)) as (Em & Ep & _ & Es & _).
  fold (hunk_pre c s) in Em, Ep, Es.
  set (s1 := hunk_pre c s) in *.
  match goal with |- context [emit ?x] => destruct (emit_spec x) as (_ & Hb' & Hm' & Hp' & Hs') end.
  cbv zeta in *. rewrite Hb', Hm', Hp'. unfold in_hunk. rewrite Hs'. clear Hb' Hm' Hp' Hs'.
  destruct (body_char_cases _ Hb) as [E|[E|[E|E]]]; subst ch; cbn [line_kind]; cbv iota beta.
  - (* ' ' *) destruct (paint_buffered_spec s1) as (_ & _ & Hm & Hp & _).
    autorewrite with proj. rewrite Hm, Hp. cbn. repeat split; auto; lia.
  - (* '+' *) autorewrite with proj. rewrite app_length. cbn. repeat split; auto; lia.
  - (* '-' *) destruct (state s1); autorewrite with proj; rewrite ?app_length; cbn;
      try (destruct (paint_buffered_spec s1) as (_ & _ & Hm & Hp & _); rewrite ?Hm, ?Hp; cbn);
      repeat split; auto; lia.
  - (* '\' *) destruct (paint_buffered_spec s1) as (_ & _ & Hm & Hp & _).
    autorewrite with proj. rewrite Hm, Hp. cbn. repeat split; auto; lia.
Qed.

(* ------------------------------------------------------------------ hunk lines: once, in order *)
Definition HInv (s : sm) : Prop :=
  match state s with SHunkZero | SHunkMinus => plus_lines s = [] | _ => True end.

Definition hdr_items (s : sm) : list oitem :=
  match state s with
  | SHunkHeader frag n raw o => [(o, IHunkHeader frag n raw)]
  | _ => []
  end.

(* what a body line is rendered as: marker column removed, tabs expanded *)
Definition body_item (c : cfg) (l : text) : item :=
  match l with
  | 45%N :: r => ILine KMinus (expand_tabs (tab_width c) r)
  | 43%N :: r => ILine KPlus (expand_tabs (tab_width c) r)
  | 32%N :: r => ILine KZero (expand_tabs (tab_width c) r)
  | _ => ILine KOther (expand_tabs (tab_width c) l)
  end.

Lemma all_items_flush c s : all_items (flush_if_full c s) = all_items s.
Proof. unfold flush_if_full. destruct (_ || _); [apply all_items_paint | reflexivity]. Qed.

Lemma all_items_emit_hunk_header s :
  all_items (emit_hunk_header s) = all_items s ++ hdr_items s.
Proof.
  unfold emit_hunk_header, hdr_items. destruct (state s); try (rewrite app_nil_r; reflexivity).
  rewrite all_items_write.
  - rewrite all_items_emit, all_items_paint. reflexivity.
  - apply emit_spec.
  - destruct (emit_spec (paint_buffered s)) as (_ & _ & Hm & Hp & _).
    destruct (quiet_paint s) as [Qm Qp]. split; congruence.
Qed.

Lemma hunk_pre_facts c s :
  all_items (hunk_pre c s) = all_items s ++ hdr_items s /\
  state (hunk_pre c s) = state s /\
  (HInv s -> match state s with
             | SHunkZero | SHunkMinus => plus_lines (hunk_pre c s) = []
             | SHunkHeader _ _ _ _ => quiet (hunk_pre c s)
             | _ => True
             end).
Proof.
  unfold hunk_pre.
  destruct (flush_if_full_bounds c s) as (_ & _ & Fs).
  destruct (emit_hunk_header_bounds (flush_if_full c s)) as (_ & _ & _ & Es & Eq).
  split; [|split].
  - rewrite all_items_emit_hunk_header, all_items_flush. unfold hdr_items. rewrite Fs. reflexivity.
  - congruence.
  - intros HI. unfold HInv in HI. rewrite Fs in Eq.
    destruct (state s) eqn:E; auto.
    + (* SHunkZero: emit_hunk_header is the identity here *)
      unfold emit_hunk_header. rewrite Fs. unfold flush_if_full.
      destruct (_ || _); [apply paint_buffered_spec | exact HI].
    + unfold emit_hunk_header. rewrite Fs. unfold flush_if_full.
      destruct (_ || _); [apply paint_buffered_spec | exact HI].
Qed.

Lemma all_items_app_minus s x :
  plus_lines s = [] ->
  all_items (set_minus_lines s (minus_lines s ++ [x])) = all_items s ++ [(fst x, ILine KMinus (snd x))].
Proof.
  intros Hp. unfold all_items, painted. autorewrite with proj. rewrite Hp, map_app. cbn.
  rewrite !app_nil_r, !app_assoc. reflexivity.
Qed.

Lemma all_items_app_plus s x :
  all_items (set_plus_lines s (plus_lines s ++ [x])) = all_items s ++ [(fst x, ILine KPlus (snd x))].
Proof.
  unfold all_items, painted. autorewrite with proj. rewrite map_app. cbn.
  rewrite !app_assoc. reflexivity.
Qed.

Lemma all_items_app_buf_painted s x :
  all_items (set_buf (paint_buffered s) (buf (paint_buffered s) ++ [x])) = all_items s ++ [x].
Proof.
  rewrite <- (all_items_paint s).
  destruct (quiet_paint s) as [Qm Qp].
  unfold all_items, painted. autorewrite with proj. rewrite Qm, Qp. cbn.
  rewrite !app_nil_r, !app_assoc. reflexivity.
Qed.

Lemma all_items_set_state s v : all_items (set_state s v) = all_items s.
Proof. reflexivity. Qed.

(* Whatever state the machine is in when a hunk body line arrives (whatever came before in
   the input), the history grows by exactly: the pending hunk header if this is the hunk's
   first line, then this line, rendered as [body_item].  Nothing else is added, nothing is
   removed or reordered. *)
Ltac after_emit :=
  match goal with |- context [emit ?x] =>
    let Hm := fresh "Hm'" in let Hp := fresh "Hp'" in let Hs := fresh "Hs'" in
    destruct (emit_spec x) as (_ & _ & Hm & Hp & Hs); rewrite (all_items_emit x);
    unfold HInv, in_hunk, hdr_items; rewrite Hs, Hp; clear Hm Hp Hs end.

Theorem hunk_body_step c s i l :
  in_hunk s = true -> body_line l = true -> HInv s ->
  all_items (step c s (i, l)) = all_items s ++ hdr_items s ++ [(i, body_item c l)] /\
  HInv (step c s (i, l)) /\ in_hunk (step c s (i, l)) = true /\
  hdr_items (step c s (i, l)) = [].
Proof.
  intros Hh Hb HI. rewrite (step_body c s i l Hh Hb), (h_hunk_unfold i c l s Hh).
  destruct l as [|ch r]; [discriminate|]. cbn [body_line] in Hb.
  destruct (hunk_pre_facts c s) as (Ha & Hs & Hq). specialize (Hq HI).
  set (s1 := hunk_pre c s) in *.
  rewrite app_assoc, <- Ha.
  destruct (body_char_cases _ Hb) as [E|[E|[E|E]]]; subst ch; cbn [line_kind]; cbv iota beta zeta; cbn [tl body_item];
    after_emit.
  - (* ' ' *) rewrite all_items_set_state, all_items_app_buf_painted.
    autorewrite with proj. destruct (paint_buffered_spec s1) as (_ & _ & _ & Hp & _). auto.
  - (* '+' *) rewrite all_items_set_state, all_items_app_plus. autorewrite with proj. auto.
  - (* '-' *)
    assert (Hp : plus_lines (match state s1 with SHunkPlus => paint_buffered s1 | _ => s1 end) = []).
    { rewrite Hs. unfold in_hunk in Hh. destruct (state s) eqn:E; try discriminate; auto;
        try apply Hq; apply paint_buffered_spec. }
    rewrite all_items_set_state, all_items_app_minus by exact Hp.
    autorewrite with proj. cbn [fst snd].
    destruct (state s1); rewrite ?all_items_paint; auto.
  - (* '\' *) rewrite all_items_set_state, all_items_app_buf_painted.
    autorewrite with proj. destruct (paint_buffered_spec s1) as (_ & _ & _ & Hp & _). auto.
Qed.

(* ------------------------------------------------------------------ a whole hunk *)
Lemma step_hunk_header c s i r frag n :
  parse_hunk_header (64%N :: 64%N :: r) = Some (frag, n) ->
  exists s0, step c s (i, 64%N :: 64%N :: r) =
             set_state s0 (SHunkHeader frag n (64%N :: 64%N :: r) i) /\
             all_items s0 = all_items s /\ plus_lines s0 = plus_lines s.
Proof.
  intros Hp. set (hdr := 64%N :: 64%N :: r) in *. unfold step.
  set (s0 := if source_git s then s else set_source s (detect_git hdr)).
  assert (Ha : all_items s0 = all_items s /\ plus_lines s0 = plus_lines s)
    by (subst s0; destruct (source_git s); split; reflexivity).
  exists s0. split; [|exact Ha].
  unfold handlers. cbn [run_handlers].
  assert (M : forall p, hd_mismatch p 64 = true -> starts_with p hdr = false)
    by (intros p H; apply sw_false; exact H).
  assert (Ms : forall p, hd_mismatch p 64 = true -> strip_prefix p hdr = None)
    by (intros p H; apply sp_none; exact H).
  unfold h_commit. rewrite M by reflexivity.
  unfold h_diff. rewrite M by reflexivity.
  unfold h_fileop. rewrite !M by reflexivity. rewrite andb_false_r.
  unfold h_minus. rewrite !Ms by reflexivity.
  replace (if in_diff_header s0 then (s0, false) else (s0, false)) with (s0, false)
    by (destruct (in_diff_header s0); reflexivity).
  unfold h_plus. rewrite !Ms by reflexivity.
  replace (if in_diff_header s0 then (s0, false) else (s0, false)) with (s0, false)
    by (destruct (in_diff_header s0); reflexivity).
  unfold h_hunk_header. fold hdr. rewrite Hp.
  assert (Hat : starts_with (lit "@@"%string) hdr = true) by (subst hdr; reflexivity).
  rewrite Hat. reflexivity.
Qed.

Definition render_body (c : cfg) (j : nat) (body : list text) : list oitem :=
  map (fun il => (fst il, body_item c (snd il))) (number_from j body).

Lemma body_steps c body : forall j s,
  Forall (fun l => body_line l = true) body -> in_hunk s = true -> HInv s ->
  all_items (steps c (number_from j body) s) =
  all_items s ++ (match body with [] => [] | _ => hdr_items s end) ++ render_body c j body.
Proof.
  induction body as [|l r IH]; intros j s Hf Hh HI.
  - cbn. rewrite app_nil_r. reflexivity.
  - inversion Hf as [|? ? Hl Hr]; subst.
    destruct (hunk_body_step c s j l Hh Hl HI) as (Ha & HI' & Hh' & Hd').
    unfold steps. cbn [number_from fold_left]. fold (steps c (number_from (S j) r) (step c s (j, l))).
    rewrite (IH (S j) _ Hr Hh' HI'), Ha, Hd'.
    unfold render_body. cbn [number_from map fst snd].
    destruct r; cbn [app]; rewrite <- !app_assoc; reflexivity.
Qed.

(* C01, for one hunk and any preceding input: from any state, a hunk header line followed by
   its body lines extends the history by exactly one hunk-header item and then one item per
   body line, in input order, each with only its marker column removed and its tabs
   expanded. *)
Theorem hunk_once_in_order c s i r frag n body :
  parse_hunk_header (64%N :: 64%N :: r) = Some (frag, n) ->
  Forall (fun l => body_line l = true) body -> body <> [] ->
  all_items (steps c (number_from i ((64%N :: 64%N :: r) :: body)) s) =
  all_items s ++ [(i, IHunkHeader frag n (64%N :: 64%N :: r))] ++ render_body c (S i) body.
Proof.
  intros Hp Hf Hne.
  destruct (step_hunk_header c s i r frag n Hp) as (s0 & Hst & Ha & _).
  unfold steps. cbn [number_from fold_left]. unfold text in *. rewrite Hst.
  match goal with |- context [fold_left (step c) ?ls ?st] => change (fold_left (step c) ls st) with (steps c ls st) end.
  rewrite body_steps; auto.
  - rewrite all_items_set_state, Ha. destruct body; [contradiction|]. reflexivity.
  - unfold HInv. autorewrite with proj. exact I.
Qed.
