From Coq Require Import List Bool ZArith Lia.
Import ListNotations.
From DV Require Import MinusCounter.
Local Open Scope Z_scope.

Lemma after_spec counted ks : forall c, after counted c ks = c - n_counted counted ks.
Proof.
  unfold after, n_counted. induction ks as [|k r IH]; intros c; cbn [fold_left filter]; [cbn; lia|].
  rewrite IH. unfold count_line. destruct (counted k); cbn [length]; lia.
Qed.

Lemma n_counted_ext counted ks : (forall k, counted k = is_old k) -> n_counted counted ks = n_counted is_old ks.
Proof. intros H. unfold n_counted. rewrite (filter_ext counted is_old H). reflexivity. Qed.

(* With exactly the old-file lines counted, inside a hunk whose header announces its true number
   of old-file lines a `--- ` line is a removed line as long as old-file lines remain ... *)
Theorem inside_hunk_not_a_header counted pre k post c0 :
  (forall k, counted k = is_old k) ->
  must_count c0 = true -> is_old k = true ->
  three_dashes_expected (after counted (arm c0 (n_counted is_old (pre ++ k :: post))) pre) = false.
Proof.
  intros Hext Hm Hk. set (n := n_counted is_old (pre ++ k :: post)). unfold arm. rewrite Hm. rewrite after_spec.
  rewrite (n_counted_ext counted pre Hext).
  assert (Hn : n = n_counted is_old pre + 1 + n_counted is_old post).
  { subst n. unfold n_counted. rewrite filter_app, app_length. cbn [filter]. rewrite Hk. cbn [length]. lia. }
  assert (0 <= n_counted is_old post) by (unfold n_counted; lia).
  unfold three_dashes_expected, RELEVANT_IF_GT.
  destruct (Z.ltb_spec (-4096) (n - n_counted is_old pre)); [|lia].
  apply Z.leb_gt. lia.
Qed.

(* ... and once the hunk is complete the next `--- ` line is a file header again, and the counter
   stays armed for the next hunk *)
Theorem after_hunk_header_expected counted body c0 :
  (forall k, counted k = is_old k) -> must_count c0 = true ->
  three_dashes_expected (after counted (arm c0 (n_counted is_old body)) body) = true /\
  must_count (after counted (arm c0 (n_counted is_old body)) body) = true.
Proof.
  intros Hext Hm. unfold arm. rewrite Hm, after_spec, (n_counted_ext counted body Hext), Z.sub_diag. split; reflexivity.
Qed.

(* counting any other set of line kinds breaks one of the two: e.g. counting added lines too *)
Example counting_plus_lines_refuted :
  let counted := fun k => match k with HOther => false | _ => true end in
  three_dashes_expected (after counted (arm 0 2) [HPlus; HPlus]) = true.   (* a removed "-- x" line would now be a header *)
Proof. vm_compute. reflexivity. Qed.
