(* Row accounting for --color-only (C02): every input line yields exactly one output row. *)
From Coq Require Import String.
From Coq Require Import List Bool NArith Arith Lia.
Import ListNotations.
From DV Require Import Text Delta DeltaProj DeltaFacts.

(* a hunk header line is rendered when the first line of its hunk arrives *)
Definition pend (s : sm) : nat := match state s with SHunkHeader _ _ _ _ => 1 | _ => 0 end.

(* rows rendered or about to be rendered (under color_only every item is one row) *)
Definition cnt0 (s : sm) : nat :=
  length (out s) + length (buf s) + length (minus_lines s) + length (plus_lines s).
Definition cnt (s : sm) : nat := cnt0 s + pend s.

(* lines that end a hunk before it began: after one of these a pending hunk header would
   never be rendered *)
Definition killer (l : text) : bool :=
  starts_with (lit "commit "%string) l || starts_with (lit "diff "%string) l ||
  starts_with (lit "@@"%string) l || starts_with (lit "old mode "%string) l ||
  starts_with (lit "new mode "%string) l || starts_with (lit "Binary files "%string) l.

Definition safe (s : sm) (l : text) : Prop := pend s = 1 -> killer l = false.

Definition CI (s : sm) : Prop := mode_info s = [].

Lemma killer_parts l : killer l = false ->
  starts_with (lit "commit "%string) l = false /\ starts_with (lit "diff "%string) l = false /\
  starts_with (lit "@@"%string) l = false /\ starts_with (lit "old mode "%string) l = false /\
  starts_with (lit "new mode "%string) l = false /\ starts_with (lit "Binary files "%string) l = false.
Proof.
  unfold killer. intros H. repeat (apply orb_false_iff in H; destruct H as [H ?]). auto 10.
Qed.

Lemma pend_cases s : pend s = 0 \/ pend s = 1.
Proof. unfold pend. destruct (state s); auto. Qed.

Lemma cnt0_paint s : cnt0 (paint_buffered s) = cnt0 s.
Proof.
  unfold cnt0, paint_buffered. autorewrite with proj. rewrite !app_length, !map_length. cbn. lia.
Qed.
Lemma cnt0_emit s : cnt0 (emit s) = cnt0 s.
Proof. unfold cnt0, emit. autorewrite with proj. rewrite app_length. cbn. lia. Qed.
Lemma cnt0_write s it : cnt0 (write s it) = S (cnt0 s).
Proof. unfold cnt0, write. autorewrite with proj. rewrite app_length. cbn. lia. Qed.
Lemma cnt0_wfh i t s : cnt0 (write_file_header i t s) = S (cnt0 s).
Proof. unfold write_file_header. rewrite <- (cnt0_write s (i, IFileHeader t (mode_info s))). reflexivity. Qed.
Lemma cnt0_emit_unchanged i t s : cnt0 (emit_unchanged i t s) = S (cnt0 s).
Proof. unfold emit_unchanged. rewrite cnt0_write, cnt0_emit. reflexivity. Qed.

Lemma pend_of_state s t : state t = state s -> pend t = pend s.
Proof. unfold pend. intros ->. reflexivity. Qed.

Lemma emit_unchanged_state i t s : state (emit_unchanged i t s) = state s.
Proof.
  unfold emit_unchanged. destruct (write_spec (emit s) (i, IRaw t)) as (_ & _ & _ & _ & S1).
  rewrite S1. apply emit_spec.
Qed.

Section ColorOnly.
Variable c : cfg.
Hypothesis Hc : color_only c = true.

Definition acct (h : handler) : Prop :=
  forall i l s, CI s -> safe s l ->
    CI (fst (h i c l s)) /\
    (snd (h i c l s) = true -> cnt (fst (h i c l s)) = S (cnt s)) /\
    (snd (h i c l s) = false -> cnt (fst (h i c l s)) = cnt s /\ safe (fst (h i c l s)) l).

Ltac declined HI Hs :=
  cbn [fst snd]; split; [exact HI|]; split; [discriminate|]; intros _; split; [reflexivity | exact Hs].

(* under color_only, with no mode information recorded, the pending-header logic writes
   nothing *)
Lemma pending_color_only i s : CI s ->
  cnt0 (pending i c s) = cnt0 s /\ CI (pending i c s) /\ state (pending i c s) = state s.
Proof.
  intros HI. unfold pending. destruct (negb (in_diff_header s)); [auto|].
  assert (E : mode_info (emit s) = []) by exact HI. rewrite E. cbn [is_empty negb]. rewrite Hc. cbn [negb andb].
  split; [apply cnt0_emit|]. split; [exact HI | reflexivity].
Qed.

Lemma pend0_of_killer s l : safe s l -> killer l = true -> pend s = 0.
Proof.
  intros Hs Hk. destruct (pend_cases s) as [H|H]; [exact H|]. rewrite (Hs H) in Hk. discriminate.
Qed.

Lemma acct_h_commit : acct h_commit.
Proof.
  intros i l s HI Hs. unfold h_commit.
  destruct (starts_with (lit "commit "%string) l) eqn:E; [|declined HI Hs].
  cbn [fst snd].
  destruct (pending_color_only i (paint_buffered s) HI) as (Hcn & HI' & Hst).
  assert (Hp : pend s = 0) by (apply (pend0_of_killer s l Hs); unfold killer; rewrite E; reflexivity).
  split; [exact HI'|]. split; [discriminate|]. intros _. split.
  - unfold cnt. change (cnt0 (set_state (pending i c (paint_buffered s)) SCommitMeta))
      with (cnt0 (pending i c (paint_buffered s))).
    rewrite Hcn, cnt0_paint, Hp. reflexivity.
  - unfold safe, pend. autorewrite with proj. discriminate.
Qed.

Lemma acct_h_diff : acct h_diff.
Proof.
  intros i l s HI Hs. unfold h_diff.
  destruct (starts_with (lit "diff "%string) l) eqn:E; [|declined HI Hs].
  assert (Hp : pend s = 0) by (apply (pend0_of_killer s l Hs); unfold killer; rewrite E, orb_true_r; reflexivity).
  cbv zeta.
  set (s1 := set_state (paint_buffered s) SDiffHeader).
  assert (HI1 : CI s1) by exact HI.
  destruct (pending_color_only i s1 HI1) as (Hcn & HI' & Hst).
  match goal with |- context [should_skip c ?x] => assert (Hsk : should_skip c x = false) end.
  { unfold should_skip. rewrite Hc. apply andb_false_r. }
  rewrite Hsk. cbn [fst snd].
  split; [exact HI'|]. split; [|discriminate]. intros _.
  unfold cnt. rewrite cnt0_emit_unchanged.
  match goal with |- S (cnt0 ?x) + pend ?y = _ => change (cnt0 x) with (cnt0 (pending i c s1));
    assert (Hpy : pend y = 0) end.
  { unfold pend. unfold emit_unchanged. destruct (write_spec (emit (set_cur (set_minus_ev (set_plus_file (set_minus_file (set_diff_line (set_handled (pending i c s1) None) l) (name_of_diff_line l)) (name_of_diff_line l)) Change) (Some (name_of_diff_line l, name_of_diff_line l)))) (i, IRaw l)) as (_ & _ & _ & _ & S1).
    rewrite S1. destruct (emit_spec (set_cur (set_minus_ev (set_plus_file (set_minus_file (set_diff_line (set_handled (pending i c s1) None) l) (name_of_diff_line l)) (name_of_diff_line l)) Change) (Some (name_of_diff_line l, name_of_diff_line l)))) as (_ & _ & _ & _ & S2).
    rewrite S2. autorewrite with proj. rewrite Hst. reflexivity. }
  rewrite Hpy, Hcn. change (cnt0 s1) with (cnt0 (paint_buffered s)). rewrite cnt0_paint, Hp. lia.
Qed.

(* in a file header the state is not a pending hunk header *)
Lemma pend_in_diff_header s : in_diff_header s = true -> pend s = 0.
Proof. unfold in_diff_header, pend. destruct (state s); auto; discriminate. Qed.

Lemma acct_h_fileop : acct h_fileop.
Proof.
  intros i l s HI Hs. unfold h_fileop. rewrite Hc.
  destruct (in_diff_header s) eqn:D; [|declined HI Hs].
  destruct (starts_with (lit "deleted file mode "%string) l || starts_with (lit "new file mode "%string) l);
    cbn [andb]; [|declined HI Hs].
  cbv zeta. cbn [fst snd].
  pose proof (pend_in_diff_header s D) as Hp.
  split; [reflexivity|]. split; [|discriminate]. intros _.
  unfold cnt. rewrite cnt0_wfh, cnt0_emit.
  destruct (starts_with (lit "deleted file mode "%string) l);
    (match goal with |- S (cnt0 ?x) + pend ?y = _ =>
       change (cnt0 x) with (cnt0 s); change (pend y) with (pend s) end; lia).
Qed.

Lemma acct_h_minus : acct h_minus.
Proof.
  intros i l s HI Hs. unfold h_minus. rewrite Hc.
  destruct (in_diff_header s) eqn:D; [|declined HI Hs].
  match goal with |- context [match ?u with Some _ => _ | None => _ end] => destruct u as [[p ev]|] end;
    [|declined HI Hs].
  cbn [fst snd]. split; [reflexivity|]. split; [|discriminate]. intros _.
  unfold cnt. rewrite cnt0_wfh, cnt0_emit, cnt0_paint.
  match goal with |- S (cnt0 ?x) + pend ?y = _ =>
    change (cnt0 x) with (cnt0 s); change (pend y) with (pend s) end. lia.
Qed.

Lemma acct_h_plus : acct h_plus.
Proof.
  intros i l s HI Hs. unfold h_plus. rewrite Hc.
  destruct (in_diff_header s) eqn:D; [|declined HI Hs].
  match goal with |- context [match ?u with Some _ => _ | None => _ end] => destruct u as [p|] end;
    [|declined HI Hs].
  cbv zeta. cbn [fst snd]. split; [reflexivity|]. split; [|discriminate]. intros _.
  unfold cnt. rewrite cnt0_wfh, cnt0_emit, cnt0_paint.
  match goal with |- S (cnt0 ?x) + pend ?y = _ =>
    change (cnt0 x) with (cnt0 s); change (pend y) with (pend s) end. lia.
Qed.

Lemma acct_h_hunk_header : acct h_hunk_header.
Proof.
  intros i l s HI Hs. unfold h_hunk_header.
  destruct (starts_with (lit "@@"%string) l) eqn:E; [|declined HI Hs].
  destruct (parse_hunk_header l) as [[frag n]|]; [|declined HI Hs].
  assert (Hp : pend s = 0) by (apply (pend0_of_killer s l Hs); unfold killer; rewrite E, !orb_true_r; reflexivity).
  cbn [fst snd]. split; [exact HI|]. split; [|discriminate]. intros _.
  unfold cnt. change (cnt0 (set_state s (SHunkHeader frag n l i))) with (cnt0 s).
  unfold pend at 1. autorewrite with proj. lia.
Qed.

Lemma acct_h_mode : acct h_mode.
Proof.
  intros i l s HI Hs. unfold h_mode. rewrite Hc. cbn [negb andb].
  destruct (strip_prefix (lit "old mode "%string) l) as [suf|] eqn:E1.
  - assert (Hp : pend s = 0).
    { apply (pend0_of_killer s l Hs). unfold killer. unfold strip_prefix in E1.
      destruct (starts_with (lit "old mode "%string) l); [|discriminate]. rewrite !orb_true_r. reflexivity. }
    cbn [fst snd]. split; [exact HI|]. split; [discriminate|]. intros _. split.
    + unfold cnt. change (cnt0 (set_state s SDiffHeader)) with (cnt0 s). unfold pend at 1. autorewrite with proj. lia.
    + unfold safe, pend. autorewrite with proj. discriminate.
  - destruct (strip_prefix (lit "new mode "%string) l) as [suf|] eqn:E2; [|declined HI Hs].
    assert (Hp : pend s = 0).
    { apply (pend0_of_killer s l Hs). unfold killer. unfold strip_prefix in E2.
      destruct (starts_with (lit "new mode "%string) l); [|discriminate]. rewrite !orb_true_r. reflexivity. }
    cbv zeta. cbn [fst snd]. split; [exact HI|]. split; [discriminate|]. intros _. split.
    + unfold cnt. change (cnt0 (set_state s SDiffHeader)) with (cnt0 s). unfold pend at 1. autorewrite with proj. lia.
    + unfold safe, pend. autorewrite with proj. discriminate.
Qed.

Lemma acct_h_misc : acct h_misc.
Proof.
  intros i l s HI Hs. unfold h_misc. rewrite Hc. cbn [negb].
  destruct (starts_with (lit "Binary files "%string) l) eqn:E; [|declined HI Hs].
  assert (Hp : pend s = 0) by (apply (pend0_of_killer s l Hs); unfold killer; rewrite E, !orb_true_r; reflexivity).
  cbv zeta. cbn [fst snd]. split; [reflexivity|]. split; [|discriminate]. intros _.
  unfold cnt. rewrite cnt0_wfh, cnt0_emit.
  assert (Hz : forall x, in_diff_header x = true \/ True) by auto.
  destruct (in_diff_header (paint_buffered s)) eqn:D.
  - rewrite cnt0_paint.
    match goal with |- S (cnt0 s) + pend ?y = _ => assert (Hy : pend y = 0) end.
    { apply pend_in_diff_header. exact D. }
    rewrite Hy, Hp. lia.
  - change (cnt0 (set_state (paint_buffered s) SDiffHeader)) with (cnt0 (paint_buffered s)).
    rewrite cnt0_paint.
    match goal with |- S (cnt0 s) + pend ?y = _ => assert (Hy : pend y = 0) by reflexivity end.
    rewrite Hy, Hp. lia.
Qed.

Lemma cnt0_flush s : cnt0 (flush_if_full c s) = cnt0 s.
Proof. unfold flush_if_full. destruct (_ || _); [apply cnt0_paint | reflexivity]. Qed.

Lemma cnt0_emit_hunk_header s : cnt0 (emit_hunk_header s) = cnt0 s + pend s.
Proof.
  unfold emit_hunk_header, pend. destruct (state s); try lia.
  rewrite cnt0_write, cnt0_emit, cnt0_paint. lia.
Qed.

Lemma cnt0_hunk_pre s : cnt0 (hunk_pre c s) = cnt0 s + pend s.
Proof.
  unfold hunk_pre. rewrite cnt0_emit_hunk_header, cnt0_flush.
  destruct (flush_if_full_bounds c s) as (_ & _ & Fs). rewrite (pend_of_state _ _ Fs). reflexivity.
Qed.

Lemma cnt0_app_minus s x : cnt0 (set_minus_lines s (minus_lines s ++ [x])) = S (cnt0 s).
Proof. unfold cnt0. autorewrite with proj. rewrite app_length. cbn. lia. Qed.
Lemma cnt0_app_plus s x : cnt0 (set_plus_lines s (plus_lines s ++ [x])) = S (cnt0 s).
Proof. unfold cnt0. autorewrite with proj. rewrite app_length. cbn. lia. Qed.
Lemma cnt0_app_buf s x : cnt0 (set_buf s (buf s ++ [x])) = S (cnt0 s).
Proof. unfold cnt0. autorewrite with proj. rewrite app_length. cbn. lia. Qed.

Lemma acct_h_hunk : acct h_hunk.
Proof.
  intros i l s HI Hs. destruct (in_hunk s) eqn:Hh.
  2: { unfold h_hunk. rewrite Hh. declined HI Hs. }
  assert (Hcl : snd (h_hunk i c l s) = true) by (unfold h_hunk; rewrite Hh; reflexivity).
  rewrite Hcl. rewrite (h_hunk_unfold i c l s Hh).
  pose proof (cnt0_hunk_pre s) as Hpre.
  set (s1 := hunk_pre c s) in *.
  assert (HI1 : mode_info s1 = []).
  { subst s1. unfold hunk_pre, emit_hunk_header, flush_if_full.
    destruct (_ || _); destruct (state _); exact HI. }
  cbv zeta.
  split; [|split; [|discriminate]].
  - destruct (line_kind l); try (destruct (state s1)); exact HI1.
  - intros _. unfold cnt.
    destruct (line_kind l);
      match goal with |- cnt0 (emit ?x) + pend (emit ?x) = _ =>
        rewrite (cnt0_emit x);
        destruct (emit_spec x) as (_ & _ & _ & _ & Hst); rewrite (pend_of_state _ _ Hst); clear Hst
      end.
    + (* '-' *)
      match goal with |- cnt0 (set_state ?y _) + _ = _ => change (cnt0 (set_state y SHunkMinus)) with (cnt0 y) end.
      rewrite cnt0_app_minus. unfold pend at 1. autorewrite with proj.
      destruct (state s1); rewrite ?cnt0_paint, Hpre; lia.
    + match goal with |- cnt0 (set_state ?y _) + _ = _ => change (cnt0 (set_state y SHunkPlus)) with (cnt0 y) end.
      rewrite cnt0_app_plus. unfold pend at 1. autorewrite with proj. rewrite Hpre. lia.
    + match goal with |- cnt0 (set_state ?y _) + _ = _ => change (cnt0 (set_state y SHunkZero)) with (cnt0 y) end.
      rewrite cnt0_app_buf, cnt0_paint. unfold pend at 1. autorewrite with proj. rewrite Hpre. lia.
    + match goal with |- cnt0 (set_state ?y _) + _ = _ => change (cnt0 (set_state y SHunkZero)) with (cnt0 y) end.
      rewrite cnt0_app_buf, cnt0_paint. unfold pend at 1. autorewrite with proj. rewrite Hpre. lia.
    + match goal with |- cnt0 (set_state ?y _) + _ = _ => change (cnt0 (set_state y SHunkZero)) with (cnt0 y) end.
      rewrite cnt0_app_buf, cnt0_paint. unfold pend at 1. autorewrite with proj. rewrite Hpre. lia.
Qed.

Lemma acct_h_tail : acct h_tail_emit.
Proof.
  intros i l s HI Hs. unfold h_tail_emit. cbn [fst snd].
  destruct (emit_spec s) as (_ & _ & _ & _ & Hst).
  split; [exact HI|]. split; [discriminate|]. intros _. split.
  - unfold cnt. rewrite cnt0_emit, (pend_of_state _ _ Hst). reflexivity.
  - unfold safe. rewrite (pend_of_state _ _ Hst). exact Hs.
Qed.

Lemma acct_run_handlers hs : (forall h, In h hs -> acct h) ->
  forall i l s, CI s -> safe s l ->
    CI (fst (run_handlers hs i c l s)) /\
    (snd (run_handlers hs i c l s) = true -> cnt (fst (run_handlers hs i c l s)) = S (cnt s)) /\
    (snd (run_handlers hs i c l s) = false ->
       cnt (fst (run_handlers hs i c l s)) = cnt s /\ safe (fst (run_handlers hs i c l s)) l).
Proof.
  induction hs as [|h r IH]; intros Hg i l s HI Hs; cbn [run_handlers].
  - cbn [fst snd]. split; [exact HI|]. split; [discriminate|]. intros _. split; [reflexivity | exact Hs].
  - destruct (Hg h (or_introl eq_refl) i l s HI Hs) as (I1 & T1 & F1).
    destruct (h i c l s) as [s' cl]. cbn [fst snd] in *. destruct cl; cbn [fst snd].
    + split; [exact I1|]. split; [intros _; apply T1; reflexivity | discriminate].
    + destruct (F1 eq_refl) as (E1 & S1).
      destruct (IH (fun h' Hin => Hg h' (or_intror Hin)) i l s' I1 S1) as (I2 & T2 & F2).
      split; [exact I2|]. split.
      * intros H. rewrite (T2 H), E1. reflexivity.
      * intros H. destruct (F2 H) as (E2 & S2). split; [rewrite E2, E1; reflexivity | exact S2].
Qed.

Lemma acct_handlers : forall h, In h handlers -> acct h.
Proof.
  intros h Hin. unfold handlers in Hin. cbn in Hin.
  repeat (destruct Hin as [<-|Hin];
    [auto using acct_h_commit, acct_h_diff, acct_h_fileop, acct_h_minus, acct_h_plus, acct_h_hunk_header,
       acct_h_mode, acct_h_misc, acct_h_hunk, acct_h_tail|]).
  contradiction.
Qed.

(* One input line = one more row (rendered, buffered, or a pending hunk header). *)
Theorem step_count s i l : CI s -> safe s l -> cnt (step c s (i, l)) = S (cnt s) /\ CI (step c s (i, l)).
Proof.
  intros HI Hs. unfold step.
  set (s0 := if source_git s then s else set_source s (detect_git l)).
  assert (E0 : cnt s0 = cnt s /\ CI s0 /\ safe s0 l) by (subst s0; destruct (source_git s); auto).
  destruct E0 as (C0 & I0 & S0).
  destruct (acct_run_handlers handlers acct_handlers i l s0 I0 S0) as (I1 & T1 & F1).
  destruct (run_handlers handlers i c l s0) as [s1 cl]. cbn [fst snd] in *.
  destruct cl.
  - split; [rewrite (T1 eq_refl), C0; reflexivity | exact I1].
  - destruct (F1 eq_refl) as (E1 & S1).
    assert (Hsk : should_skip c s1 = false) by (unfold should_skip; rewrite Hc; apply andb_false_r).
    rewrite Hsk. split; [|exact I1].
    (* not claimed: the state is not a pending hunk header (the hunk handler claims there) *)
    unfold cnt. rewrite cnt0_emit_unchanged.
    pose proof (emit_unchanged_state i l s1) as Hst. rewrite (pend_of_state _ _ Hst).
    unfold cnt in E1, C0. lia.
Qed.

(* the side condition along a whole input, and at its end *)
Fixpoint safes (s : sm) (ls : list (nat * text)) : Prop :=
  match ls with
  | [] => pend s = 0
  | il :: r => safe s (snd il) /\ safes (step c s il) r
  end.

Lemma steps_count ls : forall s, CI s -> safes s ls ->
  cnt0 (steps c ls s) = cnt s + length ls /\ CI (steps c ls s).
Proof.
  induction ls as [|[i l] r IH]; intros s HI Hs; cbn [steps fold_left safes length] in *.
  - unfold cnt. rewrite Hs. split; [lia | exact HI].
  - destruct Hs as [H1 H2]. destruct (step_count s i l HI H1) as (E & HI').
    destruct (IH _ HI' H2) as (E2 & HI2). unfold steps in *. rewrite E2, E. split; [lia | exact HI2].
Qed.

Lemma length_number_from (ls : list text) : forall k, length (number_from k ls) = length ls.
Proof. induction ls as [|x r IH]; intros k; cbn; [reflexivity | rewrite IH; reflexivity]. Qed.

(* C02: one output row for every input line *)
Theorem color_only_line_for_line lines :
  safes init (number_from 0 lines) -> length (run c lines) = length lines.
Proof.
  intros Hs. unfold run.
  assert (HI0 : CI init) by reflexivity.
  destruct (steps_count (number_from 0 lines) init HI0 Hs) as (E & HI).
  set (s := steps c (number_from 0 lines) init) in *.
  unfold finish.
  destruct (pending_color_only (length lines) s HI) as (Ep & _ & _).
  destruct (emit_spec (paint_buffered (pending (length lines) c s))) as (Ho & _).
  destruct (paint_buffered_spec (pending (length lines) c s)) as (Ho' & Hb' & _).
  rewrite Ho, Ho', Hb'. rewrite !app_length. unfold painted. rewrite app_length, !map_length.
  pose proof (length_number_from lines 0) as Hn.
  unfold cnt0 in Ep, E. unfold cnt, cnt0 in E. cbn in E. rewrite Hn in E. lia.
Qed.

(* decidable form of the side condition *)
Definition safeb (s : sm) (l : text) : bool := Nat.eqb (pend s) 0 || negb (killer l).
Fixpoint safesb (s : sm) (ls : list (nat * text)) : bool :=
  match ls with
  | [] => Nat.eqb (pend s) 0
  | il :: r => safeb s (snd il) && safesb (step c s il) r
  end.

Lemma safesb_safes ls : forall s, safesb s ls = true -> safes s ls.
Proof.
  induction ls as [|il r IH]; intros s H; cbn [safesb safes] in *.
  - apply Nat.eqb_eq. exact H.
  - apply andb_true_iff in H. destruct H as [H1 H2]. split; [|apply IH; exact H2].
    unfold safe, safeb in *. intros Hp. rewrite Hp in H1. cbn in H1.
    apply negb_true_iff. exact H1.
Qed.
End ColorOnly.
