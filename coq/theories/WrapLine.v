(* src/wrapping.rs wrap_line: the stack machine that wraps one line, given as styled
   sections, to a width — C07.  A grapheme cluster is (id, display width); sections are
   (style, graphemes); the newline is the cluster with id 10 and width 0. *)
From Coq Require Import List Bool NArith Arith Lia.
Import ListNotations.

Definition gr := (N * nat)%type.
Definition sec := (nat * list gr)%type.

Inductive seg :=
| SText (st : nat) (t : list gr)
| SSymLeft | SSymRight | SSymPrefix      (* wrap symbols (display width 1) *)
| SPad (n : nat).                        (* right-alignment padding *)

Definition row := list seg.

Record wcfg := mkW { line_width : nat; max_lines_cfg : nat; right_permille : nat }.

Definition gwidth (t : list gr) : nat := fold_right (fun g acc => snd g + acc) 0 t.

Definition is_nl_sec (s : sec) : bool :=
  match snd s with [g] => N.eqb (fst g) 10 && Nat.eqb (snd g) 0 | _ => false end.

(* for &(len, width) in graphemes { if width_left >= width { take } else break } *)
Fixpoint split_fit (width_left : nat) (t : list gr) : list gr * list gr :=
  match t with
  | [] => ([], [])
  | g :: r => if Nat.leb (snd g) width_left
              then let (a, b) := split_fit (width_left - snd g) r in (g :: a, b)
              else ([], t)
  end.

Inductive stop := StackEmpty | LineLimit.

Record wst := mkWst { stack : list sec; cur : list seg; cur_len : nat; result : list row }.

Definition SYM_W := 1.

(* effective max_lines: wrapping impossible if only the symbol fits *)
Definition max_lines (c : wcfg) : nat := if Nat.leb (line_width c) SYM_W then 1 else max_lines_cfg c.

Definition limit_reached (c : wcfg) (s : wst) : bool :=
  Nat.ltb 0 (max_lines c) && Nat.leb (max_lines c) (length (result s) + 1).

(* one iteration of the loop; None = the loop ends with the given reason *)
Definition wstep (c : wcfg) (s : wst) : wst + (stop * wst) :=
  match stack s with
  | [] => inr (StackEmpty, s)
  | (style, text) :: rest =>
    if limit_reached c s then inr (LineLimit, s)
    else
      let gw := gwidth text in
      let new_len := cur_len s + gw in
      let push := mkWst rest (cur s ++ [SText style text]) new_len (result s) in
      let must_split :=
        if Nat.ltb new_len (line_width c) then inl push
        else if Nat.eqb new_len (line_width c) then
          match rest with
          | [] => inl push
          | [nl] => if is_nl_sec nl
                    then inl (mkWst [] (cur s ++ [SText style text; SText (fst nl) (snd nl)]) new_len (result s))
                    else inr tt
          | _ => inr tt
          end
        else inr tt in
      match must_split with
      | inl s' => inl s'
      | inr _ =>
        let width_left := (gw - (new_len - line_width c)) - SYM_W in
        if Nat.eqb width_left 0 then
          inl (mkWst ((style, text) :: rest) [] 0 (result s ++ [cur s ++ [SSymLeft]]))
        else
          let (this_line, next_line) := split_fit width_left text in
          match this_line, cur s with
          | [], [] =>
              if Nat.eqb (max_lines c) 0
              then inr (LineLimit, mkWst ((style, text) :: rest) [] 0 (result s))   (* no progress possible *)
              else inl (mkWst ((style, next_line) :: rest) [] 0 (result s ++ [cur s ++ [SText style this_line; SSymLeft]]))
          | _, _ =>
              inl (mkWst ((style, next_line) :: rest) [] 0 (result s ++ [cur s ++ [SText style this_line; SSymLeft]]))
          end
      end
  end.

Fixpoint wloop (fuel : nat) (c : wcfg) (s : wst) : option (stop * wst) :=
  match fuel with
  | O => None
  | S f => match wstep c s with
           | inl s' => wloop f c s'
           | inr r => Some r
           end
  end.

Definition replace_last_sym (r : row) : row :=
  match rev r with
  | _ :: rr => rev rr ++ [SSymRight]
  | [] => r
  end.

Definition finish_wrap (c : wcfg) (st : stop) (s : wst) : list row :=
  (* right-align a single wrapped line *)
  let '(res1, cur1) :=
    match result s with
    | [first] =>
        if Nat.ltb 0 (cur_len s) then
          let permille := Nat.div (cur_len s * 1000) (line_width c) in
          let pad_len := line_width c - (cur_len s + 1) in
          if Nat.ltb permille (right_permille c) && Nat.ltb 0 pad_len
          then ([replace_last_sym first], [SPad pad_len; SSymPrefix] ++ cur s)
          else (result s, cur s)
        else (result s, cur s)
    | _ => (result s, cur s)
    end in
  let res2 := if Nat.ltb 0 (cur_len s) then res1 ++ [cur1] else res1 in
  let res3 := match st with
              | LineLimit => if Nat.eqb (length res2) (max_lines c) then res2 else res2 ++ [[]]
              | StackEmpty => res2
              end in
  match stack s with
  | [] => res3
  | _ =>
      let res4 := match res3 with [] => [[]] | _ => res3 end in
      removelast res4 ++ [last res4 [] ++ map (fun x => SText (fst x) (snd x)) (stack s)]
  end.

Definition wrap_line (fuel : nat) (c : wcfg) (line : list sec) : option (list row) :=
  match wloop fuel c (mkWst line [] 0 []) with
  | Some (st, s) => Some (finish_wrap c st s)
  | None => None
  end.
