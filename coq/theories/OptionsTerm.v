(* Termination of feature gathering (C13/C03): the recursion of gather_features_recursively /
   gather_builtin_features_recursively is bounded by the number of distinct feature names, so
   the fuel of the model is never the reason for a result — any two sufficient fuels agree. *)
From Coq Require Import List Bool NArith Arith Lia.
Import ListNotations.
From DV Require Import Options.

Definition sub (a b : list name) : Prop := forall x, mem x a = true -> mem x b = true.
Definition missl (V feats : list name) : nat := length (filter (fun u => negb (mem u feats)) V).

Lemma sub_refl a : sub a a. Proof. intros x H; exact H. Qed.
Lemma sub_trans a b c : sub a b -> sub b c -> sub a c. Proof. intros H1 H2 x H; auto. Qed.
Lemma sub_cons f a : sub a (f :: a).
Proof. intros x H. unfold mem in *. cbn. rewrite H. apply orb_true_r. Qed.

Lemma mem_cons_self f a : mem f (f :: a) = true.
Proof. unfold mem. cbn. rewrite N.eqb_refl. reflexivity. Qed.

Lemma missl_sub V a b : sub a b -> missl V b <= missl V a.
Proof.
  intros H. unfold missl. induction V as [|u r IH]; cbn; [lia|].
  destruct (mem u a) eqn:Ea.
  - rewrite (H u Ea). cbn. exact IH.
  - cbn. destruct (mem u b); cbn; lia.
Qed.

Lemma missl_cons V f a : In f V -> mem f a = false -> missl V (f :: a) < missl V a.
Proof.
  intros Hin Hf. unfold missl. induction V as [|u r IH]; [contradiction|]. cbn [filter].
  destruct Hin as [->|Hin].
  - rewrite mem_cons_self, Hf. cbn [negb length].
    pose proof (missl_sub r a (f :: a) (sub_cons f a)) as Hle. unfold missl in Hle. lia.
  - specialize (IH Hin). destruct (mem u a) eqn:Ea.
    + rewrite (sub_cons f a u Ea). cbn [negb]. exact IH.
    + cbn [negb length]. destruct (mem u (f :: a)); cbn [negb length]; lia.
Qed.

Lemma missl_le V feats : missl V feats <= length V.
Proof. unfold missl. induction V as [|u r IH]; cbn; [lia|]. destruct (negb (mem u feats)); cbn; lia. Qed.

Section Term.
Variable builtins : list (name * builtin).
Variable U : list name.
Hypothesis U_builtins : forall f b, assoc f builtins = Some b -> In f U.

Definition miss (feats : list name) : nat := missl U feats.
Lemma miss_sub a b : sub a b -> miss b <= miss a. Proof. apply missl_sub. Qed.
Lemma miss_cons f a : In f U -> mem f a = false -> miss (f :: a) < miss a. Proof. apply missl_cons. Qed.

(* folds that agree step by step on every accumulator above a base *)
Lemma fold_stable {A} (F G : list name -> A -> list name) (base : list name) (l : list A) :
  (forall acc a, sub base acc -> F acc a = G acc a /\ sub acc (F acc a)) ->
  forall acc, sub base acc -> fold_left F l acc = fold_left G l acc /\ sub acc (fold_left F l acc).
Proof.
  intros H. induction l as [|a r IH]; intros acc Hs; cbn; [split; [reflexivity | apply sub_refl]|].
  destruct (H acc a Hs) as [E S1]. rewrite <- E.
  destruct (IH (F acc a) (sub_trans _ _ _ Hs S1)) as [E2 S2]. split; [exact E2 | exact (sub_trans _ _ _ S1 S2)].
Qed.

Lemma fold_sub {A} (F : list name -> A -> list name) (l : list A) :
  (forall acc a, sub acc (F acc a)) -> forall acc, sub acc (fold_left F l acc).
Proof.
  intros H. induction l as [|a r IH]; intros acc; cbn; [apply sub_refl|].
  exact (sub_trans _ _ _ (H acc a) (IH _)).
Qed.

(* gathering only adds *)
Lemma g_builtin_sub n : forall f feats, sub feats (g_builtin builtins n f feats).
Proof.
  induction n as [|n IH]; intros f feats; cbn [g_builtin]; [apply sub_refl|].
  destruct (mem f feats); [apply sub_refl|].
  destruct (assoc f builtins) as [b|]; [|apply sub_cons].
  eapply sub_trans; [apply sub_cons|]. eapply sub_trans.
  - apply (fold_sub (fun acc c => g_builtin builtins n c acc)). intros acc a. apply IH.
  - apply (fold_sub (fun acc c => if mem c (b_flags b) then g_builtin builtins n c acc else acc)).
    intros acc a. destruct (mem a (b_flags b)); [apply IH | apply sub_refl].
Qed.

(* any two fuels above the number of names still missing give the same result *)
Theorem g_builtin_stable k : forall n m f feats, miss feats <= k -> k < n -> k < m ->
  g_builtin builtins n f feats = g_builtin builtins m f feats.
Proof.
  induction k as [|k IH]; intros n m f feats Hk Hn Hm;
    (destruct n as [|n]; [lia|]); (destruct m as [|m]; [lia|]); cbn [g_builtin];
    destruct (mem f feats) eqn:Ef; try reflexivity;
    destruct (assoc f builtins) as [b|] eqn:Eb; try reflexivity.
  - pose proof (miss_cons f feats (U_builtins f b Eb) Ef). lia.
  - pose proof (miss_cons f feats (U_builtins f b Eb) Ef) as Hlt.
    assert (Hbase : miss (f :: feats) <= k) by lia.
    assert (Hstep : forall acc c, sub (f :: feats) acc ->
              g_builtin builtins n c acc = g_builtin builtins m c acc /\ sub acc (g_builtin builtins n c acc)).
    { intros acc c Hs. split; [|apply g_builtin_sub].
      apply IH; [pose proof (miss_sub _ _ Hs); lia | lia | lia]. }
    destruct (fold_stable (fun acc c => g_builtin builtins n c acc) (fun acc c => g_builtin builtins m c acc)
                (f :: feats) (rev (b_features b)) Hstep (f :: feats) (sub_refl _)) as [E1 S1].
    rewrite <- E1.
    apply (fold_stable (fun acc c => if mem c (b_flags b) then g_builtin builtins n c acc else acc)
                       (fun acc c => if mem c (b_flags b) then g_builtin builtins m c acc else acc) (f :: feats)).
    + intros acc c Hs. destruct (mem c (b_flags b)); [exact (Hstep acc c Hs) | split; [reflexivity | apply sub_refl]].
    + exact S1.
Qed.

Lemma miss_le_U feats : miss feats <= length U.
Proof. apply missl_le. Qed.

Corollary g_builtin_enough_fuel n m f feats : length U < n -> length U < m ->
  g_builtin builtins n f feats = g_builtin builtins m f feats.
Proof. intros Hn Hm. apply (g_builtin_stable (length U)); [apply miss_le_U | exact Hn | exact Hm]. Qed.


(* ---- the recursion over custom feature sections *)
Hypothesis U_nodup : NoDup U.

Lemma missl_cons_le V f a : NoDup V -> missl V a <= S (missl V (f :: a)).
Proof.
  intros Hnd. unfold missl. induction Hnd as [|u r Hnin _ IH]; cbn [filter length]; [lia|].
  destruct (mem u a) eqn:Ea.
  - rewrite (sub_cons f a u Ea). cbn [negb]. exact IH.
  - cbn [negb length]. destruct (mem u (f :: a)) eqn:Ef; cbn [negb length]; [|lia].
    (* u = f: no other element of r is f, so the rest is unchanged *)
    assert (u = f) as ->.
    { unfold mem in Ef, Ea. cbn in Ef. rewrite Ea, orb_false_r in Ef. apply N.eqb_eq in Ef. exact Ef. }
    assert (Hsame : filter (fun u => negb (mem u (f :: a))) r = filter (fun u => negb (mem u a)) r).
    { clear IH. induction r as [|x r IHr]; [reflexivity|]. cbn [filter].
      assert (x <> f) by (intros ->; apply Hnin; left; reflexivity).
      assert (mem x (f :: a) = mem x a) as ->.
      { unfold mem. cbn [existsb]. replace (N.eqb x f) with false by (symmetry; apply N.eqb_neq; assumption). reflexivity. }
      rewrite IHr; [reflexivity | intros Hin; apply Hnin; right; exact Hin]. }
    rewrite Hsame. lia.
Qed.

Lemma g_builtin_has n f feats : mem f (g_builtin builtins (S n) f feats) = true.
Proof.
  cbn [g_builtin]. destruct (mem f feats) eqn:Ef; [exact Ef|].
  destruct (assoc f builtins) as [b|]; [|apply mem_cons_self].
  assert (S : sub (f :: feats)
    (fold_left (fun acc c => if mem c (b_flags b) then g_builtin builtins n c acc else acc) (map fst builtins)
       (fold_left (fun acc c => g_builtin builtins n c acc) (rev (b_features b)) (f :: feats)))).
  { eapply sub_trans.
    - apply (fold_sub (fun acc c => g_builtin builtins n c acc)). intros acc a. apply g_builtin_sub.
    - apply (fold_sub (fun acc c => if mem c (b_flags b) then g_builtin builtins n c acc else acc)).
      intros acc a. destruct (mem a (b_flags b)); [apply g_builtin_sub | apply sub_refl]. }
  apply S. apply mem_cons_self.
Qed.

Variable gc : gitcfg.
Hypothesis U_custom : forall f s, assoc f (custom gc) = Some s -> In f U.

Lemma g_flags_sub n s feats : sub feats (g_flags builtins n s feats).
Proof.
  unfold g_flags. apply (fold_sub (fun acc c => if mem c (s_flags s) then g_builtin builtins n c acc else acc)).
  intros acc a. destruct (mem a (s_flags s)); [apply g_builtin_sub | apply sub_refl].
Qed.

Lemma g_rec_sub n : forall f feats, sub (f :: feats) (g_rec builtins n gc f feats) \/ n = 0.
Proof.
  destruct n as [|n]; [right; reflexivity|]. left. revert f feats.
  induction n as [|n IH]; intros f feats; cbn [g_rec].
  - eapply sub_trans; [|apply g_flags_sub].
    assert (H1 : sub (f :: feats) (if is_builtin builtins f then g_builtin builtins 1 f feats else f :: feats)).
    { destruct (is_builtin builtins f); [|apply sub_refl].
      intros x Hx. unfold mem in Hx. cbn in Hx. apply orb_true_iff in Hx. destruct Hx as [Hx|Hx].
      - apply N.eqb_eq in Hx. subst x. apply g_builtin_has.
      - apply g_builtin_sub. exact Hx. }
    destruct (s_features (sec_of gc f)) as [ch|]; [|exact H1].
    eapply sub_trans; [exact H1|].
    apply (fold_sub (fun acc c => if mem c acc then acc else g_rec builtins 0 gc c acc)).
    intros acc a. destruct (mem a acc); apply sub_refl.
  - eapply sub_trans; [|apply g_flags_sub].
    assert (H1 : sub (f :: feats) (if is_builtin builtins f then g_builtin builtins (S (S n)) f feats else f :: feats)).
    { destruct (is_builtin builtins f); [|apply sub_refl].
      intros x Hx. unfold mem in Hx. cbn in Hx. apply orb_true_iff in Hx. destruct Hx as [Hx|Hx].
      - apply N.eqb_eq in Hx. subst x. apply g_builtin_has.
      - apply g_builtin_sub. exact Hx. }
    destruct (s_features (sec_of gc f)) as [ch|]; [|exact H1].
    eapply sub_trans; [exact H1|].
    apply (fold_sub (fun acc c => if mem c acc then acc else g_rec builtins (S n) gc c acc)).
    intros acc a. destruct (mem a acc); [apply sub_refl|].
    eapply sub_trans; [apply sub_cons | apply IH].
Qed.

Lemma g_rec_sub' n f feats : sub feats (g_rec builtins n gc f feats).
Proof.
  destruct (g_rec_sub n f feats) as [H| ->]; [|apply sub_refl].
  eapply sub_trans; [apply sub_cons | exact H].
Qed.

(* a name that is neither built in nor a custom section is just recorded *)
Lemma g_rec_outside n c acc : ~ In c U -> g_rec builtins (S n) gc c acc = c :: acc.
Proof.
  intros Hc. cbn [g_rec]. unfold is_builtin.
  destruct (assoc c builtins) as [b|] eqn:Eb; [exfalso; apply Hc; exact (U_builtins c b Eb)|].
  unfold sec_of. destruct (assoc c (custom gc)) as [s|] eqn:Es; [exfalso; apply Hc; exact (U_custom c s Es)|].
  cbn. unfold g_flags. cbn.
  induction (map fst builtins) as [|x r IH]; [reflexivity | exact IH].
Qed.

Lemma In_dec_name (c : name) l : {In c l} + {~ In c l}.
Proof. apply in_dec. apply N.eq_dec. Qed.

Theorem g_rec_stable k : forall n m f feats, miss (f :: feats) <= k -> S k < n -> S k < m ->
  g_rec builtins n gc f feats = g_rec builtins m gc f feats.
Proof.
  induction k as [|k IH]; intros n m f feats Hk Hn Hm;
    (destruct n as [|n]; [lia|]); (destruct m as [|m]; [lia|]); cbn [g_rec].
  - (* nothing is missing above f :: feats: children inside U are present already *)
    pose proof (missl_cons_le U f feats U_nodup) as Hf. fold (miss feats) in Hf. fold (miss (f :: feats)) in Hf.
    assert (E1 : (if is_builtin builtins f then g_builtin builtins (S n) f feats else f :: feats) =
                 (if is_builtin builtins f then g_builtin builtins (S m) f feats else f :: feats)).
    { destruct (is_builtin builtins f); [|reflexivity]. apply (g_builtin_stable (miss feats)); lia. }
    rewrite <- E1. set (feats1 := if is_builtin builtins f then _ else _).
    assert (S1 : sub (f :: feats) feats1).
    { subst feats1. destruct (is_builtin builtins f); [|apply sub_refl].
      intros x Hx. unfold mem in Hx. cbn in Hx. apply orb_true_iff in Hx. destruct Hx as [Hx|Hx].
      - apply N.eqb_eq in Hx. subst x. apply g_builtin_has.
      - apply g_builtin_sub. exact Hx. }
    assert (Hstep : forall acc c, sub feats1 acc ->
       (if mem c acc then acc else g_rec builtins n gc c acc) = (if mem c acc then acc else g_rec builtins m gc c acc) /\
       sub acc (if mem c acc then acc else g_rec builtins n gc c acc)).
    { intros acc c Hs. destruct (mem c acc) eqn:Ec; [split; [reflexivity | apply sub_refl]|].
      split; [|apply g_rec_sub'].
      destruct (In_dec_name c U) as [Hin|Hout].
      - pose proof (miss_cons c acc Hin Ec). pose proof (miss_sub _ _ (sub_trans _ _ _ S1 Hs)). lia.
      - destruct n as [|n]; [lia|]. destruct m as [|m]; [lia|]. rewrite !g_rec_outside by assumption. reflexivity. }
    assert (E2 : match s_features (sec_of gc f) with
                 | Some ch => fold_left (fun acc c => if mem c acc then acc else g_rec builtins n gc c acc) (rev ch) feats1
                 | None => feats1 end =
                 match s_features (sec_of gc f) with
                 | Some ch => fold_left (fun acc c => if mem c acc then acc else g_rec builtins m gc c acc) (rev ch) feats1
                 | None => feats1 end /\
                 sub feats1 match s_features (sec_of gc f) with
                 | Some ch => fold_left (fun acc c => if mem c acc then acc else g_rec builtins n gc c acc) (rev ch) feats1
                 | None => feats1 end).
    { destruct (s_features (sec_of gc f)) as [ch|]; [|split; [reflexivity | apply sub_refl]].
      apply (fold_stable _ _ feats1 (rev ch) Hstep feats1 (sub_refl _)). }
    destruct E2 as [E2 S2]. rewrite <- E2. set (feats2 := match s_features (sec_of gc f) with Some _ => _ | None => _ end) in *.
    unfold g_flags.
    apply (fold_stable (fun acc c => if mem c (s_flags (sec_of gc f)) then g_builtin builtins (S n) c acc else acc)
                       (fun acc c => if mem c (s_flags (sec_of gc f)) then g_builtin builtins (S m) c acc else acc) feats2).
    + intros acc c Hs. destruct (mem c (s_flags (sec_of gc f))); [|split; [reflexivity | apply sub_refl]].
      split; [|apply g_builtin_sub].
      apply (g_builtin_stable (miss acc)); [lia | |];
        pose proof (miss_sub _ _ (sub_trans _ _ _ S1 (sub_trans _ _ _ S2 Hs))); lia.
    + apply sub_refl.
  - pose proof (missl_cons_le U f feats U_nodup) as Hf. fold (miss feats) in Hf. fold (miss (f :: feats)) in Hf.
    assert (E1 : (if is_builtin builtins f then g_builtin builtins (S n) f feats else f :: feats) =
                 (if is_builtin builtins f then g_builtin builtins (S m) f feats else f :: feats)).
    { destruct (is_builtin builtins f); [|reflexivity]. apply (g_builtin_stable (miss feats)); lia. }
    rewrite <- E1. set (feats1 := if is_builtin builtins f then _ else _).
    assert (S1 : sub (f :: feats) feats1).
    { subst feats1. destruct (is_builtin builtins f); [|apply sub_refl].
      intros x Hx. unfold mem in Hx. cbn in Hx. apply orb_true_iff in Hx. destruct Hx as [Hx|Hx].
      - apply N.eqb_eq in Hx. subst x. apply g_builtin_has.
      - apply g_builtin_sub. exact Hx. }
    assert (Hstep : forall acc c, sub feats1 acc ->
       (if mem c acc then acc else g_rec builtins n gc c acc) = (if mem c acc then acc else g_rec builtins m gc c acc) /\
       sub acc (if mem c acc then acc else g_rec builtins n gc c acc)).
    { intros acc c Hs. destruct (mem c acc) eqn:Ec; [split; [reflexivity | apply sub_refl]|].
      split; [|apply g_rec_sub'].
      destruct (In_dec_name c U) as [Hin|Hout].
      - apply IH; [|lia|lia].
        pose proof (miss_cons c acc Hin Ec). pose proof (miss_sub _ _ (sub_trans _ _ _ S1 Hs)). lia.
      - destruct n as [|n]; [lia|]. destruct m as [|m]; [lia|]. rewrite !g_rec_outside by assumption. reflexivity. }
    assert (E2 : match s_features (sec_of gc f) with
                 | Some ch => fold_left (fun acc c => if mem c acc then acc else g_rec builtins n gc c acc) (rev ch) feats1
                 | None => feats1 end =
                 match s_features (sec_of gc f) with
                 | Some ch => fold_left (fun acc c => if mem c acc then acc else g_rec builtins m gc c acc) (rev ch) feats1
                 | None => feats1 end /\
                 sub feats1 match s_features (sec_of gc f) with
                 | Some ch => fold_left (fun acc c => if mem c acc then acc else g_rec builtins n gc c acc) (rev ch) feats1
                 | None => feats1 end).
    { destruct (s_features (sec_of gc f)) as [ch|]; [|split; [reflexivity | apply sub_refl]].
      apply (fold_stable _ _ feats1 (rev ch) Hstep feats1 (sub_refl _)). }
    destruct E2 as [E2 S2]. rewrite <- E2. set (feats2 := match s_features (sec_of gc f) with Some _ => _ | None => _ end) in *.
    unfold g_flags.
    apply (fold_stable (fun acc c => if mem c (s_flags (sec_of gc f)) then g_builtin builtins (S n) c acc else acc)
                       (fun acc c => if mem c (s_flags (sec_of gc f)) then g_builtin builtins (S m) c acc else acc) feats2).
    + intros acc c Hs. destruct (mem c (s_flags (sec_of gc f))); [|split; [reflexivity | apply sub_refl]].
      split; [|apply g_builtin_sub].
      apply (g_builtin_stable (miss acc)); [lia | |];
        pose proof (miss_sub _ _ (sub_trans _ _ _ S1 (sub_trans _ _ _ S2 Hs))); lia.
    + apply sub_refl.
Qed.

Corollary g_rec_enough_fuel n m f feats : S (length U) < n -> S (length U) < m ->
  g_rec builtins n gc f feats = g_rec builtins m gc f feats.
Proof. intros Hn Hm. apply (g_rec_stable (length U)); [apply miss_le_U | exact Hn | exact Hm]. Qed.

End Term.

Lemma fold_ext {A B} (F G : A -> B -> A) l : (forall a b, F a b = G a b) -> forall a, fold_left F l a = fold_left G l a.
Proof. intros H. induction l as [|b r IH]; intros a; cbn; [reflexivity | rewrite H; apply IH]. Qed.

(* the whole gathering: any two fuels above the number of distinct names (+1) agree, so the
   model's fuel never decides a result — the recursion of the code terminates on every
   configuration, including feature lists that mention each other *)
Theorem gather_enough_fuel builtins order U c gc0 n m :
  (forall f b, assoc f builtins = Some b -> In f U) -> NoDup U ->
  (forall f s, assoc f (custom gc0) = Some s -> In f U) ->
  S (length U) < n -> S (length U) < m ->
  gather builtins order n c gc0 = gather builtins order m c gc0.
Proof.
  intros Hb Hnd Hc Hn Hm. unfold gather.
  set (gc := if c_no_gitconfig c then mkGc empty_section [] else gc0).
  assert (Hcg : forall f s, assoc f (custom gc) = Some s -> In f U).
  { subst gc. destruct (c_no_gitconfig c); [cbn; discriminate | exact Hc]. }
  destruct (match c_env c with
            | Some (true, e) => (e ++ rev match c_features c with Some l => l | None => [] end,
                                 match c_features c with Some _ => true | None => false end)
            | Some (false, e) => (rev e, true)
            | None => (rev match c_features c with Some l => l | None => [] end,
                       match c_features c with Some _ => true | None => false end)
            end) as [input set_].
  assert (Erec : forall acc f, g_rec builtins n gc f acc = g_rec builtins m gc f acc).
  { intros acc f. apply (g_rec_enough_fuel builtins U Hb Hnd gc Hcg); assumption. }
  assert (Ebi : forall acc f, g_builtin builtins n f acc = g_builtin builtins m f acc).
  { intros acc f. apply (g_builtin_enough_fuel builtins U Hb); lia. }
  rewrite (fold_ext (fun acc f => g_rec builtins n gc f acc) (fun acc f => g_rec builtins m gc f acc) input Erec).
  set (f1 := fold_left _ input []).
  rewrite (fold_ext (fun acc f => if mem f (c_flags c) then g_builtin builtins n f acc else acc)
                    (fun acc f => if mem f (c_flags c) then g_builtin builtins m f acc else acc) order)
    by (intros a b; destruct (mem b (c_flags c)); [apply Ebi | reflexivity]).
  set (f2 := fold_left _ order f1).
  assert (E3 : (if set_ then f2 else match s_features (main gc) with
                 | Some l => fold_left (fun acc f => g_rec builtins n gc f acc) (rev l) f2 | None => f2 end) =
               (if set_ then f2 else match s_features (main gc) with
                 | Some l => fold_left (fun acc f => g_rec builtins m gc f acc) (rev l) f2 | None => f2 end)).
  { destruct set_; [reflexivity|]. destruct (s_features (main gc)); [|reflexivity]. apply fold_ext. exact Erec. }
  rewrite E3. unfold g_flags. apply fold_ext.
  intros a b. destruct (mem b (s_flags (main gc))); [apply Ebi | reflexivity].
Qed.
