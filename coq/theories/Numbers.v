(* Machine-integer side of hunk headers and line counters (C03/C05): usize parsing as
   str::parse::<usize> does it (checked multiply-add per digit), the coordinate list of a
   hunk header, and the saturating line counters. *)
From Coq Require Import List Bool NArith Lia.
Import ListNotations.
Local Open Scope N_scope.

Definition USIZE_MAX : N := 18446744073709551615.

(* digits are 0..9; Rust: result.checked_mul(10)?.checked_add(d)? *)
Fixpoint parse_digits (acc : N) (ds : list N) : option N :=
  match ds with
  | [] => Some acc
  | d :: r => let v := acc * 10 + d in
              if v <=? USIZE_MAX then parse_digits v r else None
  end.

Definition parse_usize (ds : list N) : option N :=
  match ds with [] => None | _ => parse_digits 0 ds end.

(* one file coordinate "[-+]start(,len)?" as the regex captures it: start digits, optional length digits *)
Definition coord := (list N * option (list N))%type.

Definition parse_coord (c : coord) : option (N * N) :=
  match parse_usize (fst c) with
  | None => None
  | Some n => match snd c with
              | None => Some (n, 1)
              | Some ds => match parse_usize ds with Some d => Some (n, d) | None => None end
              end
  end.

Fixpoint parse_coords (cs : list coord) : option (list (N * N)) :=
  match cs with
  | [] => Some []
  | c :: r => match parse_coord c, parse_coords r with
              | Some x, Some xs => Some (x :: xs)
              | _, _ => None
              end
  end.

(* parse_hunk_header: not a hunk header when no coordinate is found or a number does not fit *)
Definition parse_hunk_numbers (cs : list coord) : option (list (N * N)) :=
  match parse_coords cs with
  | Some [] => None
  | r => r
  end.

Definition sat_add (a b : N) : N := N.min (a + b) USIZE_MAX.

(* initialize_hunk: counters start at the first and the last coordinate; the widest number *)
Definition hunk_max (l : list (N * N)) : N := fold_right (fun x acc => N.max (sat_add (fst x) (snd x)) acc) 0 l.

(* a counter after k increments *)
Fixpoint bump (k : nat) (c : N) : N := match k with O => c | S k' => bump k' (sat_add c 1) end.
