From Coq Require Import List Bool Arith Lia.
Import ListNotations.
From DV Require Import MergeConflict.

Section Facts.
  Variable line : Type.
  Variable classify : line -> cls.
  Variable cleared : side -> bool.
  Hypothesis all_cleared : forall d, cleared d = true.

  Notation st := (st line).
  Notation step := (step line classify cleared).
  Notation run := (run line classify cleared).
  Notation mk := (Build_st line).

  Lemma store_ours ls : forall o a t out,
    Forall (body_in line classify Ours) ls ->
    fold_left step ls (mk (Inside Ours) o a t out) = mk (Inside Ours) (o ++ ls) a t out.
  Proof.
    induction ls as [|l ls IH]; intros o a t out H; cbn [fold_left].
    - now rewrite app_nil_r.
    - inversion H as [|? ? Hl Hls]; subst.
      unfold step at 2; cbn [md]. unfold body_in in Hl.
      destruct (classify l); try contradiction; unfold store; cbn [md b_ours b_anc b_theirs outp];
        rewrite IH by assumption; now rewrite <- app_assoc.
  Qed.

  Lemma store_anc ls : forall o a t out,
    Forall (body_in line classify Anc) ls ->
    fold_left step ls (mk (Inside Anc) o a t out) = mk (Inside Anc) o (a ++ ls) t out.
  Proof.
    induction ls as [|l ls IH]; intros o a t out H; cbn [fold_left].
    - now rewrite app_nil_r.
    - inversion H as [|? ? Hl Hls]; subst.
      unfold step at 2; cbn [md]. unfold body_in in Hl.
      destruct (classify l); try contradiction; unfold store; cbn [md b_ours b_anc b_theirs outp];
        rewrite IH by assumption; now rewrite <- app_assoc.
  Qed.

  Lemma store_theirs ls : forall o a t out,
    Forall (body_in line classify Theirs) ls ->
    fold_left step ls (mk (Inside Theirs) o a t out) = mk (Inside Theirs) o a (t ++ ls) out.
  Proof.
    induction ls as [|l ls IH]; intros o a t out H; cbn [fold_left].
    - now rewrite app_nil_r.
    - inversion H as [|? ? Hl Hls]; subst.
      unfold step at 2; cbn [md]. unfold body_in in Hl.
      destruct (classify l); try contradiction; unfold store; cbn [md b_ours b_anc b_theirs outp];
        rewrite IH by assumption; now rewrite <- app_assoc.
  Qed.

  Lemma step_begin l o a t out : classify l = CBegin ->
    step (mk Outside o a t out) l = mk (Inside Ours) o a t out.
  Proof. intros H. unfold step, MergeConflict.step; cbn [md]. now rewrite H. Qed.
  Lemma step_ancmark l o a t out : classify l = CAncMark ->
    step (mk (Inside Ours) o a t out) l = mk (Inside Anc) o a t out.
  Proof. intros H. unfold step, MergeConflict.step; cbn [md]. now rewrite H. Qed.
  Lemma step_sep l d o a t out : classify l = CSep -> d <> Theirs ->
    step (mk (Inside d) o a t out) l = mk (Inside Theirs) o a t out.
  Proof. intros H Hd. unfold step, MergeConflict.step; cbn [md]. rewrite H. destruct d; try reflexivity. now contradiction Hd. Qed.
  Lemma step_end l d o a t out : classify l = CEnd ->
    step (mk (Inside d) o a t out) l = paint line cleared (mk (Inside d) o a t out).
  Proof. intros H. unfold step, MergeConflict.step; cbn [md]. rewrite H. now destruct d. Qed.

  Lemma paint_shown d o a t out :
    paint line cleared (mk (Inside d) o a t out)
    = mk Outside [] [] [] (out ++ [OBar] ++ (OHdr Ours :: map OMinus a ++ map OPlus o)
                               ++ (OHdr Theirs :: map OMinus a ++ map OPlus t) ++ [OBar]).
  Proof.
    unfold paint, clr, comparison; cbn [md b_ours b_anc b_theirs outp]. now rewrite !all_cleared.
  Qed.

  (* one whole region, started with empty buffers: exactly the two comparisons, buffers empty again *)
  Lemma region_step r out :
    region_ok line classify r ->
    fold_left step (region_lines line r) (mk Outside [] [] [] out)
    = mk Outside [] [] [] (out ++ region_shown line r).
  Proof.
    intros (Hb & Ho & Ha & Hs & Ht & He).
    unfold region_lines, region_shown, anc_lines. cbn [fold_left].
    rewrite (step_begin _ _ _ _ _ Hb).
    rewrite fold_left_app, store_ours by assumption. cbn [app].
    destruct (r_anc line r) as [[m a]|].
    - destruct Ha as [Hm Ha].
      rewrite fold_left_app. cbn [fold_left].
      rewrite (step_ancmark _ _ _ _ _ Hm), store_anc by assumption. cbn [app fold_left].
      rewrite (step_sep _ _ _ _ _ _ Hs) by discriminate.
      rewrite fold_left_app, store_theirs by assumption. cbn [app fold_left].
      now rewrite (step_end _ _ _ _ _ _ He), paint_shown.
    - cbn [app fold_left].
      rewrite (step_sep _ _ _ _ _ _ Hs) by discriminate.
      rewrite fold_left_app, store_theirs by assumption. cbn [app fold_left].
      now rewrite (step_end _ _ _ _ _ _ He), paint_shown.
  Qed.

  Lemma item_step i out :
    item_ok line classify i ->
    fold_left step (item_lines line i) (mk Outside [] [] [] out)
    = mk Outside [] [] [] (out ++ item_shown line i).
  Proof.
    destruct i as [l|r]; intros H.
    - cbn [item_lines item_shown fold_left]. unfold step; cbn [md b_ours b_anc b_theirs outp].
      cbn [item_ok] in H. destruct (classify l); try reflexivity. now contradiction H.
    - now apply region_step.
  Qed.

  Lemma items_from is : forall out,
    Forall (item_ok line classify) is ->
    fold_left step (concat (map (item_lines line) is)) (mk Outside [] [] [] out)
    = mk Outside [] [] [] (out ++ concat (map (item_shown line) is)).
  Proof.
    induction is as [|i is IH]; intros out H; cbn [map concat fold_left].
    - now rewrite app_nil_r.
    - inversion H as [|? ? Hi His]; subst.
      rewrite fold_left_app, item_step, IH by assumption. now rewrite <- app_assoc.
  Qed.

  (* every stream of hunk lines and well-formed conflict regions: each region is shown as its own
     two comparisons — ours / theirs lines once, ancestor lines once per comparison, nothing of an
     earlier region — in input order, and no line is left in a buffer *)
  Theorem regions_shown is :
    Forall (item_ok line classify) is ->
    run (concat (map (item_lines line) is))
    = mk Outside [] [] [] (concat (map (item_shown line) is)).
  Proof.
    intros H. unfold run, MergeConflict.run, init. now rewrite items_from.
  Qed.
End Facts.

(* the hypothesis is needed: when `clear` leaves the ancestral buffer alone, the second region
   shows the first region's ancestor lines again *)
Section Refuted.
  Definition cl (n : nat) : cls := match n with 0 => CBegin | 1 => CAncMark | 2 => CSep | 3 => CEnd | _ => CBody end.
  Definition leaky (d : side) : bool := match d with Anc => false | _ => true end.
  Definition reg (o a t : nat) : region nat :=
    {| r_begin := 0; r_ours := [o]; r_anc := Some (1, [a]); r_sep := 2; r_theirs := [t]; r_end := 3 |}.
  Example stale_ancestor_shown_again :
    let is := [IRegion nat (reg 10 11 12); IRegion nat (reg 20 21 22)] in
    Forall (item_ok nat cl) is /\
    outp nat (run nat cl leaky (concat (map (item_lines nat) is))) <> concat (map (item_shown nat) is).
  Proof.
    split.
    - repeat constructor.
    - vm_compute. discriminate.
  Qed.
End Refuted.
