(* Facts about style strings: attributes may appear anywhere, colours by position, the
   printed form parses back to the same style, painting shows exactly the style. *)
From Coq Require Import List Bool NArith Arith Lia.
Import ListNotations.
From DV Require Import AnsiTerm AnsiTermProofs ParseStyle.

Definition is_colourish (w : word) : bool :=
  match w with WSyntax | WAuto | WColor _ => true | _ => false end.

Definition colourish (ws : list word) : list word := filter is_colourish ws.
Definition noncolour (ws : list word) : list word := filter (fun w => negb (is_colourish w)) ws.

(* non-colour words never fail *)
Definition nc_step (s : pst) (w : word) : pst :=
  match w with
  | WAttr a => mkS (set_attr a (cur s)) (seen_fg s) (seen_bg s) (fg_auto s) (bg_auto s)
                   (seen_omit s) (seen_raw s) (p_omit s) (p_raw s) (p_syntax s)
  | WOmit => mkS (cur s) (seen_fg s) (seen_bg s) (fg_auto s) (bg_auto s)
                 true (seen_raw s) true (p_raw s) (p_syntax s)
  | WRaw => mkS (cur s) (seen_fg s) (seen_bg s) (fg_auto s) (bg_auto s)
                (seen_omit s) true (p_omit s) true (p_syntax s)
  | _ => s
  end.

Definition apply_nc (s : pst) (ws : list word) : pst := fold_left nc_step ws s.

Lemma pstep_nc d s w : is_colourish w = false -> pstep d s w = inl (nc_step s w).
Proof. destruct w; cbn; try discriminate; reflexivity. Qed.

(* a colour word commutes with a non-colour word *)
Lemma set_attr_fg a c s : set_attr a (set_fg c s) = set_fg c (set_attr a s).
Proof. destruct a; reflexivity. Qed.
Lemma set_attr_bg a c s : set_attr a (set_bg c s) = set_bg c (set_attr a s).
Proof. destruct a; reflexivity. Qed.

Lemma pstep_commute d s w n :
  is_colourish w = true -> is_colourish n = false ->
  pstep d (nc_step s n) w = match pstep d s w with inl s' => inl (nc_step s' n) | inr e => inr e end.
Proof.
  intros Hw Hn. destruct w; try discriminate; destruct n; try discriminate; cbn;
    destruct (seen_fg s); cbn; try destruct (seen_bg s); cbn;
    rewrite ?set_attr_fg, ?set_attr_bg; reflexivity.
Qed.

Lemma pstep_commute_list d w : is_colourish w = true ->
  forall ns s, forallb (fun n => negb (is_colourish n)) ns = true ->
  pstep d (apply_nc s ns) w =
  match pstep d s w with inl s' => inl (apply_nc s' ns) | inr e => inr e end.
Proof.
  intros Hw. induction ns as [|n r IH]; intros s Hf; cbn [apply_nc fold_left].
  - destruct (pstep d s w); reflexivity.
  - cbn in Hf. apply andb_true_iff in Hf. destruct Hf as [Hn Hr]. apply negb_true_iff in Hn.
    fold (apply_nc (nc_step s n) r). rewrite (IH _ Hr), (pstep_commute d s w n Hw Hn).
    destruct (pstep d s w); reflexivity.
Qed.

Lemma noncolour_all ws : forallb (fun n => negb (is_colourish n)) (noncolour ws) = true.
Proof.
  unfold noncolour. induction ws as [|w r IH]; cbn; [reflexivity|].
  destruct (is_colourish w) eqn:E; cbn; [exact IH | rewrite E; exact IH].
Qed.

(* C12: attribute words (and omit/raw/the hunk-header flags) may stand anywhere: the result
   is the same as with all of them first, followed by the colour words in their order. *)
Theorem ploop_canonical d ws : forall s,
  ploop d s ws = ploop d (apply_nc s (noncolour ws)) (colourish ws).
Proof.
  induction ws as [|w r IH]; intros s; [reflexivity|].
  cbn [ploop]. unfold noncolour, colourish. cbn [filter].
  destruct (is_colourish w) eqn:E; cbn [negb].
  - fold (noncolour r). fold (colourish r). cbn [ploop].
    rewrite (pstep_commute_list d w E (noncolour r) s (noncolour_all r)).
    destruct (pstep d s w) as [s'|e]; [apply IH | reflexivity].
  - fold (noncolour r). fold (colourish r). rewrite (pstep_nc d s w E).
    cbn [apply_nc fold_left]. fold (apply_nc (nc_step s w) (noncolour r)). apply IH.
Qed.

Corollary parse_order_insensitive d ws1 ws2 :
  noncolour ws1 = noncolour ws2 -> colourish ws1 = colourish ws2 -> parse d ws1 = parse d ws2.
Proof. intros H1 H2. unfold parse. rewrite (ploop_canonical d ws1), (ploop_canonical d ws2), H1, H2. reflexivity. Qed.

(* colours by position: first colour = foreground, second = background *)
Theorem parse_two_colours ns c1 c2 :
  forallb (fun n => negb (is_colourish n)) ns = true ->
  exists p, parse None (ns ++ [WColor c1; WColor c2]) = POk p /\
            fg (sty p) = c1 /\ bg (sty p) = c2 /\ syntax p = false.
Proof.
  intros Hn. unfold parse.
  assert (G : forall s, seen_fg s = false -> seen_bg s = false -> p_syntax s = false ->
            exists s', ploop None s (ns ++ [WColor c1; WColor c2]) = inl s' /\
                       fg (cur s') = c1 /\ bg (cur s') = c2 /\ p_syntax s' = false).
  { induction ns as [|n r IH]; intros s F B Sy.
    - cbn. rewrite F. cbn. rewrite B. cbn. eexists. split; [reflexivity|]. auto.
    - cbn in Hn. apply andb_true_iff in Hn. destruct Hn as [H1 H2]. apply negb_true_iff in H1.
      cbn [app ploop]. rewrite (pstep_nc None s n H1).
      apply (IH H2); destruct n; try discriminate; cbn; assumption. }
  destruct (G pinit eq_refl eq_refl eq_refl) as (s' & E & F & B & Sy). rewrite E.
  eexists. split; [reflexivity|]. cbn. auto.
Qed.

Theorem parse_three_colours_rejected d ws c1 c2 c3 r :
  colourish ws = c1 :: c2 :: c3 :: r -> exists e, parse d ws = PErr e.
Proof.
  intros H. unfold parse. rewrite ploop_canonical, H.
  set (s := apply_nc pinit (noncolour ws)).
  assert (F : seen_fg s = false /\ seen_bg s = false).
  { subst s. generalize (noncolour ws). intros l.
    assert (G : forall t, seen_fg t = false /\ seen_bg t = false -> seen_fg (apply_nc t l) = false /\ seen_bg (apply_nc t l) = false).
    { induction l as [|n l IH]; intros t Ht; cbn; [exact Ht|]. apply IH. destruct n; cbn; exact Ht. }
    apply G. split; reflexivity. }
  destruct F as [F B].
  assert (C1 : is_colourish c1 = true /\ is_colourish c2 = true /\ is_colourish c3 = true).
  { assert (Hin : forall x, In x (colourish ws) -> is_colourish x = true)
      by (intros x Hx; apply filter_In in Hx; apply Hx).
    rewrite H in Hin. repeat split; apply Hin; cbn; auto. }
  destruct C1 as (K1 & K2 & K3).
  cbn [ploop].
  destruct c1; try discriminate; cbn; rewrite F; cbn;
    destruct c2; try discriminate; cbn; rewrite ?B; cbn; try (eexists; reflexivity);
    destruct c3; try discriminate; cbn; eexists; reflexivity.
Qed.

(* ---- what is printed parses back to the same style *)
Definition in_range (p : pstyle) : Prop :=
  israw p = false /\ (syntax p = true -> fg (sty p) = None).

Lemma apply_nc_app s a b : apply_nc s (a ++ b) = apply_nc (apply_nc s a) b.
Proof. unfold apply_nc. apply fold_left_app. Qed.

Lemma ploop_nc_prefix d ns : forall s rest,
  forallb (fun n => negb (is_colourish n)) ns = true ->
  ploop d s (ns ++ rest) = ploop d (apply_nc s ns) rest.
Proof.
  induction ns as [|n r IH]; intros s rest Hf; [reflexivity|].
  cbn in Hf. apply andb_true_iff in Hf. destruct Hf as [H1 H2]. apply negb_true_iff in H1.
  cbn [app ploop]. rewrite (pstep_nc d s n H1). cbn [apply_nc fold_left]. apply (IH _ _ H2).
Qed.

Lemma apply_nc_b2w s b w : apply_nc s (b2w b w) = if b then nc_step s w else s.
Proof. destruct b; reflexivity. Qed.

Definition display_nc (p : pstyle) : list word :=
  b2w (omitted p) WOmit ++
  b2w (blink (sty p)) (WAttr ABlink) ++ b2w (bold (sty p)) (WAttr ABold) ++
  b2w (dim (sty p)) (WAttr ADim) ++ b2w (hid (sty p)) (WAttr AHidden) ++
  b2w (ital (sty p)) (WAttr AItalic) ++ b2w (rev (sty p)) (WAttr AReverse) ++
  b2w (strike (sty p)) (WAttr AStrike) ++ b2w (ul (sty p)) (WAttr AUl).

Lemma b2w_nc b w : is_colourish w = false -> forallb (fun n => negb (is_colourish n)) (b2w b w) = true.
Proof. intros H. destruct b; cbn; [rewrite H|]; reflexivity. Qed.

Lemma display_nc_all p : forallb (fun n => negb (is_colourish n)) (display_nc p) = true.
Proof. unfold display_nc. rewrite !forallb_app, !b2w_nc by reflexivity. reflexivity. Qed.

(* the state after the non-colour words of the printed form *)
Lemma display_nc_state p :
  apply_nc pinit (display_nc p) =
  mkS (mk None None (bold (sty p)) (dim (sty p)) (ital (sty p)) (ul (sty p)) (blink (sty p))
          (rev (sty p)) (hid (sty p)) (strike (sty p)))
      false false false false (omitted p) false (omitted p) false false.
Proof.
  unfold display_nc. rewrite !apply_nc_app, !apply_nc_b2w.
  destruct (omitted p), (blink (sty p)), (bold (sty p)), (dim (sty p)), (hid (sty p)),
    (ital (sty p)), (rev (sty p)), (strike (sty p)), (ul (sty p)); reflexivity.
Qed.

Theorem display_roundtrip p : in_range p -> parse None (display p) = POk p.
Proof.
  intros [Hr Hs]. unfold parse, display. rewrite Hr.
  match goal with |- context [ploop None pinit ?l] =>
    replace l with (display_nc p ++ ([if syntax p then WSyntax else WColor (fg (sty p))] ++
                      match bg (sty p) with Some c => [WColor (Some c)] | None => [] end))
      by (unfold display_nc; rewrite <- !app_assoc; reflexivity) end.
  rewrite (ploop_nc_prefix None (display_nc p) pinit _ (display_nc_all p)), display_nc_state.
  destruct p as [st om rw sy]. cbn [israw sty omitted syntax] in *. subst rw.
  destruct st as [f b bo di it u bl rv hd sk]. cbn [blink bold dim hid ital rev strike ul fg bg] in *.
  destruct sy.
  - rewrite (Hs eq_refl). destruct b; reflexivity.
  - destruct b; reflexivity.
Qed.

(* ---- painting shows exactly the style, and ends in the default rendition *)
Theorem paint_exact (s : style) (t : list N) :
  wf_style s -> decode plain (ansi_strings [(s, t)]) = ([(s, t)], plain).
Proof. intros W. apply ansi_strings_balanced. constructor; [exact W | constructor]. Qed.
