(* The merge-conflict model instantiated with the marker strings and the `clear()` behaviour read
   from src/handlers/merge_conflict.rs (GenMerge.v). *)
From Coq Require Import List Bool NArith String.
Import ListNotations.
From DV Require Import Text MergeConflict MergeConflictFacts GenMerge.

(* char::is_whitespace (Unicode White_Space) — str::trim() *)
Definition is_ws (c : N) : bool :=
  ((9 <=? c) && (c <=? 13) || (c =? 32) || (c =? 133) || (c =? 160) || (c =? 5760)
   || ((8192 <=? c) && (c <=? 8202)) || (c =? 8232) || (c =? 8233) || (c =? 8239) || (c =? 8287) || (c =? 12288))%N.

(* parse_merge_marker(line, marker).is_some(): the marker, then something that is not blank *)
Definition has_marker (m l : text) : bool :=
  match strip_prefix m l with
  | Some rest => existsb (fun c => negb (is_ws c)) rest
  | None => false
  end.

Definition code_classify (l : text) : cls :=
  if has_marker code_marker_begin l then CBegin
  else if has_marker code_marker_anc l then CAncMark
  else if starts_with code_marker_sep l then CSep
  else if has_marker code_marker_end l then CEnd
  else CBody.

Lemma code_all_cleared : forall d, code_cleared d = true.
Proof. intros []; reflexivity. Qed.

Definition code_run (ls : list text) : st text := run text code_classify code_cleared ls.

(* non-vacuity: a two-region stream meets the hypotheses of the theorem *)
Definition ex_region (o a t : string) : region text :=
  {| r_begin := lit "++<<<<<<< HEAD"; r_ours := [lit o]; r_anc := Some (lit "++||||||| base", [lit a]);
     r_sep := lit "++======="; r_theirs := [lit t]; r_end := lit "++>>>>>>> topic" |}.
Example ex_items_ok :
  Forall (item_ok text code_classify)
         [IHunk text (lit "  ctx"); IRegion text (ex_region " +x" "++y" "+ z"); IRegion text (ex_region " +p" "++q" "+ r")].
Proof. repeat constructor; vm_compute; discriminate. Qed.
