(* C01 — every hunk line is shown exactly once, in order, with its text intact.
   Statements only, over the line state machine model Delta.v (tied to the code by the
   correspondence check of tools/check_c01.py). *)
From Coq Require Import String.
From Coq Require Import List Bool NArith ZArith.
Import ListNotations.
From DV Require Import Text Delta DeltaFacts DeltaOrder MinusCounter MinusCounterFacts GenCounter.

(* The history of a state: everything rendered so far, in the order in which it reaches
   the writer = written ++ output buffer ++ buffered removed lines ++ buffered added lines.

   From ANY state (whatever input came before: other files, other hunks, a hunk cut short,
   buffered lines of any number), a hunk header line followed by its body lines extends the
   history by exactly one hunk-header item and then one item per body line, in input order,
   each being the line with only its marker column removed and its tabs expanded
   ([body_item]); for every tab width, buffer size and both settings of color_only. *)
Theorem C01_hunk_once_in_order : forall c s i r frag n body,
  parse_hunk_header (64%N :: 64%N :: r) = Some (frag, n) ->
  Forall (fun l => body_line l = true) body -> body <> [] ->
  all_items (steps c (number_from i ((64%N :: 64%N :: r) :: body)) s) =
  all_items s ++ [(i, IHunkHeader frag n (64%N :: 64%N :: r))] ++ render_body c (S i) body.
Proof. exact hunk_once_in_order. Qed.

(* One body line, from any hunk state: exactly that line is added (plus the pending hunk
   header if it is the first), and the bookkeeping invariant is kept. *)
Theorem C01_body_line_step : forall c s i l,
  in_hunk s = true -> body_line l = true -> HInv s ->
  all_items (step c s (i, l)) = all_items s ++ hdr_items s ++ [(i, body_item c l)] /\
  HInv (step c s (i, l)) /\ in_hunk (step c s (i, l)) = true /\ hdr_items (step c s (i, l)) = [].
Proof. exact hunk_body_step. Qed.

(* What is written is never revised: the written output only grows, for every line. *)
Theorem C01_written_only_grows : forall c s il, exists d, out (step c s il) = out s ++ d.
Proof. exact ext_step. Qed.

(* The history is append-only along every execution of the unified view: nothing that has
   been rendered is dropped, duplicated or overtaken by something rendered later.  [GI] is
   the invariant "removed/added lines are buffered only in hunk states"; [sides] is the one
   local side condition on the input: a mode line or a "Binary files" line does not arrive
   while removed/added lines are buffered (git prints such lines only in file headers). *)
Theorem C01_history_append_only : forall c, color_only c = false -> forall ls s,
  GI s -> sides c s ls ->
  (exists d, all_items (steps c ls s) = all_items s ++ d) /\ GI (steps c ls s).
Proof. exact steps_append. Qed.

(* End to end: wherever a hunk stands in the input, the final output contains its header
   item and then its body lines — once, contiguously, in input order, each with only the
   marker column removed and tabs expanded. *)
Theorem C01_hunk_in_final_output : forall c, color_only c = false ->
  forall pre r frag n body post,
  let hdr := 64%N :: 64%N :: r in
  let input := pre ++ (hdr :: body) ++ post in
  parse_hunk_header hdr = Some (frag, n) ->
  Forall (fun l => body_line l = true) body -> body <> [] ->
  sides c init (number_from 0 input) ->
  exists A B,
    run c input =
    A ++ [(length pre, IHunkHeader frag n hdr)] ++ render_body c (S (length pre)) body ++ B.
Proof. exact hunk_in_final_output. Qed.

(* the side condition is decidable, and vacuous for inputs without mode/binary lines *)
Theorem C01_side_condition_decidable : forall c ls s,
  sidesb c s ls = true -> sides c s ls.
Proof. exact sidesb_sides. Qed.

(* Non-vacuity: a two-file diff whose first hunk ends in changed lines followed by a
   mode-only section (the shape of repaired defect F1): every line once, in order, the
   header of the second file after the last line of the first. *)
Example C01_example :
  map snd (run (mkCfg false 4 32)
    [lit "diff --git a/x b/x"%string; lit "--- a/x"%string; lit "+++ b/x"%string; lit "@@ -1,2 +1,2 @@"%string;
     lit " c"%string; lit "-o"%string; lit "+n"%string; lit "diff --git a/y b/y"%string; lit "old mode 100644"%string;
     lit "new mode 100755"%string]) =
  [IFileHeader (lit "x"%string) []; IHunkHeader [] 1 (lit "@@ -1,2 +1,2 @@"%string); ILine KZero (lit "c"%string);
   ILine KMinus (lit "o"%string); ILine KPlus (lit "n"%string); IFileHeader (lit "y"%string) (lit "mode +x"%string)].
Proof. vm_compute. reflexivity. Qed.

(* ... and that input satisfies the side condition of the two theorems above *)
Example C01_example_side_condition :
  sidesb (mkCfg false 4 32) init (number_from 0
    [lit "diff --git a/x b/x"%string; lit "--- a/x"%string; lit "+++ b/x"%string; lit "@@ -1,2 +1,2 @@"%string;
     lit " c"%string; lit "-o"%string; lit "+n"%string; lit "diff --git a/y b/y"%string; lit "old mode 100644"%string;
     lit "new mode 100755"%string]) = true.
Proof. vm_compute. reflexivity. Qed.

(* Plain `diff -u` output: a removed line whose text begins with "-- " looks like a `--- ` file
   header.  The code counts, after each hunk line, exactly the old-file lines (read from the
   source on every run) ... *)
Theorem C01_code_counts_old_lines :
  (forall k, code_counted k = is_old k) /\ code_relevant_if_gt = RELEVANT_IF_GT /\ code_expect_header_le = BinNums.Z0.
Proof. split; [intros k; destruct k; reflexivity | split; reflexivity]. Qed.

(* ... so inside a hunk whose header announces its true number of old-file lines, a `--- ` line
   is a removed line as long as old-file lines remain (it is shown as a hunk line, not swallowed
   as a header), for every hunk shape ... *)
Theorem C01_diffu_removed_line_not_header : forall pre k post c0,
  must_count c0 = true -> is_old k = true ->
  three_dashes_expected (after code_counted (arm c0 (n_counted is_old (pre ++ k :: post))) pre) = false.
Proof. intros pre k post c0. exact (inside_hunk_not_a_header code_counted pre k post c0 (proj1 C01_code_counts_old_lines)). Qed.

(* ... and after the last line of the hunk the next `--- ` line is a file header again, with the
   counter still armed for the next hunk *)
Theorem C01_diffu_header_after_hunk : forall body c0, must_count c0 = true ->
  three_dashes_expected (after code_counted (arm c0 (n_counted is_old body)) body) = true /\
  must_count (after code_counted (arm c0 (n_counted is_old body)) body) = true.
Proof. intros body c0. exact (after_hunk_header_expected code_counted body c0 (proj1 C01_code_counts_old_lines)). Qed.

From DV Require Import MergeConflict MergeConflictFacts GenMerge MergeConflictInst.

(* Merge-conflict regions of a combined diff (src/handlers/merge_conflict.rs).  `clear()` empties all
   three buffers (read from the source on every run) ... *)
Theorem C01_conflict_buffers_all_cleared : forall d, code_cleared d = true.
Proof. exact code_all_cleared. Qed.

(* ... so for every stream of hunk lines and well-formed conflict regions (any number of regions, any
   number of lines on each side, with or without an ancestor section), each region is shown as
   exactly its own two comparisons against the ancestor — ancestor lines once per comparison, each
   side's lines once, in input order, nothing left over from an earlier region — every other line
   goes on to the hunk-line handler in input order, and no line stays in a buffer. *)
Theorem C01_conflict_regions_shown : forall is,
  Forall (item_ok text code_classify) is ->
  code_run (concat (map (item_lines text) is))
  = Build_st text Outside [] [] [] (concat (map (item_shown text) is)).
Proof. intros is. exact (regions_shown text code_classify code_cleared code_all_cleared is). Qed.

(* the hypothesis on `clear()` is necessary: a `clear()` that leaves the ancestral buffer alone shows
   the first region's ancestor lines again in the second *)
Theorem C01_conflict_stale_buffer_refuted :
  let is := [IRegion nat (reg 10 11 12); IRegion nat (reg 20 21 22)] in
  Forall (item_ok nat cl) is /\
  outp nat (run nat cl leaky (concat (map (item_lines nat) is))) <> concat (map (item_shown nat) is).
Proof. exact stale_ancestor_shown_again. Qed.

(* The submodule short-form handler sits before the hunk-line handler.  Its shape is pinned from the
   source on every run (GenSubmodule.v); it takes a line out of the ordinary hunk-line path only when
   the line is a submodule pointer line of the marker its state expects (the repaired defect F34 was
   that any line with the prefix was taken and then dropped).  What it does with pointer lines is the
   known finding F33. *)
From DV Require Import Submodule SubmoduleFacts GenSubmodule.

Theorem C01_submodule_handler_is_modelled : submodule_handler_is_modelled = true.
Proof. reflexivity. Qed.

Theorem C01_submodule_claims_only_pointer_lines : forall co st l r,
  sub_handle co st l = Some r ->
  (st = AfterHunkHeader /\ exists c, sub_pointer (lit "-") l = Some c) \/
  (exists m, st = HeldMinus m /\ exists c, sub_pointer (lit "+") l = Some c).
Proof. exact claims_only_pointer_lines. Qed.
