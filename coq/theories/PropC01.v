(* C01 — placeholder while the proofs are being built; replaced below. *)
From DV Require Import Text Delta.
Example C01_placeholder : Delta.rows_of (mkCfg false 4 32) (IRaw nil) = 1.
Proof. reflexivity. Qed.
