(* Precedence facts about option resolution (Options.v). *)
From Coq Require Import List Bool NArith Arith.
Import ListNotations.
From DV Require Import Options.

Section Facts.
Variable builtins : list (name * builtin).
Variable flag_order : list name.

Notation resolve := (resolve builtins flag_order).
Notation gather := (gather builtins flag_order).
Notation from_features := (from_features builtins).

(* 1. a value given on the command line wins *)
Theorem cli_wins fuel c gc d v : c_value c = Some v -> resolve fuel c gc d = v.
Proof. intros H. unfold Options.resolve. rewrite H. reflexivity. Qed.

(* 2. then the main [delta] section; inside it GIT_CONFIG_PARAMETERS overrides the file *)
Theorem main_section_beats_features fuel c gc d v :
  c_value c = None -> c_no_gitconfig c = false -> sec_value (main gc) = Some v ->
  resolve fuel c gc d = v.
Proof. intros H1 H2 H3. unfold Options.resolve. rewrite H1, H2, H3. reflexivity. Qed.

Theorem env_parameter_overrides_file s v : s_env_value s = Some v -> sec_value s = Some v.
Proof. intros H. unfold sec_value. rewrite H. reflexivity. Qed.

Theorem file_value_without_env_parameter s : s_env_value s = None -> sec_value s = s_value s.
Proof. intros H. unfold sec_value. rewrite H. reflexivity. Qed.

(* 3. then the features, scanned from the highest priority; what a feature contributes is its
   custom section's value if it has one, else the built-in's own value *)
Definition feature_value (gc : gitcfg) (f : name) : option value :=
  match sec_value (sec_of gc f) with
  | Some v => Some v
  | None => match assoc f builtins with Some b => b_value b | None => None end
  end.

Lemma from_features_spec gc l :
  from_features gc l =
  match find (fun f => match feature_value gc f with Some _ => true | None => false end) l with
  | Some f => feature_value gc f
  | None => None
  end.
Proof.
  induction l as [|f r IH]; [reflexivity|]. cbn [Options.from_features find].
  unfold feature_value at 1.
  destruct (sec_value (sec_of gc f)) as [v|] eqn:E1.
  - unfold feature_value. rewrite E1. reflexivity.
  - destruct (assoc f builtins) as [b|] eqn:E2.
    + destruct (b_value b) as [v|] eqn:E3.
      * unfold feature_value. rewrite E1, E2, E3. reflexivity.
      * exact IH.
    + exact IH.
Qed.

Theorem highest_priority_feature_wins gc hi f lo v :
  Forall (fun g => feature_value gc g = None) hi -> feature_value gc f = Some v ->
  from_features gc (hi ++ f :: lo) = Some v.
Proof.
  intros Hhi Hf. rewrite from_features_spec.
  induction hi as [|g r IH]; cbn [app find].
  - rewrite Hf. exact Hf.
  - inversion Hhi as [|? ? Hg Hr]; subst. rewrite Hg. apply IH. exact Hr.
Qed.

Theorem custom_section_beats_builtin_of_same_name gc f v :
  sec_value (sec_of gc f) = Some v -> feature_value gc f = Some v.
Proof. intros H. unfold feature_value. rewrite H. reflexivity. Qed.

Theorem resolve_from_features fuel c gc d :
  c_value c = None -> c_no_gitconfig c = false -> sec_value (main gc) = None ->
  resolve fuel c gc d =
  match from_features gc (rev (gather fuel c gc)) with Some v => v | None => d end.
Proof. intros H1 H2 H3. unfold Options.resolve. rewrite H1, H2, H3. reflexivity. Qed.

(* 4. the built-in default comes last *)
Theorem default_last fuel c gc d :
  c_value c = None -> c_no_gitconfig c = false -> sec_value (main gc) = None ->
  Forall (fun f => feature_value gc f = None) (rev (gather fuel c gc)) ->
  resolve fuel c gc d = d.
Proof.
  intros H1 H2 H3 H4. rewrite (resolve_from_features fuel c gc d H1 H2 H3), from_features_spec.
  induction (rev (gather fuel c gc)) as [|f r IH]; [reflexivity|].
  inversion H4 as [|? ? Hf Hr]; subst. cbn [find]. rewrite Hf. apply IH. exact Hr.
Qed.

(* 5. --no-gitconfig ignores every gitconfig source: the result is the one for the empty
   gitconfig *)
Definition without_flag (c : cli) : cli :=
  mkCli (c_value c) (c_features c) (c_env c) (c_flags c) false.

Theorem no_gitconfig_ignores fuel c gc d :
  c_no_gitconfig c = true ->
  resolve fuel c gc d = resolve fuel (without_flag c) (mkGc empty_section []) d.
Proof.
  intros H. unfold Options.resolve, Options.gather, without_flag. cbn [c_no_gitconfig c_value c_features c_env c_flags].
  rewrite H. reflexivity.
Qed.
End Facts.
