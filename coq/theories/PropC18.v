(* C18 — exit status and pager protocol.  Statements only. *)
From Coq Require Import List Bool Arith ZArith.
Import ListNotations.
From DV Require Import Pager PagerFacts.

(* precedence: --pager / delta.pager, then DELTA_PAGER, then BAT_PAGER / PAGER (binary only),
   then less *)
Theorem C18_config_wins : forall r a o ws dp bp p,
  select r a o (Some ws) dp bp p = launch r a o (mkChoice ws false SConfig).
Proof. exact config_wins. Qed.

Theorem C18_delta_pager_wins : forall r a o ws bp p,
  select r a o None (Some ws) bp p = launch r a o (mkChoice ws false SDeltaPager).
Proof. exact delta_pager_wins. Qed.

Theorem C18_bat_pager_wins : forall r a o b ws p,
  select r a o None None (Some (b :: ws)) p = launch r a o (mkChoice [b] true SEnvPager).
Proof. exact bat_pager_wins. Qed.

Theorem C18_default_is_less : forall r a o,
  select r a o None None None None = launch r a o (mkChoice [less_word] true SEnvPager).
Proof. exact default_is_less. Qed.

(* a pager taken from PAGER is never one that cannot show colours, nor delta itself *)
Theorem C18_pager_env_never_colourless : forall r a o ws b args,
  select r a o None None None (Some ws) = Spawn b args ->
  stem b <> MORE /\ stem b <> MOST /\ stem b <> SELF.
Proof. exact pager_env_never_colourless. Qed.

(* less passes colours through whenever its arguments are delta's to choose *)
Theorem C18_less_gets_raw : forall r a o c b args,
  launch r a o c = Spawn b args -> stem b = LESS ->
  (replace_args c = true \/ tl (cmd c) = []) -> In ARaw args.
Proof. exact less_gets_raw. Qed.

Theorem C18_user_args_kept : forall r a o c b args w ws,
  cmd c = w :: ws -> ws <> [] -> replace_args c = false ->
  launch r a o c = Spawn b args -> b = w /\ args = map AUser ws.
Proof. exact user_args_kept. Qed.

(* exit status: a reader that goes away ends delta quietly with 0; stdin mode exits 0;
   the differ's / the wrapped command's status is passed through *)
Theorem C18_broken_pipe_silent : forall c, exit_status c WBrokenPipe = 0%Z.
Proof. exact broken_pipe_silent. Qed.

Theorem C18_stdin_exit_zero : exit_status CStdin WOk = 0%Z.
Proof. exact stdin_exit_zero. Qed.

Theorem C18_status_passthrough : forall s,
  exit_status (CDiff s) WOk = s /\ exit_status (CSub (Some s)) WOk = s.
Proof. exact status_passthrough. Qed.

Example C18_example :
  select (fun _ => true) true false None None None (Some [mkWord MORE 7; mkWord 9 8]) =
  Spawn less_word [ARaw; AQuit].
Proof. vm_compute. reflexivity. Qed.

(* Which differ `delta A B` starts.  The guard is translated from the source on every run
   (GenDiffer.v): a git older than 2.42 — which would compare the link, not the content — is never
   handed an operand that comes from process substitution; ordinary files always go to git; git from
   2.42 on gets everything. *)
From DV Require Import Differ GenDiffer DifferFacts.

Theorem C18_old_git_never_gets_a_pipe : forall v pm pp,
  version_ge v (2, 42)%N = false -> pm || pp = true -> code_use_git v pm pp = false.
Proof. exact old_git_never_gets_a_pipe. Qed.

Theorem C18_ordinary_files_use_git : forall v, code_use_git v false false = true.
Proof. exact ordinary_files_use_git. Qed.

Theorem C18_new_git_gets_everything : forall v pm pp, version_ge v (2, 42)%N = true -> code_use_git v pm pp = true.
Proof. exact new_git_always. Qed.
