From Coq Require Import List Bool NArith Lia.
Import ListNotations.
From DV Require Import GenVte Vte VteFacts Ingest.
Local Open Scope N_scope.

Lemma split_none l : split_last_cr l = None <-> ~ In CR l.
Proof.
  induction l as [|x r IH]; cbn [split_last_cr In]; [tauto|].
  destruct (split_last_cr r) as [[a b]|] eqn:E.
  - split; [discriminate|]. intros H. exfalso. apply H. right.
    destruct (in_dec N.eq_dec CR r) as [Hi|Hn]; [exact Hi|]. apply IH in Hn. discriminate.
  - destruct (N.eqb_spec x CR) as [->|Hx].
    + split; [discriminate|]. intros H. exfalso. apply H. now left.
    + split; [intros _|reflexivity]. intros [H|H]; [now apply Hx|]. now apply (proj1 IH eq_refl).
Qed.

(* the split is at the last CR: nothing after it is a CR *)
Lemma split_at_last a b : ~ In CR b -> split_last_cr (a ++ CR :: b) = Some (a, b).
Proof.
  intros Hb. induction a as [|x a IH]; cbn [app split_last_cr].
  - apply split_none in Hb. rewrite Hb. now rewrite N.eqb_refl.
  - now rewrite IH.
Qed.

Lemma split_some l a b : split_last_cr l = Some (a, b) -> l = a ++ CR :: b /\ ~ In CR b.
Proof.
  revert a b. induction l as [|x r IH]; intros a b; cbn [split_last_cr]; [discriminate|].
  destruct (split_last_cr r) as [[a' b']|] eqn:E.
  - intros H. injection H as <- <-. destruct (IH a' b' eq_refl) as [-> Hn]. split; [reflexivity|exact Hn].
  - destruct (N.eqb_spec x CR) as [->|Hx]; [|discriminate].
    intros H. injection H as <- <-. split; [reflexivity|]. now apply split_none.
Qed.

Section Width.
  Variable width0 : list N -> bool.

  Theorem drop_cr_invisible_tail body tail :
    ~ In CR tail -> width0 tail = true -> drop_cr width0 (body ++ CR :: tail) = body ++ tail.
  Proof. intros Hn Hw. unfold drop_cr. now rewrite split_at_last, Hw. Qed.

  Theorem drop_cr_visible_tail body tail :
    ~ In CR tail -> width0 tail = false -> drop_cr width0 (body ++ CR :: tail) = body ++ CR :: tail.
  Proof. intros Hn Hw. unfold drop_cr. now rewrite split_at_last, Hw. Qed.

  Theorem drop_cr_without_cr l : ~ In CR l -> drop_cr width0 l = l.
  Proof. intros Hn. unfold drop_cr. apply split_none in Hn. now rewrite Hn. Qed.

  (* at most one byte is ever removed, and it is a CR *)
  Theorem drop_cr_removes_one_cr l :
    drop_cr width0 l = l \/ exists a b, l = a ++ CR :: b /\ drop_cr width0 l = a ++ b.
  Proof.
    unfold drop_cr. destruct (split_last_cr l) as [[a b]|] eqn:E; [|now left].
    destruct (width0 b); [|now left]. right. exists a, b. split; [|reflexivity].
    now destruct (split_some l a b E).
  Qed.
End Width.

(* SGR sequences only: nothing visible *)
Lemma sgrs_invisible pss :
  forallb (forallb is_param) pss = true ->
  nothing_visible (concat (map sgr_bytes pss)) = true /\ ~ In CR (concat (map sgr_bytes pss)).
Proof.
  intros H. split.
  - unfold nothing_visible.
    assert (Hs : forallb seg_wf (map Sgr pss) = true).
    { induction pss as [|p r IH]; [reflexivity|]. cbn in *. apply andb_true_iff in H. destruct H as [H1 H2].
      now rewrite H1, IH. }
    destruct (strip_colourise (map Sgr pss) Hs) as [E _].
    assert (Eb : map seg_bytes (map Sgr pss) = map sgr_bytes pss) by (rewrite map_map; reflexivity).
    assert (Et : concat (map seg_text (map Sgr pss)) = []).
    { clear. induction pss as [|p r IH]; [reflexivity|]. cbn [map concat seg_text app]. exact IH. }
    rewrite Eb, Et in E. now rewrite E.
  - induction pss as [|p r IH]; [intros []|].
    cbn in H. apply andb_true_iff in H. destruct H as [H1 H2].
    cbn [map concat]. intros Hi. apply in_app_or in Hi. destruct Hi as [Hi|Hi]; [|now apply IH].
    unfold sgr_bytes in Hi. destruct Hi as [Hi|[Hi|Hi]]; try discriminate.
    apply in_app_or in Hi. destruct Hi as [Hi|[Hi|[]]]; [|discriminate].
    rewrite forallb_forall in H1. specialize (H1 _ Hi). unfold is_param, CR in H1.
    apply andb_true_iff in H1. destruct H1 as [H1 _]. apply N.leb_le in H1. lia.
Qed.

(* C08: a CRLF line whose carriage return git's colouring separated from the line feed by any number
   of SGR sequences (ESC[m, ESC[0m, a double reset, a whitespace-error highlight's reset ...) is
   ingested as the line without the carriage return *)
Theorem coloured_crlf_is_plain body pss :
  forallb (forallb is_param) pss = true ->
  drop_cr nothing_visible (body ++ CR :: concat (map sgr_bytes pss)) = body ++ concat (map sgr_bytes pss).
Proof.
  intros H. destruct (sgrs_invisible pss H) as [Hv Hn]. now apply drop_cr_invisible_tail.
Qed.

Example crlf_long_reset :
  ingest (map N.of_nat [45; 111; 108; 100; 13; 27; 91; 48; 109]%nat) = map N.of_nat [45; 111; 108; 100; 27; 91; 48; 109]%nat.
Proof. vm_compute. reflexivity. Qed.

Example progress_cr_kept :
  ingest (map N.of_nat [49; 48; 37; 13; 50; 48; 37]%nat) = map N.of_nat [49; 48; 37; 13; 50; 48; 37]%nat.
Proof. vm_compute. reflexivity. Qed.
