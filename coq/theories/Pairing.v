(* The line-pairing loop of edits::infer_edits: removed and added lines of a block are paired
   greedily, left to right — C06 (pairs never cross, every line once, in order).  Whether two
   lines are close enough is an oracle [close i j] (it is computed from the token alignment's
   distance and the thresholds). *)
From Coq Require Import List Bool Arith Lia.
Import ListNotations.
From DV Require Import Realign.

Section Pairing.
  Variable close : nat -> nat -> bool.

  (* the first added line at or after [pi] (looking at [n] of them) that is close to removed line [mi] *)
  Fixpoint find_partner (mi pi n : nat) : option nat :=
    match n with
    | O => None
    | S n' => if close mi pi then Some pi else find_partner mi (S pi) n'
    end.

  (* added lines pi .. pi+k-1 emitted as unpaired *)
  Definition unpaired_plus (pi k : nat) : list ent := map ER (seq pi k).

  (* the loop over removed lines mi .. mi+m-1, with added lines pi .. p-1 still to place *)
  Fixpoint pair_from (m mi pi p : nat) : list ent :=
    match m with
    | O => unpaired_plus pi (p - pi)
    | S m' =>
        match find_partner mi pi (p - pi) with
        | Some j => unpaired_plus pi (j - pi) ++ EB mi j :: pair_from m' (S mi) (S j) p
        | None => EL mi :: pair_from m' (S mi) pi p
        end
    end.

  Definition line_alignment (m p : nat) : list ent := pair_from m 0 0 p.
End Pairing.

(* the close-enough oracle as a matrix (rows: removed lines), for running the model *)
Definition close_of (mx : list (list bool)) (i j : nat) : bool := nth j (nth i mx []) false.
