(* Extraction of the executable models (ExtrOcamlBasic directives only). *)
Require Extraction.
Require Import ExtrOcamlBasic.
From DV Require Import Proc GenProc.
Extraction "vmodel_ext.ml" Proc.exec Proc.init Proc.results GenProc.code_params Proc.mkParams.
