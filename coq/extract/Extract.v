(* Extraction of the executable models (ExtrOcamlBasic directives only). *)
Require Extraction.
Require Import ExtrOcamlBasic.
From DV Require Import Proc GenProc Blame Text Delta DeltaOrder DeltaColorOnly AnsiTerm ParseStyle Vte Align Tokenize Options LineNo WrapLine WrapFacts Trunc Numbers GrepSections Pager Superimpose Realign Pairing MergeConflict MergeConflictInst SbsStyles GenSbs Ingest Submodule Links BlameNumbers GenBlameNumbers Differ GenDiffer.
Separate Extraction Proc.exec Proc.init Proc.results GenProc.code_params Proc.mkParams
  Blame.run Blame.init Blame.specb
  Delta.run Delta.steps Delta.number_from Delta.init Delta.out Delta.buf Delta.minus_lines Delta.plus_lines Delta.mkCfg Delta.rows_of DeltaOrder.sidesb DeltaColorOnly.safesb
  ParseStyle.parse ParseStyle.display AnsiTerm.ansi_strings AnsiTerm.decode AnsiTerm.plain Vte.strip Align.operations Tokenize.tokenize Tokenize.default_is_word
  Options.resolve Options.gather LineNo.run_unified LineNo.run_sbs WrapLine.wrap_line WrapFacts.wrap_fuel Trunc.truncate_str Numbers.parse_hunk_numbers Numbers.parse_usize Numbers.bump Numbers.hunk_max GrepSections.make_style_sections Pager.select Pager.exit_status Superimpose.superimpose Superimpose.cells Realign.realign Pairing.line_alignment Pairing.close_of MergeConflictInst.code_run MergeConflictInst.code_classify MergeConflict.outp MergeConflict.md SbsStyles.adjust GenSbs.code_guard Ingest.ingest Submodule.sub_handle Submodule.sub_shown Links.file_url GenBlameNumbers.code_blank GenDiffer.code_use_git.
