(* Extraction of the executable models (ExtrOcamlBasic directives only). *)
Require Extraction.
Require Import ExtrOcamlBasic.
From DV Require Import Proc GenProc Blame.
Separate Extraction Proc.exec Proc.init Proc.results GenProc.code_params Proc.mkParams
  Blame.run Blame.init Blame.specb.
