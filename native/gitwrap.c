/* Parent-process wrapper.  Invoked with an arbitrary argv (e.g. `git verif-harness`,
   `git diff --word-diff`): runs the command given in the environment variable
   GITWRAP_ARGV (fields separated by 0x1f) as a child, waits for it and exits with its
   status.  delta's calling-process detection reads the *parent's* argv, so the harness
   chooses what delta believes called it; `git verif-harness` makes the detection answer
   "none" at once, without scanning the process table. */
#include <stdio.h>
#include <stdlib.h>
#include <string.h>
#include <sys/wait.h>
#include <unistd.h>

int main(void) {
  char *spec = getenv("GITWRAP_ARGV");
  if (!spec) { fprintf(stderr, "gitwrap: GITWRAP_ARGV not set\n"); return 125; }
  spec = strdup(spec);
  unsetenv("GITWRAP_ARGV");
  char *argv[4096];
  int n = 0;
  char *p = spec;
  while (n < 4095) {
    argv[n++] = p;
    char *q = strchr(p, 0x1f);
    if (!q) break;
    *q = 0;
    p = q + 1;
  }
  argv[n] = NULL;
  pid_t pid = fork();
  if (pid < 0) return 125;
  if (pid == 0) { execv(argv[0], argv); perror("gitwrap: exec"); _exit(126); }
  int st = 0;
  while (waitpid(pid, &st, 0) < 0) {}
  if (WIFEXITED(st)) return WEXITSTATUS(st);
  if (WIFSIGNALED(st)) return 128 + WTERMSIG(st);
  return 125;
}
