/* LD_PRELOAD shim for the C18 check: fail writes to one file descriptor with EPIPE from the
   k-th call on (the reader "goes away" at that write), and count the calls.
   VERIF_EPIPE_FD     descriptor to watch (default 1)
   VERIF_EPIPE_AFTER  number of successful calls before every further one fails (unset: never)
   VERIF_EPIPE_COUNT  file that receives the total number of write calls seen on the descriptor */
#define _GNU_SOURCE
#include <dlfcn.h>
#include <errno.h>
#include <stdio.h>
#include <stdlib.h>
#include <string.h>
#include <sys/uio.h>
#include <unistd.h>

static ssize_t (*real_write)(int, const void *, size_t);
static ssize_t (*real_writev)(int, const struct iovec *, int);
static long seen = 0;
static int watch_fd = 1;
static long fail_after = -1;
static int inited = 0;

static void init(void) {
    if (inited) return;
    inited = 1;
    real_write = dlsym(RTLD_NEXT, "write");
    real_writev = dlsym(RTLD_NEXT, "writev");
    const char *s = getenv("VERIF_EPIPE_FD");
    if (s) watch_fd = atoi(s);
    s = getenv("VERIF_EPIPE_AFTER");
    if (s) fail_after = atol(s);
    /* only the process under test: stubs started by it inherit the environment */
    extern char *program_invocation_short_name;
    if (strcmp(program_invocation_short_name, "delta") != 0) watch_fd = -1;
}

static void record(void) {
    const char *p = getenv("VERIF_EPIPE_COUNT");
    if (!p) return;
    FILE *f = fopen(p, "w");
    if (f) { fprintf(f, "%ld\n", seen); fclose(f); }
}

ssize_t write(int fd, const void *buf, size_t n) {
    init();
    if (fd == watch_fd) {
        seen++;
        record();
        if (fail_after >= 0 && seen > fail_after) { errno = EPIPE; return -1; }
    }
    return real_write(fd, buf, n);
}

ssize_t writev(int fd, const struct iovec *iov, int cnt) {
    init();
    if (fd == watch_fd) {
        seen++;
        record();
        if (fail_after >= 0 && seen > fail_after) { errno = EPIPE; return -1; }
    }
    return real_writev(fd, iov, cnt);
}
