/* Stub executable for the C18 check: installed under several names (less, more, most, bat,
   mypager, git, rg, diff, ...).  Behaviour from the environment:
   STUB_RECORD   file to append one record to: name, argv, LESS* env, bytes read from stdin
   STUB_QUIT_AFTER  as a pager: stop reading after this many bytes and exit (reader goes away)
   STUB_OUT_FILE / STUB_EXIT  as a producer (git, rg, diff): copy that file to stdout, exit with that status
   `--version` as less: print a version banner */
#include <stdio.h>
#include <stdlib.h>
#include <string.h>
#include <unistd.h>
#include <libgen.h>
#include <signal.h>

int main(int argc, char **argv) {
    char *name = basename(argv[0]);
    int producer = !strcmp(name, "git") || !strcmp(name, "rg") || !strcmp(name, "diff") || !strcmp(name, "grep");
    if (!producer && argc >= 2 && !strcmp(argv[1], "--version")) {
        const char *v = getenv("STUB_LESS_VERSION");
        printf("less %s (GNU regular expressions)\n", v ? v : "590");
        return 0;
    }
    const char *rec = getenv("STUB_RECORD");
    if (producer && argc >= 2 && !strcmp(argv[1], "--version")) {
        const char *v = getenv("STUB_GIT_VERSION");
        printf("%s version %s\n", name, v ? v : "2.43.0");
        return 0;
    }
    if (producer) {
        const char *of = getenv("STUB_OUT_FILE");
        const char *ex = getenv("STUB_EXIT");
        const char *ef = getenv("STUB_ERR");
        if (rec) {
            FILE *r = fopen(rec, "a");
            if (r) { fprintf(r, "PRODUCER %s", name); for (int i = 1; i < argc; i++) fprintf(r, "\x1f%s", argv[i]); fprintf(r, "\n"); fclose(r); }
        }
        if (ef) fprintf(stderr, "%s\n", ef);
        if (of) {
            FILE *f = fopen(of, "rb");
            if (f) {
                char buf[65536]; size_t n;
                while ((n = fread(buf, 1, sizeof buf, f)) > 0) {
                    size_t off = 0;
                    while (off < n) {
                        ssize_t w = write(1, buf + off, n - off);
                        if (w <= 0) { fclose(f); return ex ? atoi(ex) : 0; }
                        off += (size_t)w;
                    }
                }
                fclose(f);
            }
        }
        return ex ? atoi(ex) : 0;
    }
    long quit_after = -1;
    const char *qa = getenv("STUB_QUIT_AFTER");
    if (qa) quit_after = atol(qa);
    long total = 0;
    FILE *data = NULL;
    const char *df = getenv("STUB_DATA");
    if (df) data = fopen(df, "wb");
    char buf[65536];
    for (;;) {
        size_t want = sizeof buf;
        if (quit_after >= 0 && (long)want > quit_after - total) want = (size_t)(quit_after - total);
        if (want == 0) break;
        ssize_t n = read(0, buf, want);
        if (n <= 0) break;
        if (data) fwrite(buf, 1, (size_t)n, data);
        total += n;
    }
    if (data) fclose(data);
    const char *sl = getenv("STUB_SLEEP_MS");
    if (sl) usleep((useconds_t)atol(sl) * 1000);
    if (rec) {
        FILE *r = fopen(rec, "a");
        if (r) {
            fprintf(r, "PAGER %s", name);
            for (int i = 1; i < argc; i++) fprintf(r, "\x1f%s", argv[i]);
            fprintf(r, "\tbytes=%ld\tLESSCHARSET=%s\tLESSANSIENDCHARS=%s\tLESSUTFCHARDEF=%s\n", total,
                    getenv("LESSCHARSET") ? getenv("LESSCHARSET") : "", getenv("LESSANSIENDCHARS") ? getenv("LESSANSIENDCHARS") : "",
                    getenv("LESSUTFCHARDEF") ? "set" : "");
            fclose(r);
        }
    }
    const char *st = getenv("STUB_PAGER_EXIT");
    return st ? atoi(st) : 0;
}
