(* Throw-away feasibility prototype: the minus/plus buffering core of handle_hunk_line
   preserves order and content for every body, buffer size and state history. *)
From Coq Require Import List Arith Bool Lia.
Import ListNotations.

Inductive kind := Ctx | Minus | Plus.
Definition line := (kind * nat)%type.   (* nat stands for the text *)
Record sm := mk { st : option kind; mbuf : list nat; pbuf : list nat; out : list line }.
Definition init := mk None [] [] [].
Definition painted (s:sm) : list line := map (pair Minus) (mbuf s) ++ map (pair Plus) (pbuf s).
Definition flush (s:sm) : sm := mk (st s) [] [] (out s ++ painted s).
Definition is_plus (o:option kind) := match o with Some Plus => true | _ => false end.
Definition step (B:nat) (s:sm) (l:line) : sm :=
  let s := if (B <? length (mbuf s)) || (B <? length (pbuf s)) then flush s else s in
  match fst l with
  | Minus => let s := if is_plus (st s) then flush s else s in
             mk (Some Minus) (mbuf s ++ [snd l]) (pbuf s) (out s)
  | Plus => mk (Some Plus) (mbuf s) (pbuf s ++ [snd l]) (out s)
  | Ctx => let s := flush s in mk (Some Ctx) [] [] (out s ++ [(Ctx, snd l)])
  end.
Definition run B (body : list line) : list line := out (flush (fold_left (step B) body init)).

Definition Inv (s:sm) (seen:list line) : Prop :=
  out s ++ painted s = seen /\ (pbuf s <> [] -> st s = Some Plus).

Lemma painted_nil s : mbuf s = [] -> pbuf s = [] -> painted s = [].
Proof. unfold painted; intros -> ->; reflexivity. Qed.

Lemma painted_flush s : painted (flush s) = [].
Proof. reflexivity. Qed.
Lemma out_flush s : out (flush s) = out s ++ painted s.
Proof. reflexivity. Qed.
Lemma flush_inv s seen : Inv s seen -> Inv (flush s) seen.
Proof.
  intros [H1 H2]. split.
  - rewrite painted_flush, app_nil_r, out_flush. exact H1.
  - cbn. intros C; contradiction.
Qed.

Lemma step_inv B s seen l : Inv s seen -> Inv (step B s l) (seen ++ [l]).
Proof.
  intros HI. unfold step.
  set (s1 := if (B <? length (mbuf s)) || (B <? length (pbuf s)) then flush s else s).
  assert (I1 : Inv s1 seen) by (subst s1; destruct (_ || _); [apply flush_inv|]; exact HI).
  clearbody s1. destruct l as [k t]; cbn [fst snd]. destruct k.
  - (* Ctx *) destruct (flush_inv _ _ I1) as [F1 _]. rewrite painted_flush, app_nil_r in F1. split; cbn.
    + unfold painted; cbn. rewrite app_nil_r. rewrite <- F1. reflexivity.
    + intros C; contradiction.
  - (* Minus *)
    set (s2 := if is_plus (st s1) then flush s1 else s1).
    assert (I2 : Inv s2 seen) by (subst s2; destruct (is_plus _); [apply flush_inv|]; exact I1).
    assert (P2 : pbuf s2 = []).
    { subst s2. destruct (is_plus (st s1)) eqn:E; [reflexivity|].
      destruct I1 as [_ H]. destruct (pbuf s1) as [|x xs] eqn:Ep; [reflexivity|].
      assert (st s1 = Some Plus) by (apply H; discriminate). rewrite H0 in E. discriminate. }
    clearbody s2. destruct I2 as [H1 _]. split; cbn.
    + unfold painted in *; cbn. rewrite P2 in *. cbn in *. rewrite app_nil_r in *.
      rewrite <- H1. rewrite map_app, app_assoc. reflexivity.
    + rewrite P2. intros C; contradiction.
  - (* Plus *) destruct I1 as [H1 _]. split; cbn.
    + unfold painted in *; cbn. rewrite <- H1. rewrite map_app, !app_assoc. reflexivity.
    + reflexivity.
Qed.

Lemma steps_inv B body : forall s seen, Inv s seen -> Inv (fold_left (step B) body s) (seen ++ body).
Proof.
  induction body as [|l r IH]; intros s seen HI; cbn [fold_left].
  - rewrite app_nil_r; exact HI.
  - replace (seen ++ l :: r) with ((seen ++ [l]) ++ r) by (rewrite <- app_assoc; reflexivity).
    apply IH, step_inv, HI.
Qed.

Theorem run_preserves : forall B body, run B body = body.
Proof.
  intros B body. unfold run.
  assert (I0 : Inv init []) by (split; [reflexivity | intros C; contradiction]).
  pose proof (steps_inv B body init [] I0) as HI. cbn [app] in HI.
  destruct (flush_inv _ _ HI) as [H _].
  rewrite painted_flush, app_nil_r in H. exact H.
Qed.

(* lag bound (C11): each buffer holds at most B+1 lines after every step *)
Definition Lag B (s:sm) := length (mbuf s) <= B + 1 /\ length (pbuf s) <= B + 1.
Lemma step_lag B s l : Lag B s -> Lag B (step B s l).
Proof.
  intros [Hm Hp]. unfold step.
  destruct ((B <? length (mbuf s)) || (B <? length (pbuf s))) eqn:E.
  - destruct l as [k t]; destruct k; cbn [fst snd]; unfold Lag; try destruct (is_plus _); cbn; rewrite ?app_length; cbn; lia.
  - apply orb_false_elim in E. destruct E as [E1 E2].
    apply Nat.ltb_ge in E1. apply Nat.ltb_ge in E2.
    destruct l as [k t]; destruct k; cbn [fst snd]; unfold Lag.
    + cbn; lia.
    + destruct (is_plus (st s)); cbn; rewrite ?app_length; cbn; lia.
    + cbn; rewrite ?app_length; cbn; lia.
Qed.
Print Assumptions run_preserves.
Print Assumptions step_lag.
