(* Throw-away feasibility prototype: align.rs table + trace-back; the trace is a valid edit script
   whenever both token lists start with the same token (the "" that tokenize() inserts). *)
From Coq Require Import List Arith Bool Lia.
Import ListNotations.

Section Align.
Variable T : Type.
Variable eqb : T -> T -> bool.
Hypothesis eqb_eq : forall a b, eqb a b = true <-> a = b.
Variable d : T.
Variables x y : list T.

Inductive op := N | D | I.
Record cell := mkc { cost : nat; cop : op }.
Definition pen (c:cell) := match cop c with N => 1 | _ => 0 end.
(* candidates in the order of Alignment::fill: Insertion(up), Deletion(left), NoOp(diag); first minimum wins *)
Definition choose (up left diag : cell) (eq : bool) : cell :=
  let ci := cost up + 2 + pen up in
  let cd := cost left + 2 + pen left in
  let best := if cd <? ci then mkc cd D else mkc ci I in
  if eq && (cost diag <? cost best) then mkc (cost diag) N else best.

Fixpoint C (i:nat) : nat -> cell :=
  match i with
  | 0 => fun j => match j with 0 => mkc 0 N | _ => mkc (2*j+1) I end
  | S i' => fix Cj (j:nat) : cell :=
      match j with
      | 0 => mkc (2*(S i')+1) D
      | S j' => choose (Cj j') (C i' (S j')) (C i' j') (eqb (nth i' x d) (nth j' y d))
      end
  end.

Lemma C_SS i j : C (S i) (S j) = choose (C (S i) j) (C i (S j)) (C i j) (eqb (nth i x d) (nth j y d)).
Proof. reflexivity. Qed.
Lemma C_S0 i : C (S i) 0 = mkc (2*(S i)+1) D. Proof. reflexivity. Qed.
Lemma C_0S j : C 0 (S j) = mkc (2*(S j)+1) I. Proof. reflexivity. Qed.

(* parent index == 0 in the Rust table: first row, first column, or the diagonal step from the origin *)
Definition stop (i j:nat) (c:cell) : bool :=
  (i =? 0) || (j =? 0) || ((i =? 1) && (j =? 1) && match cop c with N => true | _ => false end).

Fixpoint trace (fuel i j : nat) : list op :=
  match fuel with
  | 0 => []
  | S f =>
    let c := C i j in
    if stop i j c then [cop c] else
    match cop c with
    | N => trace f (i-1) (j-1) ++ [N]
    | D => trace f (i-1) j ++ [D]
    | I => trace f i (j-1) ++ [I]
    end
  end.

Inductive ok : list op -> list T -> list T -> Prop :=
| ok_nil : ok [] [] []
| ok_N ops a b t : ok ops a b -> ok (ops ++ [N]) (a ++ [t]) (b ++ [t])
| ok_D ops a b t : ok ops a b -> ok (ops ++ [D]) (a ++ [t]) b
| ok_I ops a b t : ok ops a b -> ok (ops ++ [I]) a (b ++ [t]).

Hypothesis x_nonempty : x <> [].
Hypothesis y_nonempty : y <> [].
Hypothesis same_head : nth 0 x d = nth 0 y d.

Arguments Nat.mul : simpl never.
Arguments Nat.add : simpl never.

Lemma C11 : C 1 1 = mkc 0 N.
Proof.
  rewrite C_SS. rewrite C_S0, C_0S. cbn [C].
  replace (eqb (nth 0 x d) (nth 0 y d)) with true by (symmetry; apply eqb_eq; exact same_head).
  unfold choose; cbn [cost cop pen]. reflexivity.
Qed.

Lemma row1 : forall i, 2 <= i -> C i 1 = mkc (2*(i-1)+1) D.
Proof.
  intros i Hi. destruct i as [|[|i]]; try lia. clear Hi.
  induction i as [|i IH].
  - rewrite C_SS, C_S0, C11, C_S0. unfold choose; cbn [cost cop pen].
    destruct (eqb _ _); reflexivity.
  - rewrite C_SS. rewrite IH. rewrite !C_S0. unfold choose; cbn [cost cop pen].
    replace (2 * (S (S i) - 1) + 1 + 2 + 0 <? 2 * S (S (S i)) + 1 + 2 + 0) with true by (symmetry; apply Nat.ltb_lt; lia).
    cbn [cost].
    replace (2 * S (S i) + 1 <? 2 * (S (S i) - 1) + 1 + 2 + 0) with false by (symmetry; apply Nat.ltb_ge; lia).
    rewrite andb_false_r. f_equal. lia.
Qed.

Lemma col1 : forall j, 2 <= j -> C 1 j = mkc (2*(j-1)+1) I.
Proof.
  intros j Hj. destruct j as [|[|j]]; try lia. clear Hj.
  induction j as [|j IH].
  - rewrite C_SS, C11, !C_0S. unfold choose; cbn [cost cop pen].
    destruct (eqb _ _); reflexivity.
  - rewrite C_SS. rewrite IH. rewrite !C_0S. unfold choose; cbn [cost cop pen].
    replace (2 * S (S (S j)) + 1 + 2 + 0 <? 2 * (S (S j) - 1) + 1 + 2 + 0) with false by (symmetry; apply Nat.ltb_ge; lia).
    cbn [cost].
    replace (2 * S (S j) + 1 <? 2 * (S (S j) - 1) + 1 + 2 + 0) with false by (symmetry; apply Nat.ltb_ge; lia).
    rewrite andb_false_r. f_equal. lia.
Qed.

(* a chosen NoOp pairs equal tokens *)
Lemma choose_N up left diag eq : cop (choose up left diag eq) = N -> eq = true.
Proof.
  unfold choose. destruct eq; [reflexivity|]. cbn [andb].
  destruct (_ <? _); cbn; discriminate.
Qed.

Lemma firstn_snoc (l:list T) n : n < length l -> firstn (S n) l = firstn n l ++ [nth n l d].
Proof.
  revert n; induction l as [|a l IH]; intros n H; cbn in H; [lia|].
  destruct n; [reflexivity|].
  change (firstn (S (S n)) (a :: l)) with (a :: firstn (S n) l).
  change (firstn (S n) (a :: l)) with (a :: firstn n l).
  change (nth (S n) (a :: l) d) with (nth n l d).
  rewrite IH by lia. reflexivity.
Qed.

Theorem trace_valid : forall n i j, i + j <= n -> 1 <= i <= length x -> 1 <= j <= length y ->
  ok (trace n i j) (firstn i x) (firstn j y).
Proof.
  induction n as [|n IH]; intros i j Hn Hi Hj; [lia|].
  cbn [trace].
  destruct (stop i j (C i j)) eqn:Hs.
  - (* stopped: must be (1,1) with NoOp *)
    unfold stop in Hs. destruct i as [|[|i]]; [lia| |].
    + destruct j as [|[|j]]; [lia| |].
      * rewrite C11. cbn [cop].
        change [N] with ([] ++ [N]).
        destruct x as [|x0 xs]; [contradiction|]. destruct y as [|y0 ys]; [contradiction|].
        cbn in same_head. subst y0. cbn [firstn]. change [x0] with ([] ++ [x0]). apply ok_N, ok_nil.
      * cbn in Hs. discriminate.
    + destruct j; [lia|]. cbn in Hs. discriminate.
  - destruct (cop (C i j)) eqn:O.
    + (* NoOp *)
      destruct i as [|i]; [lia|]. destruct j as [|j]; [lia|].
      assert (E : eqb (nth i x d) (nth j y d) = true) by (rewrite C_SS in O; eapply choose_N; eauto).
      apply eqb_eq in E.
      destruct i as [|i].
      { destruct j as [|j]; [rewrite C11 in Hs; cbn in Hs; discriminate|].
        rewrite col1 in O by lia. cbn in O. discriminate. }
      destruct j as [|j].
      { rewrite row1 in O by lia. cbn in O. discriminate. }
      replace (S (S i) - 1) with (S i) by lia. replace (S (S j) - 1) with (S j) by lia.
      rewrite (firstn_snoc x (S i)) by lia. rewrite (firstn_snoc y (S j)) by lia. rewrite <- E.
      apply ok_N. apply IH; lia.
    + (* Deletion *)
      destruct i as [|i]; [lia|]. destruct j as [|j]; [lia|].
      destruct i as [|i].
      { destruct j as [|j]; [rewrite C11 in O; cbn in O; discriminate|].
        rewrite col1 in O by lia. cbn in O. discriminate. }
      replace (S (S i) - 1) with (S i) by lia.
      rewrite (firstn_snoc x (S i)) by lia. apply ok_D. apply IH; lia.
    + (* Insertion *)
      destruct i as [|i]; [lia|]. destruct j as [|j]; [lia|].
      destruct j as [|j].
      { destruct i as [|i]; [rewrite C11 in O; cbn in O; discriminate|].
        rewrite row1 in O by lia. cbn in O. discriminate. }
      replace (S (S j) - 1) with (S j) by lia.
      rewrite (firstn_snoc y (S j)) by lia. apply ok_I. apply IH; lia.
Qed.

Corollary operations_valid :
  ok (trace (length x + length y) (length x) (length y)) x y.
Proof.
  assert (Hx : 1 <= length x) by (destruct x; [contradiction|cbn; lia]).
  assert (Hy : 1 <= length y) by (destruct y; [contradiction|cbn; lia]).
  pose proof (trace_valid (length x + length y) (length x) (length y) (le_n _) (conj Hx (le_n _)) (conj Hy (le_n _))) as H.
  rewrite !firstn_all in H. exact H.
Qed.
End Align.
Print Assumptions operations_valid.
