(* Throw-away feasibility prototype: the CALLER mutex/condvar protocol of utils/process.rs,
   lock-granularity steps, all interleavings, any number of queries. *)
From Coq Require Import List Arith Bool Lia.
Import ListNotations.

Inductive val := Pending | G | K.
Inductive bgpc := BCompute | BWantLock | BDone.
Inductive mpc := MPublish (n:nat) | MQuery (n:nat) | MWait (n:nat) | MDone.
Record st := mk { caller : val; known : bool; bg : bgpc; mn : mpc; results : list val; notified : bool }.
Inductive tid := TBg | TMain | TSpurious.

Definition is_pending v := match v with Pending => true | _ => false end.
Definition after_query n := match n with 0 => MDone | S m => match m with 0 => MDone | _ => MQuery m end end.

(* one atomic step of a thread; None = not enabled *)
Definition step (t:tid) (s:st) : option st :=
  match t with
  | TBg =>
    match bg s with
    | BCompute => Some (mk (caller s) (known s) BWantLock (mn s) (results s) (notified s))
    | BWantLock => (* lock; if source <= GUESSED then write; notify_all; unlock *)
        Some (mk (if known s then caller s else G) (known s) BDone (mn s) (results s) true)
    | BDone => None
    end
  | TMain =>
    match mn s with
    | MPublish n => (* lock; *caller = known; SOURCE = KNOWN; notify_all; unlock *)
        Some (mk K true (bg s) (match n with 0 => MDone | _ => MQuery n end) (results s) true)
    | MQuery n => (* lock; wait_while(Pending) *)
        if is_pending (caller s)
        then Some (mk (caller s) (known s) (bg s) (MWait n) (results s) false)   (* unlock+sleep atomically *)
        else Some (mk (caller s) (known s) (bg s) (after_query n) (results s ++ [caller s]) (notified s))
    | MWait n => if notified s then Some (mk (caller s) (known s) (bg s) (MQuery n) (results s) (notified s)) else None
    | MDone => None
    end
  | TSpurious => (* spurious wake-up of a waiting query *)
    match mn s with
    | MWait n => Some (mk (caller s) (known s) (bg s) (MQuery n) (results s) (notified s))
    | _ => None
    end
  end.

Fixpoint run (sched : list tid) (s:st) : st :=
  match sched with
  | [] => s
  | t :: r => match step t s with Some s' => run r s' | None => run r s end
  end.

Definition init (publish:bool) (n:nat) : st :=
  mk Pending false BCompute (if publish then MPublish n else match n with 0 => MDone | _ => MQuery n end) [] false.

Definition main_past_publish (s:st) := match mn s with MPublish _ => false | _ => true end.

Definition Inv (publish:bool) (s:st) : Prop :=
  (known s = true -> caller s = K) /\
  (bg s = BDone -> caller s <> Pending) /\
  (~ In Pending (results s)) /\
  (publish = true -> main_past_publish s = true -> known s = true) /\
  (publish = true -> forall v, In v (results s) -> v = K) /\
  (publish = false -> known s = false) /\
  (forall n, mn s = MWait n -> caller s = Pending \/ notified s = true) /\
  (forall n, mn s = MPublish n -> publish = true).

Lemma init_inv p n : Inv p (init p n).
Proof.
  unfold Inv, init; cbn. repeat split; try (intros; try discriminate; try contradiction; auto).
  all: destruct p; cbn in *; try discriminate; try reflexivity; destruct n; discriminate.
Qed.

Lemma step_inv p t s s' : Inv p s -> step t s = Some s' -> Inv p s'.
Proof.
  intros (I1 & I2 & I3 & I4 & I5 & I6 & I7 & I8) H.
  destruct t; cbn in H.
  - (* BG *)
    destruct (bg s) eqn:B; inversion H; subst; clear H; unfold Inv, main_past_publish in *; cbn.
    + repeat split; auto. intros; discriminate.
    + repeat split; auto.
      * intros Hk. rewrite Hk. auto.
      * intros _. destruct (known s) eqn:Hk; [rewrite (I1 eq_refl); discriminate | discriminate].
  - (* Main *)
    destruct (mn s) eqn:M.
    + inversion H; subst; clear H. unfold Inv, main_past_publish; cbn. repeat split; auto.
      * intros _; discriminate.
      * intros Hp. rewrite (I8 n eq_refl) in Hp. discriminate.
      * intros m Hm. destruct n; discriminate.
    + destruct (is_pending (caller s)) eqn:P; inversion H; subst; clear H; unfold Inv, main_past_publish in *; cbn.
      * repeat split; auto.
        -- rewrite M in I4. auto.
        -- intros m _. left. destruct (caller s); try discriminate; reflexivity.
        -- intros m Hm; discriminate.
      * repeat split; auto.
        -- intros Hin. apply in_app_or in Hin. destruct Hin as [Hin|[Hin|[]]]; [auto|]. rewrite Hin in P. discriminate.
        -- rewrite M in I4. intros Hp _. apply I4; auto.
        -- intros Hp v Hin. apply in_app_or in Hin. destruct Hin as [Hin|[Hin|[]]]; [auto|]. subst v.
           rewrite M in I4. apply I1, I4; auto.
        -- intros m Hm. destruct n as [|[|n]]; cbn in Hm; discriminate.
        -- intros m Hm. destruct n as [|[|n]]; cbn in Hm; discriminate.
    + destruct (notified s) eqn:Nt; inversion H; subst; clear H. unfold Inv, main_past_publish in *; cbn.
      rewrite M in I4. repeat split; auto; intros; discriminate.
    + discriminate.
  - (* spurious *)
    destruct (mn s) eqn:M; inversion H; subst; clear H. unfold Inv, main_past_publish in *; cbn.
    rewrite M in I4. repeat split; auto; intros; discriminate.
Qed.

Theorem reachable_inv p n sched : Inv p (run sched (init p n)).
Proof.
  assert (G : forall s, Inv p s -> Inv p (run sched s)).
  { induction sched as [|t r IH]; intros s Hs; cbn; [exact Hs|].
    destruct (step t s) eqn:E; [apply IH; eapply step_inv; eauto | apply IH; exact Hs]. }
  apply G, init_inv.
Qed.

(* the user-facing corollaries, for every schedule and every number of queries *)
Corollary never_pending p n sched : ~ In Pending (results (run sched (init p n))).
Proof. destruct (reachable_inv p n sched) as (_ & _ & H & _). exact H. Qed.
Corollary launched_always_reported n sched v : In v (results (run sched (init true n))) -> v = K.
Proof. destruct (reachable_inv true n sched) as (_ & _ & _ & _ & H & _). apply H. reflexivity. Qed.

(* deadlock freedom: unless everything is finished, some non-spurious thread can step *)
Definition finished s := bg s = BDone /\ mn s = MDone.
Theorem deadlock_free p n sched :
  let s := run sched (init p n) in finished s \/ step TBg s <> None \/ step TMain s <> None.
Proof.
  intros s. pose proof (reachable_inv p n sched) as HI. change (run sched (init p n)) with s in HI.
  clearbody s. destruct HI as (I1 & I2 & I3 & I4 & I5 & I6 & I7 & I8).
  destruct (bg s) eqn:B.
  - right; left. unfold step. rewrite B. discriminate.
  - right; left. unfold step. rewrite B. discriminate.
  - destruct (mn s) eqn:M.
    + right; right. unfold step. rewrite M. discriminate.
    + right; right. unfold step. rewrite M. destruct (is_pending (caller s)); discriminate.
    + right; right. unfold step. rewrite M. destruct (I7 n0 eq_refl) as [Hc|Hn].
      * exfalso. apply (I2 eq_refl). exact Hc.
      * rewrite Hn. discriminate.
    + left. split; assumption.
Qed.
Print Assumptions never_pending.
Print Assumptions launched_always_reported.
Print Assumptions deadlock_free.
