#!/usr/bin/env python3
"""Throw-away executable notes: side-by-side layout at visible-text level
(tokenize/align/annotate-distance/infer_edits pairing, wrap_line, wrap blocks, gutters, padding,
line-number bookkeeping). Differential against the real binary."""
import re, sys, random, subprocess, unicodedata, itertools
sys.path.insert(0,'/var/tmp/verif-proto')
def cw(ch):
    if ch=='\n': return 0
    return 2 if unicodedata.east_asian_width(ch) in 'WF' else 1
def wid(t): return sum(cw(c) for c in t)
# ---------- edits ----------
WORD=re.compile(r'\w+')
def tokenize(line):
    toks=['']; off=0
    for m in WORD.finditer(line):
        if off==0 and m.start()>0: toks.append('')
        toks+=list(line[off:m.start()]); toks.append(m.group(0)); off=m.end()
    if off<len(line):
        if off==0: toks.append('')
        toks+=list(line[off:])
    return toks
DEL=2;INS=2;PEN=1
def align_ops(x,y):
    W=len(x)+1;H=len(y)+1
    t=[(0,'N',0)]*(W*H)
    for i in range(1,W): t[i]=(0,'D',i*DEL+PEN)
    for j in range(1,H): t[j*W]=(0,'I',j*INS+PEN)
    idx=lambda i,j:j*W+i
    def mc(p,b): return t[p][2]+b+(PEN if t[p][1]=='N' else 0)
    for i,xi in enumerate(x):
        for j,yj in enumerate(y):
            left,diag,up=idx(i,j+1),idx(i,j),idx(i+1,j)
            c=[(up,'I',mc(up,INS)),(left,'D',mc(left,DEL)),(diag,'N',t[diag][2] if xi==yj else 10**18)]
            best=c[0]
            for k in c[1:]:
                if k[2]<best[2]: best=k
            t[idx(i+1,j+1)]=best
    cell=t[len(y)*W+len(x)]; out=[]
    while True:
        out.insert(0,cell[1])
        if cell[0]==0: break
        cell=t[cell[0]]
    return out
def rle(o):
    r=[]
    for k,g in itertools.groupby(o): r.append((k,len(list(g))))
    return r
def distance(ml,pl):
    x=tokenize(ml); y=tokenize(pl); xo=yo=0; num=den=0
    for op,n in rle(align_ops(x,y)):
        if op=='D':
            s=''.join(x[xo:xo+n]); xo+=n; d=wid(s.strip()); den+=d; num+=d
        elif op=='N':
            s=''.join(x[xo:xo+n]); xo+=n; yo+=n; den+=2*wid(s.strip())
        else:
            s=''.join(y[yo:yo+n]); yo+=n; d=wid(s.strip()); den+=d; num+=d
    return num/den if den>0 else 0.0
def infer(minus,plus,maxd=0.6):
    al=[]; pi=0
    for mi,ml in enumerate(minus):
        considered=0; found=False
        for pl in plus[pi:]:
            if distance(ml,pl)<=maxd:
                for _ in range(considered): al.append((None,pi)); pi+=1
                al.append((mi,pi)); pi+=1; found=True; break
            else: considered+=1
        if not found: al.append((mi,None))
    while pi<len(plus): al.append((None,pi)); pi+=1
    return al
# ---------- wrapping ----------
LS='↵';RS='↴';RP='…'
def graphemes(t): return list(t)
def wrap_line(text, lw, max_lines_cfg, permille=370):
    # single-section version (row boundaries are partition-independent); returns list of row strings
    result=[]; cur=''; curlen=0; stack=[text]
    max_lines=1 if lw<=1 else max_lines_cfg
    stop=None; fuel=10000
    while True:
        fuel-=1
        if fuel<0: raise RuntimeError('loop')
        if not stack: stop='empty';break
        if max_lines>0 and len(result)+1>=max_lines: stop='limit';break
        t=stack.pop(); gs=[(1,cw(c)) for c in t]; gw=sum(w for _,w in gs); new=curlen+gw
        if new<lw: cur+=t;curlen=new;must=False
        elif new==lw:
            if not stack: cur+=t;curlen=new;must=False
            else: must=True
        else: must=True
        # emulate the "\n alone on stack" rule: text always ends with \n inside same section => handled by width 0
        if must:
            wl=max(gw-(new-lw),0); wl=max(wl-1,0)
            if wl==0: nxt=t; row=cur
            else:
                pos=0
                for (l,w) in gs:
                    if wl>=w: pos+=l;wl-=w
                    else: break
                row=cur+t[:pos]; nxt=t[pos:]
            stack.append(nxt); result.append(row+LS); cur='';curlen=0
    if len(result)==1 and curlen>0:
        perm=(curlen*1000)//lw; pad=max(lw-(curlen+1),0)
        if permille>perm and pad>0:
            result[-1]=result[-1][:-1]+RS
            cur=' '*pad+RP+cur
    if curlen>0: result.append(cur)
    if stop=='limit' and len(result)!=max_lines: result.append('')
    if stack:
        if not result: result.append('')
        result[-1]+=''.join(reversed(stack))
    return result
def truncate(s,dw,tail='→'):
    if wid(s)<=dw: return s
    used=wid(tail) if wid(tail)<=dw else 0; t=tail if wid(tail)<=dw else ''
    out=''
    for c in s:
        w=cw(c)
        if used+w>dw:
            if w==2 and used<dw: out+=' '
            break
        out+=c; used+=w
    return out+t
def center(n,width):
    s=str(n)
    if len(s)>=width: return s
    pad=width-len(s); left=pad//2; 
    if width%2!=len(s)%2: left=pad-pad//2
    return ' '*left+s+' '*(pad-left)
class Sbs:
    def __init__(s,width,wrap_max=2,keep=False):
        s.width=width; s.pw=width//2; s.pwr=width//2+(width%2); s.max_lines=0 if wrap_max is None else wrap_max+1; s.keep=keep
        s.L=s.R=0; s.numw=1
    def init_hunk(s,coords):
        s.L=coords[0][0]; s.R=coords[-1][0]
        mx=max(a+b for a,b in coords); s.numw=len(str(mx)) if mx>0 else 1
    def gutter(s,n,side):
        w=max(4,s.numw); body=center(n,w) if n is not None else ' '*w
        return '│'+body+'│'
    def lw(s,side='L'): return max((s.pw if side=='L' else s.pwr)-(2+max(4,s.numw))-(1 if s.keep else 0),0)
    def panel(s,g,text,side,prefix=''):
        line=g+prefix+text
        pw=s.pw if side=='L' else s.pwr
        if wid(line)>pw: line=truncate(line,pw)
        if side=='L': line+=' '*(pw-wid(line))
        return line
    def lns(s,state,inc):
        L,R=s.L,s.R
        if state=='M': s.L+=inc; return (L,None)
        if state=='Z': s.L+=inc;s.R+=inc; return (L,R)
        if state=='P': s.R+=inc; return (None,R)
        return (None,None)
    def subhunk(s,minus,plus):
        al=infer(minus,plus); lwl=s.lw('L'); lwr=s.lw('R')
        if s.max_lines==1: wrapany=False
        else: wrapany=any(wid(t)>lwl for t in minus) or any(wid(t)>lwr for t in plus)
        if wrapany:
            new=[];sl=[];sr=[];tl=[];tr=[]
            def wr(t,lw):
                return wrap_line(t,lw,s.max_lines) if wid(t)>lw else [t]
            for (m,p) in al:
                if m is not None and p is None:
                    rows=wr(minus[m],lwl); st=len(tl); tl+=rows; new+=[(i,None) for i in range(st,st+len(rows))]; sl+=['M']+['MW']*(len(rows)-1)
                elif m is None:
                    rows=wr(plus[p],lwr); st=len(tr); tr+=rows; new+=[(None,i) for i in range(st,st+len(rows))]; sr+=['P']+['PW']*(len(rows)-1)
                else:
                    rm=wr(minus[m],lwl); rp=wr(plus[p],lwr); ms=len(tl); ps=len(tr); tl+=rm; tr+=rp
                    for a,b in zip(range(ms,ms+len(rm)),range(ps,ps+len(rp))): new.append((a,b))
                    d=len(rm)-len(rp)
                    if d>0: new+=[(a,None) for a in range(ms+len(rm)-d,ms+len(rm))]
                    elif d<0: new+=[(None,b) for b in range(ps+len(rp)+d,ps+len(rp))]
                    sl+=['M']+['MW']*(len(rm)-1); sr+=['P']+['PW']*(len(rp)-1)
            al=new
        else:
            tl=minus; tr=plus; sl=['M']*len(minus); sr=['P']*len(plus)
        out=[]
        for (m,p) in al:
            ls=sl[m] if m is not None else 'M'
            st=ls if m is not None else 'P'
            mn,_=s.lns(st,0)
            pre=''
            if s.keep and m is not None: pre=' ' if ls=='MW' else '-'
            left=s.panel(s.gutter(mn,'L'),(tl[m].rstrip('\n') if m is not None else ''),'L',pre if True else '')
            rs=sr[p] if p is not None else 'P'
            st=rs if p is not None else 'M'
            _,pn=s.lns(st,1)
            pre=''
            if s.keep and p is not None: pre=' ' if rs=='PW' else '+'
            right=s.panel(s.gutter(pn,'R'),(tr[p].rstrip('\n') if p is not None else ''),'R',pre)
            out.append(left+right)
            if ls=='MW' and rs=='P' and m is not None and p is None: s.L=max(s.L-1,0)
            elif ls in ('MW','PW'): pass
            elif m is not None and p is not None: s.L+=1
        return out
    def zero(s,text):
        lw=min(s.lw('L'),s.lw('R')); rows=wrap_line(text,lw,s.max_lines) if wid(text)>lw else [text]
        out=[]
        for i,rw in enumerate(rows):
            st='Z' if i==0 else 'ZW'
            a,_=s.lns(st,0); left=s.panel(s.gutter(a,'L'),rw.rstrip('\n'),'L',(' ' if s.keep else ''))
            _,b=s.lns(st,1); right=s.panel(s.gutter(b,'R'),rw.rstrip('\n'),'R',(' ' if s.keep else ''))
            out.append(left+right)
        return out
def render(hunks,width,wrap_max,keep,tabs=8):
    s=Sbs(width,wrap_max,keep); out=[]
    for (coords,body) in hunks:
        s.init_hunk(coords)
        minus=[];plus=[]
        def flush():
            nonlocal minus,plus
            if minus or plus: out.extend(s.subhunk(minus,plus))
            minus=[];plus=[]
        prev=None
        for l in body:
            k=l[0]; t=l[1:].replace('\t',' '*tabs)+'\n'
            if k=='-':
                if prev=='+': flush()
                minus.append(t)
            elif k=='+': plus.append(t)
            else: flush(); out.extend(s.zero(t))
            prev=k
        flush()
    return out
ANSI=re.compile(r"\x1b\[[0-9;]*[A-Za-z]")
WORDS=["foo","bar","x","let","=","1",";","  ","日本","é","(a,b)","foo_bar","baz"]
def gline(r,n=6): return "".join(r.choice(WORDS)+r.choice([" ",""]) for _ in range(r.randint(0,n)))
def edit(r,l):
    ws=l.split(' ')
    if ws and r.random()<0.8:
        i=r.randrange(len(ws)); ws[i]=r.choice(WORDS)
    return ' '.join(ws)
if __name__=='__main__':
    delta=sys.argv[1];N=int(sys.argv[2]);seed=int(sys.argv[3]);bad=0
    for i in range(N):
        r=random.Random(seed*100000+i)
        width=r.choice([30,31,40,41,60]); wm=r.choice([0,1,2,2,5,None]); keep=r.random()<0.3
        hunks=[]
        for _ in range(r.randint(1,2)):
            a=r.choice([1,9,99,998,9999,123456]); b=r.choice([1,10,100,1000,99999]); body=[]
            for _ in range(r.randint(1,4)):
                k=r.choice(' -+c')
                if k=='c':
                    ms=[gline(r,r.choice([3,6,12])) for _ in range(r.randint(1,3))]
                    ps=[edit(r,m) for m in ms]
                    if r.random()<0.3: ps.insert(r.randrange(len(ps)+1),gline(r))
                    if r.random()<0.3 and len(ms)>1: ms.pop(r.randrange(len(ms)))
                    body+=['-'+m for m in ms]+['+'+p for p in ps]
                else:
                    for _ in range(r.randint(1,2)): body.append(k+gline(r,r.choice([3,6,14])))
            nm=sum(1 for l in body if l[0] in ' -'); npl=sum(1 for l in body if l[0] in ' +')
            hunks.append(([(a,nm),(b,npl)],body))
        lines=["diff --git a/f.txt b/f.txt","index 1..2 100644","--- a/f.txt","+++ b/f.txt"]
        for (co,body) in hunks: lines+=[f"@@ -{co[0][0]},{co[0][1]} +{co[1][0]},{co[1][1]} @@"]+body
        args=[delta,"--no-gitconfig","--paging","never","--syntax-theme","none","--side-by-side","--width",str(width),"--wrap-max-lines",("unlimited" if wm is None else str(wm))]
        if keep: args.append("--keep-plus-minus-markers")
        p=subprocess.run(args,input=("\n".join(lines)+"\n").encode(),capture_output=True,timeout=20)
        real=[x.rstrip(' ') for x in ANSI.sub('',p.stdout.decode()).split('\n')[:-1]]
        # keep only rows that start with the gutter bar
        real=[x for x in real if x.startswith('│')]
        try: model=[x.rstrip(' ') for x in render(hunks,width,wm,keep)]
        except Exception as e: model=['EXC %r'%e]
        if model!=real:
            bad+=1
            if bad<=4:
                print('MISMATCH',i,width,wm,keep)
                import difflib; print('\n'.join(difflib.unified_diff(model,real,'model','real',lineterm='',n=1)))
                print('\n'.join(lines[4:]))
    print('cases',N,'bad',bad)
