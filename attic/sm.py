#!/usr/bin/env python3
"""Throw-away executable notes: delta's line state machine at visible-text level
(git two-way diffs, default styles, --syntax-theme none, fixed --width).
Mirrors src/delta.rs + handlers/*.rs closely; used only to validate understanding."""
import re, sys, random, subprocess, os

HUNK_RE = re.compile(r"@+ ([^@]+)@+(.*\s?)")
COORD_RE = re.compile(r"[-+](\d+)(?:,(\d+))?")
DIFF_PREFIXES = ["a/","b/","c/","i/","o/","w/"]
ARROW = "⟶  "

class Cfg:
    def __init__(s, width=40, tabs=8, keep_markers=False, color_only=False, line_buffer_size=32, fixed=True):
        s.width=width; s.tabs=tabs; s.keep=keep_markers or color_only; s.color_only=color_only; s.B=line_buffer_size

import unicodedata
def wid(t): return sum(2 if unicodedata.east_asian_width(ch) in "WF" else 1 for ch in t)
def expand(t,cfg): return t.replace("\t"," "*cfg.tabs) if cfg.tabs>0 else t

def parse_file_path(path, git):
    if path.startswith('"') and path.endswith('"') and len(path)>=2: path=path[1:-1]
    p = path[:-1] if path.endswith("\t") else path
    if p=="/dev/null": return p
    if git and any(p.startswith(x) for x in DIFF_PREFIXES): return p[2:]
    if git: return p
    return p.split("\t")[0]

def repeated_path(line):
    if not line.startswith("diff --git "): return None
    l=list(line[len("diff --git "):])   # graphemes ~ chars here
    if not l: raise IndexError("F5")
    mid=len(l)//2
    if l[mid]==" ":
        a=parse_file_path("".join(l[:mid]),True); b=parse_file_path("".join(l[mid+1:]),True)
        if a==b: return a
    return None

class SM:
    def __init__(s,cfg):
        s.cfg=cfg; s.state=("Unknown",); s.source=None
        s.minus_file=s.plus_file=""; s.minus_ev=s.plus_ev="NoEvent"
        s.diff_line=""; s.mode_info=""; s.cur=None; s.handled=None
        s.minus=[]; s.plus=[]; s.buf=[]; s.out=[]
    # painter
    def paint_buffered(s):
        for t in s.minus: s.buf.append(("-" if s.cfg.keep else "")+t)
        for t in s.plus: s.buf.append(("+" if s.cfg.keep else "")+t)
        s.minus=[]; s.plus=[]
    def emit(s): s.out+=s.buf; s.buf=[]
    def w(s,line): s.out.append(line)
    def should_handle(s): return True  # default styles are not raw (except commit)
    def write_file_header(s,text):
        c=s.cfg
        if not c.color_only: s.w("")
        tw=wid(text)
        if s.mode_info: text=text+" ("+s.mode_info+")"
        s.w(text)
        if not c.color_only: s.w("─"*max(c.width,tw))
        s.mode_info=""
    def describe(s):
        m,p=s.minus_file,s.plus_file
        if m==p: return m
        if p=="/dev/null": return "removed: "+m
        if m=="/dev/null": return "added: "+p
        lab={"Rename":"renamed: ","Copy":"copied: "}.get(s.minus_ev,"")
        return f"{lab}{m} {ARROW} {p}"
    def pending(s):
        if not (s.state[0]=="DiffHeader"): return
        if s.mode_info:
            name=repeated_path(s.diff_line) or ""
            s.write_file_header(name)
        elif not s.cfg.color_only and s.handled!=s.cur:
            s.write_file_header(s.describe()); s.handled=s.cur
    def emit_unchanged(s,raw): s.emit(); s.w(raw)
    def should_skip(s): return s.state[0]=="DiffHeader" and not s.cfg.color_only
    def emit_hunk_header(s,hh,line):
        s.paint_buffered(); s.emit()
        frag,coords=hh
        if s.cfg.color_only: s.w(line); return
        s.w("")
        text=(frag+" ") if frag else ""
        n=coords[-1][0]
        mid=f"{n}:"+(" " if not text else "")+expand(text,s.cfg)
        s.w("─"*wid(mid)+"┐"); s.w(mid+"│"); s.w("─"*wid(mid)+"┘")
    # ---- handlers, in the order of StateMachine::consume; each returns handled? ----
    def h_commit(s,line,raw):
        if not re.match(r"^commit ",line): return False
        s.paint_buffered(); s.pending(); s.state=("CommitMeta",)
        return False            # commit-style raw, no decoration => should_handle() false
    def h_diffstat(s,line,raw): return False   # relative_paths off
    def h_diff(s,line,raw):
        if not line.startswith("diff "): return False
        s.paint_buffered(); s.state=("DiffHeader",)
        s.pending(); s.handled=None; s.diff_line=line
        name=repeated_path(line) or ""
        s.minus_file=s.plus_file=name; s.minus_ev=s.plus_ev="Change"; s.cur=(name,name)
        if not s.should_skip(): s.emit_unchanged(raw)
        return True
    def h_fileop(s,line,raw):
        if not (s.state[0]=="DiffHeader" and line.startswith(("deleted file mode ","new file mode "))): return False
        name=repeated_path(s.diff_line) or ""
        if line.startswith("deleted"): s.minus_file=name; s.plus_file="/dev/null"
        else: s.minus_file="/dev/null"; s.plus_file=name
        s.minus_ev=s.plus_ev="Change"; s.cur=(s.minus_file,s.plus_file)
        if s.cfg.color_only: s.write_file_header(raw); return True
        return s.handled!=s.cur
    def h_minus(s,line,raw):
        if not (s.state[0]=="DiffHeader" and line.startswith(("--- ","rename from ","copy from "))): return False
        if line.startswith("--- "): s.minus_file=parse_file_path(line[4:],s.source=="git"); s.minus_ev="Change"
        elif line.startswith("rename from "): s.minus_file=line[12:]; s.minus_ev="Rename"
        else: s.minus_file=line[10:]; s.minus_ev="Copy"
        s.paint_buffered()
        if s.cfg.color_only: s.write_file_header(raw); return True
        return False
    def h_plus(s,line,raw):
        if not (s.state[0]=="DiffHeader" and line.startswith(("+++ ","rename to ","copy to "))): return False
        if line.startswith("+++ "): s.plus_file=parse_file_path(line[4:],s.source=="git"); s.plus_ev="Change"
        elif line.startswith("rename to "): s.plus_file=line[10:]; s.plus_ev="Rename"
        else: s.plus_file=line[8:]; s.plus_ev="Copy"
        s.cur=(s.minus_file,s.plus_file); s.paint_buffered()
        if s.cfg.color_only: s.write_file_header(raw); return True
        if s.handled!=s.cur:
            s.emit(); s.write_file_header(s.describe()); s.handled=s.cur
        return False
    def h_hunkheader(s,line,raw):
        if not (line.startswith("@@") and s.state[0]!="MergeConflict"): return False
        m=HUNK_RE.search(line)
        if not m: return False
        coords=[(int(a),int(b) if b else 1) for a,b in COORD_RE.findall(m.group(1))]
        s.state=("HunkHeader",(m.group(2),coords),line); return True
    def h_mode(s,line,raw):
        c=s.cfg
        if line.startswith("old mode "):
            s.state=("DiffHeader",)
            if not c.color_only: s.mode_info=line[9:]; return True
        elif line.startswith("new mode "):
            s.state=("DiffHeader",)
            if not c.color_only and s.mode_info:
                a,b=s.mode_info,line[9:]
                s.mode_info={("100644","100755"):"mode +x",("100755","100644"):"mode -x"}.get((a,b),f"mode {a} {ARROW} {b}")
                return True
        return False
    def h_misc(s,line,raw):
        if not line.startswith("Binary files "): return False
        c=s.cfg
        if not c.color_only:
            if s.minus_file=="" and s.plus_file=="":
                s.emit_unchanged(raw); s.handled=s.cur; return True
            if s.minus_file!="/dev/null": s.minus_file+=" (binary file)"
            if s.plus_file!="/dev/null": s.plus_file+=" (binary file)"
            return True
        s.paint_buffered()
        if s.state[0]!="DiffHeader": s.state=("DiffHeader",)
        s.emit(); s.write_file_header(raw); return True
    def h_hunk(s,line,raw):
        c=s.cfg; st=s.state[0]
        if st not in ("HunkHeader","HunkZero","HunkMinus","HunkPlus"): return False
        if len(s.minus)>c.B or len(s.plus)>c.B: s.paint_buffered()
        if st=="HunkHeader": s.emit_hunk_header(s.state[1],s.state[2])
        ch=line[:1]; body=expand(line[1:],c) if line else ""
        if ch=="-":
            if s.state[0]=="HunkPlus": s.paint_buffered()
            s.minus.append(body); s.state=("HunkMinus",)
        elif ch=="+": s.plus.append(body); s.state=("HunkPlus",)
        elif ch==" ":
            s.paint_buffered(); s.buf.append((" " if c.keep else "")+body); s.state=("HunkZero",)
        else:
            s.paint_buffered(); s.buf.append(expand(raw,c)); s.state=("HunkZero",)
        s.emit(); return True
    def h_unknown_state_handlers(s,line,raw):
        s.emit()     # git_show_file, blame and grep handlers all start with painter.emit()
        return False
    def step(s,line):
        raw=line
        if s.source is None:
            if line.startswith(("commit ","diff --git ","diff --cc ","diff --combined ")): s.source="git"
        for h in (s.h_commit,s.h_diffstat,s.h_diff,s.h_fileop,s.h_minus,s.h_plus,s.h_hunkheader,s.h_mode,s.h_misc,s.h_hunk,s.h_unknown_state_handlers):
            if h(line,raw): return
        if s.should_skip(): return
        s.emit_unchanged(raw)
    def finish(s):
        s.pending(); s.paint_buffered(); s.emit()

def run(lines,cfg):
    m=SM(cfg)
    for l in lines: m.step(l)
    m.finish(); return m.out

ANSI=re.compile(r"\x1b\[[0-9;]*[A-Za-z]|\x1b\][^\x1b]*\x1b\\")
def real(lines,cfg,delta):
    args=[delta,"--no-gitconfig","--paging","never","--syntax-theme","none","--width",str(cfg.width),"--tabs",str(cfg.tabs),"--line-buffer-size",str(cfg.B)]
    if cfg.keep: args.append("--keep-plus-minus-markers")
    if cfg.color_only: args.append("--color-only")
    p=subprocess.run(args,input=("\n".join(lines)+"\n").encode(),capture_output=True)
    if p.returncode!=0: return ["<<rc=%d %s>>"%(p.returncode,p.stderr[:200])]
    out=ANSI.sub("",p.stdout.decode()).split("\n")
    return [x.rstrip(" ") for x in out[:-1]]

WORDS=["foo","bar","x","let","=","1",";","\t","  ","-- c","++d","@@ z","\\ w","日本","é"]
def gline(r): return "".join(r.choice(WORDS)+r.choice([" ",""]) for _ in range(r.randint(0,5)))
def gen(r):
    out=[]
    if r.random()<0.4:
        out+=["commit "+"%040x"%r.getrandbits(160),"Author: A <a@b>","","    "+gline(r),""]
        if r.random()<0.5: out+=[" f.rs | 2 +-"," 1 file changed",""]
    paths=["a.rs","dir/b c.txt","日本.md","Makefile","x-y.z"]
    for _ in range(r.randint(1,4)):
        kind=r.choice(["mod","mod","add","del","ren","renmod","mode","modemod","bin","empty"])
        p=r.choice(paths); q=r.choice([x for x in paths if x!=p])
        def hunks():
            h=[]
            for _ in range(r.randint(1,3)):
                a=r.randint(1,99999);b=r.randint(1,99999)
                h.append(f"@@ -{a},{r.randint(0,9)} +{b},{r.randint(0,9)} @@"+r.choice([""," fn f()"," \tx"]))
                n=0
                for _ in range(r.randint(1,4)):
                    k=r.choice(" -+"); 
                    for _ in range(r.choice([1,1,2,3,5])): h.append(k+gline(r)); n+=1
                if r.random()<0.2: h.append("\\ No newline at end of file")
            return h
        if kind=="mod": out+=[f"diff --git a/{p} b/{p}","index 1..2 100644",f"--- a/{p}",f"+++ b/{p}"]+hunks()
        elif kind=="add": out+=[f"diff --git a/{p} b/{p}","new file mode 100644","index 0..2",f"--- /dev/null",f"+++ b/{p}"]+hunks()
        elif kind=="del": out+=[f"diff --git a/{p} b/{p}","deleted file mode 100644","index 1..0",f"--- a/{p}",f"+++ /dev/null"]+hunks()
        elif kind=="ren": out+=[f"diff --git a/{p} b/{q}","similarity index 100%",f"rename from {p}",f"rename to {q}"]
        elif kind=="renmod": out+=[f"diff --git a/{p} b/{q}","similarity index 90%",f"rename from {p}",f"rename to {q}","index 1..2 100644",f"--- a/{p}",f"+++ b/{q}"]+hunks()
        elif kind=="mode": out+=[f"diff --git a/{p} b/{p}","old mode 100644","new mode 100755"]
        elif kind=="modemod": out+=[f"diff --git a/{p} b/{p}","old mode 100755","new mode 100644","index 1..2",f"--- a/{p}",f"+++ b/{p}"]+hunks()
        elif kind=="bin": out+=[f"diff --git a/{p} b/{p}","index 1..2 100644",f"Binary files a/{p} and b/{p} differ"]
        elif kind=="empty": out+=[f"diff --git a/{p} b/{p}","new file mode 100644","index 0000000..e69de29"]
    return out

if __name__=="__main__":
    delta=sys.argv[1]; N=int(sys.argv[2]); seed=int(sys.argv[3]) if len(sys.argv)>3 else 0
    bad=0
    for i in range(N):
        r=random.Random(seed*100000+i)
        lines=gen(r)
        cfg=Cfg(width=r.choice([20,40]),tabs=r.choice([0,1,4,8]),keep_markers=r.random()<0.3,color_only=(r.random()<0.5),line_buffer_size=r.choice([0,1,2,32]))
        try: m=[x.rstrip(" ") for x in run(lines,cfg)]
        except Exception as e: m=["<<model exc %r>>"%e]
        o=real(lines,cfg,delta)
        if m!=o:
            bad+=1
            first=[(a,b) for a,b in zip(m+["<end>"]*5,o+["<end>"]*5) if a!=b][:1]
            print("FIRSTDIFF",i,first)
            if bad<=2:
                print("MISMATCH case",i,vars(cfg)); 
                import difflib
                print("\n".join(difflib.unified_diff(m,o,"model","real",lineterm="",n=2)))
                print("INPUT:\n"+"\n".join(lines))
    print("cases",N,"mismatches",bad)
