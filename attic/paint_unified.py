#!/usr/bin/env python3
"""Throw-away executable notes: unified-view painting at cell level (background per character):
annotate (incl. whitespace coalescing, trailing-whitespace split), infer_edits, lines_have_homolog,
update_diff_style_sections (non-emph substitution, whitespace-error rule), right fill."""
import sys,random,re,subprocess,os,itertools
sys.path.insert(0,'/var/tmp/verif-proto')
from sbs_render import tokenize, align_ops, rle, wid
import importlib.util
spec=importlib.util.spec_from_file_location('rp','/var/tmp/verif-proto/relprobe.py')
_argv=sys.argv; sys.argv=['x','/var/tmp/delta-explore/debug/delta','0','0']
rp=importlib.util.module_from_spec(spec); spec.loader.exec_module(rp); sys.argv=_argv
M,MN,ME,P,PN,PE,WS=52,53,124,22,23,28,201
def trailing_split(s):
    c=s.rstrip()
    if c!='' and c!=s.rstrip('\n'): return c
    return None
def annotate(ml,pl):
    x=tokenize(ml); y=tokenize(pl); xo=yo=0; num=den=0
    am=[];ap=[]; mprev='noopD'; pprev='noopI'
    ops=rle(align_ops(x,y))
    for op,n in ops:
        if op=='D':
            s=''.join(x[xo:xo+n]); xo+=n; d=wid(s.strip()); den+=d;num+=d; am.append(('del',s)); mprev='del'
        elif op=='N':
            s=''.join(x[xo:xo+n]); xo+=n; den+=2*wid(s.strip())
            is_space=s.strip()==''
            # y offset is advanced below; the Rust condition reads x_offset (already advanced) and y_offset (not yet)
            coalesce=is_space and ((mprev=='del' and pprev=='ins' and (xo<len(x)-1 or yo<len(y)-1)) or (mprev=='noopD' and pprev=='noopI'))
            am.append((mprev if coalesce else 'noopD',s))
            o=pprev if coalesce else 'noopI'
            ps=''.join(y[yo:yo+n]); yo+=n
            c=trailing_split(ps)
            if c is not None: ap.append((o,c)); ap.append((o,ps[len(c):]))
            else: ap.append((o,ps))
            mprev='noopD'; pprev='noopI'
        else:
            s=''.join(y[yo:yo+n]); yo+=n; d=wid(s.strip()); den+=d;num+=d; ap.append(('ins',s)); pprev='ins'
    return am,ap,(num/den if den>0 else 0.0)
def infer(minus,plus,maxd=0.6):
    am=[];ap=[];al=[];pi=0
    for mi,ml in enumerate(minus):
        considered=0;found=False
        for pl in plus[pi:]:
            a,b,d=annotate(ml,pl)
            if d<=maxd:
                for q in plus[pi:pi+considered]: ap.append([('noopI',q)]); al.append((None,pi)); pi+=1
                am.append(a);ap.append(b);al.append((mi,pi));pi+=1;found=True;break
            else: considered+=1
        if not found: am.append([('noopD',ml)]); al.append((mi,None))
    for pl in plus[pi:]:
        c=trailing_split(pl)
        ap.append([('noopI',c),('noopI',pl[len(c):])] if c is not None else [('noopI',pl)]); al.append((None,pi)); pi+=1
    return am,ap,al
def homolog(al): return [p is not None for m,p in al if m is not None],[m is not None for m,p in al if p is not None]
def styles_minus(secs,hom):
    out=[]
    for op,s in secs:
        st=ME if op=='del' else M
        if hom and op!='del': st=MN
        out.append((st,s))
    return out
def styles_plus(secs,hom):
    sty=[PE if op=='ins' else P for op,_ in secs]
    more=len(set(sty))>1 if len(secs)>1 else False
    res=list(zip(sty,[s for _,s in secs]))
    wserr=True; new=[None]*len(res)
    for k in range(len(res)-1,-1,-1):
        st,s=res[k]
        if wserr and s.strip()!='': wserr=False
        emph = st==PE
        if wserr and (emph or not more): st=WS
        elif hom and not emph:
            st=PN
            if wserr: st=WS
        new[k]=(st,s)
    return new
def cells(secs,fill):
    row=[]
    for st,s in secs:
        for ch in s:
            if ch!='\n': row.append((ch,st))
    row.append(('<K>',fill))
    return row
def model(body,tabs=8):
    out=[];minus=[];plus=[]
    def flush():
        nonlocal minus,plus
        if not(minus or plus): return
        am,ap,al=infer(minus,plus); hm,hp=homolog(al)
        for secs,h in zip(am,hm): out.append(cells(styles_minus(secs,h),MN if h else M))
        for secs,h in zip(ap,hp): out.append(cells(styles_plus(secs,h),PN if h else P))
        minus=[];plus=[]
    prev=None
    for l in body:
        k=l[0];t=l[1:].replace('\t',' '*tabs)+'\n'
        if k=='-':
            if prev=='+': flush()
            minus.append(t)
        elif k=='+': plus.append(t)
        else:
            flush(); out.append([(ch,None) for ch in t if ch!='\n'])
        prev=k
    flush(); return out
WORDS=["foo","bar","x","let","=","1",";","  "," ","日本","é","(a,b)","foo_bar","baz","\t"]
def gline(r,n=6): return "".join(r.choice(WORDS)+r.choice([" ",""]) for _ in range(r.randint(0,n)))
def edit(r,l):
    ws=l.split(' ')
    if ws and r.random()<0.8: ws[r.randrange(len(ws))]=r.choice(WORDS)
    if r.random()<0.3: ws.append(r.choice(['',' ','  ']))
    return ' '.join(ws)
if __name__=='__main__':
    D=sys.argv[1];N=int(sys.argv[2]);seed=int(sys.argv[3]);bad=0
    for i in range(N):
        r=random.Random(seed*100000+i); body=[]
        for _ in range(r.randint(1,4)):
            k=r.choice(' -+cc')
            if k=='c':
                ms=[gline(r,r.choice([3,6])) for _ in range(r.randint(1,3))]; ps=[edit(r,m) for m in ms]
                if r.random()<0.3: ps.insert(r.randrange(len(ps)+1),gline(r))
                body+=['-'+m for m in ms]+['+'+p for p in ps]
            else:
                for _ in range(r.randint(1,2)): body.append(k+gline(r))
        lines=["diff --git a/f.txt b/f.txt","index 1..2 100644","--- a/f.txt","+++ b/f.txt","@@ -1,9 +1,9 @@"]+body
        args=['--syntax-theme','none','--width','200','--minus-style',f'normal {M}','--minus-non-emph-style',f'normal {MN}','--minus-emph-style',f'normal {ME}','--plus-style',f'normal {P}','--plus-non-emph-style',f'normal {PN}','--plus-emph-style',f'normal {PE}','--whitespace-error-style',f'normal {WS}','--zero-style','normal']
        rc,o,e=rp.run(lines,args); assert rc==0,e[:300]
        rows,_=rp.decode(o)
        real=[[(c[0],(c[2][1] if c[2] else None)) for c in row] for row in rows[-len(body):]]
        mod=model(body)
        if real!=mod:
            bad+=1
            if bad<=4:
                for a,b in zip(mod,real):
                    if a!=b:
                        print('MISMATCH',i); print('  model',''.join(c[0] if c[0]!='<K>' else '|' for c in a),[c[1] for c in a]); print('  real ',''.join(c[0] if c[0]!='<K>' else '|' for c in b),[c[1] for c in b]); break
                print('\n'.join(body))
    print('cases',N,'bad',bad)
