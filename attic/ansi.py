#!/usr/bin/env python3
"""Throw-away executable notes: anstyle-parse 0.2.3 state machine + delta's AnsiElementIterator,
parse_style_sections and Style Display. Differential against `delta --parse-ansi`."""
import sys, random, subprocess, re
R=range
def rng(a,b): return range(a,b+1)
EXE='Execute';PRINT='Print';IGN='Ignore';COLLECT='Collect';PARAM='Param';NOP='Nop'
ESCD='EscDispatch';CSID='CsiDispatch';PUT='Put';OSCPUT='OscPut';UTF8='BeginUtf8'
T={}
def add(st,rs,tgt,act):
    for r in rs:
        for b in (r if not isinstance(r,int) else [r]): T[(st,b)]=(tgt,act)
C0=[rng(0,0x17),0x19,rng(0x1c,0x1f)]
add('Ground',C0,None,EXE); add('Ground',[rng(0x20,0x7f)],None,PRINT)
add('Ground',[rng(0x80,0x8f),rng(0x91,0x9a),0x9c],None,EXE)
add('Ground',[rng(0xc2,0xdf),rng(0xe0,0xef),rng(0xf0,0xf4)],'Utf8',UTF8)
add('Escape',C0,None,EXE); add('Escape',[0x7f],None,IGN); add('Escape',[rng(0x20,0x2f)],'EscapeIntermediate',COLLECT)
add('Escape',[rng(0x30,0x4f),rng(0x51,0x57),0x59,0x5a,0x5c,rng(0x60,0x7e)],'Ground',ESCD)
add('Escape',[0x5b],'CsiEntry',NOP); add('Escape',[0x5d],'OscString',NOP); add('Escape',[0x50],'DcsEntry',NOP)
add('Escape',[0x58,0x5e,0x5f],'SosPmApcString',NOP)
add('EscapeIntermediate',C0,None,EXE); add('EscapeIntermediate',[rng(0x20,0x2f)],None,COLLECT); add('EscapeIntermediate',[0x7f],None,IGN); add('EscapeIntermediate',[rng(0x30,0x7e)],'Ground',ESCD)
add('CsiEntry',C0,None,EXE); add('CsiEntry',[0x7f],None,IGN); add('CsiEntry',[rng(0x20,0x2f)],'CsiIntermediate',COLLECT)
add('CsiEntry',[rng(0x30,0x39),rng(0x3a,0x3b)],'CsiParam',PARAM); add('CsiEntry',[rng(0x3c,0x3f)],'CsiParam',COLLECT); add('CsiEntry',[rng(0x40,0x7e)],'Ground',CSID)
add('CsiIgnore',C0,None,EXE); add('CsiIgnore',[rng(0x20,0x3f),0x7f],None,IGN); add('CsiIgnore',[rng(0x40,0x7e)],'Ground',NOP)
add('CsiParam',C0,None,EXE); add('CsiParam',[rng(0x30,0x39),rng(0x3a,0x3b)],None,PARAM); add('CsiParam',[0x7f],None,IGN)
add('CsiParam',[rng(0x3c,0x3f)],'CsiIgnore',NOP); add('CsiParam',[rng(0x20,0x2f)],'CsiIntermediate',COLLECT); add('CsiParam',[rng(0x40,0x7e)],'Ground',CSID)
add('CsiIntermediate',C0,None,EXE); add('CsiIntermediate',[rng(0x20,0x2f)],None,COLLECT); add('CsiIntermediate',[0x7f],None,IGN)
add('CsiIntermediate',[rng(0x30,0x3f)],'CsiIgnore',NOP); add('CsiIntermediate',[rng(0x40,0x7e)],'Ground',CSID)
for st in ('DcsEntry',):
    add(st,C0,None,IGN); add(st,[0x7f],None,IGN); add(st,[rng(0x20,0x2f)],'DcsIntermediate',COLLECT)
    add(st,[rng(0x30,0x39),rng(0x3a,0x3b)],'DcsParam',PARAM); add(st,[rng(0x3c,0x3f)],'DcsParam',COLLECT); add(st,[rng(0x40,0x7e)],'DcsPassthrough',NOP)
add('DcsIntermediate',C0,None,IGN); add('DcsIntermediate',[rng(0x20,0x2f)],None,COLLECT); add('DcsIntermediate',[0x7f],None,IGN)
add('DcsIntermediate',[rng(0x30,0x3f)],'DcsIgnore',NOP); add('DcsIntermediate',[rng(0x40,0x7e)],'DcsPassthrough',NOP)
add('DcsIgnore',C0,None,IGN); add('DcsIgnore',[rng(0x20,0x7f)],None,IGN); add('DcsIgnore',[0x9c],'Ground',NOP)
add('DcsParam',C0,None,IGN); add('DcsParam',[rng(0x30,0x39),rng(0x3a,0x3b)],None,PARAM); add('DcsParam',[0x7f],None,IGN)
add('DcsParam',[rng(0x3c,0x3f)],'DcsIgnore',NOP); add('DcsParam',[rng(0x20,0x2f)],'DcsIntermediate',COLLECT); add('DcsParam',[rng(0x40,0x7e)],'DcsPassthrough',NOP)
add('DcsPassthrough',C0,None,PUT); add('DcsPassthrough',[rng(0x20,0x7e)],None,PUT); add('DcsPassthrough',[0x7f],None,IGN); add('DcsPassthrough',[0x9c],'Ground',NOP)
add('SosPmApcString',C0,None,IGN); add('SosPmApcString',[rng(0x20,0x7f)],None,IGN); add('SosPmApcString',[0x9c],'Ground',NOP)
add('OscString',[rng(0,6),rng(8,0x17),0x19,rng(0x1c,0x1f)],None,IGN); add('OscString',[0x07],'Ground',NOP); add('OscString',[rng(0x20,0xff)],None,OSCPUT)
ANY={0x18:('Ground',EXE),0x1a:('Ground',EXE),0x1b:('Escape',NOP)}
def change(st,b):
    if b in ANY: return ANY[b]
    return T.get((st,b),(None,NOP))

class It:
    def __init__(s,data):
        s.d=data; s.i=0; s.st='Ground'; s.el=None; s.tl=0; s.start=0; s.pos=0
        s.inter=0; s.ign=False; s.param=0; s.params=[]; s.cursub=0; s.u8need=0
    def push(s,ext):
        # params as list of groups
        if ext: 
            if s.cursub==0: s.params.append([s.param])
            else: s.params[-1].append(s.param)
            s.cursub+=1
        else:
            if s.cursub==0: s.params.append([s.param])
            else: s.params[-1].append(s.param)
            s.cursub=0
    def nparams(s): return sum(len(g) for g in s.params)
    def act(s,a,b):
        el=None; tl=0
        if a==PRINT: tl=1
        elif a==EXE: tl = 1 if b<128 else 0
        elif a==COLLECT:
            if s.inter==2: s.ign=True
            else: s.inter+=1
        elif a==PARAM:
            if s.nparams()==32: s.ign=True
            elif b==0x3b: s.push(False); s.param=0
            elif b==0x3a: s.push(True); s.param=0
            else: s.param=min(s.param*10+(b-0x30),65535)
        elif a==CSID:
            if s.nparams()==32: s.ign=True
            else: s.push(False)
            if s.ign or s.inter>1: el=None
            else:
                if b==0x6d and s.inter==0:
                    el=('Sgr',sgr(s.params)) if s.params else None
                else: el=('Csi',)
        elif a==ESCD: el=('Esc',)
        elif a=='OscEnd': el=('Osc',)
        elif a=='Clear': s.inter=0; s.ign=False; s.param=0; s.params=[]; s.cursub=0
        return el,tl
    def advance(s,b):
        el=None; tl=0
        if s.st=='Utf8':
            s.u8need-=1
            if s.u8need==0: tl=s.u8len; s.st='Ground'
        else:
            ns,a=change(s.st,b)
            if ns is None:
                if a==UTF8:
                    pass
                el,tl=s.act(a,b)
            else:
                if s.st=='OscString': el,_=s.act('OscEnd',b)
                if a==UTF8:
                    s.u8len=2 if b<0xe0 else 3 if b<0xf0 else 4; s.u8need=s.u8len-1
                elif a!=NOP:
                    e2,tl=s.act(a,b)
                    if e2 is not None or a in (CSID,ESCD): el=e2
                if ns in ('CsiEntry','DcsEntry','Escape'): s.act('Clear',b)
                s.st=ns
        s.el=el; s.tl+=tl; s.pos+=1
    def __iter__(s): return s
    def __next__(s):
        while s.el is None:
            if s.i<len(s.d): b=s.d[s.i]; s.i+=1; s.advance(b)
            else: break
        if s.el is not None:
            el=s.el; s.el=None
            if s.tl>0:
                st=s.start; s.start+=s.tl; s.tl=0; s.el=el
                return ('Text',st,s.start)
            st=s.start; s.start=s.pos
            return el+(st,s.pos)
        if s.tl>0:
            s.tl=0; return ('Text',s.start,s.pos)
        raise StopIteration

NAMES=['black','red','green','yellow','blue','purple','cyan','white']
def sgr(groups):
    st={'a':set(),'fg':None,'bg':None}
    it=iter(groups)
    def color(vals):
        vals=iter(vals)
        k=next(vals,None)
        try:
            if k==2:
                r,g,b=next(vals),next(vals),next(vals)
                if max(r,g,b)>255: return None
                return ('rgb',r,g,b)
            if k==5:
                n=next(vals)
                return ('fix',n) if n<=255 else None
        except StopIteration: return None
        return None
    for p in it:
        if p==[1]: st['a'].add('bold')
        elif p==[2]: st['a'].add('dim')
        elif p==[3]: st['a'].add('italic')
        elif p[0]==4: st['a'].add('ul')
        elif p in ([5],[6]): st['a'].add('blink')
        elif p==[7]: st['a'].add('reverse')
        elif p==[8]: st['a'].add('hidden')
        elif p==[9]: st['a'].add('strike')
        elif len(p)==1 and 30<=p[0]<=37: st['fg']=('named',p[0]-30)
        elif len(p)==1 and 40<=p[0]<=47: st['bg']=('named',p[0]-40)
        elif p==[38] or p==[48]:
            c=color(g[0] for g in it)   # consumes the rest lazily like params.map
            if c: st['fg' if p==[38] else 'bg']=c
        elif p[0] in (38,48) and len(p)>1:
            ps=p[1:]; start=2 if len(ps)>4 else 1
            c=color([ps[0]]+ps[start:])
            if c: st['fg' if p[0]==38 else 'bg']=c
        elif len(p)==1 and 90<=p[0]<=97: st['fg']=('fix',p[0]-90+8)
        elif len(p)==1 and 100<=p[0]<=107: st['bg']=('fix',p[0]-100+8)
    return st
def cstr(c):
    if c[0]=='named': return NAMES[c[1]]
    if c[0]=='fix': return str(c[1]) if c[1]>=16 else 'F%d'%c[1]
    return '"#%02x%02x%02x"'%c[1:]
def display(st):
    w=[]
    for a in ('blink','bold','dim','italic','reverse','strike','ul'):
        if a in st['a']: w.append(a)
    w.append(cstr(st['fg']) if st['fg'] else 'normal')
    if st['bg']: w.append(cstr(st['bg']))
    return ' '.join(w)
def explain(line):
    d=line.encode(); cur={'a':set(),'fg':None,'bg':None}; out=''
    for el in It(d):
        if el[0]=='Text': out+='('+display(cur)+')'+d[el[1]:el[2]].decode()
        elif el[0]=='Sgr': cur=el[1]
    return out
ANSI=re.compile(r"\x1b\[[0-9;]*m")
F16=['black','red','green','yellow','blue','purple','cyan','white','brightblack','brightred','brightgreen','brightyellow','brightblue','brightpurple','brightcyan','brightwhite']
def norm_real(s):
    s=s.replace('bright-','bright').replace('magenta','purple')
    return s
def norm_model(s): return re.sub(r'F(\d+)',lambda m:F16[int(m.group(1))],s)
PIECES=['a','bc',' ','é','日本','\x1b[31m','\x1b[m','\x1b[0m','\x1b[1;32m','\x1b[38;5;200m','\x1b[38;2;1;2;3m','\x1b[48;5;9m','\x1b[4:3m','\x1b[38:2:1:2:3m','\x1b[38:2::1:2:3m','\x1b[38;5m','\x1b[;m','\x1b[0K','\x1b[?25l','\x1b]8;;http://x\x1b\\','\x1b]8;;\x1b\\','\x1b]0;t\x07','\x1b(B','\x1b[91m','\x1b[100m','\x1b[1;2;3;4;5;7;8;9m','\x1b[38;5;300m','\x1b[21m','\x1b[39;49m']
if __name__=='__main__':
    delta=sys.argv[1]; N=int(sys.argv[2]); seed=int(sys.argv[3])
    r=random.Random(seed); lines=[]
    for i in range(N): lines.append(''.join(r.choice(PIECES) for _ in range(r.randint(1,8))))
    p=subprocess.run([delta,'--parse-ansi'],input=('\n'.join(lines)+'\n').encode(),capture_output=True)
    real=p.stdout.decode().split('\n')[:-1]
    bad=0
    for l,o in zip(lines,real):
        # real output is colourful: strip only the SGRs that delta added: compare after removing all SGR from both
        try: m=norm_model(explain(l))
        except Exception as e: m='EXC %r'%e
        m2=ANSI.sub('',m); o2=norm_real(ANSI.sub('',o))
        # the painted style string in real output: "(" + painted(display) + ")" + painted text
        if m2!=o2:
            bad+=1
            if bad<=8: print(repr(l)); print('  model',repr(m2)); print('  real ',repr(o2))
    print('cases',len(lines),'real lines',len(real),'bad',bad,'rc',p.returncode,p.stderr[:200])
