import sys,random,re,os,subprocess
sys.path.insert(0,'/var/tmp/verif-proto')
import sm
D='/var/tmp/delta-explore/debug/delta'
def run(lines,args):
    p=subprocess.run([D,'--no-gitconfig','--paging','never','--syntax-theme','none','--width','50']+args,input=('\n'.join(lines)+'\n').encode(),capture_output=True,env={'PATH':os.environ['PATH'],'HOME':'/nonexistent'},timeout=30)
    assert p.returncode==0,p.stderr[:300]
    return p.stdout
def sections(lines):
    secs=[];cur=None
    for l in lines:
        if l.startswith('diff '):
            cur=[];secs.append(cur)
        if cur is not None: cur.append(l)
    return secs
bad=0;n=0;kinds={}
for i in range(150):
    r=random.Random(7*100000+i)
    lines=[l for l in sm.gen(r) if not l.startswith(('commit ','Author',' f.rs',' 1 file','    ')) and l!='']
    secs=sections(lines)
    if len(secs)<2: continue
    mode=r.choice([[],['--line-numbers'],['--side-by-side']])
    whole=run(sum(secs,[]),mode); parts=b''.join(run(s,mode) for s in secs)
    n+=1
    if whole!=parts:
        bad+=1
        # classify: which boundary
        for k in range(len(secs)-1):
            if run(secs[k]+secs[k+1],mode)!=run(secs[k],mode)+run(secs[k+1],mode):
                key=(secs[k][-1][:1], secs[k+1][1].split()[0] if len(secs[k+1])>1 else 'none', len(secs[k+1])>1 and any(x.startswith('index') for x in secs[k+1][:3]))
                kinds[key]=kinds.get(key,0)+1
print('n',n,'bad',bad); print(kinds)
