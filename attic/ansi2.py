import sys,random,subprocess
sys.argv=['x']; 
import importlib.util
spec=importlib.util.spec_from_file_location('ansi','/var/tmp/verif-proto/ansi.py'); a=importlib.util.module_from_spec(spec); spec.loader.exec_module(a)
delta='/var/tmp/delta-explore/debug/delta'
P=a.PIECES+['\x1b[ !p','\x1bPq#0\x1b\\','\x1bX s \x1b\\','\x1b[1;2;3;4;5;6;7;8;9;10;11;12;13;14;15;16;17;18;19;20;21;22;23;24;25;26;27;28;29;30;31;32;33m','\x1b','\x1b[','✓','\x18','\x7f','\x1b[3 q']
r=random.Random(7); bad=0; panics=0; n=0
for i in range(250):
    l=''.join(r.choice(P) for _ in range(r.randint(2,7)))
    if '\n' in l: continue
    p=subprocess.run([delta,'--parse-ansi'],input=(l+'\n').encode(),capture_output=True)
    try: m=a.ANSI.sub('',a.norm_model(a.explain(l))); mp=False
    except UnicodeDecodeError: mp=True; m=None
    rp = p.returncode!=0
    n+=1
    if rp: panics+=1
    if rp!=mp or (not rp and a.norm_real(a.ANSI.sub('',p.stdout.decode().rstrip('\n')))!=m):
        bad+=1
        if bad<=6: print(repr(l),'real_panic',rp,'model_panic',mp); print('  ',repr(m)); print('  ',repr(a.norm_real(a.ANSI.sub('',p.stdout.decode()))))
print('n',n,'panics',panics,'bad',bad)
