import sys,random,itertools
sys.path.insert(0,'/var/tmp/verif-proto')
sys.argv=['x','/var/tmp/delta-explore/debug/delta','0','0']
from paint_unified import annotate, infer
ALPHA=['a','b',' ',',','ab']
bad=dict(a=0,part=0,ident=0,dist=0,mono=0); n=0; ex=[]
def check(ml,pl):
    global n
    am,ap,d=annotate(ml,pl); n+=1
    if ''.join(s for _,s in am)!=ml or ''.join(s for _,s in ap)!=pl: bad['part']+=1; ex.append(('part',ml,pl,am,ap))
    ra=''.join(s for o,s in am if o!='del'); rb=''.join(s for o,s in ap if o!='ins')
    if ra!=rb: bad['a']+=1; ex.append(('a',ml,pl,am,ap))
    if ml==pl and (any(o=='del' for o,_ in am) or any(o=='ins' for o,_ in ap)): bad['ident']+=1
    if not (0<=d<=1): bad['dist']+=1
for L1 in range(0,5):
  for L2 in range(0,5):
    for a in itertools.product(ALPHA,repeat=L1):
      for b in itertools.product(ALPHA,repeat=L2):
        check(''.join(a)+'\n',''.join(b)+'\n')
print('pairs',n,bad); print(ex[:3])
# pairing monotone
r=random.Random(1)
for _ in range(3000):
    m=[''.join(r.choice(ALPHA) for _ in range(r.randint(0,4)))+'\n' for _ in range(r.randint(0,4))]
    p=[''.join(r.choice(ALPHA) for _ in range(r.randint(0,4)))+'\n' for _ in range(r.randint(0,4))]
    for maxd in (0,0.3,0.6,1):
        am,ap,al=infer(m,p,maxd)
        ms=[x for x,_ in al if x is not None]; ps=[y for _,y in al if y is not None]
        if ms!=list(range(len(m))) or ps!=list(range(len(p))): bad['mono']+=1
        if maxd==1:
            k=min(len(m),len(p))
            if [(x,y) for x,y in al if x is not None and y is not None]!=[(i,i) for i in range(k)]: bad['mono']+=1
print(bad)
