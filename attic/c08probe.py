import sys,random,re,os
sys.argv=['x','/var/tmp/delta-explore/debug/delta','0','0']
sys.path.insert(0,'/var/tmp/verif-proto')
import importlib.util
spec=importlib.util.spec_from_file_location('rp','/var/tmp/verif-proto/relprobe.py'); rp=importlib.util.module_from_spec(spec); spec.loader.exec_module(rp)
import sm
seen=0
for i in range(60):
    r=random.Random(1*100000+i); lines=[l for l in sm.gen(r) if not l.startswith(('commit ','Author',' f.rs',' 1 file','    '))]
    lines=[l for l in lines if l!='']; mode=r.choice(rp.MODES)
    base=['--syntax-theme','none','--width','50']+mode
    _,o1,_=rp.run(lines,base); _,o2,_=rp.run(rp.colourise(lines),base)
    if o1!=o2:
        a=o1.split(b'\n'); b=o2.split(b'\n')
        for k,(x,y) in enumerate(zip(a,b)):
            if x!=y:
                print('case',i,mode,'line',k); print('  plain  ',x[:160]); print('  colour ',y[:160]); break
        else: print('case',i,'length differs',len(a),len(b))
        seen+=1
        if seen>=6: break
