#!/usr/bin/env python3
"""Throw-away executable notes: gather_features + get_option_value (options/set.rs, get.rs),
probed through `--show-config` with the string option file-modified-label."""
import random, subprocess, os, sys, tempfile, re
BUILTIN={'navigate':{'navigate':True,'file-modified-label':'Δ','hunk-label':'•'},
         'line-numbers':{'line-numbers':True},
         'side-by-side':{'side-by-side':True,'features':'line-numbers'},
         'hyperlinks':{'hyperlinks':True},'raw':{},'color-only':{},'diff-highlight':{},'diff-so-fancy':{}}
FLAG_ORDER=['raw','color-only','diff-highlight','diff-so-fancy','hyperlinks','line-numbers','navigate','side-by-side']
def split_rev(s): return list(reversed(s.split()))
def gather(env, args_features, cli_flags, gc, no_gitconfig=False):
    get=(lambda k: None) if no_gitconfig else gc.get
    opt_features=args_features   # Option<String>
    if env is not None and env.startswith('+'):
        inp=env[1:].split()+split_rev(args_features or '')
    elif env is not None:
        opt_features=env; inp=split_rev(env)
    else: inp=split_rev(args_features or '')
    feats=[]   # deque, index 0 = front
    def g_builtin(f):
        if f in feats: return
        feats.insert(0,f)
        data=BUILTIN.get(f)
        if data is not None:
            if 'features' in data:
                for c in split_rev(data['features']): g_builtin(c)
            for c in BUILTIN:
                if data.get(c) is True: g_builtin(c)
    def g_flags(key):
        for c in BUILTIN:
            if get(f'{key}.{c}')=='true': g_builtin(c)
    def g_rec(f):
        if f in BUILTIN: g_builtin(f)
        else: feats.insert(0,f)
        ch=get(f'delta.{f}.features')
        if ch is not None:
            for c in split_rev(ch):
                if c not in feats: g_rec(c)
        g_flags(f'delta.{f}')
    have_gc = True   # git_config object exists even with --no-gitconfig (enabled=false)
    for f in inp: g_rec(f)
    for f in FLAG_ORDER:
        if f in cli_flags: g_builtin(f)
    if opt_features is None:
        fs=get('delta.features')
        if fs is not None:
            for f in split_rev(fs): g_rec(f)
    g_flags('delta')
    return feats
def resolve(option, cli, feats, gc, default, no_gitconfig=False):
    get=(lambda k: None) if no_gitconfig else gc.get
    if cli is not None: return cli
    v=get(f'delta.{option}')
    if v is not None: return v
    for f in reversed(feats):
        v=get(f'delta.{f}.{option}')
        if v is not None: return v
        if f in BUILTIN and option in BUILTIN[f]: return BUILTIN[f][option]
    return default
def write_gc(gc,path):
    secs={}
    for k,v in gc.items():
        parts=k.split('.')
        if len(parts)==2: sec='[delta]'; key=parts[1]
        else: sec='[delta "%s"]'%parts[1]; key=parts[2]
        secs.setdefault(sec,[]).append((key,v))
    with open(path,'w') as f:
        for s,kv in secs.items():
            f.write(s+'\n')
            for k,v in kv: f.write(f'    {k} = {v}\n')
NAMES=['a','b','c','navigate','side-by-side']
def gen(r):
    gc={}
    def fl(n): return ' '.join(r.choice(NAMES) for _ in range(n))
    if r.random()<0.5: gc['delta.features']=fl(r.randint(1,3))
    if r.random()<0.3: gc['delta.file-modified-label']='MAIN'
    if r.random()<0.3: gc['delta.navigate']='true'
    for n in ['a','b','c']:
        if r.random()<0.6: gc[f'delta.{n}.file-modified-label']='F'+n
        if r.random()<0.4: gc[f'delta.{n}.features']=fl(r.randint(1,2))
        if r.random()<0.2: gc[f'delta.{n}.navigate']='true'
    if r.random()<0.15: gc['delta.navigate.file-modified-label']='CUSTNAV'
    env=None
    if r.random()<0.4: env=('+' if r.random()<0.5 else '')+fl(1)
    args=fl(r.randint(1,2)) if r.random()<0.4 else None
    cli_flags=set(['navigate']) if r.random()<0.2 else set()
    cli=('CLI' if r.random()<0.15 else None)
    nog = r.random()<0.1
    return gc,env,args,cli_flags,cli,nog
if __name__=='__main__':
    delta=sys.argv[1]; N=int(sys.argv[2]); seed=int(sys.argv[3])
    r=random.Random(seed); bad=0
    d=tempfile.mkdtemp()
    for i in range(N):
        gc,env,args,cli_flags,cli,nog=gen(r)
        p=os.path.join(d,'g.cfg'); write_gc(gc,p)
        cmd=[delta,'--config',p,'--show-config']
        if args is not None: cmd+=['--features',args]
        for f in cli_flags: cmd.append('--'+f)
        if cli: cmd+=['--file-modified-label',cli]
        if nog: cmd.append('--no-gitconfig')
        e={'HOME':d,'PATH':os.environ['PATH'],'GIT_CONFIG_NOSYSTEM':'1'}
        if env is not None: e['DELTA_FEATURES']=env
        out=subprocess.run(cmd,env=e,capture_output=True,cwd=d).stdout.decode()
        out=re.sub(r'\x1b\[[0-9;]*m','',out)
        m=re.search(r'file-modified-label\s+= (.*)',out); real=m.group(1) if m else '<none>'
        feats=gather(env,args,cli_flags,gc,nog)
        model=resolve('file-modified-label',cli,feats,gc,"''",nog)
        if model!=real:
            bad+=1
            if bad<=5: print('MISMATCH',i,'model',model,'real',real,'feats',feats,'\n  gc',gc,'env',env,'args',args,cli_flags,cli,nog)
    print('cases',N,'bad',bad)
