#!/usr/bin/env python3
"""Throw-away crash probe (C03): structured mutations x option sets on the debug binary."""
import sys,random,subprocess,os,re,collections
sys.path.insert(0,'/var/tmp/verif-proto')
import sm
D='/var/tmp/delta-explore/debug/delta'
OPTS=[[],['--line-numbers'],['--side-by-side'],['--side-by-side','--width','20'],['--side-by-side','--width','7'],['--width','1'],['--side-by-side','--wrap-max-lines','unlimited','--width','30'],
      ['--color-only'],['--raw'],['--diff-so-fancy'],['--diff-highlight'],['--navigate'],['--hyperlinks'],['--keep-plus-minus-markers','--tabs','0'],
      ['--max-line-length','0'],['--max-line-length','5'],['--line-buffer-size','0'],['--max-line-distance','0'],['--max-syntax-highlighting-length','3'],['--side-by-side','--line-numbers-left-format','','--line-numbers-right-format','','--width','9'],
      ['--hunk-header-style','file line-number syntax'],['--hunk-header-style','omit'],['--file-style','omit'],['--zero-style','normal 17','--width','10'],['--relative-paths'],['--word-diff-regex','.'],['--minus-style','raw','--plus-style','raw'],['--inspect-raw-lines','false'],['--width','variable']]
SNIP=[b'@@ -1 +1 @@',b'@@ @@',b'@@@ -1,1 -1,1 +1,1 @@@',b'@@ -0,0 +1 @@ \xe6\x97\xa5',b'diff --git ',b'diff --git a b',b'diff --cc x',b'--- ',b'+++ ',b'+++ b/\xe6\x97\xa5',b'rename from ',b'rename to ',b'Binary files  differ',b'Submodule x 123..456:',b'-Subproject commit '+b'a'*40,b'+Subproject commit '+b'b'*40,
      b'++<<<<<<< HEAD',b'++=======',b'++>>>>>>> x',b'++||||||| anc',b'commit ',b'commit abcdef1',b'\x1b[31m',b'\x1b[m',b'\x1b[',b'\x1b]8;;x\x1b\\',b'\x1b[ !p',b'\xff\xfe',b'\xe6\x97',b'\t',b'\r',b' ',b'99999999999999999999999',b'18446744073709551615',b'{"type":"match","data":{"path":{"text":"a"},"lines":{"text":"abc\\n"},"line_number":1,"absolute_offset":0,"submatches":[{"match":{"text":"b"},"start":2,"end":1}]}}',
      b'{"type":"match","data":{"path":{"text":"a"},"lines":{"text":"\xc3\xa9bc\\n"},"line_number":1,"absolute_offset":0,"submatches":[{"match":{"text":"b"},"start":1,"end":9}]}}',b'abcd1234 (A B 2021-08-22 18:20:19 -0700 12) code',b'old mode 1',b'new mode 2',b'index 1..2',b'\\ No newline at end of file',b'\xe6\x97\xa5\xe6\x9c\xac\xe8\xaa\x9e'*30]
def mutate(r,data):
    lines=data.split(b'\n')
    for _ in range(r.randint(1,4)):
        k=r.random()
        if not lines: lines=[b'']
        i=r.randrange(len(lines))
        if k<0.25: lines.insert(i,r.choice(SNIP))
        elif k<0.4: lines[i]=r.choice(SNIP)+lines[i]
        elif k<0.5: lines[i]=lines[i]+r.choice(SNIP)
        elif k<0.6: del lines[i]
        elif k<0.7: lines[i]=lines[i][:r.randint(0,len(lines[i]))]
        elif k<0.8: lines=lines[:i]
        elif k<0.9:
            j=r.randrange(len(lines)); lines[i],lines[j]=lines[j],lines[i]
        else:
            b=bytearray(lines[i])
            if b: b[r.randrange(len(b))]=r.randrange(256)
            lines[i]=bytes(b)
    return b'\n'.join(lines)
N=int(sys.argv[1]); seed=int(sys.argv[2]); crashes=collections.Counter(); ex={}
for i in range(N):
    r=random.Random(seed*1000003+i)
    data=('\n'.join(sm.gen(r))+'\n').encode()
    if r.random()<0.3:
        # combined diff base
        data=b'diff --cc f\nindex 1,2..3\n--- a/f\n+++ b/f\n@@@ -1,3 -1,3 +1,4 @@@\n  ctx\n- old\n -old2\n++new\n++<<<<<<< HEAD\n +ours\n++=======\n+ theirs\n++>>>>>>> br\n'
    data=mutate(r,data); opts=r.choice(OPTS)
    try:
        p=subprocess.run([D,'--no-gitconfig','--paging','never']+opts,input=data,capture_output=True,env={'PATH':os.environ['PATH'],'HOME':'/nonexistent'},timeout=10)
        if p.returncode!=0:
            m=re.search(rb'panicked at ([^:]+:\d+)',p.stderr); key=(m.group(1).decode() if m else 'rc%d:%s'%(p.returncode,p.stderr[:80]))
            crashes[key]+=1; ex.setdefault(key,(opts,data[:400]))
    except subprocess.TimeoutExpired:
        crashes['TIMEOUT']+=1; ex.setdefault('TIMEOUT',(opts,data[:400]))
print('runs',N); 
for k,v in crashes.most_common(): print(v,k,ex[k][0],repr(ex[k][1][-160:]))
