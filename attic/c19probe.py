import sys,random,re,os
sys.argv=['x','/var/tmp/delta-explore/debug/delta','0','0']
sys.path.insert(0,'/var/tmp/verif-proto')
import importlib.util
spec=importlib.util.spec_from_file_location('rp','/var/tmp/verif-proto/relprobe.py'); rp=importlib.util.module_from_spec(spec); spec.loader.exec_module(rp)
import sm
seen=0
for i in range(120):
    r=random.Random(2*100000+i); lines=[l for l in sm.gen(r) if not l.startswith(('commit ','Author',' f.rs',' 1 file','    '))]
    lines=[l for l in lines if l!='']; mode=r.choice(rp.MODES)
    nb=[x for x in ['--syntax-theme','none','--width','50']+mode if x!='--hyperlinks']
    rc3,o3,e3=rp.run(lines,nb+['--hyperlinks']); _,o6,_=rp.run(lines,nb)
    s3=rp.OSC8.sub(b'',o3)
    if s3!=o6:
        a=s3.split(b'\n'); b=o6.split(b'\n')
        for k,(x,y) in enumerate(zip(a,b)):
            if x!=y:
                print('case',i,mode,'line',k,'rc',rc3,e3[:100]); print('  links  ',x[:200]); print('  nolinks',y[:200]); break
        else: print('case',i,'length differs',len(a),len(b))
        seen+=1
        if seen>=5: break
