#!/usr/bin/env python3
"""Throw-away relational probes on the real binary (no model): C08 C09 C10 C15 C19."""
import re, sys, random, subprocess, os
sys.path.insert(0,'/var/tmp/verif-proto')
import sm
D=sys.argv[1]
def run(lines,args,env=None):
    e={'PATH':os.environ['PATH'],'HOME':'/nonexistent'}
    if env: e.update(env)
    p=subprocess.run([D,'--no-gitconfig','--paging','never']+args,input=('\n'.join(lines)+'\n').encode(),capture_output=True,env=e,timeout=30)
    return p.returncode,p.stdout,p.stderr
TOK=re.compile(rb'\x1b\[([0-9;:]*)([A-Za-z])|\x1b\]8;([^;]*);([^\x1b\x07]*)(?:\x1b\\|\x07)|\x1b\][^\x1b\x07]*(?:\x1b\\|\x07)|\n|[^\x1b\n]+|\x1b')
def decode(out):
    """rows of cells (ch, fg, bg, attrs, link) and state at each newline"""
    rows=[];row=[];st={'fg':None,'bg':None,'a':frozenset()};link=None;ends=[]
    for m in TOK.finditer(out):
        t=m.group(0)
        if t==b'\n': rows.append(row);row=[];ends.append((dict(st),link));continue
        if m.group(2) is not None:
            if m.group(2)==b'm':
                ps=[int(x) if x else 0 for x in m.group(1).split(b';')] if m.group(1) else [0]
                i=0;a=set(st['a']);fg=st['fg'];bg=st['bg']
                while i<len(ps):
                    p=ps[i]
                    if p==0: a=set();fg=bg=None
                    elif 1<=p<=9: a.add(p if p!=6 else 5)
                    elif 30<=p<=37: fg=('p',p-30)
                    elif 40<=p<=47: bg=('p',p-40)
                    elif 90<=p<=97: fg=('p',p-82)
                    elif 100<=p<=107: bg=('p',p-92)
                    elif p in(38,48) and i+1<len(ps):
                        if ps[i+1]==5 and i+2<len(ps): c=('p',ps[i+2]);i+=2
                        elif ps[i+1]==2 and i+4<len(ps): c=('r',)+tuple(ps[i+2:i+5]);i+=4
                        else: c=None
                        if c:
                            if p==38: fg=c
                            else: bg=c
                    elif p==39: fg=None
                    elif p==49: bg=None
                    i+=1
                st={'fg':fg,'bg':bg,'a':frozenset(a)}
            elif m.group(2)==b'K': row.append(('<K>',st['fg'],st['bg'],st['a'],link))
            continue
        if m.group(4) is not None: link=m.group(4) or None; continue
        if t.startswith(b'\x1b'): continue
        for ch in t.decode('utf-8','replace'): row.append((ch,st['fg'],st['bg'],st['a'],link))
    return rows,ends
def colourise(lines):
    out=[]; inhdr=False
    for l in lines:
        if l.startswith('diff '): inhdr=True
        if l.startswith('@@'):
            inhdr=False
            m=re.match(r'(@@ [^@]*@@)(.*)',l); out.append('\x1b[36m'+m.group(1)+'\x1b[m'+m.group(2) if m else l); continue
        if inhdr: out.append('\x1b[1m'+l+'\x1b[m')
        elif l.startswith('-'): out.append('\x1b[31m'+l+'\x1b[m')
        elif l.startswith('+'): out.append('\x1b[32m+\x1b[m\x1b[32m'+l[1:]+'\x1b[m' if len(l)>1 else '\x1b[32m+\x1b[m')
        else: out.append(l)
    return out
OSC8=re.compile(rb'\x1b\]8;[^;]*;[^\x1b\x07]*(?:\x1b\\|\x07)')
res={k:0 for k in ('c08','c09','c19','c15','n')}
N=int(sys.argv[2]); seed=int(sys.argv[3])
MODES=[[],['--line-numbers'],['--side-by-side','--width','60'],['--side-by-side','--width','41','--wrap-max-lines','0'],['--keep-plus-minus-markers'],['--diff-so-fancy'],['--navigate'],['--hyperlinks','--line-numbers']]
for i in range(N):
    r=random.Random(seed*100000+i); lines=[l for l in sm.gen(r) if not l.startswith(('commit ','Author',' f.rs',' 1 file','    '))]
    lines=[l for l in lines if l!='']  # diff sections only
    mode=r.choice(MODES); res['n']+=1
    W=[] if '--width' in mode else ['--width','50']
    base=['--syntax-theme','none']+W+mode
    rc,o1,e1=run(lines,base); rc2,o2,e2=run(colourise(lines),base)
    assert rc==0 and rc2==0,(rc,e1[:200])
    if o1!=o2:
        res['c08']+=1
        if res['c08']<=2: print('C08 differ',mode,'\n'.join(lines)[:600])
    rows,ends=decode(o1)
    for k,(st,link) in enumerate(ends):
        if st['fg'] or st['bg'] or st['a'] or link:
            res['c09']+=1; print('C09 leak',mode,st,link); break
    # hyperlinks transparency
    nb=[x for x in base if x!='--hyperlinks']
    rc3,o3,e3=run(lines,nb+['--hyperlinks']); rc6,o6,e6=run(lines,nb)
    if OSC8.sub(b'',o3)!=o6 or rc3!=0:
        res['c19']+=1
        if res['c19']<=3: print('C19 differ',mode,rc3,e3[:300],OSC8.sub(b'',o3)==o6)
    # theme independence: compare with a theme vs none, masking fg
    rc4,o4,e4=run(lines,['--syntax-theme','Dracula']+W+mode); rc5,o5,e5=run(lines,['--syntax-theme','Nord']+W+mode)
    ra,_=decode(o4); rb,_=decode(o5)
    ma=[[(c[0],c[2],c[3]) for c in row if c[0]!='<K>'] for row in ra]; mb=[[(c[0],c[2],c[3]) for c in row if c[0]!='<K>'] for row in rb]
    if ma!=mb:
        res['c15']+=1
        if res['c15']<=2:
            for x,y in zip(ma,mb):
                if x!=y: print('C15 differ',mode,''.join(c[0] for c in x)[:80],[ (a,b) for a,b in zip(x,y) if a!=b][:3]); break
print(res)
