"""C02 — --color-only is a line-for-line, text-preserving filter.

proof:   PropC02.v — row accounting over the state machine model with color_only = true:
         for every input, rows(history) + (1 if a hunk header is pending) = lines consumed,
         provided a pending hunk header is not killed by the next line (decidable side
         condition, satisfied by every git diff); hence one output row per input line.
tie:     correspondence of the same model under --color-only (rows compared), this check.
oracle:  on the real binary: number of output lines = number of input lines for every
         generated stream x option set containing --color-only (side-by-side, line numbers,
         decorations, omit styles, navigate, emulation presets, decoration keywords inside
         style strings); and, when no implied preset is overridden, the visible text of each
         output line equals the visible text of the input line.
"""
import json
import os
import sys
from concurrent.futures import ThreadPoolExecutor

import gdiff
import term
import vlib

PID = "C02"

# option sets that keep the presets (text must be preserved)
KEEP = [
    [],
    ["--side-by-side"],
    ["--navigate"],
    ["--diff-so-fancy"],
    ["--diff-highlight"],
    ["--hyperlinks"],
    ["--relative-paths"],
    ["--file-decoration-style", "blue box"],
    ["--hunk-header-decoration-style", "blue box ul"],
    ["--commit-decoration-style", "bold yellow box ul"],
    ["--file-style", "yellow box"],
    ["--hunk-header-style", "blue box"],
    ["--commit-style", "red overline"],
    ["--file-style", "bold ul"],
    ["--minus-style", "red bold", "--plus-style", "green bold"],
    ["--width", "20"],
    ["--max-line-distance", "1.0"],
    ["--line-buffer-size", "1"],
]
# option sets that explicitly override a preset: only the line count is required
OVERRIDE = [
    ["--line-numbers"],
    ["--side-by-side", "--line-numbers"],
    ["--commit-style", "omit"],
    ["--file-style", "omit"],
    ["--hunk-header-style", "omit"],
    ["--minus-style", "omit"],
    ["--zero-style", "omit"],
    ["--tabs", "4"],
]


def colourise(lines, r):
    """git's default colouring (color.ui=always)"""
    out = []
    for l in lines:
        if l.startswith(("diff ", "index ", "--- ", "+++ ", "new file", "deleted file", "old mode", "new mode", "similarity", "rename ", "copy ", "Binary ")):
            out.append("\x1b[1m" + l + "\x1b[m")
        elif l.startswith("@@"):
            i = l.find("@@", 2)
            out.append("\x1b[36m" + l[:i + 2] + "\x1b[m" + l[i + 2:])
        elif l.startswith("-"):
            out.append("\x1b[31m" + l + "\x1b[m")
        elif l.startswith("+"):
            out.append("\x1b[32m" + l + "\x1b[m")
        elif l.startswith("commit "):
            out.append("\x1b[33m" + l + "\x1b[m")
        else:
            out.append(l)
    return out


def gen_cases(tier, seed):
    n = 180 if tier == "quick" else 2500
    cases = []
    for i in range(n):
        r = vlib.case_rng(seed, PID, i)
        d = gdiff.gen_diff(r)
        lines = gdiff.diff_lines(d)
        coloured = r.random() < 0.5
        if coloured:
            lines = colourise(lines, r)
        for opts, keep in [(r.choice(KEEP), True), (r.choice(KEEP), True), (r.choice(OVERRIDE), False)]:
            cases.append({"lines": lines, "opts": opts, "keep": keep, "coloured": coloured, "kinds": [s["kind"] for s in d["sections"]]})
    # `git log -p` with a terse format / concatenated `git show`: a commit block directly after a hunk's last line
    for i in range(n // 4):
        r = vlib.case_rng(seed, PID, ("log", i))
        d = gdiff.gen_diff(r, nsec=r.randint(2, 4), log=True)
        for s_ in d["sections"][1:]:
            if r.random() < 0.7:
                s_["pre"] = ([""] if r.random() < 0.3 else []) + gdiff.gen_log_wrapper(r)
        lines = gdiff.diff_lines(d)
        coloured = r.random() < 0.4
        if coloured:
            lines = colourise(lines, r)
        for opts, keep in [(r.choice(KEEP), True), (["--commit-style", r.choice(["bold yellow", "red overline", "blue ul"])], True), (r.choice(OVERRIDE), False)]:
            cases.append({"lines": lines, "opts": opts, "keep": keep, "coloured": coloured, "kinds": ["log"] + [s_["kind"] for s_ in d["sections"]]})
    # other well-formed inputs of the property's domain: plain `diff -u` streams and combined diffs (oracle only:
    # the line state machine model covers git's two-way diffs)
    for i in range(n // 6):
        r = vlib.case_rng(seed, PID, ("other", i))
        tok = gdiff.Tok()
        kind = r.choice(["diffu", "cc", "sub"])
        if kind == "sub":
            # submodule pointer changes (short format) among ordinary files
            secs = [gdiff.gen_section(r, tok, kind=r.choice(["sub", "sub", "subadd", "subdel", "subnear", "mod"])) for _ in range(r.randint(1, 4))]
        else:
            secs = [gdiff.gen_section(r, tok, kind=kind) for _ in range(r.randint(1, 3))]
        lines = gdiff.diff_lines({"pre": gdiff.gen_log_wrapper(r) if (kind == "cc" and r.random() < 0.5) else [], "sections": secs})
        for opts, keep in [(r.choice(KEEP), True), (r.choice(OVERRIDE), False)]:
            cases.append({"lines": lines, "opts": opts, "keep": keep, "coloured": False, "kinds": [kind], "no_model": True})
    # every option set at least once on a fixed two-file log
    r = vlib.case_rng(seed, PID, "fixed")
    d = gdiff.gen_diff(r, nsec=3, log=True)
    for opts in KEEP:
        cases.append({"lines": gdiff.diff_lines(d), "opts": opts, "keep": True, "coloured": False, "kinds": ["fixed"]})
    for opts in OVERRIDE:
        cases.append({"lines": gdiff.diff_lines(d), "opts": opts, "keep": False, "coloured": False, "kinds": ["fixed"]})
    return cases


def main(tier, replay=None):
    chk = vlib.Check(PID, tier)
    ok, out = vlib.build_delta()
    if not ok:
        print("tree does not build with hooks enabled:\n" + out[-2000:])
        chk.oblige("build:delta-with-hooks", False, out[-2000:])
        return chk.finish()
    vlib.build_native()
    vlib.standard_proof_obligations(chk, "PropC02", gen_names=("submodule",))
    ok, out = vlib.build_vmodel()
    if not ok:
        chk.oblige("build:vmodel", False, out[-2000:])
        return chk.finish()
    vm = vlib.vmodel()
    if replay:
        with open(replay) as f:
            cases = [json.load(f)["case"]]
    else:
        cases = gen_cases(tier, chk.seed)
    chk.rule = ("git diffs / logs (plain or coloured like color.ui=always) x option sets that contain --color-only; "
                "non-trivial = at least one header line and one hunk")

    def work(c):
        inp = ("\n".join(c["lines"]) + "\n").encode()
        return vlib.run_delta(["--no-gitconfig", "--paging", "never", "--color-only"] + c["opts"], stdin=inp)

    with ThreadPoolExecutor(max_workers=vlib.NCPU) as ex:
        results = list(ex.map(work, cases))
    mism = 0
    ncorr = 0
    for c, (rc, out, err) in zip(cases, results):
        lines = c["lines"]
        chk.count("opts:" + " ".join(c["opts"]))
        nontriv = any(l.startswith(("@@", "\x1b[36m@@")) for l in lines)
        chk.case((tuple(lines), tuple(c["opts"])), nontriv, {"opts": c["opts"], "coloured": c["coloured"], "n_lines": len(lines), "kinds": c["kinds"]})
        if rc != 0:
            chk.violation({"property": PID, "why": f"exit status {rc}: {err[-300:]!r}", "case": c, "shape": "crash"})
            continue
        outl = out.decode("utf-8", "replace").split("\n")
        if outl and outl[-1] == "":
            outl.pop()
        why = []
        if len(outl) != len(lines):
            why.append(f"{len(lines)} input lines, {len(outl)} output lines with --color-only {' '.join(c['opts'])}")
        elif c["keep"]:
            for k, (a, b) in enumerate(zip(lines, outl)):
                ta, tb = term.strip(a).rstrip(" "), term.strip(b).rstrip(" ")
                if ta != tb:
                    why.append(f"line {k}: visible text {tb!r} differs from input {ta!r}")
                    break
        if why:
            chk.violation({"property": PID, "why": "; ".join(why), "case": c, "opts": " ".join(c["opts"]),
                           "input": "\n".join(lines), "output": outl[:60]})
        # correspondence with the model (plain input, plain --color-only)
        if not c["coloured"] and c["keep"] and rc == 0 and not c.get("no_model"):
            ncorr += 1
            sd = vm.ask("delta_safes", 32, ",".join(vlib.hexs(l) for l in lines))
            chk.count("theorem_side_condition:" + sd)
            cfg = gdiff.Cfg(width=80, tabs=0, color_only=True)
            m = gdiff.render_items(gdiff.model_items(vm, lines, cfg), cfg)
            real = [term.strip(x).rstrip(" ") for x in outl]
            if m != real:
                mism += 1
    chk.oblige("correspondence:color-only-rows", mism == 0, f"{mism} of {ncorr} streams render differently from the model")
    chk.extra["traces_validated_against_impl"] = ncorr - mism
    vm.close()
    return chk.finish()
