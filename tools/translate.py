#!/usr/bin/env python3
"""Translator: regenerates coq/theories/Gen*.v from /repo's current working tree.

Every pattern is strict. When the expected Rust shape is not found the generated file
records that (`*_shape_exact := false`, or the whole generation fails with PatternError),
and the proof obligation that depends on it no longer checks.
Files are rewritten only when their content changes, so `make` stays incremental.
"""
import os
import re
import sys

sys.path.insert(0, os.path.dirname(__file__))
import rustsrc  # noqa: E402
from rustsrc import PatternError, norm  # noqa: E402

REPO = os.environ.get("VERIF_REPO", "/repo")
GEN_DIR = os.path.join(os.path.dirname(os.path.dirname(os.path.abspath(__file__))), "coq", "theories")


def coq_bool(b):
    return "true" if b else "false"


def write_if_changed(name, text):
    path = os.path.join(GEN_DIR, name)
    old = None
    if os.path.exists(path):
        with open(path) as f:
            old = f.read()
    if old != text:
        with open(path, "w") as f:
            f.write(text)
        return True
    return False


# --------------------------------------------------------------------------- T-proc (C20)
BG_EXPECT = norm("""
let calling_process = determine_calling_process();
let (caller_mutex, determine_done) = &**CALLER;
let mut caller = caller_mutex.lock().unwrap();
if CALLER_INFO_SOURCE.load(DELTA_ATOMIC_ORDERING) <= CALLER_GUESSED { *caller = calling_process; }
determine_done.notify_all();
""")
PUB_EXPECT = norm("""
if let ProcessArgs::Args(result) = describe_calling_process(args) {
let (caller_mutex, determine_done) = &**CALLER;
let mut caller = caller_mutex.lock().unwrap();
*caller = result;
CALLER_INFO_SOURCE.store(CALLER_KNOWN, DELTA_ATOMIC_ORDERING);
determine_done.notify_all();
}
""")
QUERY_EXPECT = norm("""
let (caller_mutex, determine_done) = &**CALLER;
determine_done .wait_while(caller_mutex.lock().unwrap(), |caller| { *caller == CallingProcess::Pending }) .unwrap()
""")


def gen_proc():
    src = rustsrc.load(os.path.join(REPO, "src/utils/process.rs"))
    notes = []
    # constants and initial values
    consts_ok = bool(
        re.search(r"static CALLER_INFO_SOURCE: AtomicUsize = AtomicUsize::new\(CALLER_GUESSED\);", src)
        and re.search(r"const CALLER_GUESSED: usize = 1;", src)
        and re.search(r"const CALLER_KNOWN: usize = 2;", src)
        and re.search(
            r"static ref CALLER: Arc<\(Mutex<CallingProcess>, Condvar\)>\s*=\s*Arc::new\(\(Mutex::new\(CallingProcess::Pending\), Condvar::new\(\)\)\);",
            src)
    )
    if not consts_ok:
        notes.append("constants/initial values of CALLER / CALLER_INFO_SOURCE differ")
    # background thread body = the closure passed to spawn
    outer = rustsrc.fn_body(src, r"pub fn start_determining_calling_process_in_thread\(\)\s*\{")
    m = re.search(r"\.spawn\(move \|\| \{", outer)
    if not m:
        raise PatternError("spawn(move || {...}) not found in start_determining_calling_process_in_thread")
    i = outer.find("{", m.start())
    bg = norm(outer[i + 1:rustsrc.match_brace(outer, i)])
    pub = norm(rustsrc.fn_body(src, r"pub fn set_calling_process\(args: &\[String\]\)\s*\{"))
    m = re.search(r"#\[cfg\(not\(test\)\)\]\s*pub fn calling_process\(\) -> MutexGuard<'static, CallingProcess>\s*\{", src)
    if not m:
        raise PatternError("cfg(not(test)) calling_process() not found")
    i = src.find("{", m.end() - 1)
    query = norm(src[i + 1:rustsrc.match_brace(src, i)])

    exact = consts_ok and bg == BG_EXPECT and pub == PUB_EXPECT and query == QUERY_EXPECT
    if bg != BG_EXPECT:
        notes.append("background thread body differs from the expected shape")
    if pub != PUB_EXPECT:
        notes.append("set_calling_process body differs from the expected shape")
    if query != QUERY_EXPECT:
        notes.append("calling_process body differs from the expected shape")

    # parameters, read leniently so that the model can predict what a changed shape does
    guard_re = r"if CALLER_INFO_SOURCE\.load\(DELTA_ATOMIC_ORDERING\) <= CALLER_GUESSED \{[^}]*= calling_process;"
    gm = re.search(guard_re, bg)
    bg_guard = bool(gm)
    lock_let = re.search(r"let (mut )?\w+ = caller_mutex\.lock\(\)\.unwrap\(\);", bg)
    guard_under_lock = bool(gm and lock_let and lock_let.start() < gm.start())
    wpos = bg.find("= calling_process;")
    npos = bg.find("determine_done.notify_all();")
    bg_notify = npos >= 0 and wpos >= 0 and npos > wpos
    lpos = pub.find(".lock()")
    spos = pub.find("CALLER_INFO_SOURCE.store(CALLER_KNOWN, DELTA_ATOMIC_ORDERING);")
    pub_marks_known = lpos >= 0 and spos > lpos and "drop(caller)" not in pub[:spos]
    pnpos = pub.find("determine_done.notify_all();")
    pub_notify = pnpos >= 0 and pnpos > pub.find("*caller = result;") >= 0
    query_waits = bool(re.search(
        r"\.wait_while\(caller_mutex\.lock\(\)\.unwrap\(\), \|caller\| \{ \*caller == CallingProcess::Pending \}\) \.unwrap\(\)$",
        query))

    # the caller's side (src/main.rs run_app): the launched command is published before the Config is built,
    # which makes the first query - the order Proc.v's main thread has (publish, then the queries)
    msrc = rustsrc.load(os.path.join(REPO, "src/main.rs"))
    mbody = norm(rustsrc.fn_body(msrc, r"pub fn run_app\("))
    ppos = mbody.find("utils::process::set_calling_process(")
    cpos = mbody.find("config::Config::from(opt)")
    pub_first = 0 <= ppos < cpos and mbody.count("set_calling_process(") == 1
    text = f"""(* GENERATED by tools/translate.py from src/utils/process.rs -- do not edit. *)
From DV Require Import Proc.

(* src/main.rs run_app: set_calling_process is called (once) before Config::from, which makes the first query *)
Definition publishes_before_first_query : bool := {coq_bool(pub_first)}.

Definition code_params : params :=
  mkParams {coq_bool(bg_guard)} {coq_bool(guard_under_lock)} {coq_bool(bg_notify)} {coq_bool(pub_marks_known)} {coq_bool(pub_notify)} {coq_bool(query_waits)}.

(* the three code fragments and the initial values match the expected shape token for token *)
Definition shapes_exact : bool := {coq_bool(exact)}.
"""
    info = {
        "params": dict(bg_guard=bg_guard, guard_under_lock=guard_under_lock, bg_notify=bg_notify,
                       pub_marks_known=pub_marks_known, pub_notify=pub_notify, query_waits=query_waits),
        "shapes_exact": exact, "notes": notes, "publishes_before_first_query": pub_first,
    }
    return "GenProc.v", text, info


# --------------------------------------------------------------------------- D-vte (C08 C03 C19)
def gen_vte():
    """the transition table of the escape-sequence parser linked into delta, dumped from the
    hook-enabled binary built from the current tree"""
    import subprocess
    delta = os.path.join(os.environ.get("VERIF_CACHE", "/verif/.cache"), "target", "debug", "delta")
    env = dict(os.environ)
    env["DELTA_VERIF"] = "dump:vte"
    p = subprocess.run([delta], env=env, stdout=subprocess.PIPE, stderr=subprocess.PIPE, timeout=60)
    if p.returncode != 0:
        raise PatternError("dump:vte failed: " + p.stderr.decode()[-300:])
    rows = {}
    for line in p.stdout.decode().split("\n"):
        f = line.split()
        if not f:
            continue
        ent = [tuple(int(x) for x in e.split(":")) for e in f[1:]]
        if len(ent) != 256:
            raise PatternError("dump:vte: a row does not have 256 entries")
        rows[int(f[0])] = ent
    if sorted(rows) != list(range(16)):
        raise PatternError("dump:vte: expected 16 states")
    body = []
    for st in range(16):
        body.append("  [" + "; ".join(f"({a}, {b})" for a, b in rows[st]) + "]")
    text = ("(* GENERATED by tools/translate.py from the hook-enabled binary (DELTA_VERIF=dump:vte): the\n"
            "   state_change table of anstyle-parse as linked into delta.  Entry = (next state, action),\n"
            "   numeric values of anstyle_parse::state::{State, Action}; next state 0 = stay. *)\n"
            "From Coq Require Import List NArith.\nImport ListNotations.\nLocal Open Scope N_scope.\n\n"
            "Definition vte_table : list (list (N * N)) := [\n" + ";\n".join(body) + "\n].\n")
    return "GenVte.v", text, {"states": 16}


# --------------------------------------------------------------------------- D-features / T-flag-order (C13)
def dump_features():
    """{feature: {option: (kind, text)}} from the hook-enabled binary, features sorted"""
    import subprocess
    delta = os.path.join(os.environ.get("VERIF_CACHE", "/verif/.cache"), "target", "debug", "delta")
    env = {"PATH": "/usr/bin:/bin", "HOME": "/nonexistent", "DELTA_VERIF": "dump:features", "GIT_CONFIG_NOSYSTEM": "1"}
    p = subprocess.run([delta], env=env, stdout=subprocess.PIPE, stderr=subprocess.PIPE, timeout=60)
    if p.returncode != 0:
        raise PatternError("dump:features failed: " + p.stderr.decode()[-300:])
    feats = {}
    for line in p.stdout.decode().split("\n"):
        f = line.split("\t")
        if len(f) != 4:
            continue
        feats.setdefault(f[0], {})
        if f[1] != "-":
            feats[f[0]][f[1]] = (f[2], bytes.fromhex(f[3]).decode())
    return feats


def flag_order():
    """order in which gather_features examines the command-line feature flags"""
    src = rustsrc.load(os.path.join(REPO, "src/options/set.rs"))
    body = rustsrc.fn_body(src, r"fn gather_features\(")
    order = re.findall(r'if opt\.(\w+) \{ gather_builtin_features_recursively\("([\w-]+)"', norm(body))
    if not order:
        raise PatternError("gather_features: no `if opt.<flag> { gather_builtin_features_recursively(...)` lines found")
    for field, name in order:
        if field.replace("_", "-") != name:
            raise PatternError(f"gather_features: flag opt.{field} gathers feature {name}")
    return [name for _, name in order]


def gen_features():
    feats = dump_features()
    names = sorted(feats)
    order = flag_order()
    if sorted(order) != names:
        raise PatternError(f"command-line flags {order} do not cover the built-in features {names}")
    # after the repair of F11 the flags of a section are examined in sorted order: check the source
    src = rustsrc.load(os.path.join(REPO, "src/options/set.rs"))
    fbody = norm(rustsrc.fn_body(src, r"fn gather_builtin_features_from_flags_in_gitconfig\("))
    sorted_iter = bool(re.search(r"let mut child_features: Vec<&String> = builtin_features\.keys\(\)\.collect\(\); child_features\.sort\(\); for child_feature in child_features", fbody))
    idx = {n: i for i, n in enumerate(names)}

    def children(n):
        v = feats[n].get("features")
        return [idx[c] for c in v[1].split()] if v else []

    def flags(n):
        return [idx[o] for o, (k, t) in feats[n].items() if k == "bool" and t == "true" and o in idx and o != n]
    lst = lambda l: "[" + "; ".join(str(x) for x in l) + "]"
    text = ("(* GENERATED by tools/translate.py: the built-in features of the hook-enabled binary\n"
            "   (DELTA_VERIF=dump:features) in sorted order, the features each one enables through its\n"
            "   `features` default and through boolean flags, and the order in which gather_features\n"
            "   examines the command-line flags (source scan of src/options/set.rs).\n"
            "   Feature numbers: " + ", ".join(f"{i}={n}" for n, i in idx.items()) + " *)\n"
            "From Coq Require Import List NArith Bool.\nImport ListNotations.\nLocal Open Scope N_scope.\n\n"
            f"Definition builtin_names : list N := {lst(range(len(names)))}.\n"
            "Definition builtin_children : list (N * list N) := [" + "; ".join(f"({idx[n]}, {lst(children(n))})" for n in names) + "].\n"
            "Definition builtin_flags : list (N * list N) := [" + "; ".join(f"({idx[n]}, {lst(flags(n))})" for n in names) + "].\n"
            f"Definition cli_flag_order : list N := {lst([idx[n] for n in order])}.\n"
            f"Definition flags_examined_in_sorted_order : bool := {coq_bool(sorted_iter)}.\n")
    return "GenFeatures.v", text, {"names": names, "flag_order": order, "sorted_iteration": sorted_iter}


def gen_syntax():
    """order of the two syntax-table lookups and the whole-name length threshold in
    Painter::get_syntax (source scan of src/paint.rs)"""
    src = rustsrc.load(os.path.join(REPO, "src/paint.rs"))
    body = norm(rustsrc.fn_body(src, r"fn get_syntax<'a>\("))
    m = re.search(r"if !extension\.is_empty\(\) \|\| file_name\.len\(\) > (\d+) \{", body)
    if not m:
        raise PatternError("get_syntax: guard `!extension.is_empty() || file_name.len() > N` not found")
    thr = int(m.group(1))
    a = re.search(r"\.find_syntax_by_extension\((\w+)\) \.or_else\(\|\| syntax_set\.find_syntax_by_extension\((\w+)\)\)", body)
    if not a or {a.group(1), a.group(2)} != {"file_name", "extension"}:
        raise PatternError("get_syntax: lookup chain find_syntax_by_extension(..).or_else(..) not found")
    first = a.group(1) == "file_name"
    text = ("(* GENERATED by tools/translate.py from src/paint.rs Painter::get_syntax: which of the two\n"
            "   syntax-table lookups comes first, and the length above which an extension-less name is\n"
            "   looked up as a whole. *)\n"
            f"Definition whole_name_first : bool := {coq_bool(first)}.\n"
            f"Definition min_whole_name_len : nat := {thr}.\n")
    return "GenSyntax.v", text, {"whole_name_first": first, "threshold": thr}


def gen_counter():
    """which arms of handle_hunk_line call minus_line_counter.count_line(), and the constants of
    AmbiguousDiffMinusCounter (source scan of src/handlers/hunk.rs and hunk_header.rs)"""
    src = rustsrc.load(os.path.join(REPO, "src/handlers/hunk.rs"))
    body = norm(rustsrc.fn_body(src, r"pub fn handle_hunk_line\("))
    total = body.count("minus_line_counter.count_line()")
    arms = {}
    for name, pat in (("HMinus", r"Some\(HunkMinus\(diff_type, raw_line\)\) => \{"), ("HPlus", r"Some\(HunkPlus\(diff_type, raw_line\)\) => \{"),
                      ("HZero", r"Some\(HunkZero\(diff_type, raw_line\)\) => \{"), ("HOther", r"_ => \{")):
        m = re.search(pat, body)
        if not m:
            raise PatternError(f"handle_hunk_line: arm {name} not found")
        j = rustsrc.match_brace(body, m.end() - 1)
        arms[name] = "minus_line_counter.count_line()" in body[m.end():j]
    if total != sum(arms.values()):
        raise PatternError(f"handle_hunk_line: {total} count_line() calls, {sum(arms.values())} of them inside the match arms")
    hh = rustsrc.load(os.path.join(REPO, "src/handlers/hunk_header.rs"))
    m = re.search(r"const COUNTER_RELEVANT_IF_GREATER_THAN: isize = (-?\d+);", hh)
    e = re.search(r"const EXPECT_DIFF_3DASH_HEADER: isize = (-?\d+);", hh)
    if not m or not e:
        raise PatternError("AmbiguousDiffMinusCounter constants not found")
    tde = norm(rustsrc.fn_body(hh, r"pub fn three_dashes_expected\(&self\) -> bool"))
    if tde != "if self.0 > Self::COUNTER_RELEVANT_IF_GREATER_THAN { self.0 <= Self::EXPECT_DIFF_3DASH_HEADER } else { true }":
        raise PatternError("three_dashes_expected has a different shape: " + tde)
    text = ("(* GENERATED by tools/translate.py from src/handlers/hunk.rs (handle_hunk_line) and\n"
            "   src/handlers/hunk_header.rs (AmbiguousDiffMinusCounter). *)\n"
            "From Coq Require Import ZArith.\nFrom DV Require Import MinusCounter.\n"
            "Definition code_counted (k : hkind) : bool :=\n  match k with\n"
            + "".join(f"  | {n} => {coq_bool(arms[n])}\n" for n in ("HMinus", "HZero", "HPlus", "HOther")) + "  end.\n"
            f"Definition code_relevant_if_gt : Z := ({m.group(1)})%Z.\n"
            f"Definition code_expect_header_le : Z := ({e.group(1)})%Z.\n")
    return "GenCounter.v", text, {"counted": arms, "relevant_if_gt": int(m.group(1))}


def gen_grep():
    """the regex delta uses for coloured grep lines (GrepLineRegex::WithColor in src/handlers/grep.rs),
    normalised (extended-mode comments and whitespace removed), compared with the regex that
    GrepColour.v implements as a direct parser"""
    src = open(os.path.join(REPO, "src/handlers/grep.rs"), encoding="utf-8").read()
    body = rustsrc.fn_body(src, r"fn make_grep_line_regex\(")
    m1 = re.search(r'GrepLineRegex::WithColor => \{\s*r"(.*?)"\s*\}', body, re.S)
    m2 = re.search(r'GrepLineRegex::WithColor => \{\s*r#"(.*?)"#\s*\}', body, re.S)
    fm = re.search(r'Regex::new\(&format!\(\s*"(.*?)",\s*\)\)', body, re.S)
    if not (m1 and m2 and fm):
        raise PatternError("make_grep_line_regex: the WithColor arms / the format! call were not found")

    def normx(t):
        t = "".join(re.sub(r"(?<!\\)#.*$", "", line) for line in t.split("\n"))
        return re.sub(r"(?<!\\)\s+", "", t)
    got = (normx(m1.group(1)), normx(m2.group(1)), normx(fm.group(1)))
    want = (r"\x1b\[35m([^\x1b]*)\x1b\[m",
            r"\x1b\[36m(?:(:\x1b\[m(?:\x1b\[32m([0-9]+)\x1b\[m\x1b\[36m:\x1b\[m)?)|(-\x1b\[m(?:\x1b\[32m([0-9]+)\x1b\[m\x1b\[36m-\x1b\[m)?)|(=\x1b\[m(?:\x1b\[32m([0-9]+)\x1b\[m\x1b\[36m=\x1b\[m)?))",
            r"(?x)^{file_path}{separator}(.*)$")
    same = got == want
    text = ("(* GENERATED by tools/translate.py from src/handlers/grep.rs make_grep_line_regex: is the coloured-line\n"
            "   regex (normalised) the one GrepColour.v implements?  The normalised regex of the current tree:\n"
            "   file path : " + got[0].replace("*)", "* )") + "\n   separator : " + got[1].replace("*)", "* )") + "\n   whole     : " + got[2].replace("*)", "* )") + " *)\n"
            f"Definition colour_regex_is_modelled : bool := {coq_bool(same)}.\n")
    return "GenGrep.v", text, {"colour_regex_is_modelled": same}


def gen_merge():
    """which buffers MergeConflictLines::clear() empties, and the four conflict-marker strings of
    src/handlers/merge_conflict.rs"""
    src = rustsrc.load(os.path.join(REPO, "src/handlers/merge_conflict.rs"))
    body = norm(rustsrc.fn_body(src, r"fn clear\(&mut self\)"))
    stmts = [x.strip() for x in body.split(";") if x.strip()]
    cleared = {"Ours": False, "Ancestral": False, "Theirs": False}
    for st_ in stmts:
        m = re.fullmatch(r"self\[(Ours|Ancestral|Theirs)\]\.clear\(\)", st_)
        if not m:
            raise PatternError("MergeConflictLines::clear has a statement that is not `self[<commit>].clear()`: " + st_)
        cleared[m.group(1)] = True
    marks = {}
    for name, fn, pat in (("begin", r"fn enter_merge_conflict\(", r'parse_merge_marker\(&self\.line, "([^"]+)"\)'),
                          ("anc", r"fn enter_ancestral\(", r'parse_merge_marker\(&self\.line, "([^"]+)"\)'),
                          ("sep", r"fn enter_theirs\(", r'self\.line\.starts_with\("([^"]+)"\)'),
                          ("end", r"fn exit_merge_conflict\(", r'parse_merge_marker\(&self\.line, "([^"]+)"\)')):
        m = re.search(pat, norm(rustsrc.fn_body(src, fn)))
        if not m:
            raise PatternError(f"merge_conflict.rs: marker test of {fn} not found")
        marks[name] = m.group(1)
    pm = norm(rustsrc.fn_body(src, r"fn parse_merge_marker<"))
    if pm != "match line.strip_prefix(marker) { Some(suffix) => { let suffix = suffix.trim(); if !suffix.is_empty() { Some(suffix) } else { None } } None => None, }":
        raise PatternError("parse_merge_marker has a different shape: " + pm)
    text = ("(* GENERATED by tools/translate.py from src/handlers/merge_conflict.rs (MergeConflictLines::clear and the\n"
            "   marker tests of enter_merge_conflict / enter_ancestral / enter_theirs / exit_merge_conflict). *)\n"
            "From Coq Require Import String List.\nFrom DV Require Import Text MergeConflict.\n"
            "Definition code_cleared (d : side) : bool :=\n  match d with\n"
            f"  | Ours => {coq_bool(cleared['Ours'])}\n  | Anc => {coq_bool(cleared['Ancestral'])}\n  | Theirs => {coq_bool(cleared['Theirs'])}\n  end.\n"
            + "".join(f'Definition code_marker_{n} : text := lit "{marks[n]}".\n' for n in ("begin", "anc", "sep", "end")))
    return "GenMerge.v", text, {"cleared": cleared, "markers": marks}


def gen_sbs():
    """the two guarded rewrites of the side-by-side block of set_options (src/options/set.rs): which command-line key
    switches the rewrite of which option off"""
    src = rustsrc.load(os.path.join(REPO, "src/options/set.rs"))
    m = re.search(r'if features\.contains\(&"side-by-side"\.to_string\(\)\) \{', src)
    if not m:
        raise PatternError("set_options: the side-by-side block was not found")
    j = rustsrc.match_brace(src, m.end() - 1)
    body = norm(src[m.end():j])
    blocks = re.findall(r'if !config::user_supplied_option\("(\w+)", arg_matches\) && opt\.(\w+)\.starts_with\(prefix\) \{ '
                        r'opt\.(\w+) = format!\("syntax \{\}", &opt\.(\w+)\[prefix\.len\(\)\.\.\]\); \}', body)
    rest = re.sub(r'if !config::user_supplied_option\("(\w+)", arg_matches\) && opt\.(\w+)\.starts_with\(prefix\) \{ '
                  r'opt\.(\w+) = format!\("syntax \{\}", &opt\.(\w+)\[prefix\.len\(\)\.\.\]\); \}', "", body).strip()
    if rest != 'let prefix = "normal ";':
        raise PatternError("set_options: the side-by-side block has a different shape: " + rest[:200])
    names = {"minus_style": "MinusStyle", "minus_emph_style": "MinusEmphStyle"}
    guard = {}
    for key, f1, f2, f3 in blocks:
        if not (f1 == f2 == f3) or f1 not in names or key not in names:
            raise PatternError(f"set_options: side-by-side rewrite of {f2} tests {f1}, reads {f3}, key {key}")
        guard[f1] = key
    if set(guard) != set(names):
        raise PatternError(f"set_options: the side-by-side block rewrites {sorted(guard)}")
    text = ("(* GENERATED by tools/translate.py from src/options/set.rs (set_options, the side-by-side block):\n"
            "   the command-line key whose presence switches the `normal` -> `syntax` rewrite of each option off. *)\n"
            "From DV Require Import SbsStyles.\n"
            "Definition code_guard (o : sopt) : sopt :=\n  match o with\n"
            + "".join(f"  | {names[o]} => {names[guard[o]]}\n" for o in ("minus_style", "minus_emph_style")) + "  end.\n")
    return "GenSbs.v", text, {"guard": guard}


def gen_hunkpath():
    """which file name emit_hunk_header_line prints in a hunk header (src/handlers/hunk_header.rs)"""
    src = rustsrc.load(os.path.join(REPO, "src/handlers/hunk_header.rs"))
    body = norm(rustsrc.fn_body(src, r"pub fn emit_hunk_header_line\("))
    ms = re.findall(r'if self\.(minus|plus)_file == "/dev/null" \{ &self\.(minus|plus)_file \} else \{ &self\.(minus|plus)_file \}', body)
    if len(ms) != 1:
        raise PatternError("emit_hunk_header_line: the choice of the printed path has a different shape")
    side = {"minus": "OldSide", "plus": "NewSide"}
    t, a, b = ms[0]
    text = ("(* GENERATED by tools/translate.py from src/handlers/hunk_header.rs (emit_hunk_header_line): the side whose name\n"
            "   is compared with /dev/null, the side printed when it is, the side printed otherwise. *)\n"
            "From DV Require Import HunkPath.\n"
            f"Definition code_tested : fside := {side[t]}.\nDefinition code_on_null : fside := {side[a]}.\n"
            f"Definition code_otherwise : fside := {side[b]}.\n")
    return "GenHunkPath.v", text, {"tested": t, "on_null": a, "otherwise": b}


def gen_ingest():
    """the carriage-return clean-up of StateMachine::ingest_line_utf8 (src/delta.rs): is it the shape Ingest.v models?"""
    src = rustsrc.load(os.path.join(REPO, "src/delta.rs"))
    body = norm(rustsrc.fn_body(src, r"fn ingest_line_utf8\("))
    want = ('if let Some(cr_index) = self.raw_line.rfind(\'\\r\') { if ansi::measure_text_width(&self.raw_line[cr_index + 1..]) == 0 { '
            'self.raw_line = format!( "{}{}", &self.raw_line[..cr_index], &self.raw_line[cr_index + 1..] ); } }')
    first = body.startswith("self.raw_line = raw_line; " + want)
    once = body.count("rfind(") == 1 and body.count("'\\r'") == 1
    text = ("(* GENERATED by tools/translate.py from src/delta.rs (ingest_line_utf8): does the function begin by searching the\n"
            "   whole raw line for its last carriage return and removing it iff the display width of everything after it is 0\n"
            "   (the shape Ingest.v models), and is that the only place a carriage return is looked for? *)\n"
            f"Definition cr_cleanup_is_modelled : bool := {coq_bool(first and once)}.\n")
    return "GenIngest.v", text, {"cr_cleanup_is_modelled": first and once}


def gen_submodule():
    """is the submodule short-form handler (src/handlers/submodule.rs) the one Submodule.v models?"""
    src = rustsrc.load(os.path.join(REPO, "src/handlers/submodule.rs"))
    test = norm(rustsrc.fn_body(src, r"fn test_submodule_short_line\("))
    hand = norm(rustsrc.fn_body(src, r"pub fn handle_submodule_short_line\("))
    m = re.search(r'Regex::new\("(.*?)"\)\.unwrap\(\)', src)
    want_test = ('matches!(self.state, State::HunkHeader(_, _, _, _)) && self.line.starts_with("-Subproject commit ") || '
                 'matches!(self.state, State::SubmoduleShort(_)) && self.line.starts_with("+Subproject commit ")')
    want_head = "if !self.test_submodule_short_line() || self.config.color_only { return Ok(false); } if let Some(commit) = get_submodule_short_commit(&self.line) {"
    want_tail = "Ok(true) } else { Ok(false) }"
    ok = (test == want_test and hand.startswith(want_head) and hand.endswith(want_tail) and hand.count("Ok(true)") == 1
          and hand.count("self.state =") == 1 and "self.state = State::SubmoduleShort(commit.to_owned());" in hand
          and bool(m) and m.group(1) == "^[-+]Subproject commit ([0-9a-f]{40})(-dirty)?$")
    text = ("(* GENERATED by tools/translate.py from src/handlers/submodule.rs: the state / prefix test, the --color-only guard, the\n"
            "   claim-only-when-the-regex-matches structure and the regex itself are those Submodule.v models. *)\n"
            f"Definition submodule_handler_is_modelled : bool := {coq_bool(ok)}.\n")
    return "GenSubmodule.v", text, {"submodule_handler_is_modelled": ok}


def gen_links():
    """is format_osc8_file_hyperlink (src/features/hyperlinks.rs) the template instantiation Links.v models?"""
    src = rustsrc.load(os.path.join(REPO, "src/features/hyperlinks.rs"))
    body = norm(rustsrc.fn_body(src, r"pub fn format_osc8_file_hyperlink<"))
    want = ('debug_assert!(absolute_path.as_ref().is_absolute()); let mut url = config .hyperlinks_file_link_format '
            '.replace("{path}", &absolute_path.as_ref().to_string_lossy()); if let Some(host) = &config.hostname { url = url.replace("{host}", host) } '
            'if let Some(n) = line_number { url = url.replace("{line}", &format!("{n}")) } else { url = url.replace("{line}", "") }; '
            'Cow::from(format_osc8_hyperlink(&url, text))')
    ok = body == want
    text = ("(* GENERATED by tools/translate.py from src/features/hyperlinks.rs (format_osc8_file_hyperlink): {path}, then {host} if a host\n"
            "   name is known, then {line} - by the decimal number, or by nothing when the link has no line number - are replaced in the\n"
            "   configured template, and the result is wrapped by format_osc8_hyperlink: the shape Links.v models. *)\n"
            f"Definition file_link_url_is_modelled : bool := {coq_bool(ok)}.\n")
    return "GenLinks.v", text, {"file_link_url_is_modelled": ok}


def _bool_expr(e, atoms):
    """a flat Rust boolean expression over known atoms -> Coq (&& binds tighter than || in both)"""
    ors = []
    for o in e.split(" || "):
        ands = []
        for a in o.split(" && "):
            a = a.strip()
            if a not in atoms:
                raise PatternError("unknown condition: " + a)
            ands.append(atoms[a])
        ors.append(" && ".join(ands))
    return " || ".join(ors)


def gen_blamenumbers():
    """when format_blame_line_number (src/handlers/blame.rs) leaves the line-number field blank, by mode"""
    src = rustsrc.load(os.path.join(REPO, "src/handlers/blame.rs"))
    body = norm(rustsrc.fn_body(src, r"pub fn format_blame_line_number\("))
    m = re.search(r"let \(format, empty\) = match &format \{ BlameLineNumbers::PerBlock\(format\) => \(format, (.*?)\), "
                  r"BlameLineNumbers::Every\(n, format\) => \(format, (.*?)\), BlameLineNumbers::On\(format\) => \(format, (.*?)\), \};", body)
    if not m or body.count("empty") != 2 or "if empty { for _ in 0..measure_text_width(&line_number) { result.push(' '); } } else { result.push_str(&line_number); }" not in body:
        raise PatternError("format_blame_line_number has a different shape")
    atoms = {"is_repeat": "is_repeat", "!is_repeat": "negb is_repeat", "line_number % n != 0": "negb (line_number mod n =? 0)",
             "line_number % n == 0": "(line_number mod n =? 0)", "true": "true", "false": "false"}
    pb, ev, on = (_bool_expr(x, atoms) for x in m.groups())
    text = ("(* GENERATED by tools/translate.py from src/handlers/blame.rs (format_blame_line_number): the condition under which the\n"
            "   line-number field is filled with blanks, per line-number mode. *)\n"
            "From Coq Require Import Bool NArith.\nFrom DV Require Import BlameNumbers.\nLocal Open Scope N_scope.\n"
            "Definition code_blank (m : nmode) (is_repeat : bool) (line_number : N) : bool :=\n  match m with\n"
            f"  | PerBlock => {pb}\n  | Every n => {ev}\n  | On => {on}\n  end.\n")
    return "GenBlameNumbers.v", text, {"per_block": pb, "every": ev, "on": on}


def gen_differ():
    """the guard of build_diff_cmd (src/subcommands/diff.rs) that chooses `git diff --no-index` over plain `diff`"""
    src = rustsrc.load(os.path.join(REPO, "src/subcommands/diff.rs"))
    body = norm(rustsrc.fn_body(src, r"pub fn build_diff_cmd\("))
    m = re.search(r"let \(differ, mut diff_cmd\) = match retrieve_git_version\(\) \{ Some\(version\) if (.*?) => \{ \( SubCmdKind::GitDiff,", body)
    ps = 'let via_process_substitution = |f: &Path| f.starts_with("/proc/self/fd/") || f.starts_with("/dev/fd/");'
    if not m or ps not in body or body.count("SubCmdKind::GitDiff") != 1:
        raise PatternError("build_diff_cmd has a different shape")
    g = re.fullmatch(r"version >= \((\d+), (\d+)\) \|\| !\(via_process_substitution\(minus_file\) (\|\||&&) via_process_substitution\(plus_file\)\)", m.group(1))
    if not g:
        raise PatternError("build_diff_cmd: the guard has a different shape: " + m.group(1))
    text = ("(* GENERATED by tools/translate.py from src/subcommands/diff.rs (build_diff_cmd): the guard under which\n"
            "   `git diff --no-index` is started rather than plain `diff`. *)\n"
            "From Coq Require Import Bool NArith.\nFrom DV Require Import Differ.\nLocal Open Scope N_scope.\n"
            f"Definition code_min_version : version := ({g.group(1)}, {g.group(2)}).\n"
            "Definition code_use_git (v : version) (minus_is_pipe plus_is_pipe : bool) : bool :=\n"
            f"  version_ge v code_min_version || negb (minus_is_pipe {g.group(3)} plus_is_pipe).\n")
    return "GenDiffer.v", text, {"min_version": [int(g.group(1)), int(g.group(2))], "inner": g.group(3)}


GENERATORS = {"proc": gen_proc, "vte": gen_vte, "features": gen_features, "syntax": gen_syntax, "counter": gen_counter, "grep": gen_grep, "merge": gen_merge, "sbs": gen_sbs, "hunkpath": gen_hunkpath, "ingest": gen_ingest, "submodule": gen_submodule, "links": gen_links, "blamenumbers": gen_blamenumbers, "differ": gen_differ}


def run(which=None):
    """returns {name: info}; info['error'] is set when a pattern failed (file then says so)."""
    results = {}
    for name, g in GENERATORS.items():
        if which and name not in which:
            continue
        try:
            fname, text, info = g()
            info["changed"] = write_if_changed(fname, text)
            info["file"] = fname
        except PatternError as e:
            info = {"error": str(e)}
        results[name] = info
    return results


if __name__ == "__main__":
    import json
    print(json.dumps(run(sys.argv[1:] or None), indent=1))
