"""C18 — exit status and pager protocol: all output delivered, quits are silent.

proof:   PropC18.v — over the model of pager selection (bat's get_pager_executable as used by
         env.rs, output.rs try_pager / _make_process_from_less_path): precedence --pager, then
         DELTA_PAGER, then BAT_PAGER / PAGER (binary only; more / most / delta replaced by
         less), then less; less gets --RAW-CONTROL-CHARS whenever its arguments are delta's to
         choose; the user's own arguments are passed untouched; over the exit-status function:
         broken pipe => 0, stdin => 0, differ's / wrapped command's status passed through.
tie:     the binary run with stub executables (less, more, most, mypager, git, rg, ...) on
         PATH under generated environments: the spawned command line (or stdout fallback, or
         the recursion-guard error) equals the model's outcome.
oracle:  model-free: bytes received by the pager = bytes of the un-paged run; delta does not
         exit before a slow pager; exit status = 0 on stdin, = the differ's for two files,
         = the wrapped command's; fault enumeration: for EVERY write call of a run (LD_PRELOAD
         shim failing write k.. with EPIPE, k = 0..n) and for pagers that quit after reading
         any prefix, in stdin / two-file / wrapped-command mode and for the informational
         commands: status 0, nothing on stderr, no hang.
"""
import json
import os
import shlex
import sys
import tempfile
from concurrent.futures import ThreadPoolExecutor

import gdiff
import term
import vlib

PID = "C18"
STEMS = {"less": 0, "more": 1, "most": 2, "delta": 3}


def stubs_dir():
    return os.path.join(vlib.CACHE, "stubs")


def commands_pool():
    sd = stubs_dir()
    return [None, None, "", "less", "less -K -x4", os.path.join(sd, "less"), os.path.join(sd, "less") + " -S", "more", "most -s", "mypager",
            "mypager -a 'b c'", "nonexistent-pager", "nonexistent-pager -x", "delta", "lesser -q", "less.sh -z", "bat", "more -d"]


def word_info(w, ids):
    base = os.path.basename(w)
    stem = base.rsplit(".", 1)[0] if "." in base[1:] else base
    ids.setdefault(w, len(ids) + 10)
    return STEMS.get(stem, 9), ids[w]


def resolvable(w):
    if "/" in w:
        return os.path.exists(w)
    return w in vlib.STUB_NAMES


def enc(cmd, ids):
    if cmd is None:
        return "-"
    ws = shlex.split(cmd)
    return ",".join("%d:%d" % word_info(w, ids) for w in ws)


def run(args, env, stdin=b"", timeout=30, pass_fds=()):
    rec = tempfile.mktemp(dir=vlib.CACHE, prefix="rec")
    data = tempfile.mktemp(dir=vlib.CACHE, prefix="dat")
    e = {"PATH": stubs_dir() + ":/usr/bin:/bin", "STUB_RECORD": rec, "STUB_DATA": data}
    e.update(env)
    rc, out, err = vlib.run_delta(["--no-gitconfig"] + list(args), stdin=stdin, env_extra=e, timeout=timeout, pass_fds=pass_fds)
    r = open(rec).read() if os.path.exists(rec) else ""
    d = open(data, "rb").read() if os.path.exists(data) else None
    for f in (rec, data):
        if os.path.exists(f):
            os.unlink(f)
    return rc, out, err, r, d


def main(tier, replay=None):
    chk = vlib.Check(PID, tier)
    ok, out = vlib.build_delta()
    if not ok:
        print("tree does not build with hooks enabled:\n" + out[-2000:])
        chk.oblige("build:delta-with-hooks", False, out[-2000:])
        return chk.finish()
    vlib.build_native()
    vlib.standard_proof_obligations(chk, "PropC18", gen_names=("differ",))
    ok, out = vlib.build_vmodel()
    if not ok:
        chk.oblige("build:vmodel", False, out[-2000:])
        return chk.finish()
    vm = vlib.vmodel()
    chk.rule = ("pager environments: {--pager, DELTA_PAGER, BAT_PAGER, PAGER} each unset / empty / less with and without arguments / absolute path / "
                "more / most / delta / unknown / unresolvable, x paging always|auto x less version old|new; exit status: stdin, two files (differ "
                "status 0,1,2,3,129; git old/new), wrapped git / rg with status 0..5 and stderr; fault enumeration: every write call k of a run "
                "fails with EPIPE (stdout mode, three rendering modes, informational commands), pagers quitting after every 1/16 of the output "
                "for small and > 64 KiB outputs in stdin, two-file and wrapped-command mode; non-trivial = a run with an injected fault or a non-default pager")
    rp = json.load(open(replay)) if replay else None
    r0 = vlib.case_rng(chk.seed, PID, "diff")
    small = ("\n".join(gdiff.diff_lines(gdiff.gen_diff(r0, nsec=2))) + "\n").encode()
    big = small * (1 + (200000 // max(1, len(small))))
    medium = small * 12
    # ---------------------------------------------------------------- A: pager selection
    pool = commands_pool()
    ncases = 120 if tier == "quick" else 1500
    acases = []
    if rp and rp.get("shape") == "pager":
        acases = [rp["case"]]
    elif not rp:
        for i in range(ncases):
            r = vlib.case_rng(chk.seed, PID, ("pager", i))
            acases.append({"config": r.choice(pool[:2] + pool), "DELTA_PAGER": r.choice(pool[:2] + pool), "BAT_PAGER": r.choice(pool[:2] + pool),
                           "PAGER": r.choice(pool), "mode": r.choice(["always", "auto"]), "less_version": r.choice(["590", "590", "487"])})

    def work_a(c):
        env = {k: c[k] for k in ("DELTA_PAGER", "BAT_PAGER", "PAGER") if c[k] is not None}
        env["STUB_LESS_VERSION"] = c["less_version"]
        args = ["--paging", c["mode"]] + (["--pager", c["config"]] if c["config"] is not None else [])
        return run(args, env, stdin=small)
    with ThreadPoolExecutor(max_workers=vlib.NCPU) as ex:
        ares = list(ex.map(work_a, acases))
    rc0, plain, _, _, _ = run(["--paging", "never"], {}, stdin=small)
    mism = 0
    for c, (rc, out, err, rec, data) in zip(acases, ares):
        chk.case(("pager", json.dumps(c, sort_keys=True)), any(c[k] not in (None, "less") for k in ("config", "DELTA_PAGER", "BAT_PAGER", "PAGER")), c)
        ids = {}
        res = []
        for k in ("config", "DELTA_PAGER", "BAT_PAGER", "PAGER"):
            if c[k] is not None:
                for w in shlex.split(c[k]):
                    if resolvable(w):
                        res.append(word_info(w, ids)[1])
        if resolvable("less"):
            res.append(0)
        m = vm.ask("pager_select", 1 if c["mode"] == "auto" else 0, 1 if c["less_version"] == "487" else 0, enc(c["config"], ids), enc(c["DELTA_PAGER"], ids),
                   enc(c["BAT_PAGER"], ids), enc(c["PAGER"], ids), ",".join(str(x) for x in sorted(set(res)))).split("\t")[1]
        back = {v: k for k, v in ids.items()}
        back[0] = "less"
        if m == "STDOUT":
            want = "STDOUT"
        elif m == "FATAL":
            want = "FATAL"
        else:
            _, b, *a = m.split(" ")
            args = []
            for t in (a[0].split(",") if a and a[0] else []):
                args.append({"R": "--RAW-CONTROL-CHARS", "N": "--no-init", "Q": "--quit-if-one-screen"}.get(t) or back[int(t[1:])])
            want = "SPAWN " + os.path.basename(back[int(b)]) + "".join("\x1f" + x for x in args)
        if rec.startswith("PAGER "):
            got = "SPAWN " + rec.split("\t")[0][len("PAGER "):]
        elif rc == 0 and out:
            got = "STDOUT"
        elif rc != 0 and b"non-terminating recursion" in err:
            got = "FATAL"
        else:
            got = f"?? rc={rc} out={len(out)} err={err[-120:]!r}"
        chk.count("outcome:" + got.split(" ")[0].split("\x1f")[0])
        if got != want:
            mism += 1
            if mism <= 3:
                vlib.log(f"[C18] pager mismatch {c}: model {want!r} impl {got!r}")
        # model-free clauses
        why = []
        if got.startswith("SPAWN"):
            if data != plain:
                why.append(f"the pager received {len(data or b'')} bytes, delta without pager writes {len(plain)}")
            name = got[6:].split("\x1f")[0]
            given = {k: c[k] for k in ("config", "DELTA_PAGER") if c[k] is not None}
            user_args = False
            src = c["config"] if c["config"] is not None else c["DELTA_PAGER"]
            if src is not None and len(shlex.split(src)) > 1:
                user_args = True
            if name == "less" and not user_args and "--RAW-CONTROL-CHARS" not in got:
                why.append(f"less started without --RAW-CONTROL-CHARS although its arguments are delta's to choose: {got!r}")
            if c["config"] is None and c["DELTA_PAGER"] is None and c["BAT_PAGER"] is None and name in ("more", "most", "delta"):
                why.append(f"PAGER={c['PAGER']!r} started {name}")
        if got == "STDOUT" and out != plain:
            why.append("fallback to stdout does not deliver the whole output")
        if rc not in (0,) and got != "FATAL":
            why.append(f"exit status {rc} reading stdin")
        if why:
            chk.violation({"property": PID, "shape": "pager", "why": "; ".join(why), "case": c})
    chk.oblige("correspondence:pager-selection", mism == 0, f"{mism} of {len(acases)} environments start a different pager command than the model")
    # ---- delta does not exit before the pager
    if not rp:
        import time
        t0 = time.time()
        rc, out, err, rec, data = run(["--paging", "always"], {"STUB_SLEEP_MS": "700"}, stdin=small)
        chk.case(("slow-pager",), True, None)
        if not rec.startswith("PAGER") or time.time() - t0 < 0.65:
            chk.violation({"property": PID, "shape": "slow-pager", "why": "delta exited before the pager did (the pager's record is missing when delta returns)"})
    # ---------------------------------------------------------------- B: exit status
    of = os.path.join(vlib.CACHE, "stub_out.diff")
    with open(of, "wb") as f:
        f.write(small)
    fa, fb = os.path.join(vlib.CACHE, "fa.txt"), os.path.join(vlib.CACHE, "fb.txt")
    open(fa, "w").write("a\n")
    open(fb, "w").write("b\n")
    bcases = []
    if not rp:
        for st in (0, 1, 2, 3, 129):
            for gv in ("2.43.0", "2.30.0"):
                bcases.append(("two-files", [fa, fb], {"STUB_EXIT": str(st), "STUB_GIT_VERSION": gv, "STUB_OUT_FILE": of}, st))
        for st in (0, 1, 2, 5, 128):
            bcases.append(("git", ["git", "show", "HEAD"], {"STUB_EXIT": str(st), "STUB_OUT_FILE": of, "STUB_ERR": "fatal: x" if st else ""}, st))
            bcases.append(("rg", ["rg", "needle"], {"STUB_EXIT": str(st), "STUB_OUT_FILE": of}, st))
        bcases.append(("stdin", [], {}, 0))
    if rp and rp.get("shape") == "status":
        bcases = [tuple(rp["case"])]
    for kind, args, env, want in bcases:
        env = {k: v for k, v in env.items() if v != ""}
        rc, out, err, rec, data = run(["--paging", "never"] + args, env, stdin=small if kind == "stdin" else b"")
        chk.case(("status", kind, tuple(args), json.dumps(env, sort_keys=True)), want != 0, None)
        chk.count("status:" + kind)
        why = []
        if rc != want:
            why.append(f"{kind}: exit status {rc}, expected {want}")
        if kind != "rg" and out != plain:
            why.append(f"{kind}: the rendered output ({len(out)} bytes) is not the whole rendering ({len(plain)} bytes)")
        if why:
            chk.violation({"property": PID, "shape": "status", "why": "; ".join(why), "case": [kind, args, env, want], "stderr": err[-300:].decode("utf-8", "replace")})
    # ---------------------------------------------------------------- B1: which differ is started (stub git / diff record their
    #      command line), against the guard translated from the source (GenDiffer.v)
    dmism = dn = 0
    if not rp:
        for maj, mnr, vs in ((2, 30, "2.30.0"), (2, 41, "2.41.9"), (2, 42, "2.42.0"), (2, 43, "2.43.1"), (3, 0, "3.0.0"), (1, 99, "1.99.0")):
            for form in ("ff", "fp", "pf", "pp"):
                fds, ops = [], []
                for side, pth in zip(form, (fa, fb)):
                    if side == "f":
                        ops.append(pth)
                    else:
                        rfd, wfd = os.pipe()
                        os.close(wfd)
                        os.set_inheritable(rfd, True)
                        fds.append(rfd)
                        ops.append("/dev/fd/%d" % rfd)
                rc, out, err, rec, data = run(["--paging", "never"] + ops, {"STUB_EXIT": "0", "STUB_GIT_VERSION": vs, "STUB_OUT_FILE": of}, pass_fds=tuple(fds))
                for fd in fds:
                    os.close(fd)
                started = [l.split(" ", 1)[1].split("\x1f")[0] for l in rec.splitlines() if l.startswith("PRODUCER ")]
                want = "git" if vm.ask("differ_use_git", maj, mnr, 1 if form[0] == "p" else 0, 1 if form[1] == "p" else 0) == "1" else "diff"
                dn += 1
                chk.count("differ:" + form)
                if started[-1:] != [want]:
                    dmism += 1
                    if dmism <= 3:
                        vlib.log(f"[C18] differ selection: git {vs} operands {form}: started {started}, model {want}")
    chk.oblige("correspondence:differ-selection", dmism == 0, f"{dmism} of {dn} two-file calls start a differ other than the model's")
    # ---------------------------------------------------------------- B2: two files with the real differ (git / diff of the
    #      sandbox): operands as ordinary files or as /dev/fd/N (process substitution); status 0 and no output for equal
    #      contents, status 1 and the changed lines shown for different contents
    if not rp or rp.get("shape") == "real-differ":
        rcases = []
        if rp:
            rcases = [rp["case"]]
        else:
            for same in (True, False):
                for form in ("ff", "fp", "pf", "pp"):     # f = file, p = pipe given as /dev/fd/N
                    rcases.append({"same": same, "form": form})
                # a file name that is not valid UTF-8 (a latin-1 name on disk)
                rcases.append({"same": same, "form": "ff", "latin1_name": True})
        for c in rcases:
            ta = "alpha\nbeta Tq1x\ngamma\n"
            tb = ta if c["same"] else "alpha\nBETA Tq2x\ngamma\n"
            fds, ops = [], []
            for side, text in zip(c["form"], (ta, tb)):
                if side == "f":
                    pth = tempfile.mktemp(dir=vlib.CACHE, prefix="real") + ("-caf\udce9.txt" if c.get("latin1_name") else "")
                    open(pth, "w").write(text)
                    ops.append(pth)
                else:
                    rfd, wfd = os.pipe()
                    os.write(wfd, text.encode())
                    os.close(wfd)
                    os.set_inheritable(rfd, True)
                    fds.append(rfd)
                    ops.append("/dev/fd/%d" % rfd)
            rc, out, err = vlib.run_delta(["--no-gitconfig", "--paging", "never"] + ops, env_extra={"PATH": "/usr/bin:/bin"}, pass_fds=tuple(fds))
            for fd in fds:
                os.close(fd)
            for o in ops:
                if not o.startswith("/dev/fd/"):
                    os.unlink(o)
            chk.case(("real-differ", c["same"], c["form"]), True, None)
            chk.count("status:real-differ")
            vis = term.strip(out)
            why = []
            if c["same"] and (rc != 0 or vis.strip()):
                why.append(f"equal contents ({c['form']}): exit status {rc}, {len(out)} bytes of output; expected 0 and nothing")
            if not c["same"] and (rc != 1 or "Tq1x" not in vis or "Tq2x" not in vis):
                why.append(f"different contents ({c['form']}): exit status {rc}, changed lines shown: {'Tq1x' in vis} / {'Tq2x' in vis}; expected 1 and both")
            if why:
                chk.violation({"property": PID, "shape": "real-differ", "why": "; ".join(why), "case": c, "output": vis[:600], "stderr": err[-300:].decode("utf-8", "replace")})
    # ---------------------------------------------------------------- C: fault enumeration
    shim = os.path.join(vlib.BIN, "epipe_shim.so")
    fcases = []     # (label, args, env, stdin)
    mf = os.path.join(vlib.CACHE, "stub_medium.diff")
    with open(mf, "wb") as f:
        f.write(medium)
    modes = [("stdin", ["--paging", "never"], {}, medium), ("stdin-sbs", ["--paging", "never", "--side-by-side", "--line-numbers"], {}, medium),
             ("stdin-color-only", ["--paging", "never", "--color-only"], {}, medium), ("stdin-navigate-hyperlinks", ["--paging", "never", "--navigate", "--hyperlinks"], {}, medium),
             ("two-files", ["--paging", "never", fa, fb], {"STUB_EXIT": "1", "STUB_OUT_FILE": mf}, b""),
             ("wrapped-git", ["--paging", "never", "git", "show"], {"STUB_EXIT": "0", "STUB_OUT_FILE": mf}, b""),
             ("show-config", ["--show-config"], {}, b""), ("version", ["--version"], {}, b""), ("list-languages", ["--list-languages"], {}, b""),
             ("show-colors", ["--show-colors"], {}, b""), ("parse-ansi", ["--parse-ansi"], {}, b"\x1b[31mx\x1b[m\nplain\n" * 5),
             ("list-syntax-themes", ["--list-syntax-themes"], {}, b"")]
    if rp and rp.get("shape") == "epipe":
        c = rp["case"]
        fcases = [(c["label"], c["args"], c["env"], bytes.fromhex(c["stdin_hex"]), c["k"])]
    elif not rp:
        for label, args, env, stdin in modes:
            cf = tempfile.mktemp(dir=vlib.CACHE, prefix="cnt")
            e = dict(env)
            e.update({"LD_PRELOAD": shim, "VERIF_EPIPE_COUNT": cf})
            rc, out, err, _, _ = run(args, e, stdin=stdin)
            n = int(open(cf).read()) if os.path.exists(cf) else 0
            if os.path.exists(cf):
                os.unlink(cf)
            chk.count("write-calls:" + label, n)
            ks = list(range(0, n))      # write k (0-based) and every later one fail
            if tier == "quick" and len(ks) > 40:
                rr = vlib.case_rng(chk.seed, PID, ("ks", label))
                ks = sorted(set(ks[:12] + ks[-6:] + rr.sample(ks, 22)))
            for k in ks:
                fcases.append((label, args, env, stdin, k))

    def work_f(c):
        label, args, env, stdin, k = c
        e = dict(env)
        e.update({"LD_PRELOAD": shim, "VERIF_EPIPE_AFTER": str(k)})
        return run(args, e, stdin=stdin, timeout=30)
    with ThreadPoolExecutor(max_workers=vlib.NCPU) as ex:
        fres = list(ex.map(work_f, fcases))
    for (label, args, env, stdin, k), (rc, out, err, rec, data) in zip(fcases, fres):
        chk.case(("epipe", label, k), True, None)
        chk.count("fault:" + label)
        if rc != 0 or err.strip():
            chk.violation({"property": PID, "shape": "epipe", "why": f"{label}: write call {k} fails with EPIPE -> exit status {rc}, stderr {err[-200:].decode('utf-8', 'replace')!r}",
                           "case": {"label": label, "args": args, "env": env, "stdin_hex": stdin.hex(), "k": k}})
    # pagers that quit early
    qcases = []
    if not rp:
        for label, args, env, stdin, total in (("stdin-small", [], {}, small, len(plain)), ("stdin-big", [], {}, big, 16 * 65536),
                                               ("two-files-big", [fa, fb], {"STUB_EXIT": "1", "STUB_OUT_FILE": "BIG"}, b"", 16 * 65536),
                                               ("wrapped-git-big", ["git", "log", "-p"], {"STUB_EXIT": "0", "STUB_OUT_FILE": "BIG"}, b"", 16 * 65536),
                                               ("wrapped-rg", ["rg", "x"], {"STUB_EXIT": "0", "STUB_OUT_FILE": of}, b"", 4096)):
            for q in ([0, 1] + [total * i // 16 for i in range(1, 16)]) if tier == "thorough" else [0, 1, total // 16, total // 3, total // 2]:
                qcases.append((label, args, env, stdin, q))
    if rp and rp.get("shape") == "quit":
        c = rp["case"]
        qcases = [(c["label"], c["args"], c["env"], small if c["stdin"] == "small" else (big if c["stdin"] == "big" else b""), c["q"])]
    bigf = os.path.join(vlib.CACHE, "stub_big.diff")
    with open(bigf, "wb") as f:
        f.write(big)

    def work_q(c):
        label, args, env, stdin, q = c
        e = {k: (bigf if v == "BIG" else v) for k, v in env.items()}
        e["STUB_QUIT_AFTER"] = str(q)
        return run(["--paging", "always"] + args, e, stdin=stdin, timeout=30)
    with ThreadPoolExecutor(max_workers=vlib.NCPU) as ex:
        qres = list(ex.map(work_q, qcases))
    for (label, args, env, stdin, q), (rc, out, err, rec, data) in zip(qcases, qres):
        chk.case(("quit", label, q), True, None)
        chk.count("pager-quit:" + label)
        bad = None
        if rc == "timeout":
            bad = "delta does not terminate after the pager quit"
        elif label.startswith("two-files") and rc not in (0, 1):
            bad = f"exit status {rc}"
        elif not label.startswith("two-files") and rc != 0:
            bad = f"exit status {rc}"
        elif err.strip():
            bad = f"stderr {err[-200:].decode('utf-8', 'replace')!r}"
        if bad:
            chk.violation({"property": PID, "shape": "quit", "why": f"{label}: the pager quits after reading {q} bytes: {bad}",
                           "case": {"label": label, "args": args, "env": env, "stdin": "small" if stdin is small else ("big" if stdin is big else ""), "q": q}})
    chk.extra["traces_validated_against_impl"] = len(acases) - mism
    chk.assumptions = ["pagers and producers are stub executables on PATH (native/stub.c) that record their command line and input; less's version is the stub's banner",
                       "a reader that goes away = write(2)/writev(2) on the watched descriptor failing with EPIPE from call k on (LD_PRELOAD shim), or a pager "
                       "that stops reading and exits; SIGPIPE is ignored by the Rust runtime as in a normal run",
                       "two-file mode after a pager quit may exit 0 or the differ's status (the property fixes status 0 only for the reader going away; both are accepted)"]
    vm.close()
    return chk.finish()
