"""C09 — output lines are self-contained, well-formed terminal text.

proof:   PropC09.v — ansi_term's ANSIStrings (prefix / difference / reset logic) decoded by an
         independent SGR interpreter: any list of styled strings is shown string by string in
         exactly its style and the terminal ends in the default rendition; a line that ends
         with a reset ends in the default rendition whatever precedes (background fill);
         an OSC 8 wrapper opens and closes its link.
tie:     white-box: ANSIStrings of random multi-segment lines through the hook driver vs the
         extracted model, byte for byte; truncate_str through the driver with the cut placed
         at every offset relative to the escape sequences (escape sequences must survive
         whole, only text may be removed).
oracle:  an independent terminal model is stepped over the binary's stdout in all modes
         (unified, side-by-side with wrapping/truncation, line numbers, hyperlinks,
         decorations, both fill methods incl. a pty): at every newline the SGR state is the
         default, no OSC 8 link is open and the parser is in its ground state.
"""
import json
import os
import pty
import select
import subprocess
import sys
from concurrent.futures import ThreadPoolExecutor

import gdiff
import term
import vlib

PID = "C09"
MODES = [
    [], ["--side-by-side"], ["--side-by-side", "--width", "30"], ["--side-by-side", "--width", "8", "--hyperlinks"],
    ["--line-numbers"], ["--hyperlinks"], ["--hyperlinks", "--side-by-side", "--line-numbers-right-format", "{np:>30}│"],
    ["--side-by-side", "--wrap-max-lines", "0", "--width", "40"], ["--side-by-side", "--wrap-max-lines", "1", "--width", "36"],
    ["--file-style", "bold yellow ul", "--file-decoration-style", "blue box", "--hunk-header-decoration-style", "green ul ol"],
    ["--line-fill-method", "ansi"], ["--line-fill-method", "spaces", "--side-by-side"],
    ["--navigate"], ["--diff-so-fancy"], ["--color-only"], ["--raw"], ["--keep-plus-minus-markers", "--tabs", "2"],
    ["--max-line-length", "20"], ["--max-line-length", "20", "--side-by-side"], ["--zero-style", "normal 17", "--width", "30"],
    ["--minus-style", "reverse red", "--plus-emph-style", "bold ul green 22", "--whitespace-error-style", "blink magenta reverse"],
    ["--hyperlinks", "--hyperlinks-file-link-format", "file://{path}#{line}", "--line-numbers", "--width", "50"],
]
OSC = "\x1b]8;;http://example.com/x\x1b\\"
OSC_END = "\x1b]8;;\x1b\\"


def balanced_colour_line(r):
    """an input line carrying its own, balanced, escape sequences"""
    w = [gdiff.gline(r) for _ in range(3)]
    k = r.random()
    if k < 0.2:
        # CRLF text coloured by git / diff: the reset comes after the carriage return
        return r.choice(["\x1b[31m< ", "\x1b[1;32m", ""]) + w[0].replace("\x1b", "") + "x\r" + r.choice(["\x1b[m", "\x1b[0m", OSC_END if False else "\x1b[0m"])
    if k < 0.4:
        return w[0] + "\x1b[1;35m" + w[1] + "\x1b[0m" + w[2]
    if k < 0.7:
        return w[0] + OSC + "link " + w[1] + OSC_END + w[2]
    return "\x1b[48;5;52m" + w[0] + "\x1b[m " + OSC + w[1] + " long link text that goes on and on and on" + OSC_END


def gen_cases(tier, seed):
    n = 150 if tier == "quick" else 2000
    cases = []
    for i in range(n):
        r = vlib.case_rng(seed, PID, i)
        d = gdiff.gen_diff(r, nsec=r.randint(1, 3))
        lines = gdiff.diff_lines(d)
        kind = "plain"
        if r.random() < 0.3:
            # raw-ish text around the diff carrying balanced sequences, some very long
            extra = [balanced_colour_line(r) for _ in range(r.randint(1, 4))]
            if r.random() < 0.5:
                extra.append("x" * r.randint(15, 40) + OSC + "a link that straddles the cut " * 2 + OSC_END + " tail")
            lines = extra + lines
            kind = "with-balanced-input-sequences"
        cases.append({"lines": lines, "mode": r.choice(MODES), "kind": kind, "pty": False})
        if i % 5 == 0:
            cases.append({"lines": lines, "mode": r.choice(MODES[:8]), "kind": kind, "pty": True})
    # hunk lines that carry their own balanced sequences (a colourised log file under version control), with and
    # without a byte that is not valid UTF-8: delta's own section boundaries must not fall inside a sequence
    for i in range(n // 3):
        r = vlib.case_rng(seed, PID, ("coloured-hunk", i))
        bad = "\udce9" if i % 2 == 0 else "é"
        body = []
        for _ in range(r.randint(1, 3)):
            ts = "2024-01-%02d " % r.randint(1, 28)
            msg = gdiff.gline(r).replace("\t", " ")
            old = ts + r.choice(["\x1b[31mERROR\x1b[0m", "\x1b[1;31mFATAL\x1b[m", "\x1b[33mWARN\x1b[0m"]) + " caf" + bad + " " + msg
            new = ts + r.choice(["\x1b[32mINFO\x1b[0m", "\x1b[1;32mOK\x1b[m", "\x1b[36mDEBUG\x1b[0m"]) + " caf" + bad + " " + msg + r.choice(["", " x" * 30])
            if r.random() < 0.3:
                body.append(" " + old)
            else:
                body += ["-" + old, "+" + new]
        lines = ["diff --git a/app.log b/app.log", "index 1111111..2222222 100644", "--- a/app.log", "+++ b/app.log",
                 "@@ -1,%d +1,%d @@" % (sum(1 for b in body if b[0] in " -"), sum(1 for b in body if b[0] in " +"))] + body
        cases.append({"lines": lines, "mode": r.choice(MODES), "kind": "coloured-hunk-lines" + ("-invalid-utf8" if i % 2 == 0 else ""), "pty": False})
    # `git log --stat --color` started from a sub-directory: coloured histograms in diff-stat lines that --relative-paths rewrites
    for i in range(n // 4):
        r = vlib.case_rng(seed, PID, ("coloured-stat", i))
        d = gdiff.gen_diff(r, nsec=r.randint(1, 2), log=False)
        stat = []
        for s_ in d["sections"]:
            name = s_["new"] if s_["new"] != "/dev/null" else s_["old"]
            a, b = r.randint(0, 9), r.randint(0, 9)
            rs = r.choice(["\x1b[m", "\x1b[0m"])
            hist = ("\x1b[32m" + "+" * a + rs if a else "") + ("\x1b[31m" + "-" * b + rs if b else "")
            stat.append(" %s | %d %s" % (name.ljust(12), a + b, hist))
        lines = ["commit " + "%040x" % r.getrandbits(160), "Author: A U Thor <a@example.com>", "", "    msg", ""] + stat + \
                [" %d files changed, 3 insertions(+), 2 deletions(-)" % len(stat), ""] + gdiff.diff_lines(d)
        cases.append({"lines": lines, "mode": ["--relative-paths"] + r.choice(MODES), "kind": "coloured-diff-stat", "pty": False,
                      "git_prefix": r.choice(["", "src/", "dir/"])})
    for m in MODES:   # every mode at least once
        r = vlib.case_rng(seed, PID, "m" + " ".join(m))
        cases.append({"lines": gdiff.diff_lines(gdiff.gen_diff(r, nsec=2, log=True)), "mode": m, "kind": "plain", "pty": False})
    return cases


def run_on_pty(args, inp, cols=80):
    """stdout is a terminal of the given width (ANSI fill in the right panel, OSC 8 on raw lines)"""
    master, slave = pty.openpty()
    import fcntl
    import struct
    import termios
    fcntl.ioctl(slave, termios.TIOCSWINSZ, struct.pack("HHHH", 24, cols, 0, 0))
    attrs = termios.tcgetattr(slave)
    attrs[1] = attrs[1] & ~termios.OPOST   # no NL -> CRNL translation
    termios.tcsetattr(slave, termios.TCSANOW, attrs)
    p = subprocess.Popen([vlib.DELTA] + args, stdin=subprocess.PIPE, stdout=slave, stderr=subprocess.DEVNULL,
                         env=vlib.clean_env(), cwd=vlib.empty_cwd(), close_fds=True)
    os.close(slave)
    out = b""
    try:
        p.stdin.write(inp)
        p.stdin.close()
    except BrokenPipeError:
        pass
    while True:
        r, _, _ = select.select([master], [], [], 10)
        if not r:
            break
        try:
            b = os.read(master, 65536)
        except OSError:
            break
        if not b:
            break
        out += b
    rc = p.wait()
    os.close(master)
    return rc, out


def check_rows(out):
    why = []
    rows = term.decode(out)
    for i, r in enumerate(rows):
        if not r.end_ground:
            why.append(f"row {i}: an escape sequence is cut / unterminated at the newline: {r.raw[-60:]!r}")
        elif not r.end_default:
            why.append(f"row {i}: rendition not default at the newline (state {r.end_state[:3]}): {r.raw[-60:]!r}")
        elif r.end_link is not None:
            why.append(f"row {i}: OSC 8 hyperlink still open at the newline ({r.end_link!r}): {r.raw[-80:]!r}")
        if len(why) >= 3:
            break
    return why


def main(tier, replay=None):
    chk = vlib.Check(PID, tier)
    ok, out = vlib.build_delta()
    if not ok:
        print("tree does not build with hooks enabled:\n" + out[-2000:])
        chk.oblige("build:delta-with-hooks", False, out[-2000:])
        return chk.finish()
    vlib.build_native()
    vlib.standard_proof_obligations(chk, "PropC09")
    ok, out = vlib.build_vmodel()
    if not ok:
        chk.oblige("build:vmodel", False, out[-2000:])
        return chk.finish()
    vm = vlib.vmodel()
    drv = vlib.delta_driver()
    cases = [json.load(open(replay))["case"]] if replay else gen_cases(tier, chk.seed)
    chk.rule = ("generated diffs (optionally with raw lines carrying balanced SGR / OSC 8 sequences, some longer than the panel / "
                "max-line-length) x 22 mode sets, on a pipe and on a pty; non-trivial = at least one styled row")

    def work(c):
        inp = ("\n".join(c["lines"]) + "\n").encode("utf-8", "surrogateescape")
        args = ["--no-gitconfig", "--paging", "never"] + c["mode"]
        if c["pty"]:
            return run_on_pty(args, inp) + (b"",)
        return vlib.run_delta(args, stdin=inp, env_extra=({"GIT_PREFIX": c["git_prefix"]} if c.get("git_prefix") is not None else None))

    with ThreadPoolExecutor(max_workers=vlib.NCPU) as ex:
        results = list(ex.map(work, cases))
    for c, (rc, out, err) in zip(cases, results):
        chk.count("kind:" + c["kind"])
        chk.count("mode:" + " ".join(c["mode"]) + (" [pty]" if c["pty"] else ""))
        chk.case((tuple(c["lines"]), tuple(c["mode"]), c["pty"]), b"\x1b[" in out, {"mode": c["mode"], "pty": c["pty"], "kind": c["kind"], "n_lines": len(c["lines"])})
        if rc != 0:
            # crashes are C03's business; here they only mean nothing could be observed
            chk.count("crashed-not-observed")
            continue
        why = check_rows(out)
        if why:
            chk.violation({"property": PID, "why": "; ".join(why), "case": c, "mode": " ".join(c["mode"]), "input": "\n".join(c["lines"])[:3000]})
    # ---- white box: ANSIStrings
    mism = 0
    nwb = 0
    r = vlib.case_rng(chk.seed, PID, "wb")
    WORDS = ["bold", "dim", "italic", "ul", "blink", "reverse", "hidden", "strike", "n1", "n4", "f9", "f200", "r0a141e", "normal"]
    for _ in range(300 if tier == "quick" else 5000):
        segs = []
        for _ in range(r.randint(1, 5)):
            ws = [r.choice(WORDS[:8]) for _ in range(r.randint(0, 3))] + [r.choice(WORDS[8:]) for _ in range(r.randint(0, 2))]
            segs.append((ws, r.choice(["a", "xy", "", " ", "日本"])))
        nwb += 1
        mp = vm.ask("ansi_strings", "|".join(",".join(ws) + ":" + vlib.hexs(t) for ws, t in segs))
        if not mp.startswith("OK"):
            mism += 1
            continue
        toks, bal = mp.split("\t")[1], mp.split("\t")[2]
        import check_c12
        want = check_c12.tokens_to_bytes(toks)

        def style_str(ws):
            return " ".join(check_c12.color_name(w) if w[0] in "nfr" and w not in ("normal", "reverse") else w for w in ws)
        got = vlib.unhex(drv.ask("ansi_strings", 1, ",".join(vlib.hexs(style_str(ws)) + ":" + vlib.hexs(t) for ws, t in segs)).split("\t")[1])
        if got != want or bal != "balanced":
            mism += 1
            if mism <= 3:
                vlib.log(f"[C09] ANSIStrings mismatch {segs}: model {want!r} impl {got!r} {bal}")
        rows = term.decode(got + b"\n")
        if rows and not (rows[0].end_default and rows[0].end_ground):
            chk.violation({"property": PID, "why": f"ANSIStrings of {segs} does not end in the default rendition: {got!r}", "shape": "ansistrings"})
    # ---- white box: truncate_str with the cut at every offset
    base = ["ab\x1b[31mcd\x1b[0mef", "\x1b[1;32mhello\x1b[m world", "x" + OSC + "linked text" + OSC_END + "y",
            "\x1b[48;5;17m日本語のテキスト\x1b[0m", "p\x1b[4mq\x1b[24mr" + OSC + "uv" + OSC_END + "\x1b[7mw\x1b[0m"]
    for s in base:
        full = term.text_width(term.strip(s))
        seqs = term.ANSI_STRIP_RE.findall(s)
        for w in range(0, full + 2):
            for tail in ("", "→", "\x1b[35m…\x1b[0m"):
                nwb += 1
                got = vlib.unhex(drv.ask("truncate_str", vlib.hexs(s), w, vlib.hexs(tail)).split("\t")[1]).decode("utf-8", "replace")
                chk.case(("trunc", s, w, tail), True, None)
                got_seqs = term.ANSI_STRIP_RE.findall(got)
                rows = term.decode(got + "\n")
                want_seqs = seqs + (term.ANSI_STRIP_RE.findall(tail) if term.text_width(term.strip(s)) > w else [])
                okk = rows and rows[0].end_ground
                if got_seqs != want_seqs or not okk:
                    chk.violation({"property": PID, "shape": "truncate",
                                   "why": f"truncate_str({s!r}, {w}, {tail!r}) = {got!r}: escape sequences {got_seqs} expected {want_seqs}"})
                elif term.text_width(term.strip(got)) > max(w, 0) and full > w:
                    chk.violation({"property": PID, "shape": "truncate-width",
                                   "why": f"truncate_str({s!r}, {w}, {tail!r}) = {got!r} is wider than {w}"})
    chk.oblige("correspondence:ansistrings", mism == 0, f"{mism} ANSIStrings cases differ between model and implementation")
    chk.extra["traces_validated_against_impl"] = nwb - mism
    chk.assumptions = ["input escape sequences are balanced per line (the property's domain)",
                       "the Python terminal model (tools/term.py) is the observer; the Coq SGR interpreter is cross-checked against ansi_term through the driver"]
    vm.close()
    drv.close()
    return chk.finish()
