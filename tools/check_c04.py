"""C04 — text that is not diff/blame/grep output passes through byte for byte.

proof:   PropC04.v — outside a diff, a marker-free line is claimed by no handler and is
         emitted unchanged; a block of such lines extends the history by exactly those lines
         in order (state machine model, every configuration).
tie:     the model is tied by check C01's correspondence; this check observes raw bytes.
oracle:  on the real binary, raw bytes (no terminal decoding): a stream of marker-free text
         comes out byte-identical (after the three permitted normalisations: CRLF, invalid
         UTF-8 replacement, max-line-length truncation); text before a diff, in a commit
         message and between commits appears unchanged, whole-line, in order, interleaved
         correctly with the rendered sections — under many option sets.
"""
import json
import os
import re
import sys
from concurrent.futures import ThreadPoolExecutor

import gdiff
import term
import vlib

PID = "C04"
SGR = ["\x1b[31m", "\x1b[1;32m", "\x1b[0m", "\x1b[m", "\x1b[38;5;208m", "\x1b[48;2;10;20;30m", "\x1b[4m", "\x1b[7;33;44m", "\x1b[39;49m",
       "\x1b[K"]
WORDS = ["On", "branch", "main", "modified:", "foo.rs", "|", "2", "+-", "-", "+1", "- item", "index", "0.5%", "日本語", "é", "\t", "  ",
         "Changes", "not", "staged", "(use", "\"git", "add\")", "=>", "@", "a@@b", "x--- y", "{", "}", "[ok]", "1234abcd", "deadbeef", "0a1b2c3d4e5f60718293a4b5c6d7e8f901234567", "warning:", ":", "12:"]
OPTS = [[], ["--side-by-side"], ["--line-numbers"], ["--navigate"], ["--color-only"], ["--hyperlinks"], ["--diff-so-fancy"],
        ["--raw"], ["--width", "20"], ["--tabs", "4"], ["--keep-plus-minus-markers"], ["--relative-paths"], ["--diff-highlight"],
        ["--syntax-theme", "none"], ["--dark"], ["--light"], ["--max-line-length", "0"], ["--hyperlinks", "--hyperlinks-commit-link-format", "https://example.com/c/{commit}"],
        ["--hyperlinks", "--hyperlinks-commit-link-format", "https://example.com/c/{commit}", "--hyperlinks-file-link-format", "file://{path}#{line}", "--line-numbers"], ["--max-line-distance", "0.3"], ["--wrap-max-lines", "0", "--side-by-side"]]
MARKERS = ("commit ", "diff ", "@@", "old mode ", "new mode ", "Binary files ", "--- ", "+++ ", "Only in ", "Submodule ", "rename ", "copy ",
           "{", "deleted file", "new file", "similarity ", "index ")
DIFF_STAT_RE = re.compile(r" ([^\| ][^\|]+[^\| ]) +(\| +[0-9]+ .+)")
BLAME_LIKE = re.compile(r"^\^?[0-9a-f]{4,40}\b")


def gtext_line(r):
    parts = []
    for _ in range(r.randint(0, 7)):
        if r.random() < 0.25:
            parts.append(r.choice(SGR))
        parts.append(r.choice(WORDS))
        parts.append(r.choice([" ", "", " "]))
    s = "".join(parts)
    if r.random() < 0.3:
        s += "\x1b[0m"
    vis = term.strip(s)
    if vis.startswith(MARKERS) or BLAME_LIKE.match(vis) or re.match(r"^[^\s:]+:\d*:", vis) or re.match(r"^\S+-\d+-", vis):
        s = " " + s   # not a marker any more
    # CR variants
    x = r.random()
    if x >= 0.26 and r.random() < 0.1:
        # a byte that is not valid UTF-8 (latin-1 text): replaced by U+FFFD, nothing else changes - whatever the length limit
        return s + " caf\udce9 " + r.choice(WORDS)
    if x < 0.08:
        s = s + "\r"                       # CRLF
    elif x < 0.14:
        s = s + "\r\x1b[m"                 # CRLF with git's colour reset in between
    elif x < 0.20:
        s = s.replace(" ", "\r", 1) if " " in s.strip() else s          # progress-style CR, visible text follows
    elif x < 0.26:
        s = s + "\r" + r.choice(SGR[:5]) + "more " + r.choice(WORDS)    # CR then colour then visible text
    return s


def expected_line(b):
    """the permitted normalisations of one input line (bytes, valid UTF-8, short)"""
    s = b
    if s.endswith(b"\r"):
        s = s[:-1]
    try:
        s.decode("utf-8")
    except UnicodeDecodeError:
        return s.decode("utf-8", "replace").encode("utf-8")   # the only change to a line that is not valid UTF-8
    i = s.rfind(b"\r")
    if i >= 0:
        rest = s[i + 1:].decode("utf-8", "replace")
        # delta measures the rest with unicode-width, which counts a C0 control character (tab, ...)
        # as one column: the carriage return is dropped only when nothing at all but escape
        # sequences follows
        plain = term.strip(rest)
        if term.text_width(plain) + sum(1 for ch in plain if ord(ch) < 32 or ord(ch) == 127) == 0:
            s = s[:i] + s[i + 1:]
    return s


TOKEN_RE = re.compile(r"T\d+q")


def interleaving(lines, text_idx, want, outl):
    """pass-through lines and the hunk lines around them (found by their unique tokens) appear in the output in input
    order: no text line is written before a rendered line that precedes it in the input, nor after one that follows it"""
    stripped = [term.strip(x.decode("utf-8", "replace")) for x in outl]
    anchors = []   # (input index, output index, description)
    wanted = dict(zip(text_idx, want))
    for i, l in enumerate(lines):
        if i in wanted:
            w = wanted[i]
            if len(term.strip(w.decode("utf-8", "replace")).strip()) >= 6 and outl.count(w) == 1:
                anchors.append((i, outl.index(w), "text line %r" % l))
        elif l[:1] in ("-", "+", " ") and not l.startswith(("--- ", "+++ ")):
            m = TOKEN_RE.findall(l)
            if len(m) == 1:
                hits = [j for j, row in enumerate(stripped) if m[0] in row]
                if len(hits) == 1:
                    anchors.append((i, hits[0], "hunk line %r" % l))
    for (i1, o1, d1), (i2, o2, d2) in zip(anchors, anchors[1:]):
        if o2 < o1 and ("text" in d1 or "text" in d2):
            return [f"{d2} (input line {i2}) is written before {d1} (input line {i1}): output lines {o2} and {o1}"]
    return []


def gen_cases(tier, seed):
    n = 300 if tier == "quick" else 4000
    cases = []
    for i in range(n):
        r = vlib.case_rng(seed, PID, i)
        kind = r.choice(["text", "text", "around", "log"])
        opts = r.choice(OPTS)
        # git exports GIT_PREFIX when delta is started from a sub-directory (used by --relative-paths)
        prefix = r.choice([None, None, "sub/dir/", "x/"])
        if prefix and r.random() < 0.5:
            opts = ["--relative-paths"] + r.choice([[], ["--hyperlinks"], ["--side-by-side"]])
        if kind == "text":
            lines = [gtext_line(r) for _ in range(r.randint(1, 15))]
            cases.append({"kind": kind, "opts": opts, "lines": lines, "text_idx": list(range(len(lines))), "git_prefix": prefix})
        elif kind == "around":
            pre = [gtext_line(r) for _ in range(r.randint(1, 6))]
            d = gdiff.gen_diff(r, nsec=r.randint(1, 2), log=False)
            lines = pre + gdiff.diff_lines(d)
            cases.append({"kind": kind, "opts": opts, "lines": lines, "text_idx": list(range(len(pre))), "git_prefix": prefix})
        else:
            lines = []
            idx = []
            tok = gdiff.Tok()   # one token source for the whole stream: hunk lines are anchors of the interleaving check
            for _ in range(r.randint(1, 3)):
                lines.append("commit " + "%040x" % r.getrandbits(160))
                lines.append("Author: A U Thor <a@example.com>")
                lines.append("")
                for _ in range(r.randint(1, 4)):
                    idx.append(len(lines))
                    lines.append("    " + gtext_line(r))
                lines.append("")
                d = gdiff.gen_diff(r, nsec=r.randint(1, 2), log=False, tok=tok)
                lines += gdiff.diff_lines(d)
                if r.random() < 0.3:
                    lines.append("")   # `git log` separates commits by a blank line; concatenated `git show` outputs do not
            cases.append({"kind": kind, "opts": opts, "lines": lines, "text_idx": idx, "git_prefix": prefix, "anchored": True})
    return cases


def main(tier, replay=None):
    chk = vlib.Check(PID, tier)
    ok, out = vlib.build_delta()
    if not ok:
        print("tree does not build with hooks enabled:\n" + out[-2000:])
        chk.oblige("build:delta-with-hooks", False, out[-2000:])
        return chk.finish()
    vlib.build_native()
    vlib.standard_proof_obligations(chk, "PropC04", gen_names=("ingest",))
    ok, out = vlib.build_vmodel()
    if not ok:
        chk.oblige("build:vmodel", False, out[-2000:])
        return chk.finish()
    vm = vlib.vmodel()
    cr_mism = cr_n = 0
    if replay:
        with open(replay) as f:
            cases = [json.load(f)["case"]]
    else:
        cases = gen_cases(tier, chk.seed)
    chk.rule = ("marker-free text lines with embedded SGR sequences, CR variants, tabs and Unicode: alone, before diffs, and as commit "
                "messages between commits x 21 option sets; raw bytes compared; non-trivial = at least one line carries an escape sequence")

    def work(c):
        inp = ("\n".join(c["lines"]) + "\n").encode("utf-8", "surrogateescape")
        env = {"GIT_PREFIX": c["git_prefix"]} if c.get("git_prefix") else None
        return vlib.run_delta(["--no-gitconfig", "--paging", "never"] + c["opts"], stdin=inp, env_extra=env)

    with ThreadPoolExecutor(max_workers=vlib.NCPU) as ex:
        results = list(ex.map(work, cases))
    for c, (rc, out, err) in zip(cases, results):
        lines = c["lines"]
        nontriv = any("\x1b" in lines[i] for i in c["text_idx"])
        chk.count("kind:" + c["kind"])
        chk.case((tuple(lines), tuple(c["opts"])), nontriv, {"kind": c["kind"], "opts": c["opts"], "lines": lines[:6]})
        if rc != 0:
            chk.violation({"property": PID, "why": f"exit status {rc}: {err[-300:]!r}", "case": c, "shape": "crash"})
            continue
        chk.count("git_prefix:" + ("set" if c.get("git_prefix") else "unset"))
        text_idx = c["text_idx"]
        if c.get("git_prefix") and "--relative-paths" in c["opts"]:
            # a ` path | 12 ++-` look-alike is a diff-stat line, rewritten relative to the sub-directory: a construct, not plain text
            text_idx = [i for i in text_idx if not DIFF_STAT_RE.search(term.strip(lines[i]))]
            if c["kind"] == "text" and len(text_idx) != len(c["text_idx"]):
                continue
        want = [expected_line(lines[i].encode("utf-8", "surrogateescape")) for i in text_idx]
        outl = out.split(b"\n")
        why = []
        if c["kind"] == "text" and len(outl) == len(text_idx) + 1:
            # correspondence: every output line is the extracted model's ingest of the input line (Ingest.v)
            for i_, got in zip(text_idx, outl):
                if "\udce9" in lines[i_]:
                    continue    # the model covers the valid-UTF-8 path
                cr_n += 1
                rep = vm.ask("ingest", lines[i_].encode("utf-8").hex())
                if not rep.startswith("OK") or bytes.fromhex(rep.split("\t")[1]) != got:
                    cr_mism += 1
                    if cr_mism <= 3:
                        vlib.log(f"[C04] ingest correspondence: input {lines[i_]!r} model {rep} impl {got!r}")
        if c["kind"] == "text":
            exp = b"".join(w + b"\n" for w in want)
            if out != exp:
                k = next((j for j, (a, b) in enumerate(zip(outl, want + [None])) if a != b), None)
                why.append(f"pure text stream not reproduced: output line {k} is {outl[k] if k is not None and k < len(outl) else None!r}, "
                           f"expected {want[k] if k is not None and k < len(want) else None!r}")
        else:
            pos = 0
            for j, w in enumerate(want):
                try:
                    pos = outl.index(w, pos) + 1
                except ValueError:
                    why.append(f"text line {text_idx[j]} {w!r} not found unchanged (in order) in the output")
                    break
        if not why and c.get("anchored"):
            why = interleaving(lines, text_idx, want, outl)
        if why:
            chk.violation({"property": PID, "why": "; ".join(why), "case": c, "input": "\n".join(lines), "opts": " ".join(c["opts"]),
                           "output_head": [x.decode("utf-8", "replace") for x in outl[:20]]})
    chk.oblige("correspondence:cr-cleanup", cr_mism == 0, f"{cr_mism} of {cr_n} pass-through lines differ from the model's ingest")
    chk.extra["traces_validated_against_impl"] = cr_n - cr_mism
    vm.close()
    chk.assumptions = ["expected normalisation = the three permitted ones; lines are valid UTF-8 and shorter than max-line-length in this stream",
                       "construct-opening markers excluded from the generated text: " + ", ".join(MARKERS)]
    return chk.finish()
