"""C15 — syntax highlighting only recolours foregrounds, by the file's language.

proof:   PropC15.v — over the model of superimpose_style_sections (explode / zip / coalesce /
         restyle / newline removal): characters, backgrounds and attributes are the diff
         styles' for every highlighter, two highlighters differ in foregrounds only, a style
         without `syntax` keeps its foreground, a style with `syntax` takes the highlighter's
         foreground exactly where it has one; over the model of Painter::get_syntax with the
         lookup order regenerated from the source: a whole name that names a language decides,
         names of the same kind share a language, unknown names get the default.
tie:     translator (GenSyntax.v: lookup order and length threshold scanned from paint.rs) +
         white-box correspondence: superimpose_style_sections through the hook driver equals
         the extracted model cell by cell on random section lists.
oracle:  model-free, on the binary: per-character (char, fg, bg, attrs) decoded from stdout —
         two themes of the same light/dark class (and `none`) differ in foreground parameters
         only; with styles that do not ask for `syntax` the output is identical under every
         theme; the same hunks under two file names of the same language (extensions and whole
         names taken from --list-languages, incl. names like CMakeLists.txt) are coloured
         identically; unknown names are coloured like the default language.
"""
import json
import os
import re
import sys
from concurrent.futures import ThreadPoolExecutor

import term
import vlib

PID = "C15"
DARK = ["Monokai Extended", "Dracula", "Nord", "OneHalfDark", "gruvbox-dark", "zenburn", "TwoDark"]
LIGHT = ["GitHub", "OneHalfLight", "Solarized (light)", "gruvbox-light", "Monokai Extended Light"]
SNIPPETS = {
    "rs": ["fn main() { let x = 42; } // c", "pub struct A<'a> { s: &'a str }", "    println!(\"{}\", x + 1);"],
    "py": ["def f(x): return x + 1  # c", "class A(object): pass", "    print(\"s\", 3.5)"],
    "cmake": ["set(FOO \"bar\") # note", "if(WIN32) add_library(x STATIC a.c) endif()"],
    "make": ["all: x.o y.o # c", "\t$(CC) -o $@ $^", "FOO := bar"],
    "json": ["{\"a\": [1, true, null], \"b\": \"s\"}"],
    "sh": ["if [ -f x ]; then echo \"$HOME\"; fi # c"],
    "c": ["int main(void) { return 0; } /* c */", "#include <stdio.h>"],
    "generic": ["if (x == \"str\") return 42; // c", "let y = f(a, 'b'); # n", "<a href=\"x\">t</a>"],
}
NOSYN_STYLES = ["--minus-style", "red", "--minus-emph-style", "bold red 52", "--minus-non-emph-style", "red", "--plus-style", "green",
                "--plus-emph-style", "bold green 22", "--plus-non-emph-style", "green", "--zero-style", "normal", "--hunk-header-style", "blue",
                "--whitespace-error-style", "magenta reverse"]


def make_diff(name, lines_minus, lines_plus, ctx, form="git"):
    if form == "diffu":
        # plain `diff -u` output: no `diff --git` line, time stamps after a tab
        head = [f"--- a/{name}\t2020-01-01 00:00:00.000000000 +0000", f"+++ b/{name}\t2020-01-02 00:00:00.000000000 +0000"]
    else:
        head = [f"diff --git a/{name} b/{name}", "index 1111111..2222222 100644", f"--- a/{name}", f"+++ b/{name}"]
    out = head + [
           f"@@ -1,{len(ctx) + len(lines_minus)} +1,{len(ctx) + len(lines_plus)} @@ {ctx[0] if ctx else ''}"]
    out += [" " + c for c in ctx] + ["-" + l for l in lines_minus] + ["+" + l for l in lines_plus]
    return ("\n".join(out) + "\n").encode()


def run(args, inp):
    return vlib.run_delta(["--no-gitconfig", "--paging", "never", "--width", "120", "--true-color", "always"] + args, stdin=inp)


def body_cells(out):
    """cells of the rows after the hunk header box (the code rows)"""
    rows = term.decode(out)
    idx = [i for i, r in enumerate(rows) if r.text().startswith("─")]
    start = idx[-1] + 1 if idx else 0
    return [[(c[0], c[1], c[2], tuple(sorted(c[3]))) for c in r.cells] + [("EOL", None, r.eol_bg, ())] for r in rows[start:]]


def all_cells(out):
    return [[(c[0], c[1], c[2], tuple(sorted(c[3]))) for c in r.cells] + [("EOL", None, r.eol_bg, ())] for r in term.decode(out)]


def languages():
    """[(language, [entries])] from --list-languages"""
    rc, out, err = run(["--list-languages"], b"")
    langs = []
    for line in term.strip(out).split("\n"):
        m = re.match(r"^(.+?)\s{2,}(.*)$", line)
        if line and not line.startswith(" ") and m:
            langs.append((m.group(1).strip(), [e.strip() for e in m.group(2).split(",") if e.strip()]))
        elif line.startswith(" ") and langs and line.strip():
            langs[-1][1].extend(e.strip() for e in line.strip().split(",") if e.strip())
    return langs


ATTR_BITS = {"bold": 1, "dim": 2, "italic": 4, "ul": 8, "blink": 16, "reverse": 32, "hidden": 64, "strike": 128}


def enc_color(c):
    if c is None or c == ("d",):
        return "-"
    if c[0] == "rgb":
        return str(0x1000000 + (c[1] << 16) + (c[2] << 8) + c[3])
    if c[0] == "p":
        return str(1000 + c[1])
    return str(2000 + hash(c) % 1000)


PARTIAL = {"minus-style": 88, "minus-emph-style": 89, "minus-non-emph-style": 90, "plus-style": 91, "plus-emph-style": 92,
           "plus-non-emph-style": 93, "zero-style": 94}


def main(tier, replay=None):
    chk = vlib.Check(PID, tier)
    ok, out = vlib.build_delta()
    if not ok:
        print("tree does not build with hooks enabled:\n" + out[-2000:])
        chk.oblige("build:delta-with-hooks", False, out[-2000:])
        return chk.finish()
    vlib.build_native()
    vlib.standard_proof_obligations(chk, "PropC15", gen_names=("syntax",))
    ok, out = vlib.build_vmodel()
    if not ok:
        chk.oblige("build:vmodel", False, out[-2000:])
        return chk.finish()
    vm = vlib.vmodel()
    drv = vlib.delta_driver()
    chk.rule = ("white box: random syntax / diff section lists over the same text (1-5 sections each, styles with and without `syntax`, null and "
                "coloured syntect styles, trailing newline) through superimpose_style_sections; black box: hunks of code snippets x pairs of themes "
                "of the same light/dark class and `none` x default styles / styles without `syntax` / mixed; file-name pairs per language from "
                "--list-languages (extension vs extension, extension vs whole name) and unknown names vs --default-language; non-trivial = a "
                "comparison in which the two runs differ somewhere (the themes do colour differently)")
    rp = json.load(open(replay)) if replay else None
    # ---------------------------------------------------------------- white box
    STY = [("syntax", None, None, 0, 1), ("syntax 22", None, 1022, 0, 1), ("bold 231 28", 1231, 1028, 1, 0), ("normal", None, None, 0, 0),
           ("red", 1001, None, 0, 0), ("syntax bold ul 52", None, 1052, 9, 1), ("italic 201", 1201, None, 4, 0)]
    n_wb = 400 if tier == "quick" else 6000
    wm = 0
    wcases = []
    if rp and rp.get("shape") == "superimpose":
        wcases = [(rp["syn"], rp["diff"])]
    elif not rp:
        for i in range(n_wb):
            r = vlib.case_rng(chk.seed, PID, ("wb", i))
            text = "".join(r.choice("abc 日é(){}") for _ in range(r.randint(1, 12))) + (r.choice(["\n", "\n", ""]))

            def split(t, styles):
                cuts = sorted(r.sample(range(1, len(t)), min(len(t) - 1, r.randint(0, 4)))) if len(t) > 1 else []
                parts = [t[a:b] for a, b in zip([0] + cuts, cuts + [len(t)])]
                return [(r.choice(styles), p) for p in parts]
            syn = split(text, ["-", "-", "ff0000", "00aa10", "123456"])
            diff = split(text, list(range(len(STY))))
            if r.random() < 0.08:
                # the two lists describe different text: the repaired code falls back to no highlighting
                syn = syn[:-1] + [(syn[-1][0], syn[-1][1].replace("a", "z") + "q")]
            wcases.append((syn, diff))
    for syn, diff in wcases:
        chk.case(("wb", json.dumps([syn, diff], ensure_ascii=False)), any(s != "-" for s, _ in syn), None)
        chk.count("white-box")
        d = drv.ask("superimpose", ",".join(f"{s}:{vlib.hexs(t)}" for s, t in syn), ",".join(f"{vlib.hexs(STY[k][0])}:{vlib.hexs(t)}" for k, t in diff))
        m = vm.ask("superimpose", ",".join(("-" if s == "-" else str(0x1000000 + int(s, 16))) + ":" + ".".join(str(ord(c)) for c in t) for s, t in syn),
                   ",".join("%s|%s|%d|%d:%s" % ("-" if STY[k][1] is None else STY[k][1], "-" if STY[k][2] is None else STY[k][2], STY[k][3], STY[k][4],
                                                ".".join(str(ord(c)) for c in t)) for k, t in diff))
        want = m.split("\t")[1] if m.startswith("OK") else m
        if d.startswith("OK"):
            rows = term.decode(bytes.fromhex(d.split("\t")[1]) + b"\n")
            cells = [c for row in rows for c in row.cells]
            got = ";".join("%d,%s,%s,%d" % (ord(c[0]), enc_color(c[1]), enc_color(c[2]), sum(ATTR_BITS.get(a, 0) for a in c[3])) for c in cells)
        else:
            got = d
        if got != want:
            wm += 1
            if wm <= 3:
                vlib.log(f"[C15] superimpose mismatch syn={syn} diff={[(STY[k][0], t) for k, t in diff]}\n  model {want}\n  impl  {got}")
    chk.oblige("correspondence:superimpose", wm == 0, f"{wm} of {len(wcases)} section lists are superimposed differently by the model")
    # ---------------------------------------------------------------- black box: themes
    n_bb = 60 if tier == "quick" else 800
    tcases = []
    if rp and rp.get("shape") == "theme":
        tcases = [rp["case"]]
    elif not rp:
        for i in range(n_bb):
            r = vlib.case_rng(chk.seed, PID, ("theme", i))
            ext = r.choice(["rs", "py", "c", "sh", "json"])
            pool = SNIPPETS[ext] + SNIPPETS["generic"]
            cls = r.choice(["dark", "light"])
            th = r.sample(DARK if cls == "dark" else LIGHT, 2)
            tcases.append({"name": "src/f." + ext, "minus": [r.choice(pool) for _ in range(r.randint(1, 2))], "plus": [r.choice(pool) for _ in range(r.randint(1, 2))],
                           "ctx": [r.choice(pool)], "themes": th, "cls": cls, "styles": r.choice(["default", "nosyntax", "mixed"]),
                           "extra": r.choice([[], ["--side-by-side"], ["--line-numbers"], ["--keep-plus-minus-markers"]])})
        # lines at / beyond --max-syntax-highlighting-length: the part after the limit is not highlighted but still shown
        # (trailing blanks, whitespace-error marks); the limit is put right at the end of the visible text
        for i in range(n_bb // 3):
            r = vlib.case_rng(chk.seed, PID, ("maxlen", i))
            ext = r.choice(["rs", "py", "c", "sh", "json"])
            line = r.choice(SNIPPETS[ext])
            cls = r.choice(["dark", "light"])
            pad = " " * r.randint(1, 8)
            tcases.append({"name": "src/f." + ext, "minus": [line + pad], "plus": [line + pad, line + " x" + pad], "ctx": [line + pad],
                           "themes": r.sample(DARK if cls == "dark" else LIGHT, 2), "cls": cls, "styles": "default",
                           "extra": ["--max-syntax-highlighting-length", str(len(line) + r.choice([0, 0, 1, -3]))] + r.choice([[], ["--side-by-side"], ["--line-numbers"]])})
        # some of the seven hunk-line styles set to a style without `syntax` (each with its own background), the others
        # left at their defaults; a paired removed / added line so that emph and non-emph sections exist
        for i in range(n_bb // 2):
            r = vlib.case_rng(chk.seed, PID, ("partial", i))
            ext = r.choice(["rs", "py", "c", "sh", "json"])
            line = r.choice(SNIPPETS[ext])
            cls = r.choice(["dark", "light"])
            chosen = r.sample(list(PARTIAL), r.randint(1, 3))
            tcases.append({"name": "src/f." + ext, "minus": [line + " /* old tail */"], "plus": [line + " /* new tail */"], "ctx": [r.choice(SNIPPETS[ext])],
                           "themes": r.sample(DARK if cls == "dark" else LIGHT, 2), "cls": cls, "styles": "partial", "chosen": chosen,
                           "extra": r.choice([[], ["--side-by-side"], ["--side-by-side"], ["--line-numbers"]])})

    def work_t(c):
        inp = make_diff(c["name"], c["minus"], c["plus"], c["ctx"])
        base = ["--" + c["cls"]] + c["extra"]
        if c["styles"] == "nosyntax":
            base += NOSYN_STYLES
        elif c["styles"] == "mixed":
            base += ["--minus-style", "red", "--plus-style", "syntax 22", "--zero-style", "syntax"]
        elif c["styles"] == "partial":
            base += ["--max-line-distance", "1.0"]
            for o in c["chosen"]:
                base += ["--" + o, "normal %d" % PARTIAL[o]]
        return [run(base + ["--syntax-theme", t], inp) for t in c["themes"] + ["none"]]
    with ThreadPoolExecutor(max_workers=vlib.NCPU) as ex:
        tres = list(ex.map(work_t, tcases))
    for c, runs in zip(tcases, tres):
        why = []
        if any(rc != 0 for rc, _, _ in runs):
            why.append("delta failed: " + str([(rc, err[-100:]) for rc, _, err in runs]))
        else:
            cs = [all_cells(o) for _, o, _ in runs]
            nf = [[[(ch, bg, at) for ch, fg, bg, at in row] for row in x] for x in cs]
            for j, lab in ((1, c["themes"][1]), (2, "none")):
                if nf[0] != nf[j]:
                    k = next(i for i in range(min(len(nf[0]), len(nf[j]))) if nf[0][i] != nf[j][i]) if len(nf[0]) == len(nf[j]) else -1
                    why.append(f"themes {c['themes'][0]!r} and {lab!r} differ in characters / backgrounds / attributes (row {k})")
            if c["styles"] == "nosyntax" and not (cs[0] == cs[1] == cs[2]):
                why.append("no style asks for `syntax`, yet the foregrounds depend on the theme")
            if c["styles"] == "partial":
                # cells on the background of a chosen style: that style has no `syntax`, their foreground is the same
                # under every theme and with highlighting off
                bgs = {("p", PARTIAL[o]): o for o in c["chosen"]}
                for j in (1, 2):
                    for ra, rb in zip(cs[0], cs[j]):
                        for (ch, fg, bg, at), (ch2, fg2, bg2, at2) in zip(ra, rb):
                            if bg in bgs and bg == bg2 and fg != fg2 and not why:
                                why.append(f"--{bgs[bg]} 'normal {bg[1]}' does not ask for `syntax`, yet the foreground of {ch!r} on that background "
                                           f"is {fg} under {c['themes'][0]!r} and {fg2} under {(c['themes'] + ['none'])[j]!r}")
            if c["styles"] == "mixed":
                # removed lines use `red` (no syntax): their cells must not depend on the theme
                for x in cs[1:]:
                    for ra, rb in zip(cs[0], x):
                        txt = "".join(ch for ch, _, _, _ in ra if ch != "EOL")
                        if any(txt.endswith(m) or m in txt for m in c["minus"]) and not any(p in txt for p in c["plus"] + c["ctx"]):
                            if ra != rb:
                                why.append(f"a removed line styled `red` changes with the theme: {txt[:40]!r}")
        differs = (not why) and len(runs) == 3 and runs[0][1] != runs[2][1]
        chk.case(("theme", json.dumps(c, sort_keys=True, ensure_ascii=False)), differs, {"themes": c["themes"], "styles": c["styles"], "extra": c["extra"]})
        chk.count("themes:" + c["styles"])
        if why:
            chk.violation({"property": PID, "shape": "theme", "why": "; ".join(why[:3]), "case": c})
    # ---------------------------------------------------------------- black box: language by file name
    langs = languages() if not rp or rp.get("shape") == "name" else []
    chk.count("languages-listed", len(langs))
    ncases = []
    if rp and rp.get("shape") == "name":
        ncases = [rp["case"]]
    elif not rp:
        r = vlib.case_rng(chk.seed, PID, "names")
        owners = {}
        for _, entries in langs:
            for e in set(x.lower() for x in entries):
                owners[e] = owners.get(e, 0) + 1
        pick = [l for l in langs if len(l[1]) >= 2]
        r.shuffle(pick)
        must = [l for l in langs if l[0] in ("CMake", "Makefile", "Dockerfile", "Rust", "Python", "JSON", "Git Config", "Ruby", "TOML")]
        for lang, entries in (must + pick)[: (40 if tier == "quick" else 400)]:
            # entries listed under a single language only (an entry shared by two languages belongs to one of them)
            es = [e for e in entries if re.match(r"^[A-Za-z0-9_.+-]+$", e) and owners.get(e.lower(), 0) == 1]
            if len(es) < 2:
                continue
            # an entry matches as the extension (`x.E`) or as the whole file name (`E`, when it is
            # longer than 4 bytes or has an extension itself); an entry with a dot inside can only
            # be a whole name
            def spellings(e):
                out = []
                if "." not in e:
                    out.append("dir/x." + e)
                if "." in e.strip(".") or len(e) > 4:
                    out.append(e)
                return out
            names = [(e, n) for e in es for n in spellings(e)]
            if len(names) < 2:
                continue
            for _ in range(2):
                (ea, na), (eb, nb) = r.sample(names, 2)
                ncases.append({"lang": lang, "n1": na, "n2": nb})
            for e in [e for e in es if "." in e.strip(".")][:2]:
                other = next((x for x in es if x != e and "." not in x), None)
                if other:
                    ncases.append({"lang": lang, "n1": e, "n2": "dir/y." + other})
        # the same language whatever the form of the diff and wherever the path has spaces
        for ext in ("rs", "py", "cmake", "json"):
            ncases.append({"lang": "form:" + ext, "n1": "src/count." + ext, "n2": "src/word count." + ext, "form2": "diffu"})
            ncases.append({"lang": "form:" + ext, "n1": "src/count." + ext, "n2": "new tree/src/count." + ext, "form2": "diffu"})
            ncases.append({"lang": "form:" + ext, "n1": "src/count." + ext, "n2": "src/tally." + ext, "form1": "diffu", "form2": "git"})
            ncases.append({"lang": "form:" + ext, "n1": "my dir/a b." + ext, "n2": "src/tally." + ext})
        for dl in (None, "rs", "py"):
            ncases.append({"lang": "default:" + str(dl), "n1": "zz.unknownext", "n2": "qq.otherunk", "default": dl})
            if dl:
                ncases.append({"lang": "default:" + str(dl), "n1": "zz.unknownext", "n2": "dir/k." + dl, "default": dl})

    def work_n(c):
        snip = []
        for k in SNIPPETS:
            snip += SNIPPETS[k]
        res = []
        for nm, form in ((c["n1"], c.get("form1", "git")), (c["n2"], c.get("form2", "git"))):
            inp = make_diff(nm, snip[:6], snip[6:12], [snip[12]], form)
            args = ["--syntax-theme", "Monokai Extended", "--hunk-header-style", "omit"]
            if c.get("default"):
                args += ["--default-language", c["default"]]
            res.append(run(args, inp))
        return res
    with ThreadPoolExecutor(max_workers=vlib.NCPU) as ex:
        nres = list(ex.map(work_n, ncases))
    for c, (a, b) in zip(ncases, nres):
        chk.count("names:" + ("default" if c["lang"].startswith("default") else "language"))
        if a[0] != 0 or b[0] != 0:
            chk.case(("name", json.dumps(c, sort_keys=True)), False, None)
            chk.violation({"property": PID, "shape": "name", "why": f"delta failed on {c}", "case": c})
            continue
        ca, cb = body_cells(a[1]), body_cells(b[1])
        plain = all(fg is None or fg == ("p", 231) for row in ca for _, fg, _, _ in row)
        chk.case(("name", json.dumps(c, sort_keys=True)), not plain, {"names": [c["n1"], c["n2"]], "language": c["lang"]})
        if ca != cb:
            k = next((i for i in range(min(len(ca), len(cb))) if ca[i] != cb[i]), -1)
            chk.violation({"property": PID, "shape": "name", "why": f"the same hunk is coloured differently in {c['n1']!r} and {c['n2']!r} (both {c['lang']}), row {k}", "case": c})
    chk.extra["traces_validated_against_impl"] = len(wcases) - wm
    chk.assumptions = ["the highlighter (syntect) is an oracle: any assignment of foregrounds to the characters of the line; its contract (sections cover the line) "
                       "is what the theorems assume, and the repaired code falls back to no highlighting when it is broken",
                       "language names and their extension / whole-name entries are read from the binary's own --list-languages; entries shared by two languages "
                       "resolve to one of them for both spellings, which the same-colouring clause does not distinguish",
                       "themes of one light/dark class are compared, as the property states (default styles depend on the class)"]
    vm.close()
    drv.close()
    return chk.finish()
