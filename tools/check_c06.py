"""C06 — within-line emphasis marks exactly what changed between paired lines.

proof:   PropC06.v — tokens partition the line; the table the code fills equals the recursive
         specification of the gap-open distance; for token lists with a common first token the
         operations read back are a valid edit script, hence removing deleted tokens from the
         old line and inserted tokens from the new line leaves the same tokens.
tie:     white-box through the hook driver: tokenize and Alignment::operations vs the
         extracted model — exhaustively for all pairs of short token sequences over a small
         alphabet, randomly for realistic lines.
oracle:  on infer_edits of the implementation (model-free): sections concatenate to the line;
         removing emphasised sections from both lines of a pair leaves equal text; unpaired
         lines and identical pairs carry no emphasis; pairs never cross; threshold 1 pairs
         line i with line i; threshold 0 pairs only lines that differ in nothing but
         whitespace; one contiguous replaced run gives one contiguous emphasised stretch.
"""
import itertools
import json
import os
import sys

import gdiff
import vlib

PID = "C06"
RE = r"\w+"


def enc(ts):
    return "".join(vlib.hexs(t) + ";" for t in ts)


def parse_infer(rep):
    body = rep.split("\t", 1)[1]
    m, p, a = body.split(";")

    def lines(s):
        s = s[2:]
        if s == "":
            return []
        out = []
        for l in s.split("|"):
            secs = []
            for sec in l.split(","):
                if sec:
                    secs.append((int(sec[0]), bytes.fromhex(sec[1:]).decode("utf-8", "replace")))
            out.append(secs)
        return out
    al = []
    for e in a[2:].split(","):
        if e:
            x, y = e.split("-")
            al.append((int(x) if x != "" else None, int(y) if y != "" else None))
    return lines(m), lines(p), al


def ws_only_diff(a, b):
    return "".join(a.split()) == "".join(b.split())


def oracle(minus, plus, thr, res):
    am, ap, al = res
    why = []
    if len(am) != len(minus) or len(ap) != len(plus):
        return [f"{len(minus)}/{len(plus)} lines in, {len(am)}/{len(ap)} annotated lines out"]
    for k, (l, secs) in enumerate(zip(minus, am)):
        if "".join(t for _, t in secs) != l:
            why.append(f"removed line {k}: sections {secs} do not concatenate to {l!r}")
    for k, (l, secs) in enumerate(zip(plus, ap)):
        if "".join(t for _, t in secs) != l:
            why.append(f"added line {k}: sections {secs} do not concatenate to {l!r}")
    ms = [m for m, p in al if m is not None]
    ps = [p for m, p in al if p is not None]
    if ms != list(range(len(minus))) or ps != list(range(len(plus))):
        why.append(f"alignment {al} does not list every line once, in order (pairs cross or lines missing)")
    paired_m = {m for m, p in al if m is not None and p is not None}
    paired_p = {p for m, p in al if m is not None and p is not None}
    for m, p in al:
        if m is not None and p is not None:
            keep_m = "".join(t for o, t in am[m] if o != 1)
            keep_p = "".join(t for o, t in ap[p] if o != 3)
            if keep_m != keep_p:
                why.append(f"pair ({m},{p}): without the emphasised parts the lines differ: {keep_m!r} vs {keep_p!r}")
            if minus[m] == plus[p] and (any(o == 1 for o, _ in am[m]) or any(o == 3 for o, _ in ap[p])):
                why.append(f"pair ({m},{p}) of identical lines carries emphasis")
            if thr == 0.0 and not ws_only_diff(minus[m], plus[p]):
                why.append(f"threshold 0 but lines {minus[m]!r} / {plus[p]!r} (differing in more than whitespace) are paired")
    for m in range(len(minus)):
        if m not in paired_m and any(o == 1 for o, _ in am[m]):
            why.append(f"unpaired removed line {m} carries emphasis")
    for p in range(len(plus)):
        if p not in paired_p and any(o == 3 for o, _ in ap[p]):
            why.append(f"unpaired added line {p} carries emphasis")
    if thr >= 1.0:
        n = min(len(minus), len(plus))
        want = [(i, i) for i in range(n)]
        got = [(m, p) for m, p in al if m is not None and p is not None]
        if got != want:
            why.append(f"threshold 1: the i-th removed line must pair with the i-th added line, got pairs {got}")
    return why


def single_run_oracle(prefix, a, b, suffix, res):
    """x = prefix+a+suffix, y = prefix+b+suffix with a, b sharing no token: one emphasised stretch each"""
    am, ap, al = res
    why = []
    if not al or al[0] != (0, 0):
        return why   # not paired (distance threshold): nothing to say
    def runs(secs, emph):
        r, prev = 0, False
        for o, t in secs:
            e = (o == emph) and t != ""
            if e and not prev:
                r += 1
            if t != "":
                prev = e
        return r
    if a and runs(am[0], 1) > 1:
        why.append(f"one replaced run but {runs(am[0], 1)} emphasised stretches on the removed line: {am[0]}")
    if b and runs(ap[0], 3) > 1:
        why.append(f"one replaced run but {runs(ap[0], 3)} emphasised stretches on the added line: {ap[0]}")
    return why


def main(tier, replay=None):
    chk = vlib.Check(PID, tier)
    ok, out = vlib.build_delta()
    if not ok:
        print("tree does not build with hooks enabled:\n" + out[-2000:])
        chk.oblige("build:delta-with-hooks", False, out[-2000:])
        return chk.finish()
    vlib.standard_proof_obligations(chk, "PropC06")
    ok, out = vlib.build_vmodel()
    if not ok:
        chk.oblige("build:vmodel", False, out[-2000:])
        return chk.finish()
    vm = vlib.vmodel()
    drv = vlib.delta_driver()
    chk.rule = ("white box: all pairs of token sequences of length <= 4 (quick) / 5 (thorough) over {a, b, space} with the leading empty token, "
                "random realistic lines; oracle on infer_edits: subhunks of 1-4 removed/added lines over words, repeated tokens, Unicode, "
                "whitespace-only differences, blank lines x thresholds {0, 0.3, 0.6, 1}; non-trivial = the two sides differ")
    mism = 0
    nwb = 0
    # ---- exhaustive alignment correspondence
    L = 4 if tier == "quick" else 5
    alpha = ["a", "b", " "]
    seqs = [list(s) for n in range(0, L + 1) for s in itertools.product(alpha, repeat=n)]
    r = vlib.case_rng(chk.seed, PID, "pairs")
    for xs in seqs:
        for ys in seqs:
            if tier == "quick" and r.random() > 0.25:
                continue
            x, y = [""] + xs, [""] + ys
            nwb += 1
            m = vm.ask("align_ops", enc(x), enc(y))
            d = drv.ask("align_ops", enc(x), enc(y))
            chk.case(("ops", tuple(x), tuple(y)), x != y, {"x": x, "y": y, "ops": d.split("\t")[-1]} if nwb % 997 == 0 else None)
            if m != d:
                mism += 1
                if mism <= 3:
                    vlib.log(f"[C06] operations mismatch {x} {y}: model {m} impl {d}")
            ops = d.split("\t")[-1]
            # oracle: the operations are a valid script and keep common tokens
            i = j = 0
            kx, ky = [], []
            okk = True
            for o in ops:
                if o == "N":
                    if i < len(x) and j < len(y) and x[i] == y[j]:
                        kx.append(x[i]); ky.append(y[j]); i += 1; j += 1
                    else:
                        okk = False
                elif o == "D":
                    i += 1
                else:
                    j += 1
            if not okk or i != len(x) or j != len(y):
                chk.violation({"property": PID, "shape": "invalid-script", "why": f"operations {ops} are not a valid edit script from {x} to {y}"})
    # ---- tokenize correspondence + infer_edits oracle on realistic lines
    WORDS = ["foo", "bar", "x1", "_a", "é", "日本", "let", "fn", "return", "0"]
    SEPS = [" ", "  ", ";", "(", ")", ".", ",", "\t", "-", "+", "=", " = "]

    def rline(rr):
        return "".join(rr.choice(WORDS + SEPS) for _ in range(rr.randint(0, 8)))
    n = 400 if tier == "quick" else 6000
    npair = pmism = 0
    for i in range(n):
        rr = vlib.case_rng(chk.seed, PID, i)
        s = rline(rr)
        nwb += 1
        m = vm.ask("tokenize", vlib.hexs(s))
        d = drv.ask("tokenize", vlib.hexs(s), vlib.hexs(RE))
        if m != d:
            mism += 1
            if mism <= 3:
                vlib.log(f"[C06] tokenize mismatch {s!r}: model {m} impl {d}")
        # subhunk
        nm, np_ = rr.randint(1, 4), rr.randint(1, 4)
        minus = [rline(rr) for _ in range(nm)]
        plus = []
        for k in range(np_):
            c = rr.random()
            base = minus[k] if k < nm else rline(rr)
            if c < 0.25:
                plus.append(base)                               # identical
            elif c < 0.45:
                plus.append(base.replace(" ", "  ", 1) + (" " if rr.random() < 0.5 else ""))   # whitespace-only difference
            elif c < 0.75:
                ws = base.split(" ")
                if ws:
                    ws[rr.randrange(len(ws))] = rr.choice(WORDS)
                plus.append(" ".join(ws))                       # one word replaced
            else:
                plus.append(rline(rr))
        if rr.random() < 0.2:
            minus[rr.randrange(nm)] = rr.choice(["", " ", "   ", "\t"])
            plus[rr.randrange(np_)] = rr.choice(["", " ", "  "])
        thr = rr.choice([0.0, 0.3, 0.6, 1.0, 1.0])
        rep = drv.ask("infer_edits", enc(minus), enc(plus), vlib.hexs(RE), thr, 0.0)
        chk.case(("infer", tuple(minus), tuple(plus), thr), minus != plus, {"minus": minus, "plus": plus, "threshold": thr, "result": rep[:300]})
        chk.count(f"threshold:{thr}")
        if not rep.startswith("OK"):
            chk.violation({"property": PID, "shape": "crash", "why": f"infer_edits failed: {rep[:200]}", "minus": minus, "plus": plus, "threshold": thr})
            continue
        why = oracle(minus, plus, thr, parse_infer(rep))
        if why:
            chk.violation({"property": PID, "shape": "infer_edits", "why": "; ".join(why[:3]), "minus": minus, "plus": plus, "threshold": thr, "result": rep})
        # correspondence of the pairing loop: the closeness oracle is read off the implementation pair by pair
        # (a one-line block: paired or not), the model's loop over it must give the block's alignment
        if len(minus) * len(plus) <= 16 and i % 2 == 0:
            mx = []
            for a_ in minus:
                row = ""
                for b_ in plus:
                    one = drv.ask("infer_edits", enc([a_]), enc([b_]), vlib.hexs(RE), thr, 0.0)
                    row += "1" if one.startswith("OK") and one.split("A:")[-1].strip() == "0-0" else "0"
                mx.append(row)
            want_al = vm.ask("pairing", len(minus), len(plus), ",".join(mx)).split("\t")[1]
            got_al = rep.split("A:")[-1].strip()
            npair += 1
            if want_al != got_al:
                pmism += 1
                if pmism <= 3:
                    vlib.log(f"[C06] pairing mismatch minus={minus} plus={plus} thr={thr} close={mx}: model {want_al} impl {got_al}")
    chk.oblige("correspondence:line-pairing", pmism == 0, f"{pmism} of {npair} blocks are paired differently by the model's loop")
    # ---- single contiguous run
    for i in range(200 if tier == "quick" else 3000):
        rr = vlib.case_rng(chk.seed, PID, 70000 + i)
        pre = " ".join(rr.choice(["p1", "p2", "q", "rr"]) for _ in range(rr.randint(0, 3)))
        suf = " ".join(rr.choice(["s1", "s2", "t", "uu"]) for _ in range(rr.randint(0, 3)))
        a = " ".join(rr.choice(["aa", "ab", "ac"]) for _ in range(rr.randint(0, 3)))
        b = " ".join(rr.choice(["ba", "bb", "bc"]) for _ in range(rr.randint(0, 3)))
        if not a and not b:
            continue
        x = " ".join(t for t in (pre, a, suf) if t)
        y = " ".join(t for t in (pre, b, suf) if t)
        rep = drv.ask("infer_edits", enc([x]), enc([y]), vlib.hexs(RE), 1.0, 0.0)
        chk.case(("run", x, y), True, None)
        chk.count("single-run")
        if rep.startswith("OK"):
            why = single_run_oracle(pre, a, b, suf, parse_infer(rep)) + oracle([x], [y], 1.0, parse_infer(rep))
            if why:
                chk.violation({"property": PID, "shape": "single-run", "why": "; ".join(why[:3]), "minus": [x], "plus": [y], "result": rep})
    # ---- black box: the whole pipeline (hunk-line buffering included): with --max-line-distance 1 a run of m removed and
    #      p added lines, both within --line-buffer-size, is one subhunk: the i-th removed line is paired with the i-th
    #      added line (each carries exactly its changed word as emphasis), lines without a partner carry none
    import term
    from concurrent.futures import ThreadPoolExecutor
    bcases = []
    for i in range(60 if tier == "quick" else 900):
        rr = vlib.case_rng(chk.seed, PID, ("bb", i))
        B = rr.choice([1, 2, 3, 4, 8, 32])
        m = rr.choice([B, B, max(1, B - 1), rr.randint(1, B)])
        p_ = rr.choice([B, B, max(1, B - 1), rr.randint(1, B)])
        bcases.append({"B": B, "m": m, "p": p_, "sbs": rr.random() < 0.3, "ctx": rr.random() < 0.5})
    if replay and json.load(open(replay)).get("shape") == "bb-pairing":
        bcases = [json.load(open(replay))["case"]]
    elif replay:
        bcases = []

    def bb_lines(c):
        minus = [f"row{i} keeps the words old{i}x and a tail" for i in range(c["m"])]
        plus = [f"row{i} keeps the words new{i}y and a tail" for i in range(c["p"])]
        body = ([" before"] if c["ctx"] else []) + ["-" + x for x in minus] + ["+" + x for x in plus] + [" after"]
        return ["diff --git a/f.txt b/f.txt", "index 1..2 100644", "--- a/f.txt", "+++ b/f.txt",
                f"@@ -1,{c['m'] + 1 + c['ctx']} +1,{c['p'] + 1 + c['ctx']} @@"] + body

    def bb_run(c):
        args = ["--no-gitconfig", "--paging", "never", "--syntax-theme", "none", "--max-line-distance", "1.0", "--line-buffer-size", str(c["B"]),
                "--minus-style", "normal 52", "--minus-non-emph-style", "normal 52", "--minus-emph-style", "normal 201", "--plus-style", "normal 22",
                "--plus-non-emph-style", "normal 22", "--plus-emph-style", "normal 46", "--width", "200"] + (["--side-by-side"] if c["sbs"] else [])
        return vlib.run_delta(args, stdin=("\n".join(bb_lines(c)) + "\n").encode())
    with ThreadPoolExecutor(max_workers=vlib.NCPU) as ex:
        bres = list(ex.map(bb_run, bcases))
    for c, (rc, out, err) in zip(bcases, bres):
        chk.case(("bb", json.dumps(c, sort_keys=True)), True, c)
        chk.count("blackbox-pairing:B=%d" % c["B"])
        if rc != 0:
            continue   # crashes are C03's business
        rows = term.decode(out)
        why = []
        for side, n_, word, emph_bg in (("removed", c["m"], "old%dx", ("p", 201)), ("added", c["p"], "new%dy", ("p", 46))):
            for i in range(n_):
                w = word % i
                hit = [row for row in rows if w in row.text()]
                if len(hit) != 1:
                    continue   # C01 / C07 decide whether every line is shown
                t = hit[0].text()
                a = t.find(w)
                emph = [j for j, cl in enumerate(hit[0].cells) if cl[2] == emph_bg and j < len(t)]
                paired = i < min(c["m"], c["p"])
                if paired and emph != list(range(a, a + len(w))):
                    why.append(f"{side} line {i} of a {c['m']}-removed / {c['p']}-added run (buffer size {c['B']}) has emphasis on cells {emph[:6]}, "
                               f"its changed word {w!r} is cells {a}..{a + len(w) - 1}: it is not paired with line {i} of the other side")
                if not paired and emph:
                    why.append(f"{side} line {i} has no partner but carries emphasis")
        if why:
            chk.violation({"property": PID, "shape": "bb-pairing", "case": c, "why": "; ".join(why[:2]), "input": "\n".join(bb_lines(c))})
    # ---- the distance is measured in display columns (edits.rs annotate: width of the trimmed section): a pair of lines and
    #      the same pair with every double-width character replaced by two single-width word characters is paired or not
    #      paired alike at every threshold (a correspondence of the implementation with the width-based reading of the
    #      distance; the property text itself does not fix the measure)
    wmism = wn = 0
    for i in range(150 if tier == "quick" else 2000):
        rr = vlib.case_rng(chk.seed, PID, ("width", i))
        def part():
            return " ".join(rr.choice(["ab", "cd", "x", "中中", "文文文", "日本語日", "中", "efg"]) for _ in range(rr.randint(1, 3)))
        common, a, b = part(), part(), part()
        x, y = (common + " " + a, common + " " + b) if rr.random() < 0.5 else (a + " " + common, b + " " + common)
        narrow = lambda t: "".join("zz" if ord(ch) > 0x2e80 else ch for ch in t)
        for thr in (0.3, 0.5, 0.6, 0.7, 0.8):
            r1 = drv.ask("infer_edits", enc([x]), enc([y]), vlib.hexs(RE), thr, 0.0)
            r2 = drv.ask("infer_edits", enc([narrow(x)]), enc([narrow(y)]), vlib.hexs(RE), thr, 0.0)
            if not (r1.startswith("OK") and r2.startswith("OK")):
                continue
            wn += 1
            p1, p2 = parse_infer(r1)[2], parse_infer(r2)[2]
            if p1 != p2:
                wmism += 1
                if wmism <= 3:
                    vlib.log(f"[C06] width-based distance: {x!r} / {y!r} at {thr}: alignment {p1}, with narrow characters {p2}")
    chk.oblige("correspondence:distance-in-display-columns", wmism == 0, f"{wmism} of {wn} pairs are paired differently when double-width characters are replaced by two single-width ones")
    chk.oblige("correspondence:tokenize+operations", mism == 0, f"{mism} of {nwb} white-box cases differ between model and implementation")
    chk.extra["traces_validated_against_impl"] = nwb - mism
    chk.assumptions = ["\\w of the regex crate = default_is_word on the generator's alphabet (checked by the tokenize correspondence)",
                       "annotate (section building, whitespace coalescing, the distance value) is decided on the implementation by the oracle; the Coq models cover tokenisation, alignment and the line-pairing loop (over a closeness oracle read off the implementation)"]
    vm.close()
    drv.close()
    return chk.finish()
