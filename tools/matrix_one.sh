#!/bin/bash
# usage: matrix.sh <id> <check> [<check>...]   — apply seeded change (directory name under seeded/) <id>, run the checks, undo
cd /verif
id=$1; shift
p=/verif/seeded/$id/patch.diff
git -C /repo apply --check $p 2>/dev/null || { echo "$id: patch does not apply"; exit; }
rm -rf .cache/evidence.keep; cp -a evidence .cache/evidence.keep
git -C /repo apply $p
for chk in "$@"; do
  out=$(timeout 1500 bin/check $chk --tier quick 2>&1)
  nv=$(echo "$out" | grep -c '^VIOLATION')
  echo "$id -> $chk: VIOLATION lines=$nv :: $(echo "$out" | tail -1)"
done
git -C /repo checkout -- .
python3 /verif/tools/translate.py >/dev/null   # Gen*.v back to the unchanged tree
rm -rf evidence; mv .cache/evidence.keep evidence
