"""C13 — option values resolve by the documented precedence, deterministically.

proof:   PropC13.v — over the model of gather_features / get_option_value: a command-line
         value wins; then the main [delta] section, where a GIT_CONFIG_PARAMETERS entry
         overrides the file; then features, the highest-priority one that sets the option
         (a custom section before the built-in default of the same name); then the default;
         --no-gitconfig = empty gitconfig; the gathering terminates for every feature graph.
tie:     translator: the built-in feature tables are dumped from the hook-enabled binary and
         the order of command-line flags is scanned from src/options/set.rs (GenFeatures.v);
         black-box correspondence: `delta --show-config` with a generated gitconfig, args and
         environment vs the extracted model, for five probe options of different types.
oracle:  the value shown is the one from the highest-ranked source that sets it (computed
         independently for placements where the ranking is unambiguous); identical across
         repeated runs.
"""
import json
import os
import re
import sys
from concurrent.futures import ThreadPoolExecutor

import term
import translate
import vlib

PID = "C13"
CUSTOM = ["a", "b", "c"]
PROBES = {
    # option: (values as written, how --show-config prints a value, default printed, cli syntax)
    "file-modified-label": (["V1", "V2", "V3", "V4", "V5", "V6"], lambda v: fmt_value(v), "''"),
    "width": (["41", "42", "43", "44", "45", "46"], lambda v: v, "80"),
    "tabs": (["1", "2", "3", "5", "6", "7"], lambda v: v, "8"),
    "diff-stat-align-width": (["11", "12", "13", "14", "15", "16"], lambda v: v, "48"),
    "keep-plus-minus-markers": (["true", "false"], lambda v: v, "false"),
}


def fmt_value(s):
    """src/subcommands/show_config.rs format_option_value"""
    if s.endswith(" ") or s.startswith(" ") or any(c in s for c in "\\{}:") or s == "":
        return f"'{s}'"
    return s


def gen_case(r, probe, feats, names):
    vals = PROBES[probe][0]
    pick = lambda: r.choice(vals)
    allnames = CUSTOM + ["navigate", "raw", "side-by-side", "line-numbers"]

    def fl(n):
        return [r.choice(allnames) for _ in range(n)]
    gc = {"main": {"value": None, "env": None, "features": None, "flags": []}, "custom": {}}
    if r.random() < 0.5:
        gc["main"]["features"] = fl(r.randint(1, 3))
    if r.random() < 0.3:
        gc["main"]["value"] = pick()
    if r.random() < 0.2:
        gc["main"]["env"] = pick()
        if r.random() < 0.7:
            gc["main"]["value"] = pick()   # the same key in the file and in GIT_CONFIG_PARAMETERS
    for f in ("navigate", "raw", "color-only"):
        if r.random() < 0.12:
            gc["main"]["flags"].append(f)
    for n in CUSTOM + (["navigate"] if r.random() < 0.2 else []) + (["raw"] if r.random() < 0.1 else []):
        sec = {"value": None, "env": None, "features": None, "flags": []}
        if r.random() < 0.6:
            sec["value"] = pick()
        # GIT_CONFIG_PARAMETERS entries are honoured for keys of the main section only
        if r.random() < 0.4:
            sec["features"] = fl(r.randint(1, 2))
        if r.random() < 0.15:
            sec["flags"].append(r.choice(["navigate", "raw"]))
        if any(v for v in sec.values()):
            gc["custom"][n] = sec
    cli = {"value": pick() if r.random() < 0.15 else None, "features": fl(r.randint(1, 2)) if r.random() < 0.4 else None, "env": None,
           "flags": [f for f in ("navigate", "raw", "color-only") if r.random() < 0.08], "no_gitconfig": r.random() < 0.08}
    if r.random() < 0.35:
        # DELTA_FEATURES: without '+' it replaces --features and is read like it (last-listed first); with '+' its
        # features come before those of --features in listed order — both as the model has them
        cli["env"] = ("+" if r.random() < 0.5 else "=", fl(r.randint(1, 3)))
    if probe == "keep-plus-minus-markers" and cli["value"] == "false":
        cli["value"] = None   # a boolean flag can only be given as true on the command line
    return {"probe": probe, "gc": gc, "cli": cli}


def write_gitconfig(gc, path):
    with open(path, "w") as f:
        def sec(header, s, probe):
            f.write(header + "\n")
            if s["value"] is not None:
                f.write(f"    {probe} = {s['value']}\n")
            if s["features"] is not None:
                f.write(f"    features = {' '.join(s['features'])}\n")
            for fl in s["flags"]:
                f.write(f"    {fl} = true\n")
        sec("[delta]", gc["main"], gc["probe"])
        for n, s in gc["custom"].items():
            sec(f'[delta "{n}"]', s, gc["probe"])


def env_params(case):
    ps = []
    probe = case["probe"]
    if case["gc"]["main"]["env"] is not None:
        ps.append(f"'delta.{probe}={case['gc']['main']['env']}'")
    for n, s in case["gc"]["custom"].items():
        if s["env"] is not None:
            ps.append(f"'delta.{n}.{probe}={s['env']}'")
    return " ".join(ps)


def model_args(case, feats, names, order):
    probe = case["probe"]
    vals = PROBES[probe][0]
    vid = {v: i + 1 for i, v in enumerate(vals)}
    extra = {}

    def val_id(text):
        # built-in values outside the probe's own value set get fresh ids
        if text in vid:
            return vid[text]
        if text not in extra:
            extra[text] = 50 + len(extra)
        return extra[text]
    nid = {n: i for i, n in enumerate(names)}
    for i, c in enumerate(CUSTOM):
        nid[c] = 100 + i
    ids = lambda l: ",".join(str(nid[x]) for x in l)

    def v(x):
        return "-" if x is None else str(val_id(x))
    bs = []
    for n in names:
        bv = feats[n].get(probe)
        ch = feats[n].get("features")
        fl = [o for o, (k, t) in feats[n].items() if k == "bool" and t == "true" and o in nid and o != n]
        bs.append(f"{nid[n]}:{v(bv[1]) if bv else '-'}:{ids(ch[1].split()) if ch else ''}:{ids(fl)}")

    def sec(s):
        return f"{v(s['value'])}:{v(s['env'])}:{'~' if s['features'] is None else ids(s['features'])}:{ids(s['flags'])}"
    gc = [sec(case["gc"]["main"])] + [f"{nid[n]}={sec(s)}" for n, s in case["gc"]["custom"].items()]
    c = case["cli"]
    env = "~" if c["env"] is None else c["env"][0] + ids(c["env"][1])
    cli = f"{v(c['value'])}:{'~' if c['features'] is None else ids(c['features'])}:{env}:{ids(c['flags'])}:{1 if c['no_gitconfig'] else 0}"
    rev = {i: t for t, i in list(vid.items()) + list(extra.items())}
    return (";".join(bs), ";".join(gc), cli, "0", ids(order)), rev


def run_impl(case, idx, reps=1):
    d = os.path.join(vlib.CACHE, "tmp", f"c13-{os.getpid()}-{idx}")
    os.makedirs(d, exist_ok=True)
    path = os.path.join(d, "gitconfig")
    g = dict(case["gc"])
    g["probe"] = case["probe"]
    write_gitconfig(g, path)
    c = case["cli"]
    args = ["--config", path, "--show-config"]
    if c["features"] is not None:
        args += ["--features", " ".join(c["features"])]
    for f in c["flags"]:
        args.append("--" + f)
    if c["value"] is not None:
        if case["probe"] == "keep-plus-minus-markers":
            args.append("--keep-plus-minus-markers")
        else:
            args += ["--" + case["probe"], c["value"]]
    if c["no_gitconfig"]:
        args.append("--no-gitconfig")
    env = {}
    if c["env"] is not None:
        env["DELTA_FEATURES"] = ("+" if c["env"][0] == "+" else "") + " ".join(c["env"][1])
    ep = env_params(case)
    if ep:
        env["GIT_CONFIG_PARAMETERS"] = ep
    outs = []
    for _ in range(reps):
        rc, out, err = vlib.run_delta(args, env_extra=env)
        text = term.strip(out)
        m = re.search(r"^\s*" + re.escape(case["probe"]) + r"\s*= ?(.*)$", text, re.M)
        outs.append((rc, m.group(1) if m else None, err[-200:]))
    return outs


def main(tier, replay=None):
    chk = vlib.Check(PID, tier)
    ok, out = vlib.build_delta()
    if not ok:
        print("tree does not build with hooks enabled:\n" + out[-2000:])
        chk.oblige("build:delta-with-hooks", False, out[-2000:])
        return chk.finish()
    vlib.build_native()
    tinfo = vlib.standard_proof_obligations(chk, "PropC13", gen_names=["features", "sbs"])
    ok, out = vlib.build_vmodel()
    if not ok:
        chk.oblige("build:vmodel", False, out[-2000:])
        return chk.finish()
    vm = vlib.vmodel()
    feats = translate.dump_features()
    names = sorted(feats)
    order = translate.flag_order()
    if replay:
        cases = [json.load(open(replay))["case"]]
    else:
        n = 500 if tier == "quick" else 6000
        cases = []
        for i in range(n):
            r = vlib.case_rng(chk.seed, PID, i)
            cases.append(gen_case(r, r.choice(list(PROBES)), feats, names))
        # features listed together: two or three custom sections that set the option differently, named by
        # --features or by DELTA_FEATURES (no '+'); the last-listed wins
        for i in range(40 if tier == "quick" else 400):
            r = vlib.case_rng(chk.seed, PID, ("listed", i))
            probe = r.choice([p for p in PROBES if len(PROBES[p][0]) >= 3])
            lst = r.sample(CUSTOM, r.randint(2, 3))
            vals = r.sample(PROBES[probe][0], len(lst))
            gc = {"main": {"value": None, "env": None, "features": r.choice([None, ["a"]]), "flags": []},
                  "custom": {f: {"value": v, "env": None, "features": None, "flags": []} for f, v in zip(lst, vals)}}
            via_env = r.random() < 0.6
            cli = {"value": None, "features": None if via_env else lst, "env": ("=", lst) if via_env else None, "flags": [], "no_gitconfig": False}
            cases.append({"probe": probe, "gc": gc, "cli": cli})
    chk.rule = ("placements of five probe options (string, optional string, two integers, boolean) over: command line, [delta] section, "
                "GIT_CONFIG_PARAMETERS overrides, custom [delta \"x\"] sections (also named like built-ins), feature lists (nested, "
                "repeated, self-referential), DELTA_FEATURES with and without '+', command-line feature flags, --no-gitconfig; "
                "non-trivial = at least two sources set the option")
    reps = 3

    def work(ic):
        i, c = ic
        return run_impl(c, i, reps)

    with ThreadPoolExecutor(max_workers=vlib.NCPU) as ex:
        res = list(ex.map(work, enumerate(cases)))
    mism = 0
    for c, outs in zip(cases, res):
        margs, rev = model_args(c, feats, names, order)
        m = vm.ask("opt_resolve", *margs)
        nsrc = sum(1 for x in [c["cli"]["value"], c["gc"]["main"]["value"], c["gc"]["main"]["env"]] if x is not None) + \
            sum(1 for s in c["gc"]["custom"].values() if s["value"] is not None)
        chk.case(json.dumps(c, sort_keys=True), nsrc >= 2, {"probe": c["probe"], "cli": c["cli"], "gitconfig": c["gc"], "model": m, "impl": outs[0][1]})
        chk.count("probe:" + c["probe"])
        if any(o[0] != 0 for o in outs) or outs[0][1] is None:
            chk.violation({"property": PID, "shape": "crash", "why": f"--show-config failed: {outs[0]}", "case": c})
            continue
        if len({o[1] for o in outs}) > 1:
            chk.violation({"property": PID, "shape": "nondeterministic", "why": f"--show-config reports different values in repeated runs: {[o[1] for o in outs]}", "case": c})
            continue
        if not m.startswith("OK"):
            mism += 1
            continue
        mv = int(m.split("\t")[2])
        fmt = PROBES[c["probe"]][1]
        want = PROBES[c["probe"]][2] if mv == 0 else fmt(rev[mv])
        if outs[0][1] != want:
            mism += 1
            if mism <= 3:
                vlib.log(f"[C13] mismatch: model {want!r} (features {m.split(chr(9))[1]}) impl {outs[0][1]!r} case {json.dumps(c)}")
        # independent oracle for unambiguous placements
        exp = None
        if c["cli"]["value"] is not None:
            exp = c["cli"]["value"]
        elif not c["cli"]["no_gitconfig"] and c["gc"]["main"]["env"] is not None:
            exp = c["gc"]["main"]["env"]
        elif not c["cli"]["no_gitconfig"] and c["gc"]["main"]["value"] is not None:
            exp = c["gc"]["main"]["value"]
        if exp is None and not c["cli"]["no_gitconfig"] and not c["cli"]["flags"] and not c["gc"]["main"]["flags"]:
            # features named together by --features or by DELTA_FEATURES (no '+'): the last-listed one that
            # sets the option wins — evaluated when every listed feature is a plain custom section
            lst = None
            if c["cli"]["env"] is not None and c["cli"]["env"][0] == "=":
                lst = c["cli"]["env"][1]
            elif c["cli"]["env"] is None and c["cli"]["features"] is not None:
                lst = c["cli"]["features"]
            if lst is not None and all(f in CUSTOM for f in lst):
                secs = [c["gc"]["custom"].get(f) for f in lst]
                if all(sx is None or (sx["features"] is None and not sx["flags"]) for sx in secs):
                    vals = [sx["value"] for sx in secs if sx is not None and sx["value"] is not None]
                    if vals:
                        exp = vals[-1]
        if exp is not None and outs[0][1] != fmt(exp):
            chk.violation({"property": PID, "shape": "precedence", "case": c,
                           "why": f"{c['probe']}: the highest-priority source sets {exp!r} but --show-config reports {outs[0][1]!r}"})
        if c["cli"]["no_gitconfig"] and c["cli"]["value"] is None and not c["cli"]["flags"] and c["cli"]["features"] is None and c["cli"]["env"] is None:
            if outs[0][1] != PROBES[c["probe"]][2]:
                chk.violation({"property": PID, "shape": "no-gitconfig", "case": c,
                               "why": f"--no-gitconfig must ignore every gitconfig source, but {c['probe']} = {outs[0][1]!r}"})
    # ---- the top rule for every listed option: a value given on the command line, or in the main [delta] section, is
    #      the effective value whatever features are enabled by whatever route (flags, --features, DELTA_FEATURES,
    #      gitconfig feature lists): --show-config must report it exactly as it does with no feature enabled
    if not replay or json.load(open(replay)).get("shape") == "top-source":
        WIDE = {"minus-style": ["normal 88", "syntax 17", "bold red"], "minus-emph-style": ["normal 88", "normal 89 bold", "syntax 17"],
                "minus-non-emph-style": ["normal 88", "ul 12"], "plus-style": ["normal 28", "syntax 17", "bold green"],
                "plus-emph-style": ["normal 28", "syntax 22 ul"], "plus-non-emph-style": ["normal 28", "italic 12"],
                "zero-style": ["normal 17", "dim syntax"], "commit-style": ["bold yellow", "raw"], "file-style": ["blue", "omit"],
                "hunk-header-style": ["file line-number syntax", "raw"], "line-numbers-minus-style": ["88", "bold red"],
                "line-numbers-plus-style": ["28"], "line-numbers-zero-style": ["240"], "line-numbers-left-format": ["{nm:^4}|"],
                "line-numbers-right-format": ["{np:>5}!"], "commit-decoration-style": ["bold box", "ul"], "file-decoration-style": ["blue ol", "none"],
                "hunk-header-decoration-style": ["green box", "ul ol"], "whitespace-error-style": ["reverse magenta"],
                "max-line-distance": ["0.3"], "wrap-max-lines": ["5"], "line-buffer-size": ["7"], "syntax-theme": ["GitHub"],
                "inline-hint-style": ["bold 12"], "grep-match-word-style": ["bold 12"], "blame-palette": ["#111111 #222222"]}
        FLAGS = ["side-by-side", "line-numbers", "navigate", "diff-so-fancy", "diff-highlight", "hyperlinks", "raw", "color-only", "dark", "light"]
        FEATS = ["side-by-side", "line-numbers", "navigate", "diff-so-fancy", "diff-highlight", "hyperlinks", "raw", "color-only"]
        tcases = []
        nt = 120 if tier == "quick" else 2500
        for i in range(nt):
            r = vlib.case_rng(chk.seed, PID, ("top", i))
            o = r.choice(sorted(WIDE))
            route = r.choice(["flag", "flag", "features", "env", "env+", "gitconfig"])
            fs = r.sample(FLAGS if route == "flag" else FEATS, r.randint(1, 2))
            if "dark" in fs and "light" in fs:
                fs = ["dark"]   # delta refuses the two together
            tcases.append({"option": o, "value": r.choice(WIDE[o]), "placement": r.choice(["cli", "cli", "main"]), "route": route, "features": fs})
        # an environment variable that supplies a default (BAT_THEME for syntax-theme) is below the command line and [delta]
        for placement in ("cli", "main"):
            for th in ("GitHub", "Nord", "none"):
                tcases.append({"option": "syntax-theme", "value": th, "placement": placement, "route": "envvar", "features": ["BAT_THEME=Dracula"]})
        # side-by-side rewrites the defaults of the removed-line styles: each of the two given alone
        for o in ("minus-style", "minus-emph-style"):
            for route in ("flag", "features", "env", "env+", "gitconfig"):
                tcases.append({"option": o, "value": "normal 88", "placement": "cli", "route": route, "features": ["side-by-side"]})
        if replay:
            tcases = [json.load(open(replay))["case"]]

        def run_top(ic):
            i, c = ic
            d = os.path.join(vlib.CACHE, "tmp", f"c13t-{os.getpid()}-{i}")
            os.makedirs(d, exist_ok=True)
            outs = []
            for with_feats in (False, True):
                path = os.path.join(d, "gitconfig%d" % with_feats)
                env, args = {}, ["--config", path, "--show-config"]
                with open(path, "w") as f:
                    f.write("[delta]\n")
                    if c["placement"] == "main":
                        f.write(f"    {c['option']} = \"{c['value']}\"\n")   # quoted: `#` starts a comment in a gitconfig file
                    if with_feats and c["route"] == "gitconfig":
                        f.write(f"    features = {' '.join(c['features'])}\n")
                if c["placement"] == "cli":
                    args += ["--" + c["option"], c["value"]]
                if with_feats:
                    if c["route"] == "flag":
                        args += ["--" + x for x in c["features"]]
                    elif c["route"] == "features":
                        args += ["--features", " ".join(c["features"])]
                    elif c["route"] in ("env", "env+"):
                        env["DELTA_FEATURES"] = ("+" if c["route"] == "env+" else "") + " ".join(c["features"])
                    elif c["route"] == "envvar":
                        for kv in c["features"]:
                            env[kv.split("=")[0]] = kv.split("=", 1)[1]
                rc, out, err = vlib.run_delta(args, env_extra=env)
                m = re.search(r"^\s*" + re.escape(c["option"]) + r"\s*= ?(.*)$", term.strip(out), re.M)
                outs.append((rc, m.group(1) if m else None))
            return outs
        with ThreadPoolExecutor(max_workers=vlib.NCPU) as ex:
            tres = list(ex.map(run_top, enumerate(tcases)))
        for c, ((rc0, v0), (rc1, v1)) in zip(tcases, tres):
            chk.case(("top", json.dumps(c, sort_keys=True)), True, c)
            chk.count("top-source:" + c["route"])
            if rc0 != 0 or rc1 != 0:
                chk.violation({"property": PID, "shape": "top-source", "case": c, "why": f"--show-config failed (exit {rc0}, {rc1})"})
            elif v0 is None:
                chk.count("top-source:not-reported-by-show-config")
            elif v0 != v1:
                chk.violation({"property": PID, "shape": "top-source", "case": c,
                               "why": f"--{c['option']} {c['value']!r} given {'on the command line' if c['placement'] == 'cli' else 'in the [delta] section'} "
                                      f"is reported as {v0!r}, but as {v1!r} once {c['features']} is enabled via {c['route']}"})
    # ---- correspondence of the side-by-side adjustment (SbsStyles.v over GenSbs.v): the value --show-config reports for
    #      minus-style / minus-emph-style with side-by-side on = the model's adjust of the value reported with it off
    smism = ns = 0
    if not replay:
        def show(opt_args):
            rc, out, err = vlib.run_delta(["--no-gitconfig", "--show-config"] + opt_args)
            txt = term.strip(out)
            return {o: (re.search(r"^\s*" + o + r"\s*= ?(.*)$", txt, re.M) or [None, None])[1] for o in ("minus-style", "minus-emph-style")}
        for vs in ("", "normal 88", "bold red", "normal", "syntax 17"):
            for ve in ("", "normal 89", "ul 12 52", "normal"):
                for theme in ([], ["--light"]):
                    given = theme + (["--minus-style", vs] if vs else []) + (["--minus-emph-style", ve] if ve else [])
                    off, on = show(given), show(given + ["--side-by-side"])
                    for o in ("minus-style", "minus-emph-style"):
                        ns += 1
                        if off[o] is None or on[o] is None:
                            smism += 1
                            continue
                        unq = lambda x: x[1:-1] if len(x) >= 2 and x[0] == x[-1] == "'" else x
                        m = vm.ask("sbs_adjust", "1", "1" if vs else "0", "1" if ve else "0", o, vlib.hexs(unq(off[o])))
                        want = bytes.fromhex(m.split("\t")[1]).decode() if m.startswith("OK") else None
                        if want != unq(on[o]):
                            smism += 1
                            if smism <= 3:
                                vlib.log(f"[C13] side-by-side adjustment: {given} {o}: off {off[o]!r} on {on[o]!r} model {want!r}")
    chk.oblige("correspondence:side-by-side-style-adjustment", smism == 0, f"{smism} of {ns} reported values differ from the model's adjustment")
    chk.oblige("correspondence:show-config", mism == 0, f"{mism} of {len(cases)} placements resolve differently in model and implementation")
    chk.extra["traces_validated_against_impl"] = len(cases) - mism
    chk.extra["translator"] = tinfo.get("features", {})
    vm.close()
    return chk.finish()
