#!/usr/bin/env python3
"""writes MANIFEST.json from the table below (kept in one place so it stays valid)."""
import json, os
VERIF = os.path.dirname(os.path.dirname(os.path.abspath(__file__)))

CLAIMS = {
 "C01": dict(
  technique="Coq proof (invariants + induction over the line state machine model: append-only history, per-hunk once-in-order, end-to-end placement) + black-box correspondence of rendered rows + token oracle",
  text="Machine-checked proofs over the line state machine model (Delta.v): from any state a hunk's header and body lines extend the rendered history by exactly one item each, in input order, with only the marker column removed and tabs expanded (C01_hunk_once_in_order); the history is append-only along every execution of the unified view under one decidable side condition that every generated git diff satisfies (C01_history_append_only), hence each hunk appears once, contiguously, in the final output (C01_hunk_in_final_output). The hand-written model is tied to the code by running generated git diffs of every section kind x options through the real binary and comparing visible rows with the rendering of the extracted model's items; a model-free token oracle (each body line exactly once, in order, inside its file's section, text intact) is evaluated on the binary's output.",
  note="Trusted: Coq kernel; correspondence harness, item renderer (tools/gdiff.py) and terminal decoder; model scope = git two-way diffs with non-raw header styles (combined diffs / conflict regions / plain diff -u: black-box oracle only, see DESIGN). No axioms.",
  design="§6 C01"),
 "C02": dict(
  technique="Coq proof (row-accounting invariant over the state machine model with color_only: one row per input line for every input under a decidable side condition) + black-box line-count / per-line text oracle over option sets",
  text="Machine-checked proof over the line state machine model with color_only = true: for every input (arbitrary lines) each step adds exactly one row (rendered, buffered or pending hunk header) and the final output has exactly as many rows as the input has lines, provided a hunk-header line is not directly followed by a line that ends the hunk before it began (C02_line_for_line, C02_one_row_per_line; the side condition is decidable and evaluated on the generated inputs). On the real binary: output line count = input line count for every generated diff/log (plain or coloured like color.ui=always) x 26 option sets containing --color-only (side-by-side, line numbers, decorations and decoration keywords inside style strings, omit styles, navigate, emulation presets, hyperlinks), and per-line visible text equality whenever no implied preset is explicitly overridden; the model's rendering is compared with the binary's rows.",
  note="Trusted: Coq kernel; harness; model scope as for C01. The per-line text clause is decided on the implementation by the oracle. No axioms.",
  design="§6 C02"),
 "C04": dict(
  technique="Coq proof (outside a diff a marker-free line is claimed by no handler; a block of such lines extends the history by exactly those lines, in order) + raw-byte pass-through oracle",
  text="Machine-checked proofs over the line state machine model, for every configuration: outside a diff (before the first construct or in commit metadata) a line that begins with none of the construct-opening markers is emitted unchanged and leaves the machine where it is (C04_passthrough_line); a block of such lines extends the rendered history by exactly those lines, in order (C04_passthrough_block). On the real binary raw bytes are compared (no terminal decoding): pure text streams with embedded SGR sequences, CR variants, tabs and Unicode come out byte-identical up to the three permitted normalisations; text before diffs and commit messages between commits appear unchanged, whole-line and in order, under 18 option sets.",
  note="Trusted: Coq kernel; harness; the model does not distinguish raw from stripped lines (the byte-level claim, incl. colours, is decided on the implementation); blame-like, JSON-like and grep-like lines are construct openers and excluded from the generated text. No axioms.",
  design="§6 C04"),
 "C05": dict(
  technique="Coq proof (counter semantics of the unified painting order and of the side-by-side row loop with its correction, for every row sequence) + gutter correspondence and model-free number oracle on the binary",
  text="Machine-checked proofs over the model of linenumbers_and_styles / paint_line's increment flag / the side-by-side row loop: in the unified view the k-th painted line shows old start + (removed and unchanged lines before it) and/or new start + (added and unchanged lines before it), nothing on continuation rows (C05_unified); in side-by-side view, for every sequence of rows — any pairing, any wrap counts, placeholders painted in the opposite state, the left-counter correction at the end of the loop body — each line's true number is shown on the first row of that line on its own side, nothing on continuation rows and placeholder halves, and the counters end at start + lines per side (C05_side_by_side). Tie: gutters decoded from the binary's rows (sentinel number formats) equal the extracted model run on each hunk's painting order; model-free oracle: every removed / added / unchanged line's row carries the numbers computed from the hunk header and the lines before it, in both views, with wrapping, starts up to 2*10^7, omitted counts, five number formats including formats that put {nm} and {np} in one field or swap them.",
  note="Trusted: Coq kernel; harness (gutter regexes, token placement); the side-by-side row structure is read from the output by the oracle (the model's row loop is proved for every row sequence); the hunk-header position/path clause is decided by C14's header oracle. No axioms.",
  design="§6 C05"),
 "C06": dict(
  technique="Coq proof (tokens partition the line; row-by-row table = recursive specification; read-back is a valid edit script given the common first token; kept tokens are common) + exhaustive white-box correspondence of tokenize / Alignment::operations + clause oracle on infer_edits",
  text="Machine-checked proofs: the tokens of a line concatenate to the line and begin with the empty token (C06_tokenize_partition); the table the code fills row by row equals, cell by cell, the recursive specification of the gap-open distance with candidate order Insertion/Deletion/NoOp and first-minimum tie-breaking (C06_table_is_specification); for all token lists with a common first token the operations read back — with the code's stop rule 'parent index 0' — are a valid edit script (C06_operations_valid), so deleting the tokens marked deleted from the old line and those marked inserted from the new line leaves the same tokens (C06_emphasis_sound). Tie: tokenize and Alignment::operations through the hook driver equal the extracted model on all pairs of token sequences up to length 4/5 over {a, b, space} and on random realistic lines. Oracle on the implementation's infer_edits (model-free): sections concatenate to the line, removing emphasised sections from a pair leaves equal text, unpaired lines and identical pairs carry no emphasis, pairs never cross, threshold 1 pairs line i with line i, threshold 0 pairs only whitespace-only differences, one replaced run gives one emphasised stretch.",
  note="Trusted: Coq kernel; hook driver; \w of the regex crate = default_is_word on the generator's alphabet (checked by correspondence); annotate/infer_edits (section building, whitespace coalescing, distance thresholds) are decided on the implementation by the oracle, not by a theorem. No axioms.",
  design="§6 C06"),
 "C08": dict(
  technique="Coq proof over the escape-sequence parser table regenerated from the linked crate (plain text kept, SGR sequences invisible and state-restoring, strip(colourise t) = t) + white-box strip correspondence + bytewise coloured-vs-plain output and moved-line rendition oracle",
  text="Machine-checked proofs over a model of what ansi::strip_ansi_codes keeps, driven by the transition table of anstyle-parse that the translator dumps from the hook-enabled binary on every run (GenVte.v): valid UTF-8 text without ESC is kept byte for byte (C08_plain_text_kept), an SGR sequence contributes no text and returns the parser to the ground state (C08_sgr_invisible), hence for every text and every insertion of SGR sequences at character boundaries the stripped line is the plain text (C08_strip_colourise) — delta parses, measures, pairs and highlights the same line whether or not git coloured it. Tie: strip_ansi_codes through the hook driver equals the extracted model on coloured lines and on malformed / ignored / aborted sequences. Oracle on the binary: stdout for a diff coloured as git does with its default palette is byte-identical to stdout for the plain diff under 12 modes; changed lines in random non-default SGR renditions (moved-line colours) are shown in exactly the input's rendition, or in the style map-styles assigns.",
  note="Trusted: Coq kernel; translator D-vte (table dump hook) — a different parser crate changes GenVte.v and the finite table lemmas are re-checked; harness; the claim that the state machine reads only the stripped line (except raw styles / moved colours) is decided by the bytewise oracle. A `Binary files A and B differ` line of a name-less section is passed through verbatim with its colours (C04 semantics) and is outside the equal-output stream. No axioms.",
  design="§6 C08"),
 "C09": dict(
  technique="Coq proof (ansi_term ANSIStrings decoded by an independent SGR interpreter: every styled string shown in its style, terminal ends in the default rendition; reset-terminated lines; composition) + white-box ANSIStrings / truncate_str correspondence + terminal-state oracle at every newline of the binary's stdout",
  text="Machine-checked proofs: for every list of styled strings ansi_term's ANSIStrings output decodes, in an independently written SGR interpreter, to exactly those strings in exactly their styles and leaves the terminal in the default rendition, from the default or from any previous rendition (C09_ansistrings_balanced, C09_strings_tail_balanced); a line ending with a reset ends in the default rendition whatever precedes (background fill, C09_reset_terminated); balanced pieces compose (C09_balanced_concat). Tie: ANSIStrings through the hook driver equals the extracted model byte for byte on random multi-segment lines; truncate_str through the driver keeps every escape sequence whole with the cut at every offset. Oracle: an independent terminal model is stepped over the binary's stdout for generated diffs (incl. raw lines carrying balanced SGR / OSC 8 sequences longer than the panel or max-line-length) under 22 mode sets, on a pipe and on a pty: at every newline the rendition is the default, no OSC 8 link is open and no sequence is cut.",
  note="Trusted: Coq kernel; Python terminal model as observer; hook driver. The escape-sequence iterator (truncation, wrapping) is covered by correspondence and the oracle, its Coq model belongs to C03/C08. No axioms.",
  design="§6 C09"),
 "C10": dict(
  technique="Coq proof (section reset, output never read back: prepend commutes with every step, end-of-input mirrors the section boundary) + black-box concatenation law on all ordered pairs of section kinds + repeated-run determinism",
  text="Machine-checked proofs over the line state machine model: a `diff ` line resets every per-file field to a function of that line alone, from any state (C10_section_reset); prepending anything to the written output commutes with every step, so earlier sections cannot influence later ones through the output (C10_never_reads_output); end of input flushes exactly what the next section boundary flushes (C10_eof_mirrors_boundary). On the real binary: stdout(A++B[++C]) = stdout(A)++stdout(B)[++stdout(C)] bytewise for every ordered pair of 13 section kinds x kind of last line x same/different paths x modes (unified, side-by-side, line numbers, decorations, navigate) and random longer sequences; byte-identical output over repeated runs under gitconfigs that exercise hash-map iteration, incl. --show-config.",
  note="Trusted: Coq kernel; harness; model tie via check C01's correspondence. Hash-order dependence is detected probabilistically by repeated runs (>= 1-2^-7 per point in quick). No axioms.",
  design="§6 C10"),
 "C11": dict(
  technique="Coq proof (monotone written output for all inputs and prefixes; lag invariant of the hunk handler from any state) + held-open-stdin correspondence after every input line + lag oracle on the binary's bytes",
  text="Machine-checked proofs: what has been written after any prefix is a prefix of the output for that prefix alone and for the whole input (C11_written_is_prefix, all inputs); after any hunk body line, from any state, the output buffer is empty and each line buffer holds at most line-buffer-size+1 lines (C11_lag_bound). Tie: the real binary is fed line by line with stdin held open; after each line (quiescence = main thread blocked in read(0) with the pipe drained) the visible rows written so far are compared with the extracted model's written items, and the lag/prefix oracle is evaluated on the bytes, in unified and side-by-side mode.",
  note="Trusted: Coq kernel; /proc-based quiescence detection; harness. Merge-conflict regions are held until their end by design: known finding F12 (reported as KNOWN-FINDING). No axioms.",
  design="§6 C11"),
 "C12": dict(
  technique="Coq proof (word-level style grammar: canonical form / position-independence of attributes, colours by position, printed form round trip; ansi_term painting decoded by an independent SGR interpreter) + exhaustive white-box correspondence + --show-config round trip on the binary",
  text="Machine-checked proofs over a word-level model of parse_ansi_term_style, Display for Style and ansi_term's painting: non-colour words may stand anywhere (C12_canonical, C12_attribute_position_irrelevant), first colour = foreground and second = background (C12_two_colours), a third colour is rejected, the printed form parses back to the very same style (C12_display_roundtrip), and text painted with a style decodes in an independently written SGR interpreter to exactly that style and ends in the default rendition (C12_paint_exact, from ansi_strings_balanced). Tie: through the hook driver, Style::from_str / Display / paint are compared with the extracted model on all style strings of <= 3 tokens over a 22-token alphabet (error cases sampled), all 256 palette numbers in both slots, random #rrggbb, case/quoting variants, in 24-bit and 256-colour mode; painted bytes are also decoded by the independent Python terminal model; every style-typed option is run through the binary and the value reported by --show-config is supplied again (byte-identical rendering required).",
  note="Trusted: Coq kernel; the string-to-word lexer of the harness (lower-casing, splitting, quote trimming, colour-name table; the 24-bit->256 table and CSS names are table oracles taken from the implementation); hook driver. No axioms.",
  design="§6 C12"),
 "C13": dict(
  technique="Coq proof (precedence theorems over the model of gather_features / get_option_value, for every table of built-in features) + translator (built-in feature tables dumped from the binary, flag order and sorted iteration scanned from the source) + black-box --show-config correspondence",
  text="Machine-checked proofs over the model of option resolution: a command-line value wins (C13_cli_wins); then the main [delta] section, where a GIT_CONFIG_PARAMETERS entry overrides the file (C13_main_section_beats_features, C13_env_parameter_overrides_file); then the features scanned from the highest priority, a custom [delta \"name\"] section before the built-in default of the same name (C13_highest_priority_feature_wins, C13_custom_section_beats_builtin); then the default (C13_default_last); --no-gitconfig gives the result for the empty gitconfig (C13_no_gitconfig_ignores). Tie: the built-in feature tables are dumped from the hook-enabled binary and the order of command-line flags / the sorted flag iteration are scanned from src/options/set.rs on every run (GenFeatures.v, C13_code_structure); `delta --show-config` with a generated gitconfig (--config), args, DELTA_FEATURES (with/without '+') and GIT_CONFIG_PARAMETERS is compared with the extracted model for five probe options (string, optional string, two integers, boolean), each point repeated 3 times for determinism; an independent oracle checks the unambiguous ranks.",
  note="Trusted: Coq kernel; translator; harness (gitconfig writer, show-config parser, format_option_value mirror); clap's own parsing; fuel 40 for feature gathering in the extracted model (termination for every feature graph is argued in DESIGN, not yet a theorem). No axioms.",
  design="§6 C13"),
 "C14": dict(
  technique="Coq proof (path extraction for every path, fragment passed on unchanged, one hunk-header item per hunk from any state) + black-box header-event oracle with reserved styles",
  text="Machine-checked proofs: the path taken from `diff --git x/P y/P`, `--- x/P`, `+++ y/P` is P for every path P not ending in a tab and any mnemonic prefixes (C14_diff_line_path, C14_marker_line_path); the fragment of a hunk header is exactly the text after the closing @@ (C14_fragment_unchanged); every hunk gets exactly one hunk-header item directly before its first line, from any state (C14_one_hunk_header); a computed example covers rename+modify, mode-only, binary and deleted sections. On the real binary, header rows are recognised by reserved styles and the decoded sequence of file-header / hunk-header events must equal the sequence computed from the diff AST: all section kinds x path shapes x labels/arrow x modes, multi-commit logs ending in hunk-less sections, plain diff -u / -ru streams.",
  note="Trusted: Coq kernel; harness and terminal decoder; 'exactly one file header per section' is decided on the implementation by the oracle (the model-level statement is the computed example plus the bookkeeping lemmas), grapheme = scalar value on the generator's alphabet. No axioms.",
  design="§6 C14"),
 "C17": dict(
  technique="Coq proof (invariant relating the colour memo to the rendered rows, induction over the key sequence) + black-box correspondence of decoded background colours + extracted boolean specification as oracle",
  text="Machine-checked proof that the blame colour assignment (get_color/get_next_color) satisfies the three colour clauses for every key sequence and every palette of >= 2 distinct colours, and is total for every mixture of git-coloured and plain lines; the hand-written model is tied to the code by running generated blame streams (exhaustive small scope + random + git-coloured mixtures) through the real binary and comparing decoded background colours row by row; the extracted specb (proved equivalent to the specification) and a row-content oracle (code, line number, metadata blanking) are evaluated on the implementation's output.",
  note="Trusted: Coq kernel; black-box harness and terminal decoder (tools/term.py); palette colours distinct; row contents are decided on the implementation by the oracle, not by a theorem. No axioms.",
  design="§6 C17"),
 "C19": dict(
  technique="Coq proof over the parser table regenerated from the linked crate (OSC sequences contribute no text; the OSC 8 wrapper strips to its text) + bytewise transparency oracle and link-target oracle on the binary",
  text="Machine-checked proofs over the escape-sequence classification driven by the dumped anstyle-parse table: an OSC sequence with ST or BEL terminator contributes no text and returns the parser to the ground state (C19_osc_zero_width), so everything delta measures on the stripped line is unaffected by hyperlinks, and open ++ text ++ close strips to the text (C19_link_wrapper_transparent). On the real binary: with the OSC 8 sequences removed, the output with --hyperlinks is byte-identical to the output without, for generated diffs/logs under 10 modes (unified, side-by-side, line numbers, narrow widths, wrapping off) x 5 file-link templates x file-transformation x relative-paths; every link is opened and closed on its line; file links carry the absolute path of a file of the diff and, where the template has {line}, exactly the number displayed; commit links carry exactly the hash they wrap.",
  note="Trusted: Coq kernel; translator D-vte; harness and Python terminal decoder (link attribute of cells); working directory fixed by the harness. Grep/blame inputs are not generated by this check (their links go through the same wrapper). No axioms.",
  design="§6 C19"),
 "C20": dict(
  technique="Coq proof (invariant over all schedules of a lock-granularity transition system) + translator-regenerated shape parameters + forced-schedule correspondence on the real binary",
  text="Machine-checked proof in Coq 8.16 that the mutex/condvar protocol model never returns Pending, always reports a launched command, is deadlock-free and makes progress, for every schedule and every number of queries; the model's shape parameters are re-read from src/utils/process.rs on every run (tie lemma C20_code_shape), and every order of critical sections (publication x 1-3 queries x placement of the background thread) is forced on the hook-enabled binary and compared with the extracted model and with the property oracle.",
  note="Trusted: Coq kernel; translator patterns for process.rs; lock-granularity atomicity; OS runs started threads; ordering-point hooks (cfg dandavison_delta_verif). No axioms.",
  design="§6 C20"),
}

REASON_PENDING = "no check registered yet in this snapshot of /verif (machinery for this property is still being built; see DESIGN.md §6 for the planned proof and tie)"

def main():
    props = [json.loads(l)["id"] for l in open(os.path.join(VERIF, "properties.jsonl"))]
    checks = []
    for pid in props:
        if pid not in CLAIMS:
            continue
        c = CLAIMS[pid]
        checks.append({
            "property_id": pid,
            "quick_cmd": f"bin/check {pid} --tier quick",
            "thorough_cmd": f"bin/check {pid} --tier thorough",
            "evidence_file": f"/verif/evidence/{pid}.json",
            "replay_cmd_template": f"bin/check {pid} --replay {{path}}",
            "engine": "coq-proof+correspondence",
            "level_claimed": {"category": c.get("category", "proof"), "text": c["text"], "design_ref": c["design"]},
            "level_note": c["note"],
            "technique": c["technique"],
        })
    man = {
        "version": 1,
        "setup_cmd": "bin/setup",
        "hooks": {
            "guard": "--cfg dandavison_delta_verif",
            "enable": "cd /repo && cargo rustc --offline --bin delta --target-dir /verif/.cache/target -- --cfg dandavison_delta_verif",
            "baseline_off_cmd": "cd /repo && cargo nextest run --workspace --no-fail-fast --tool-config-file pb:/w/lib/nextest.toml --profile pb --test-threads 8 --offline || cargo test --workspace --no-fail-fast --offline",
            "source_commits": open(os.path.join(VERIF, "hooks_commits.txt")).read().split() if os.path.exists(os.path.join(VERIF, "hooks_commits.txt")) else [],
            "add_only": True,
        },
        "engines": [{"name": "coq-proof+correspondence", "path": "bin/check",
                     "serves_properties": [c["property_id"] for c in checks],
                     "kind_free_text": "Coq 8.16 theorems over executable models (coq/theories), translator (tools/translate.py) regenerating Gen*.v from /repo on every run, extracted OCaml model (ocaml/driver.ml) compared with the hook-enabled binary"}],
        "checks": checks,
        "not_applicable": [{"property_id": p, "reason": REASON_PENDING} for p in props if p not in CLAIMS],
        "notes": "All checks rebuild the hook-enabled binary from /repo's working tree, regenerate the translated Coq files, rebuild the property's proof cone (full .vo), audit assumptions, then run the correspondence and the property oracle. See DESIGN.md.",
    }
    with open(os.path.join(VERIF, "MANIFEST.json"), "w") as f:
        json.dump(man, f, indent=1)

if __name__ == "__main__":
    main()
