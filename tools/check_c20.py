"""C20 — calling-process detection under every thread schedule.

proof:   PropC20.v (all schedules, all query counts) over the protocol model, whose shape
         parameters are regenerated from src/utils/process.rs by the translator.
tie:     translator pattern T-proc + forced schedules on the real binary through the
         ordering points, compared with the extracted model on every order of critical
         sections (publish x 1..3 queries x every placement of the background thread).
oracle:  no query returns Pending; after a publication every query returns the published
         command; no order that the specification allows blocks.
"""
import json
import os
import subprocess
import sys
import tempfile
from concurrent.futures import ThreadPoolExecutor

import vlib

PID = "C20"
GOOD = "111111"
HOLD = 12  # ms


def orders(publish, n):
    """all interleavings of main's events with BG's two events (arrive before lock)"""
    main = (["p"] if publish else []) + [x for _ in range(n) for x in ("s", "e")]
    m = len(main)
    out = []
    for i in range(m + 1):
        for j in range(i, m + 1):
            ev = main[:i] + ["a"] + main[i:j] + ["l"] + main[j:]
            out.append("".join(ev))
    return out


def schedule_of(events):
    pts = []
    q = 0
    for e in events:
        if e == "a":
            pts += [f"bg:computed@{HOLD}"]
        elif e == "l":
            pts += ["bg:before_lock", f"bg:done"]
        elif e == "p":
            pts += ["pub:before_lock", "pub:done"]
        elif e == "s":
            q += 1
            pts += [f"query{q}:before_lock@{HOLD}"]
        elif e == "e":
            pts += [f"query{q}:returned"]
    return ",".join(pts)


def run_impl(publish, n, events, timeout_ms=700, subcmd="git blame file.txt"):
    """run the proc scenario under the forced schedule; returns dict(results, timeout, trace)"""
    fd, trace = tempfile.mkstemp(prefix="c20trace", dir=os.path.join(vlib.CACHE, "tmp"))
    os.close(fd)
    spec = f"proc:{n}" + (f":{subcmd}" if publish else "")
    env = {"DELTA_VERIF": spec, "DELTA_VERIF_SCHEDULE": schedule_of(events), "DELTA_VERIF_TRACE": trace,
           "DELTA_VERIF_SCHEDULE_TIMEOUT_MS": str(timeout_ms)}
    rc, out, err = vlib.run_delta([], env_extra=env, timeout=30)
    with open(trace) as f:
        tr = f.read().split("\n")
    os.unlink(trace)
    results = [l.split()[2] for l in tr if l.startswith("RESULT ")]
    timed = [l for l in tr if l.startswith("TIMEOUT ")]
    return {"rc": rc, "results": results, "timeouts": timed, "trace": [l for l in tr if l],
            "stdout": out.decode("utf-8", "replace"), "stderr": err.decode("utf-8", "replace")[-500:]}


def expected_name(v, publish_name):
    return {"K": publish_name, "G": "None", "Pending": "Pending"}[v]


def check_order(vm_answers, publish, n, ev, impl, publish_name="GitBlame"):
    """returns (corr_ok, oracle_ok, why)"""
    code_ans, good_ans = vm_answers
    why = []
    # correspondence with the model instantiated from the current code
    if code_ans == "INFEASIBLE":
        corr = bool(impl["timeouts"])
    else:
        want = [expected_name(v, publish_name) for v in code_ans.split("\t")[1].split(",") if v] if "\t" in code_ans else []
        corr = (not impl["timeouts"]) and impl["results"] == want
    if not corr:
        why.append(f"model(code)={code_ans!r} impl results={impl['results']} timeouts={impl['timeouts']}")
    # the property, evaluated on the implementation's observation
    oracle = True
    if impl["rc"] != 0:
        oracle = False
        why.append(f"exit status {impl['rc']}")
    if "Pending" in impl["results"]:
        oracle = False
        why.append("a query returned Pending")
    if publish and any(r != publish_name for r in impl["results"]):
        oracle = False
        why.append(f"published {publish_name} but a query returned {impl['results']}")
    if (not publish) and any(r != "None" for r in impl["results"]):
        oracle = False
        why.append(f"no publication, background answer is None, but a query returned {impl['results']}")
    if good_ans != "INFEASIBLE":
        if impl["timeouts"]:
            oracle = False
            why.append(f"an order the specification allows blocked: {impl['timeouts']}")
        elif len(impl["results"]) != n:
            oracle = False
            why.append(f"{n} queries, {len(impl['results'])} answers")
    return corr, oracle, "; ".join(why)


def main(tier, replay=None):
    chk = vlib.Check(PID, tier)
    os.makedirs(os.path.join(vlib.CACHE, "tmp"), exist_ok=True)
    ok, out = vlib.build_delta()
    if not ok:
        print("tree does not build with hooks enabled:\n" + out[-2000:])
        chk.oblige("build:delta-with-hooks", False, out[-2000:])
        return chk.finish()
    vlib.build_native()
    tinfo = vlib.standard_proof_obligations(chk, "PropC20", gen_names=["proc"])
    ok, out = vlib.build_vmodel()
    if not ok:
        chk.oblige("build:vmodel", False, out[-2000:])
        return chk.finish()
    vm = vlib.vmodel()
    code_params = vm.ask("proc_code_params").split("\t")[-1]
    chk.extra["code_params"] = code_params
    chk.extra["translator"] = tinfo.get("proc", {})

    if replay:
        with open(replay) as f:
            r = json.load(f)
        cases = [(r["publish"], r["n"], r["events"])]
    else:
        ns = [1, 2, 3] if tier == "quick" else [1, 2, 3, 4, 5]
        cases = [(p, n, ev) for p in (0, 1) for n in ns for ev in orders(p, n)]
    chk.rule = ("every order of critical sections: publication (0/1) x n queries x each placement of the background "
                "thread's arrival and critical section among the main thread's events, forced on the real binary by "
                "ordering points; non-trivial = the background critical section lies strictly between two main-thread events")

    def work(c):
        p, n, ev = c
        return c, run_impl(p, n, ev)

    with ThreadPoolExecutor(max_workers=12) as ex:
        results = list(ex.map(work, cases))
    mismatches = 0
    for (p, n, ev), impl in results:
        code_ans = vm.ask("proc", p, n, ev, "code")
        good_ans = vm.ask("proc", p, n, ev, GOOD)
        corr, oracle, why = check_order((code_ans, good_ans), p, n, ev, impl)
        if (not corr) and not impl["timeouts"] and code_ans != "INFEASIBLE":
            pass
        li = ev.index("l")
        nontrivial = 0 < li < len(ev) - 1
        chk.case((p, n, ev), nontrivial, {"publish": p, "queries": n, "events": ev, "schedule": schedule_of(ev),
                                         "model": code_ans, "impl_results": impl["results"],
                                         "impl_timeouts": impl["timeouts"]})
        chk.count("infeasible" if code_ans == "INFEASIBLE" else "feasible")
        if not corr:
            mismatches += 1
            if mismatches <= 3:
                vlib.log(f"[C20] correspondence mismatch {p} {n} {ev}: {why}")
        if not oracle:
            chk.violation({"property": PID, "kind": "forced-schedule", "publish": p, "n": n, "events": ev,
                           "schedule": schedule_of(ev), "why": why, "impl": impl,
                           "model_with_code_params": code_ans, "model_with_good_params": good_ans,
                           "replay_cmd": f"bin/check C20 --replay <this file>"})
    # ---- black box, the caller's side: a launched word-diff command must be what the very first query sees (it is made
    #      while the Config is built and decides, once and for all, that --side-by-side / --line-numbers are off for it)
    if not replay:
        wd = os.path.join(vlib.CACHE, "tmp", "c20-worddiff.out")
        with open(wd, "w") as f:
            f.write("diff --git a/a.txt b/a.txt\nindex 1..2 100644\n--- a/a.txt\n+++ b/a.txt\n@@ -1,2 +1,2 @@\nalpha [-beta-]{+gamma+} delta\n unchanged words here\n")
        env = {"PATH": os.path.join(vlib.CACHE, "stubs") + ":/usr/bin:/bin", "STUB_OUT_FILE": wd, "STUB_EXIT": "0"}
        for flag in ("--side-by-side", "--line-numbers"):
            for wopt in ("--color-words", "--word-diff", "--word-diff-regex=."):
                base = ["--no-gitconfig", "--paging", "never"]
                cmd = ["git", "diff", wopt, "a.txt", "b.txt"]
                r1 = vlib.run_delta(base + [flag] + cmd, env_extra=env)
                r0 = vlib.run_delta(base + cmd, env_extra=env)
                chk.case(("launched-word-diff", flag, wopt), True, None)
                chk.count("launched-word-diff")
                if r1[0] != 0 or r0[0] != 0 or not r0[1]:
                    chk.violation({"property": PID, "shape": "launched-word-diff", "why": f"delta {flag} git diff {wopt}: exit {r1[0]} / {r0[0]}, {len(r0[1])} bytes", "stderr": r1[2][-300:].decode("utf-8", "replace")})
                elif r1[1] != r0[1]:
                    chk.violation({"property": PID, "shape": "launched-word-diff", "publish": True, "n": 1, "events": [],
                                   "why": f"`delta {flag} git diff {wopt} a b` renders differently from the same call without {flag}: the first query "
                                          f"(made while the configuration is built) did not see the launched command",
                                   "with_flag": r1[1][:600].decode("utf-8", "replace"), "without": r0[1][:600].decode("utf-8", "replace")})
    chk.oblige("correspondence:forced-schedules", mismatches == 0, f"{mismatches} of {len(results)} orders disagree with the model")
    chk.extra["traces_validated_against_impl"] = len(results) - mismatches
    chk.extra["exhaustive"] = True
    chk.assumptions = ["the OS scheduler eventually runs started threads",
                       "lock-granularity atomicity: code between lock() and unlock is one step",
                       "the background guess in the harness is None (fake `git verif-harness` parent)"]
    vm.close()
    return chk.finish()
