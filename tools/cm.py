#!/usr/bin/env python3
"""locked Coq build (safe while checks run): tools/cm.py [targets...]; prints the first error"""
import re, sys, os
sys.path.insert(0, os.path.dirname(os.path.abspath(__file__)))
import vlib
ok, out = vlib.coq_make(sys.argv[1:])
if ok:
    print("OK")
else:
    m = re.search(r'File "[^"]+", line \d+.*', out, re.S)
    print((m.group(0) if m else out)[-3500:][:3500])
    sys.exit(1)
