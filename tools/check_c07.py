"""C07 — side-by-side view: correct panels, fixed geometry, lossless wrapping.

proof:   PropC07.v — over the model of wrap_line (the stack machine over styled sections):
         the rows rejoin to the line's visible clusters for every width/limit/content, every
         row but the last fits the width, with unlimited wrapping nothing is cut, the loop
         terminates on every input; over the model of truncate_str: a cut panel row is
         exactly the panel width, never wider, untouched when it fits, escape sequences kept.
tie:     white-box correspondence through the hook driver: wrapping::wrap_line and
         ansi::truncate_str on generated sections/strings (wide and combining clusters,
         every small width, every limit) equal the extracted models.
oracle:  model-free, on the binary's rows in side-by-side view: no row wider than --width, the
         right panel starts at the same column (width/2) on every row, removed lines only on
         the left / added only on the right / unchanged on both sides of one row, each line once
         per side in order, similar removed/added lines share their first row, the fragments
         of a line rejoin to the line (tabs expanded), and text is cut (with the truncation
         mark) only on the last permitted row.
"""
import json
import os
import re
import sys
from concurrent.futures import ThreadPoolExecutor

import gdiff
import term
import vlib

PID = "C07"
SYM_L, SYM_R, SYM_P, SYM_T = "↵", "↴", "…", "→"
WORDS = ["foo", "bar", "x", "let", "=", "1;", "日本語", "é", "fn()", "{", "}", "a.b", "->", "\t", "本", "lorem", "ipsum_dolor", "ｗｉｄｅ"]


# ------------------------------------------------------------------ white box: wrap_line
CH = ["a", "b", "c", " ", "日", "本", "é", "́", "ｗ", "\u200b"]   # U+200B: a zero-width cluster of its own


def graphemes(s):
    out = []
    for ch in s:
        if ch == "́" and out:
            out[-1] += ch
        else:
            out.append(ch)
    return out


def gw(g):
    return sum(term.char_width(c) for c in g)


def canon_wrap_impl(rep, ids):
    rows = []
    for row in rep.split("\t")[1].split("|"):
        segs = []
        for e in row.split(","):
            if not e:
                continue
            st, h = e.split(":")
            t = bytes.fromhex(h).decode()
            if st == "99":
                if t == SYM_L:
                    segs.append("L")
                elif t == SYM_R:
                    segs.append("R")
                elif t == SYM_P:
                    segs.append("P")
                elif set(t) == {" "}:
                    if segs and segs[-1].startswith("S"):
                        segs[-1] = "S%d" % (int(segs[-1][1:]) + len(t))
                    else:
                        segs.append("S%d" % len(t))
                else:
                    segs.append("?" + t)
            else:
                segs.append("T%s:%s" % (st, ";".join(str(ids[g]) for g in graphemes(t))))
        rows.append(",".join(segs))
    return "|".join(rows)


def wrap_case(r):
    nsec = r.randint(1, 4)
    secs = []
    for k in range(nsec):
        t = "".join(r.choice(CH) for _ in range(r.randint(0, 9)))
        if t.startswith("́"):
            t = "a" + t
        secs.append((k + 1, t))
    if r.random() < 0.7:
        secs.append((nsec + 1, "\n"))
    width = r.choice([0, 1, 2, 3, 4, 5, 6, 8, 10, 15])
    ml = r.choice(["1", "2", "3", "5", "unlimited", "0"])
    return secs, width, ml


def wrap_sweep():
    """every 1-2 section line over a tiny alphabet x every width 0..6 x three limits"""
    import itertools
    out = []
    al = ["a", "日", "é"]
    for n in range(0, 5):
        for txt in itertools.product(al, repeat=n):
            for cutp in range(0, n + 1):
                secs = [(1, "".join(txt[:cutp])), (2, "".join(txt[cutp:]))]
                for w in (2, 3, 4):
                    for ml in ("0", "1", "unlimited"):
                        out.append((secs + [(3, "\n")], w, ml))
    return out


def run_wrap(vm, drv, secs, width, ml):
    ids = {}
    for st, t in secs:
        for g in graphemes(t):
            if g == "\n":
                ids[g] = 10
            elif g not in ids:
                ids[g] = 100 + len(ids)
    marg = "|".join("%d:%s" % (st, ";".join("%d,%d" % (ids[g], 0 if g == "\n" else gw(g)) for g in graphemes(t))) for st, t in secs)
    maxl = 0 if ml == "unlimited" else int(ml) + 1
    m = vm.ask("wrap_line", width, maxl, 370, marg)
    d = drv.ask("wrap_line", width, ml, ",".join("%d:%s" % (st, vlib.hexs(t)) for st, t in secs))
    dc = canon_wrap_impl(d, ids) if d.startswith("OK") else d
    mc = m.split("\t")[1] if m.startswith("OK") else m
    return mc, dc


# ------------------------------------------------------------------ white box: truncate_str
SEQS = ["\x1b[31m", "\x1b[0m", "\x1b[1;48;5;17m", "\x1b[m", "\x1b]8;;http://x/\x1b\\", "\x1b]8;;\x1b\\", "\x1b[K"]


def trunc_case(r):
    def mk(maxn):
        items = []
        for _ in range(r.randint(0, maxn)):
            if r.random() < 0.45:
                items.append(("A", r.randrange(len(SEQS))))
            else:
                t = "".join(r.choice(["a", "b", " ", "日", "é", "ｗ"]) for _ in range(r.randint(1, 5)))
                if items and items[-1][0] == "T":
                    items.append(("A", r.randrange(len(SEQS))))
                items.append(("T", t))
        return items
    items = mk(6)
    tail = r.choice([[], [("T", SYM_T)], [("A", 0), ("T", "…>"), ("A", 1)], [("T", "日")], mk(3)])
    dw = r.randint(0, 12)
    return items, tail, dw


def run_trunc(vm, drv, items, tail, dw):
    ids = {}

    def enc(its):
        parts = []
        for k, v in its:
            if k == "A":
                parts.append("A%d" % (900 + v))
            else:
                gs = graphemes(v)
                for g in gs:
                    ids.setdefault(g, 100 + len(ids))
                parts.append("T" + ";".join("%d,%d" % (ids[g], gw(g)) for g in gs))
        return "|".join(parts)

    def txt(its):
        return "".join(SEQS[v] if k == "A" else v for k, v in its)
    m = vm.ask("truncate", 1, dw, enc(items), enc(tail))
    d = drv.ask("truncate_str", vlib.hexs(txt(items)), dw, vlib.hexs(txt(tail)))
    got = vlib.unhex(d.split("\t")[1]).decode("utf-8", "replace") if d.startswith("OK") else d
    # canonical form of the implementation's string
    out = []
    pos = 0
    while pos < len(got):
        hit = None
        for i, s in enumerate(SEQS):
            if got.startswith(s, pos):
                # the longest sequence wins (\x1b[m vs \x1b[0m are distinct prefixes anyway)
                if hit is None or len(s) > len(SEQS[hit]):
                    hit = i
        if hit is not None:
            out.append("A%d" % (900 + hit))
            pos += len(SEQS[hit])
        else:
            g = got[pos]
            pos += 1
            while pos < len(got) and got[pos] == "́":
                g += got[pos]
                pos += 1
            out.append("G%d" % ids[g] if g in ids else ("G32" if g == " " else "G?" + g))
    mc = m.split("\t")[1] if m.startswith("OK") else m
    sp = ids.get(" ")
    mc = ",".join(("G%d" % sp if (e == "F" and sp is not None) else ("G32" if e == "F" else e)) for e in mc.split(",")) if mc else ""
    return mc, ",".join(out), got


# ------------------------------------------------------------------ black box: side-by-side geometry
def gen_line(r, tok, maxwords, minwords=0):
    ws = [r.choice(WORDS) for _ in range(r.randint(minwords, max(minwords, maxwords)))]
    s = tok + " " + " ".join(ws)
    return s.rstrip(" \t")


def similar(r, line, tok2):
    """a line that differs from `line` in its token and one word: infer_edits pairs them"""
    ws = line.split(" ")
    ws[0] = tok2
    if len(ws) > 2:
        i = r.randrange(1, len(ws))
        ws[i] = r.choice(["changed", "zz", "日"])
    return " ".join(ws).rstrip(" \t")


def gen_sbs_case(r, i):
    tok = gdiff.Tok()
    width = r.choice([24, 25, 30, 31, 40, 41, 47, 60, 61, 80, 99, 120, 121])
    maxwords = r.choice([3, 8, 8, 20, 40])
    nsec = r.randint(1, 2)
    secs = []
    for s in range(nsec):
        hunks = []
        for _ in range(r.randint(1, 2)):
            o = r.choice([1, r.randint(1, 99), r.randint(100, 9999), r.randint(10000, 2000000)])
            n = r.choice([1, r.randint(1, 99), r.randint(100, 9999), r.randint(10000, 2000000)])
            body = []
            pairs = []   # (token of removed, token of added) that must share a row
            for _ in range(r.randint(1, 4)):
                kind = r.choice(["ctx", "del", "add", "pair", "pair"])
                k = r.randint(1, 3)
                if kind == "ctx":
                    body += [(" ", gen_line(r, tok.next(), maxwords)) for _ in range(k)]
                elif kind == "del":
                    if body and body[-1][0] == "+":
                        body.append((" ", gen_line(r, tok.next(), 3)))
                    body += [("-", gen_line(r, tok.next(), maxwords)) for _ in range(k)]
                elif kind == "add":
                    body += [("+", gen_line(r, tok.next(), maxwords)) for _ in range(k)]
                else:
                    if body and body[-1][0] in "+-":
                        body.append((" ", gen_line(r, tok.next(), 3)))
                    olds = [gen_line(r, tok.next(), max(maxwords, 10), 8) + " w%d" % j for j in range(k)]
                    news = []
                    for ol in olds:
                        t2 = tok.next()
                        news.append(similar(r, ol, t2))
                        pairs.append((ol.split(" ")[0], t2))
                    body += [("-", x) for x in olds] + [("+", x) for x in news]
            oc = sum(1 for k_, _ in body if k_ in " -")
            nc = sum(1 for k_, _ in body if k_ in " +")
            hunks.append({"header": f"@@ -{o},{oc} +{n},{nc} @@", "old_start": o, "new_start": n, "frag": "", "body": body,
                          "no_newline": False, "pairs": pairs})
        secs.append(gdiff.make_section("mod", f"f{s}.txt", f"f{s}.txt", hunks))
    nums = r.random() < 0.8
    lf, rf = ("‹{nm:^4}›", "«{np:^4}»") if nums else ("‹›", "«»")
    extra = []
    ml = r.choice([None, "0", "1", "2", "5", "unlimited", "unlimited"])
    if ml is not None:
        extra += ["--wrap-max-lines", ml]
    if r.random() < 0.3:
        extra += ["--wrap-right-percent", r.choice(["1", "20", "50", "99"])]
    if r.random() < 0.3:
        extra += ["--line-fill-method", r.choice(["spaces", "ansi"])]
    if r.random() < 0.2:
        extra += ["--keep-plus-minus-markers"]
    if r.random() < 0.15:
        extra += ["--line-buffer-size", "1"]
    tabs = r.choice([1, 4, 8])
    return {"diff": {"pre": [], "sections": secs}, "width": width, "lf": lf, "rf": rf, "extra": extra, "tabs": tabs,
            "max_lines": {None: 3, "unlimited": None}.get(ml, None if ml in (None, "unlimited") else int(ml) + 1)}


LRX = re.compile(r"^‹(?P<n>[ \d]*)›")
RRX = re.compile(r"«(?P<n>[ \d]*)»")


def fragment(text, after_right_sym):
    """(fragment text, continues?, right-aligned-next?, truncated?) of one panel's text area"""
    t = text.rstrip(" ")
    if after_right_sym:
        s = t.lstrip(" ")
        if s.startswith(SYM_P):
            t = s[1:]
    cont = ralign = trunc = False
    if t.endswith(SYM_L):
        t, cont = t[:-1], True
    elif t.endswith(SYM_R):
        t, cont, ralign = t[:-1], True, True
    elif t.endswith(SYM_T):
        t, trunc = t[:-1], True
    return t, cont, ralign, trunc


def sbs_oracle(c, rows):
    why = []
    W = c["width"]
    keep = "--keep-plus-minus-markers" in c["extra"]
    cfg = gdiff.Cfg(tabs=c["tabs"])
    exp = {}      # token -> (kind, expected text)
    order_l, order_r = [], []
    pairs = []
    for s in c["diff"]["sections"]:
        for h in s["hunks"]:
            for k, t in h["body"]:
                tk = t.split(" ")[0]
                exp[tk] = (k, ((k if keep else "") + gdiff.expand(t, cfg)))
                if k in " -":
                    order_l.append(tk)
                if k in " +":
                    order_r.append(tk)
            pairs += h.get("pairs", [])
    panel = W // 2
    # when the text area cannot hold a token plus marker and wrap symbol, lines cannot be
    # identified: geometry clauses only
    avail = min([panel - term.text_width(m.group(0)) for m in (LRX.match(x) for x in rows) if m] +
                [(W - panel) - term.text_width(m.group(0)) for m in (RRX.search(x) for x in rows if LRX.match(x)) if m] + [99])
    geometry_only = avail < 10
    lines = {"L": [], "R": []}     # per side: list of dict(tok, first_row, frags[], truncated, nrows)
    cur = {"L": None, "R": None}
    expect_more = {"L": (False, False), "R": (False, False)}
    ncode = 0
    for ri, row in enumerate(rows):
        ml = LRX.match(row)
        if not ml:
            cur = {"L": None, "R": None}
            expect_more = {"L": (False, False), "R": (False, False)}
            continue
        ncode += 1
        i2 = row.find("«")
        mr = RRX.search(row)
        if i2 < 0 or not mr:
            why.append(f"row {ri} has no right panel: {row!r}")
            continue
        if term.text_width(row) > W:
            why.append(f"row {ri} is {term.text_width(row)} columns wide, --width is {W}: {row!r}")
        col = term.text_width(row[:i2])
        if col != panel:
            why.append(f"row {ri}: the right panel starts at column {col}, expected {panel} (= width/2): {row!r}")
        parts = {"L": (ml.group("n"), row[ml.end():i2]), "R": (mr.group("n"), row[mr.end():])}
        if geometry_only:
            continue
        for side in "LR":
            num, text = parts[side]
            more, ral = expect_more[side]
            toks = [t for t in exp if re.search(r"(?<![0-9A-Za-z])" + t + r"(?![0-9A-Za-z])", text)]
            if more and cur[side] is not None:
                f, cont, ral2, trunc = fragment(text, ral)
                if keep and not ral:
                    # the marker column of a continuation row is blank
                    if f[:1] not in (" ", ""):
                        why.append(f"row {ri}: continuation row does not leave the marker column blank: {text!r}")
                    f = f[1:]
                cur[side]["frags"].append(f)
                cur[side]["nrows"] += 1
                cur[side]["trunc"] = trunc
                expect_more[side] = (cont, ral2)
                if toks:
                    why.append(f"row {ri}: line {toks[0]} starts on a continuation row of {cur[side]['tok']} ({side})")
                continue
            if toks:
                f, cont, ral2, trunc = fragment(text, False)
                cur[side] = {"tok": toks[0], "first_row": ri, "frags": [f], "nrows": 1, "trunc": trunc}
                lines[side].append(cur[side])
                expect_more[side] = (cont, ral2)
                if len(toks) > 1:
                    why.append(f"row {ri}: two lines in one {side} panel row: {toks}")
            else:
                cur[side] = None
                expect_more[side] = (False, False)
                if text.strip(" ") not in ("",):
                    # an empty input line shows nothing; anything else is stray text
                    why.append(f"row {ri}: text {text.strip()!r} in the {side} panel belongs to no line")
    if geometry_only:
        return why, ncode, None
    # every line once per side, in order, only on its side(s)
    for side, order in (("L", order_l), ("R", order_r)):
        got = [l["tok"] for l in lines[side]]
        if got != order:
            extra = [t for t in got if t not in order]
            missing = [t for t in order if t not in got]
            if extra:
                k = exp[extra[0]][0]
                why.append(f"{'added' if k == '+' else 'removed'} line {extra[0]} appears in the {'left' if side == 'L' else 'right'} panel")
            elif missing:
                why.append(f"line {missing[0]} does not appear in the {'left' if side == 'L' else 'right'} panel")
            else:
                why.append(f"lines of the {side} panel are out of order or repeated: {got[:12]} expected {order[:12]}")
    first = {(side, l["tok"]): l["first_row"] for side in "LR" for l in lines[side]}
    for t, (k, _) in exp.items():
        if k == " " and ("L", t) in first and ("R", t) in first and first[("L", t)] != first[("R", t)]:
            why.append(f"unchanged line {t} is on row {first[('L', t)]} on the left and row {first[('R', t)]} on the right")
    for a, b in (pairs if "--line-buffer-size" not in c["extra"] else []):
        if ("L", a) in first and ("R", b) in first and first[("L", a)] != first[("R", b)]:
            why.append(f"paired lines {a} / {b} do not share a row ({first[('L', a)]} vs {first[('R', b)]})")
    # rejoin
    maxl = c["max_lines"]
    for side in "LR":
        for l in lines[side]:
            want = exp[l["tok"]][1]
            got = "".join(l["frags"])
            if l["trunc"]:
                if maxl is None:
                    # unlimited: only a cluster wider than the text area can force a cut
                    why.append(f"line {l['tok']} is cut ({SYM_T}) although wrapping is unlimited: {l['frags']}")
                elif l["nrows"] < maxl:
                    why.append(f"line {l['tok']} is cut after {l['nrows']} rows, the limit is {maxl}: {l['frags']}")
                if not want.startswith(got.rstrip(" ")):
                    why.append(f"fragments of the cut line {l['tok']} are not a prefix of it: {l['frags']} vs {want!r}")
            else:
                if got.rstrip(" ") != want.rstrip(" "):
                    why.append(f"fragments of line {l['tok']} ({side}) join to {got!r}, the line is {want!r}")
                if maxl is not None and l["nrows"] > maxl:
                    why.append(f"line {l['tok']} takes {l['nrows']} rows, the limit is {maxl}")
    return why, ncode, lines


def realign_blocks(c, lines):
    """per block of removed/added lines: (entries, wm, wp, observed rows) read from the output"""
    by = {side: {l["tok"]: l for l in lines[side]} for side in "LR"}
    out = []
    for s in c["diff"]["sections"]:
        for h in s["hunks"]:
            block = []
            for k, t in h["body"] + [(" ", "")]:
                if k in "-+":
                    block.append((k, t.split(" ")[0]))
                    continue
                if block:
                    L = [by["L"].get(tk) for kk, tk in block if kk == "-"]
                    R = [by["R"].get(tk) for kk, tk in block if kk == "+"]
                    if all(L) and all(R) and (L or R):
                        out.append((L, R))
                block = []
    res = []
    for L, R in out:
        # entries in output order; a removed and an added line starting on the same row are paired
        ents, i, j = [], 0, 0
        while i < len(L) or j < len(R):
            if i < len(L) and j < len(R) and L[i]["first_row"] == R[j]["first_row"]:
                ents.append("B"); i += 1; j += 1
            elif j >= len(R) or (i < len(L) and L[i]["first_row"] < R[j]["first_row"]):
                ents.append("L"); i += 1
            else:
                ents.append("R"); j += 1
        wm, wp = [l["nrows"] for l in L], [l["nrows"] for l in R]
        occ = {}
        for side, ls in (("L", L), ("R", R)):
            n = 0
            for l in ls:
                for r in range(l["first_row"], l["first_row"] + l["nrows"]):
                    occ.setdefault(r, {})[side] = n
                    n += 1
        obs = []
        for r in sorted(occ):
            o = occ[r]
            obs.append("B%d:%d" % (o["L"], o["R"]) if len(o) == 2 else ("L%d" % o["L"] if "L" in o else "R%d" % o["R"]))
        res.append((ents, wm, wp, obs))
    return res


def main(tier, replay=None):
    chk = vlib.Check(PID, tier)
    ok, out = vlib.build_delta()
    if not ok:
        print("tree does not build with hooks enabled:\n" + out[-2000:])
        chk.oblige("build:delta-with-hooks", False, out[-2000:])
        return chk.finish()
    vlib.build_native()
    vlib.standard_proof_obligations(chk, "PropC07")
    ok, out = vlib.build_vmodel()
    if not ok:
        chk.oblige("build:vmodel", False, out[-2000:])
        return chk.finish()
    vm = vlib.vmodel()
    drv = vlib.delta_driver()
    chk.rule = ("white box: wrap_line on 1-5 styled sections over {a,b,c,space,double-width,combining} x widths 0..15 x limits "
                "{0,1,2,3,5,unlimited} plus an exhaustive sweep of short two-section lines x widths 2..4; truncate_str on strings mixing "
                "text and SGR/OSC/EL sequences x widths 0..12 x five tails. Black box: generated two-way diffs (context/removed/added runs, "
                "similar removed/added pairs, starts 1..2*10^6 independently per side, long lines, tabs, double-width and combining "
                "characters) in side-by-side view x widths 24..121 even and odd x wrap limits x right-alignment thresholds x fill methods "
                "x markers x number gutters; non-trivial = a line that wraps or is cut")
    rp = None
    if replay:
        with open(replay) as f:
            rp = json.load(f)
    # ---- correspondence: wrap_line
    n_wrap = 1500 if tier == "quick" else 20000
    wcases = [] if rp else [wrap_case(vlib.case_rng(chk.seed, PID, ("wrap", i))) for i in range(n_wrap)]
    if not rp:
        sw = wrap_sweep()
        wcases += sw if tier == "thorough" else sw[::7]
    if rp and rp.get("shape") == "wrap_line":
        wcases = [(([tuple(x) for x in rp["secs"]]), rp["width"], rp["ml"])]
    wm = 0
    hangs = 0
    drv.timeout = 10
    for secs, width, ml in wcases:
        if hangs >= 3:
            break       # every further hang costs the time limit; three replays are enough
        mc, dc = run_wrap(vm, drv, secs, width, ml)
        if dc.startswith(("TIMEOUT", "DIED")):
            hangs += 1
        chk.case(("wrap", tuple(secs), width, ml), "|" in dc, None)
        chk.count("wrap_line:limit=" + ml)
        if mc != dc:
            wm += 1
            if wm <= 3:
                vlib.log(f"[C07] wrap_line mismatch secs={secs} width={width} limit={ml}\n  model {mc}\n  impl  {dc}")
            # is it a failing input for the property? rows rejoin / fit
            if dc.startswith("OK") or "|" in dc or dc:
                pass
            text_in = [g for st, t in secs for g in graphemes(t) if g != "\n" and gw(g) > 0]
            if dc.startswith(("TIMEOUT", "EXN", "DIED")) or dc == "":
                chk.violation({"property": PID, "shape": "wrap_line", "why": f"wrap_line does not return ({dc[:80]})",
                               "secs": secs, "width": width, "ml": ml})
    chk.oblige("correspondence:wrap_line", wm == 0, f"{wm} of {len(wcases)} wrap_line cases differ between model and implementation")
    # ---- correspondence: truncate_str
    n_tr = 1500 if tier == "quick" else 20000
    tm = 0
    tcases = [] if rp else [trunc_case(vlib.case_rng(chk.seed, PID, ("trunc", i))) for i in range(n_tr)]
    if rp and rp.get("shape") == "truncate":
        tcases = [([tuple(x) for x in rp["items"]], [tuple(x) for x in rp["tail"]], rp["dw"])]
    for items, tail, dw in tcases:
        mc, dc, got = run_trunc(vm, drv, items, tail, dw)
        full = sum(gw(g) for k, v in items if k == "T" for g in graphemes(v))
        chk.case(("trunc", tuple(items), tuple(tail), dw), full > dw, None)
        chk.count("truncate_str:" + ("cut" if full > dw else "fits"))
        # model-free: never wider than dw when cut
        w_got = term.text_width(term.strip(got)) if isinstance(got, str) else 0
        if full > dw and w_got > dw:
            chk.violation({"property": PID, "shape": "truncate", "why": f"truncate_str result is {w_got} columns wide, requested {dw}: {got!r}",
                           "items": items, "tail": tail, "dw": dw})
        if mc != dc:
            tm += 1
            if tm <= 3:
                vlib.log(f"[C07] truncate_str mismatch items={items} tail={tail} dw={dw}\n  model {mc}\n  impl  {dc}")
    chk.oblige("correspondence:truncate_str", tm == 0, f"{tm} of {len(tcases)} truncate_str cases differ between model and implementation")
    # ---- black box
    n_bb = 400 if tier == "quick" else 5000
    if rp and rp.get("shape") == "sbs":
        cases = [rp["case"]]
    elif rp:
        cases = []
    else:
        cases = [gen_sbs_case(vlib.case_rng(chk.seed, PID, ("sbs", i)), i) for i in range(n_bb)]

    def work(c):
        lines = gdiff.diff_lines(c["diff"])
        args = ["--no-gitconfig", "--paging", "never", "--syntax-theme", "none", "--width", str(c["width"]), "--side-by-side",
                "--tabs", str(c["tabs"]), "--line-numbers-left-format", c["lf"], "--line-numbers-right-format", c["rf"]] + c["extra"]
        return vlib.run_delta(args, stdin=("\n".join(lines) + "\n").encode(), timeout=30)

    with ThreadPoolExecutor(max_workers=vlib.NCPU) as ex:
        res = list(ex.map(work, cases))
    nre = rem = 0
    for c, (rc, out, err) in zip(cases, res):
        chk.count("width:%s" % ("odd" if c["width"] % 2 else "even"))
        chk.count("limit:%s" % c["max_lines"])
        if rc != 0:
            chk.case((json.dumps(c, sort_keys=True),), False, None)
            chk.violation({"property": PID, "shape": "sbs", "why": f"delta exits with {rc}: {err[-300:].decode('utf-8', 'replace')}", "case": c,
                           "input": "\n".join(gdiff.diff_lines(c["diff"]))[:3000]})
            continue
        rows = term.strip(out).split("\n")
        why, ncode, parsed = sbs_oracle(c, rows)
        if parsed and not why and "--line-buffer-size" not in c["extra"]:
            for ents, wm_, wp_, obs in realign_blocks(c, parsed):
                nre += 1
                m = vm.ask("realign", ",".join(ents), ",".join(map(str, wm_)), ",".join(map(str, wp_))).split("\t")[1]
                if m != ",".join(obs):
                    rem += 1
                    if rem <= 3:
                        vlib.log(f"[C07] realign mismatch entries={ents} wm={wm_} wp={wp_}: model {m} impl {','.join(obs)}")
        wrapped = any(SYM_L in r or SYM_T in r or SYM_R in r for r in rows)
        chk.case((json.dumps(c, sort_keys=True),), wrapped, {"width": c["width"], "extra": c["extra"], "code_rows": ncode})
        if why:
            chk.violation({"property": PID, "shape": "sbs", "why": "; ".join(why[:3]), "case": c,
                           "input": "\n".join(gdiff.diff_lines(c["diff"]))[:3000], "rows": rows[:60]})
    chk.oblige("correspondence:realign-rows", rem == 0, f"{rem} of {nre} blocks of removed/added lines are laid out over the rows differently from the model")
    chk.extra["traces_validated_against_impl"] = (len(wcases) - wm) + (len(tcases) - tm) + (nre - rem)
    chk.assumptions = ["grapheme clusters = scalar values, or a base letter plus U+0301, on the generator's alphabet; widths from the harness's "
                       "own width table (tools/term.py)",
                       "the pairing clause is evaluated on removed/added pairs that differ in the token and at most one word",
                       "syntax highlighting is off (--syntax-theme none): the syntax and diff section lists are wrapped in lock-step by the same function"]
    vm.close()
    drv.close()
    return chk.finish()
