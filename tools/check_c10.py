"""C10 — file sections render independently of their neighbours; output is deterministic.

proof:   PropC10.v — after a `diff ` line the per-file state of the model is a function of
         that line alone; the machine never reads what it has written (prepending to the
         written output commutes with every step); end of input flushes exactly what the
         next section boundary flushes.
tie:     correspondence of the same model (check C01) + this black-box law.
oracle:  stdout(A ++ B [++ C]) = stdout(A) ++ stdout(B) [++ stdout(C)] bytewise for every
         ordered pair (and sampled triples) of section kinds x kind of last line x modes;
         byte-identical output across repeated runs for option points that exercise
         hash-map iteration (gitconfig feature flags, --show-config).
"""
import itertools
import json
import os
import sys
from concurrent.futures import ThreadPoolExecutor

import gdiff
import vlib

PID = "C10"
MODES = {
    "unified": [],
    "side-by-side": ["--side-by-side"],
    "line-numbers": ["--line-numbers"],
    "decorations": ["--file-style", "yellow box", "--hunk-header-style", "file line-number syntax", "--hunk-header-decoration-style", "blue ul"],
    "navigate+markers": ["--navigate", "--keep-plus-minus-markers"],
}
LAST = ["ctx", "minus", "plus", "nonl"]


def hunk_ending(tok, last, r):
    body = [(" ", "c " + tok.next()), ("-", "old " + tok.next()), ("+", "new " + tok.next())]
    if last == "ctx":
        body.append((" ", "end " + tok.next()))
    elif last == "minus":
        body.append(("-", "gone " + tok.next()))
    elif last == "plus":
        pass
    nonl = last == "nonl"
    na = sum(1 for k, _ in body if k in " -")
    nb = sum(1 for k, _ in body if k in " +")
    # line numbers of very different widths from section to section (a gutter width that leaks from
    # one section into the next breaks the concatenation law)
    s = r.choice([r.randint(1, 5000), r.randint(1, 9), r.randint(10000, 3000000)])
    return {"header": f"@@ -{s},{na} +{s},{nb} @@ fn f{s}()", "old_start": s, "new_start": s, "frag": "", "body": body, "no_newline": nonl}


def make_sec(kind, last, tok, r, path_pool):
    p = r.choice(path_pool)
    q = r.choice([x for x in gdiff.PATHS if x != p])
    hunks = []
    if kind in ("mod", "add", "del", "renmod", "modemod"):
        hunks = [hunk_ending(tok, last, r)]
        if r.random() < 0.3:
            hunks.insert(0, hunk_ending(tok, "ctx", r))
    return gdiff.make_section(kind, p, q, hunks)


def submodule_section(r):
    return {"kind": "submodule", "old": "sub", "new": "sub", "hunks": [],
            "head": ["diff --git a/sub b/sub", "index 1111111..2222222 160000", "--- a/sub", "+++ b/sub", "@@ -1 +1 @@",
                     "-Subproject commit " + "a" * 40, "+Subproject commit " + "b" * 40]}


def gen_cases(tier, seed):
    kinds = ["mod", "add", "del", "ren", "renmod", "copy", "mode", "modemod", "bin", "bin2", "binadd", "empty", "submodule"]
    cases = []
    r = vlib.case_rng(seed, PID, "pairs")
    modes = list(MODES)
    for ka, kb in itertools.product(kinds, kinds):
        for last in (LAST if tier == "thorough" else [r.choice(LAST), "plus"]):
            for same_path in (False, True):
                ms = modes if tier == "thorough" else [r.choice(modes), "unified"]
                for m in dict.fromkeys(ms):
                    tok = gdiff.Tok()
                    pool = ["same.rs"] if same_path else gdiff.PATHS
                    a = submodule_section(r) if ka == "submodule" else make_sec(ka, last, tok, r, pool)
                    b = submodule_section(r) if kb == "submodule" else make_sec(kb, r.choice(LAST), tok, r, pool)
                    cases.append({"secs": [a, b], "mode": m, "kinds": [ka, kb], "last": last})
    ntri = 60 if tier == "quick" else 1500
    for i in range(ntri):
        rr = vlib.case_rng(seed, PID, 10000 + i)
        n = rr.randint(3, 8 if tier == "thorough" else 4)
        tok = gdiff.Tok()
        ks = [rr.choice(kinds) for _ in range(n)]
        secs = [submodule_section(rr) if k == "submodule" else make_sec(k, rr.choice(LAST), tok, rr, gdiff.PATHS) for k in ks]
        cases.append({"secs": secs, "mode": rr.choice(modes), "kinds": ks, "last": "-"})
    return cases


def run_bytes(lines, mode_args, extra=()):
    inp = ("\n".join(lines) + "\n").encode() if lines else b""
    rc, out, err = vlib.run_delta(["--no-gitconfig", "--paging", "never", "--width", "80"] + list(mode_args) + list(extra), stdin=inp)
    return rc, out, err


GITCONFIGS = [
    ("raw+diff-so-fancy", "[delta]\n  raw = true\n  diff-so-fancy = true\n"),
    ("many-flags", "[delta]\n  diff-so-fancy = true\n  diff-highlight = true\n  navigate = true\n  line-numbers = true\n"),
    ("features+flags", "[delta]\n  features = decorations\n  side-by-side = true\n  color-only = false\n  raw = false\n  diff-highlight = true\n[delta \"decorations\"]\n  file-style = bold yellow ul\n  commit-decoration-style = box\n"),
    ("styles", "[delta]\n  minus-style = purple brightblack\n  plus-style = 'syntax #003300'\n  zero-style = 8 15\n  map-styles = 'bold purple => syntax magenta, bold cyan => syntax blue'\n"),
]


def determinism_cases(tier):
    reps = 8 if tier == "quick" else 20
    tok = gdiff.Tok()
    r = vlib.case_rng(0, PID, "det")
    d = [make_sec(k, "plus", tok, r, gdiff.PATHS) for k in ("mod", "ren", "add")]
    lines = [l for s in d for l in gdiff.section_lines(s)]
    out = []
    for name, cfgtext in GITCONFIGS:
        out.append((name, cfgtext, lines, [], reps))
        out.append((name + ":show-config", cfgtext, [], ["--show-config"], reps))
    return out


def main(tier, replay=None):
    chk = vlib.Check(PID, tier)
    ok, out = vlib.build_delta()
    if not ok:
        print("tree does not build with hooks enabled:\n" + out[-2000:])
        chk.oblige("build:delta-with-hooks", False, out[-2000:])
        return chk.finish()
    vlib.build_native()
    vlib.standard_proof_obligations(chk, "PropC10")
    if replay:
        with open(replay) as f:
            r = json.load(f)
        cases = [r["case"]] if "case" in r else []
    else:
        cases = gen_cases(tier, chk.seed)
    chk.rule = ("concatenation law on every ordered pair of section kinds (13 kinds) x kind of the last line x same/different paths "
                "x modes, plus random sequences of 3-8 sections; determinism: repeated runs under gitconfigs with several "
                "feature flags; non-trivial = the first section ends in a changed line or has no hunk")

    def work(c):
        parts = [gdiff.section_lines(s) for s in c["secs"]]
        whole = [l for p in parts for l in p]
        margs = MODES[c["mode"]]
        rw = run_bytes(whole, margs)
        rp = [run_bytes(p, margs) for p in parts]
        return rw, rp

    with ThreadPoolExecutor(max_workers=vlib.NCPU) as ex:
        results = list(ex.map(work, cases))
    for c, (rw, rp) in zip(cases, results):
        first = c["secs"][0]
        nontriv = (not first["hunks"]) or first["hunks"][-1]["body"][-1][0] in "-+"
        chk.count("mode:" + c["mode"])
        chk.case((tuple(l for s in c["secs"] for l in gdiff.section_lines(s)), c["mode"]), nontriv,
                 {"kinds": c["kinds"], "mode": c["mode"], "last": c["last"]})
        if rw[0] != 0 or any(x[0] != 0 for x in rp) or not rw[1]:
            chk.violation({"property": PID, "why": f"exit status / empty output: whole rc={rw[0]} parts rc={[x[0] for x in rp]} {rw[2][-200:]!r}",
                           "case": c, "shape": "crash"})
            continue
        cat = b"".join(x[1] for x in rp)
        if rw[1] != cat:
            import term
            a = term.strip(rw[1]).split("\n")
            b = term.strip(cat).split("\n")
            firstdiff = next((i for i, (x, y) in enumerate(zip(a + [None] * 5, b + [None] * 5)) if x != y), None)
            chk.violation({"property": PID, "why": f"stdout(A++B) != stdout(A)++stdout(B) for kinds {c['kinds']} mode {c['mode']}; first differing row {firstdiff}",
                           "case": c, "whole_rows": a[max(0, (firstdiff or 0) - 3):(firstdiff or 0) + 4],
                           "concat_rows": b[max(0, (firstdiff or 0) - 3):(firstdiff or 0) + 4],
                           "input": "\n".join(l for s in c["secs"] for l in gdiff.section_lines(s)), "shape": "concat:" + "+".join(c["kinds"])})
    # determinism
    if not replay:
        cfgdir = os.path.join(vlib.CACHE, "tmp")
        os.makedirs(cfgdir, exist_ok=True)
        for name, cfgtext, lines, extra, reps in determinism_cases(tier):
            path = os.path.join(cfgdir, f"c10-{name.replace(':', '_')}.gitconfig")
            with open(path, "w") as f:
                f.write(cfgtext)
            inp = ("\n".join(lines) + "\n").encode() if lines else b""

            def once(_):
                return vlib.run_delta(["--config", path, "--paging", "never", "--width", "80"] + extra, stdin=inp)

            with ThreadPoolExecutor(max_workers=8) as ex:
                outs = list(ex.map(once, range(reps)))
            distinct = {o[1] for o in outs}
            chk.case(("det", name), True, {"determinism": name, "runs": reps, "distinct_outputs": len(distinct)})
            chk.count("determinism-runs", reps)
            if any(o[0] != 0 for o in outs):
                chk.violation({"property": PID, "why": f"exit status {[o[0] for o in outs][:3]} under gitconfig {name}", "gitconfig": cfgtext,
                               "shape": "crash"})
            elif len(distinct) > 1:
                import term
                texts = sorted(term.strip(x) for x in distinct)
                a, b = texts[0].split("\n"), texts[1].split("\n")
                diffrows = [(x, y) for x, y in zip(a, b) if x != y][:3]
                chk.violation({"property": PID, "why": f"{len(distinct)} different outputs in {reps} runs under gitconfig '{name}' {extra}",
                               "gitconfig": cfgtext, "args": extra, "differing_rows": diffrows, "shape": "nondeterministic:" + name})
    chk.assumptions = ["hash-order dependence shows up within the repeated runs with probability >= 1 - 2^-(runs-1) when two outcomes are equally likely"]
    return chk.finish()
