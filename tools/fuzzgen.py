"""Input streams for the crash-freedom check: well-formed output of git/diff/grep/blame/rg,
structured mutations of it, and arbitrary bytes; plus the option sets they are crossed with."""
import json

import gdiff

ESC = b"\x1b"


def base_streams(r):
    """list of (name, bytes)"""
    out = []
    d = gdiff.gen_diff(r, nsec=r.randint(1, 4))
    out.append(("git-diff", ("\n".join(gdiff.diff_lines(d)) + "\n").encode()))
    # combined diff / merge conflict
    out.append(("combined", (
        "commit 1111111111111111111111111111111111111111\nMerge: aaaaaaa bbbbbbb\nAuthor: A <a@b>\n\n    merge\n\n"
        "diff --cc f.rs\nindex 111,222..333\n--- a/f.rs\n+++ b/f.rs\n@@@ -1,3 -1,3 +1,4 @@@ fn x\n  ctx\n- old1\n -old2\n++new both\n +日本 one\n+ é other\n").encode()))
    out.append(("conflict", (
        "diff --cc f.rs\nindex 111,222..000\n--- a/f.rs\n+++ b/f.rs\n@@@ -1,5 -1,5 +1,11 @@@\n  a\n++<<<<<<< HEAD\n +ours 日\n++||||||| base\n++base\n++=======\n+ theirs\n++>>>>>>> br\n  b\n").encode()))
    out.append(("diff-u", (
        "diff -u a/x.txt b/x.txt\n--- a/x.txt\t2020-01-01 00:00:00.000000000 +0000\n+++ b/x.txt\t2020-01-02 00:00:00.000000000 +0000\n@@ -1,2 +1,2 @@\n-one\n+two\n ctx\n"
        "Only in a: gone.txt\nBinary files a/p.png and b/p.png differ\n").encode()))
    out.append(("log-stat", (
        "commit 2222222222222222222222222222222222222222 (HEAD -> main, tag: v1)\nAuthor: A <a@b>\nDate:   Mon\n\n    subject\n\n"
        " src/a.rs | 10 +++++-----\n b/日本.md | 2 +-\n 2 files changed, 6 insertions(+), 6 deletions(-)\n\n"
        "diff --git a/src/a.rs b/src/a.rs\nindex 1..2 100644\n--- a/src/a.rs\n+++ b/src/a.rs\n@@ -10,2 +10,2 @@ fn main() {\n-    let a = 1;\n+    let a = 2;\n }\n").encode()))
    out.append(("blame", (
        "a1b2c3d4 (Alice Doe    2020-01-01 10:00:00 +0000  1) fn main() {\n"
        "a1b2c3d4 (Alice Doe    2020-01-01 10:00:00 +0000  2)     日本語\n"
        "^e5f6a7b (Bob 日本     2021-02-03 11:00:00 +0100  3) }\n"
        "00000000 (Not Committed Yet 2022-01-01 00:00:00 +0000 4) x\n").encode()))
    out.append(("grep", (
        "src/a.rs:12:    let x = foo(bar);\nsrc/a.rs-13-    context\nsrc/a.rs=10=fn main() {\n--\nb-c/d.e.txt:7:日本 match\nMakefile:3:\tall: x\n").encode()))
    out.append(("grep-colour", (
        "\x1b[35msrc/a.rs\x1b[m\x1b[36m:\x1b[m\x1b[32m12\x1b[m\x1b[36m:\x1b[m    let \x1b[1;31mx\x1b[m = 1;\n"
        "\x1b[35msrc/a.rs\x1b[m\x1b[36m-\x1b[m\x1b[32m13\x1b[m\x1b[36m-\x1b[m ctx\n").encode()))
    rg = []
    rg.append({"type": "begin", "data": {"path": {"text": "src/a.rs"}}})
    rg.append({"type": "context", "data": {"path": {"text": "src/a.rs"}, "lines": {"text": "fn a() {\n"}, "line_number": 4, "absolute_offset": 10, "submatches": []}})
    rg.append({"type": "match", "data": {"path": {"text": "src/a.rs"}, "lines": {"text": "\tlet 日本 = foo(x);\n"}, "line_number": 5, "absolute_offset": 20,
                                         "submatches": [{"match": {"text": "foo"}, "start": 14, "end": 17}]}})
    rg.append({"type": "end", "data": {"path": {"text": "src/a.rs"}, "binary_offset": None, "stats": {}}})
    rg.append({"type": "summary", "data": {"elapsed_total": {"human": "0.1s", "nanos": 1, "secs": 0}, "stats": {}}})
    out.append(("rg-json", ("\n".join(json.dumps(x, ensure_ascii=False) for x in rg) + "\n").encode()))
    out.append(("diff-stat-moved", (
        "diff --git a/a b/a\nindex 1..2 100644\n--- a/a\n+++ b/a\n@@ -1,3 +1,3 @@\n"
        "\x1b[1;35m-moved away\x1b[m\n\x1b[31m-gone\x1b[m\n\x1b[1;36m+\x1b[m\x1b[1;36mmoved here\x1b[m\n\x1b[32m+\x1b[m\x1b[32mnew\x1b[m\n ctx\n").encode()))
    out.append(("submodule", (
        "diff --git a/sub b/sub\nindex 1111111..2222222 160000\n--- a/sub\n+++ b/sub\n@@ -1 +1 @@\n-Subproject commit 1111111111111111111111111111111111111111\n+Subproject commit 2222222222222222222222222222222222222222\n"
        "Submodule sub 1111111..2222222:\n  > a commit\n  < another\nSubmodule x contains modified content\n").encode()))
    return out


HOSTILE_LINES = [
    b"@@ foo @@", b"@@ -1 +1 @@", b"@@ -0,0 +1 @@", b"@@ -99999999999999999999999,1 +1,1 @@", b"@@ -1,99999999999999999999999 +1 @@ x",
    b"@@ -18446744073709551615,2 +18446744073709551615,2 @@", b"@@@ -1 -1 +1 @@@", b"@@@@ -1 -1 -1 +1 @@@@", b"@@ -1 +1 @@ \x1b[31mfrag", b"@@ -,1 +, @@",
    b"diff --git ", b"diff --git a", b"diff --git a/x", b"diff --git a/x b/", b"diff --git \"a/q\\\"x\" \"b/q\\\"x\"", b"diff --cc ", b"diff --combined x", b"diff -u", b"diff ",
    b"--- ", b"+++ ", b"--- a/", b"+++ b/\t", b"--- /dev/null", b"+++ /dev/null", b"rename from ", b"rename to ", b"copy from", b"similarity index 100%",
    b"old mode 100644", b"new mode 100755", b"new file mode 100644", b"deleted file mode", b"index 000..111", b"Binary files  and  differ", b"Binary files a/x and b/x differ",
    b"commit ", b"commit deadbeef", b"commit " + b"a" * 40, b"Merge: ", b"Author:", b"Date:", b"\\ No newline at end of file", b"\\", b"-- ", b"++ ", b"-", b"+", b" ",
    b"<<<<<<< x", b"=======", b">>>>>>> y", b"||||||| z", b"++<<<<<<< HEAD", b"++=======", b"++>>>>>>> b", b"++||||||| b",
    b"\x1b[31m-\x1b[m\x1b[31mold\x1b[m", b"\x1b[", b"\x1b", b"\x1b[ !p \xc3\xa9\xe6\x97\xa5 \x1b[0m", b"\x1b[\x18\xe6\x97\xa5\x1b[0m", b"\x1b]8;;http://x\x1b\\link\x1b]8;;\x1b\\",
    b"\x1b]8;;", b"\x1bP q\x1b\\", b"\x9b31m", b"\xff\xfe", b"\xe6\x97", b"\xed\xa0\x80", b"\x00", b"a\x00b", b"\r", b"a\rb", b"x\r", b"\t", b"\t\t\xe6\x97\xa5",
    b"a1b2c3d4 (A 2020-01-01 10:00:00 +0000 1) x", b"a1b2c3d4 (\xe6\x97\xa5\xe6\x9c\xac 2020-01-01 10:00:00 +0000 1) ", b"^a1b2c3d (", b"a1b2c3d4 path/x (A 2020-01-01 1) y",
    b"f.rs:1:x", b"f.rs-1-x", b"f.rs=1=x", b"--", b"f.rs:", b":1:", b"a:b:c:1:2:3", b"x.y-1-2-3.z:4:5",
    b'{"type":"match","data":{"path":{"text":"a"},"lines":{"text":"xy\\n"},"line_number":1,"absolute_offset":0,"submatches":[{"match":{"text":"y"},"start":5,"end":2}]}}',
    b'{"type":"match","data":{"path":{"text":"a"},"lines":{"text":"\xe6\x97\xa5\\n"},"line_number":1,"absolute_offset":0,"submatches":[{"match":{"text":"y"},"start":1,"end":2}]}}',
    b'{"type":"match","data":{"path":{"bytes":"/w=="},"lines":{"bytes":"/w=="},"line_number":null,"absolute_offset":0,"submatches":[]}}',
    b'{"type":"match"}', b'{"type":"begin","data":{}}', b"{", b"{}", b'{"type":"match","data":{"path":{"text":"a"},"lines":{"text":"x"},"line_number":18446744073709551615,"absolute_offset":0,"submatches":[{"match":{"text":"x"},"start":0,"end":18446744073709551615}]}}',
    b"Submodule x 1..2:", b"Submodule ", b"Only in ", b" x | 1 +", b" | ", b" 1 file changed", b" a => b | 2 +-", b" {a => b}/c | Bin 0 -> 1 bytes",
    b" " + b"c" * 300, b"-" + b"c" * 300, b"+" + "日".encode() * 200, b" \t" * 100,
    "日本語".encode() * 200, b"x" * 5000, b"+" + "ｗｉｄｅ".encode() * 300, b" " * 3000, b"-" + b"ab " * 1500, b"+" + b"\xcc\x81" * 400,
]


HOSTILE_PATHS = [b'"', b'""', b'"a', b'a"', b"", b" ", b"\t", b"a/", b"b/", b"/", b'"\\"', b'"a/\\', b"a/x\t", b'"a/x y"\t2020', b"/dev/null", b"a/\xff",
                 "a/日本".encode(), b'"a/\\346\\227\\245"', b"a/" + b"p" * 300]


def mutate(r, data):
    lines = data.split(b"\n")
    n = r.randint(1, 4)
    for _ in range(n):
        if not lines:
            lines = [b""]
        i = r.randrange(len(lines))
        op = r.randrange(13)
        if op == 0:
            del lines[i]
        elif op == 1:
            lines.insert(i, lines[i])
        elif op == 2:
            j = r.randrange(len(lines))
            lines[i], lines[j] = lines[j], lines[i]
        elif op == 3:
            lines[i] = lines[i][:r.randint(0, max(0, len(lines[i])))]
        elif op == 4:
            lines.insert(i, r.choice(HOSTILE_LINES))
        elif op == 5:
            lines[i] = r.choice(HOSTILE_LINES)
        elif op == 6 and lines[i]:
            k = r.randrange(len(lines[i]))
            lines[i] = lines[i][:k] + bytes([r.randrange(256)]) + lines[i][k + 1:]
        elif op == 7:
            k = r.randint(0, len(lines[i]))
            lines[i] = lines[i][:k] + r.choice([b"\x1b[31m", b"\x1b[0m", b"\x1b", b"\xff", b"\xe6", b"\t", b"\r", b"\x00", "日".encode(), b"\xcc\x81", b"99999999999999999999"]) + lines[i][k:]
        elif op == 8:
            # replace a number by an enormous / zero one
            import re
            nums = list(re.finditer(rb"\d+", lines[i]))
            if nums:
                m = r.choice(nums)
                lines[i] = lines[i][:m.start()] + r.choice([b"0", b"18446744073709551615", b"18446744073709551616", b"4294967296", b"99999999999999999999999999"]) + lines[i][m.end():]
        elif op == 12:
            # a hostile path in a header line: a lone quote, empty, unbalanced quotes, a bare prefix, a tab ...
            heads = [j for j, l in enumerate(lines) if l.startswith((b"--- ", b"+++ ", b"diff --git ", b"rename ", b"copy ", b"Binary files ", b"diff --cc "))]
            if heads:
                j = r.choice(heads)
                hp = r.choice(HOSTILE_PATHS)
                l = lines[j]
                if l.startswith(b"diff --git "):
                    lines[j] = b"diff --git " + hp + b" " + r.choice([hp, r.choice(HOSTILE_PATHS)])
                elif l.startswith(b"Binary files "):
                    lines[j] = b"Binary files " + hp + b" and " + r.choice(HOSTILE_PATHS) + b" differ"
                else:
                    lines[j] = l[:l.index(b" ") + 1] + (l.split(b" ")[1] + b" " if l.startswith((b"rename ", b"copy ")) else b"") + hp
        elif op == 9:
            lines = lines[:i]     # truncated stream
        elif op == 10:
            lines[i] = lines[i] + lines[i] * r.randint(1, 40)
        else:
            lines[i] = b"+" + lines[i] if r.random() < 0.5 else b"-" + lines[i]
    out = b"\n".join(lines)
    if r.random() < 0.8 and not out.endswith(b"\n"):
        out += b"\n"
    return out


def random_bytes(r):
    n = r.choice([0, 1, 2, 10, 100, 2000])
    al = r.choice([bytes(range(256)), b"@-+ \n\x1b[m;0123456789:=", b"\n@ -+,0123456789", b"diff --git ab/\n-+@ "])
    return bytes(r.choice(al) for _ in range(n))


OPTION_SETS = [
    [], ["--side-by-side"], ["--side-by-side", "--width", "1"], ["--side-by-side", "--width", "7"], ["--side-by-side", "--width", "14", "--wrap-max-lines", "unlimited"],
    ["--side-by-side", "--width", "16", "--wrap-max-lines", "unlimited"], ["--side-by-side", "--width", "21", "--wrap-max-lines", "0"],
    ["--side-by-side", "--width", "40", "--line-fill-method", "spaces"], ["--side-by-side", "--width", "33", "--line-numbers-left-format", "", "--line-numbers-right-format", ""],
    ["--line-numbers"], ["--line-numbers", "--width", "3"], ["--line-numbers", "--line-numbers-left-format", "{nm:^100}", "--width", "20"],
    ["--color-only"], ["--color-only", "--side-by-side"], ["--navigate"], ["--diff-so-fancy"], ["--diff-highlight"], ["--hyperlinks"], ["--raw"],
    ["--width", "1"], ["--width", "0"], ["--width", "variable"], ["--max-line-length", "0"], ["--max-line-length", "1"], ["--max-line-length", "7", "--side-by-side", "--width", "30"],
    ["--tabs", "0"], ["--tabs", "1"], ["--line-buffer-size", "0"], ["--line-buffer-size", "1"], ["--max-line-distance", "0"], ["--max-line-distance", "1"],
    ["--word-diff-regex", "."], ["--word-diff-regex", ""], ["--word-diff-regex", "\\s+"], ["--true-color", "always"], ["--true-color", "never", "--light"],
    ["--relative-paths"], ["--keep-plus-minus-markers"], ["--keep-plus-minus-markers", "--side-by-side", "--width", "12"],
    ["--commit-decoration-style", "box ul", "--file-decoration-style", "box ul", "--width", "variable"],
    ["--commit-decoration-style", "blue box ul", "--file-decoration-style", "box ul ol", "--hunk-header-decoration-style", "box ul", "--width", "9"],
    ["--hunk-header-style", "raw"], ["--hunk-header-style", "omit"], ["--hunk-header-style", "file line-number syntax", "--hunk-header-decoration-style", "box ul"],
    ["--file-style", "raw"], ["--file-style", "omit"], ["--commit-style", "raw"], ["--inspect-raw-lines", "false"], ["--grep-output-type", "classic"],
    ["--grep-output-type", "ripgrep", "--hyperlinks"], ["--zero-style", "normal 17", "--width", "20"], ["--zero-style", "syntax 17", "--width", "10", "--line-fill-method", "spaces"],
    ["--minus-style", "raw", "--plus-style", "raw"], ["--minus-emph-style", "omit"], ["--syntax-theme", "none"], ["--default-language", "rs"], ["--default-language", "nonexistent"],
    ["--file-modified-label", "", "--file-added-label", "", "--file-renamed-label", "", "--right-arrow", ""], ["--hunk-label", "日本"],
    ["--blame-format", "{author:<5} {commit:>3} {timestamp:^9}"], ["--blame-format", "{author:<0}"], ["--blame-timestamp-output-format", "%Y"], ["--blame-separator-format", "{n:^4}"],
    ["--blame-separator-format", "{n:^4_every-0}"], ["--blame-separator-format", "│{n:^4_every-3}│"], ["--blame-separator-format", "{n:every-0}"],
    ["--blame-separator-format", "{n:_block}"], ["--blame-code-style", "syntax"], ["--file-transformation", "s/a/b/"], ["--line-numbers-minus-style", "omit"], ["--line-numbers", "--line-numbers-left-format", "{nm:~>4}{np:_<4}"],
    ["--merge-conflict-begin-symbol", "日", "--merge-conflict-end-symbol", ""], ["--inline-hint-style", "red"], ["--wrap-left-symbol", "日", "--side-by-side", "--width", "20"],
    ["--wrap-right-percent", "99", "--side-by-side", "--width", "24"], ["--paging", "never", "--no-gitconfig"], ["--features", "nonexistent"], ["--diff-stat-align-width", "0"],
    ["--hyperlinks", "--hyperlinks-file-link-format", "x{path}{line}"], ["--hyperlinks", "--hyperlinks-commit-link-format", "{commit}"],
    ["--navigate", "--side-by-side", "--line-numbers", "--hyperlinks", "--width", "50"],
]
