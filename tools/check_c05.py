"""C05 — displayed line numbers are the true old/new file line numbers.

proof:   PropC05.v — unified view: the k-th painted line shows old start + (removed/unchanged
         lines before it) and/or new start + (added/unchanged lines before it); side-by-side:
         for every sequence of rows the row loop with its left-counter correction shows the
         true number on the first row of each line on its own side, nothing on continuation
         rows and placeholders, and leaves the counters at start + lines per side.
tie:     black-box correspondence: gutters decoded from the binary's rows vs the extracted
         model run on the same painting order (unified) / on the row structure read from the
         output (side-by-side).
oracle:  model-free: every removed line's row carries its old-file number, every added line's
         row its new-file number, unchanged lines both (computed from the hunk header and the
         lines before it), continuation rows none — in both views, with wrapping, for several
         number formats incl. formats that mix {nm} and {np}.
"""
import json
import os
import re
import sys
from concurrent.futures import ThreadPoolExecutor

import gdiff
import term
import vlib

PID = "C05"
# (left format, right format, regex for a row -> groups nm, np), unified view
FORMATS = [
    ("‹{nm}›", "«{np}»", r"^‹(?P<nm> *\d* *)›«(?P<np> *\d* *)»"),
    ("‹{nm:>9}›", "«{np:<9}»", r"^‹(?P<nm> *\d* *)›«(?P<np> *\d* *)»"),
    ("‹{nm:^3}/{np:^3}›", "", r"^‹(?P<nm> *\d* *)/(?P<np> *\d* *)›"),
    ("‹{np:>5}~{nm:<5}›", "", r"^‹(?P<np> *\d* *)~(?P<nm> *\d* *)›"),
    ("", "«{nm}:{np}»", r"^«(?P<nm> *\d* *):(?P<np> *\d* *)»"),
]


def gen_cases(tier, seed):
    n = 160 if tier == "quick" else 2500
    cases = []
    for i in range(n):
        r = vlib.case_rng(seed, PID, i)
        # one stream in eight is plain `diff -u` output, whose removed / added lines may begin with `-- ` / `++ `
        sbs = r.random() < 0.45
        diffu = (not sbs) and r.random() < 0.22
        d = gdiff.gen_diff(r, nsec=r.randint(1, 3), log=False, **({"kind": "diffu"} if diffu else {}))
        for s in d["sections"]:
            for h in s["hunks"]:
                nb = []
                for k, t in h["body"]:
                    # the token first, so that it is on the first row of a wrapped line
                    tok = re.search(r"T\d+q", t).group(0)
                    lead = t[:3] if (diffu and t[:3] in ("-- ", "++ ")) else ""
                    rest = t[len(lead):].replace(tok, "", 1).replace("‹", "<").replace("«", "<")
                    nb.append((k, lead + tok + " " + rest.strip(" ")))
                h["body"] = nb
        if sbs and r.random() < 0.6:
            # removed / added runs of similar lines, so that side-by-side pairs them on one row
            for s_ in d["sections"]:
                for h in s_["hunks"]:
                    b = h["body"]
                    j = 0
                    while j < len(b):
                        if b[j][0] == "-":
                            k = j
                            while k < len(b) and b[k][0] == "-":
                                k += 1
                            m_ = k
                            while m_ < len(b) and b[m_][0] == "+":
                                m_ += 1
                            for a in range(min(k - j, m_ - k)):
                                tokp = b[k + a][1].split(" ")[0]
                                words = (b[j + a][1].split(" ")[1:] + ["alpha", "beta", "gamma", "delta"])[:8]
                                b[j + a] = ("-", b[j + a][1].split(" ")[0] + " " + " ".join(words))
                                b[k + a] = ("+", tokp + " " + " ".join(words[:-1] + ["omega"]))
                            j = m_
                        else:
                            j += 1
        fmt = 0 if sbs else r.randrange(len(FORMATS))
        width = r.choice([60, 90, 200]) if sbs else 200
        if sbs and r.random() < 0.5:
            # long lines so that wrapping happens
            for s in d["sections"]:
                for h in s["hunks"]:
                    h["body"] = [(k, t + (" pad" * r.randint(5, 25) if r.random() < 0.4 else "")) for k, t in h["body"]]
        cases.append({"diff": d, "sbs": sbs, "fmt": fmt, "width": width,
                      "extra": r.choice([[], [], ["--keep-plus-minus-markers"], ["--line-buffer-size", "2"], ["--wrap-max-lines", "unlimited"], ["--max-line-distance", "1.0"],
                                         ["--minus-style", "raw"], ["--plus-style", "raw"], ["--minus-style", "raw", "--plus-style", "raw"]]),
                      # removed / added lines in git's colour-moved renditions are kept raw
                      "moved_colours": r.random() < 0.25})
    # side-by-side rows that pair a removed with an added line (similar short lines, no wrapping), with plain,
    # raw-styled and colour-moved lines: the left counter must advance on every such row
    for i in range(40 if tier == "quick" else 600):
        r = vlib.case_rng(seed, PID, ("paired", i))
        tok = gdiff.Tok()
        body = []
        for _ in range(r.randint(1, 3)):
            body += [(" ", tok.next() + " ctx")] * 0 + [(" ", tok.next() + " ctx line")]
            k = r.randint(1, 4)
            olds = [tok.next() + " alpha beta gamma delta %d" % j for j in range(k)]
            news = [tok.next() + " alpha beta gamma omega %d" % j for j in range(k)]
            body += [("-", x) for x in olds] + [("+", x) for x in news]
        o, n_ = r.choice([1, 7, 98, 12345]), r.choice([1, 11, 4000])
        na = sum(1 for k_, _ in body if k_ in " -")
        nb = sum(1 for k_, _ in body if k_ in " +")
        h = {"header": f"@@ -{o},{na} +{n_},{nb} @@", "old_start": o, "new_start": n_, "frag": "", "body": body, "no_newline": False}
        d = {"pre": [], "sections": [gdiff.make_section("mod", "p.txt", "p.txt", [h])]}
        cases.append({"diff": d, "sbs": True, "fmt": 0, "width": 200,
                      "extra": r.choice([[], ["--minus-style", "raw"], ["--plus-style", "raw"], ["--minus-style", "raw", "--plus-style", "raw"], ["--max-line-distance", "1.0"]]),
                      "moved_colours": r.random() < 0.4})
    return cases


def expected_numbers(d):
    """token -> (kind, old number or None, new number or None)"""
    exp = {}
    for s in d["sections"]:
        for h in s["hunks"]:
            o, n = h["old_start"], h["new_start"]
            for k, t in h["body"]:
                tok = re.search(r"T\d+q", t).group(0)
                if k == "-":
                    exp[tok] = ("-", o, None); o += 1
                elif k == "+":
                    exp[tok] = ("+", None, n); n += 1
                else:
                    exp[tok] = (" ", o, n); o += 1; n += 1
    return exp


def main(tier, replay=None):
    chk = vlib.Check(PID, tier)
    ok, out = vlib.build_delta()
    if not ok:
        print("tree does not build with hooks enabled:\n" + out[-2000:])
        chk.oblige("build:delta-with-hooks", False, out[-2000:])
        return chk.finish()
    vlib.build_native()
    vlib.standard_proof_obligations(chk, "PropC05", gen_names=("hunkpath",))
    ok, out = vlib.build_vmodel()
    if not ok:
        chk.oblige("build:vmodel", False, out[-2000:])
        return chk.finish()
    vm = vlib.vmodel()
    cases = [c for c in [json.load(open(replay))["case"]] if "style" not in c] if replay else gen_cases(tier, chk.seed)
    chk.rule = ("generated two-way diffs (starts 1 .. 2*10^7, omitted counts, zero-length sides, 1-3 hunks per file) in unified view with five "
                "number formats (incl. both numbers in one field, swapped) and in side-by-side view at several widths with wrapping; "
                "non-trivial = a hunk with both removed and added lines")

    def work(c):
        lines = gdiff.diff_lines(c["diff"])
        if c.get("moved_colours"):
            inh = False
            out_ = []
            for l in lines:
                if l.startswith("@@"):
                    inh = True
                elif l.startswith(("diff ", "commit ")):
                    inh = False
                if inh and l[:1] == "-" and not l.startswith("--- "):
                    l = "\x1b[1;35m" + l + "\x1b[m"
                elif inh and l[:1] == "+" and not l.startswith("+++ "):
                    l = "\x1b[1;36m" + l + "\x1b[m"
                out_.append(l)
            lines = out_
        lf, rf, _ = FORMATS[c["fmt"]]
        args = ["--no-gitconfig", "--paging", "never", "--syntax-theme", "none", "--width", str(c["width"]), "--line-numbers",
                "--line-numbers-left-format", lf, "--line-numbers-right-format", rf] + c["extra"]
        if c["sbs"]:
            args.append("--side-by-side")
        return vlib.run_delta(args, stdin=("\n".join(lines) + "\n").encode())

    with ThreadPoolExecutor(max_workers=vlib.NCPU) as ex:
        res = list(ex.map(work, cases))
    mism = 0
    ncorr = 0
    for c, (rc, out, err) in zip(cases, res):
        d = c["diff"]
        nontriv = any({"-", "+"} <= {k for k, _ in h["body"]} for s in d["sections"] for h in s["hunks"])
        chk.case((tuple(gdiff.diff_lines(d)), c["sbs"], c["fmt"], c["width"], tuple(c["extra"])), nontriv,
                 {"sbs": c["sbs"], "format": FORMATS[c["fmt"]][:2], "width": c["width"], "extra": c["extra"]})
        chk.count("side-by-side" if c["sbs"] else f"unified:fmt{c['fmt']}")
        if rc != 0:
            chk.count("crashed-not-observed")
            continue
        rows = [x.rstrip() for x in term.strip(out).split("\n")]
        exp = expected_numbers(d)
        why = []
        num = lambda s: int(s.strip()) if s is not None and s.strip() else None
        if not c["sbs"]:
            rx = re.compile(FORMATS[c["fmt"]][2])
            seq = []   # gutters of body rows in order, for the model correspondence
            seen_u = set()
            for row in rows:
                m = rx.match(row)
                if not m:
                    continue
                nm, np_ = num(m.group("nm")), num(m.group("np"))
                toks = [t for t in exp if t in row]
                if not toks:
                    if nm is not None or np_ is not None:
                        seq.append((nm, np_))
                    continue
                k, o, n = exp[toks[0]]
                seen_u.add(toks[0])
                seq.append((nm, np_))
                if (nm, np_) != (o, n):
                    why.append(f"line {toks[0]} ({k!r}) shows old/new numbers {nm}/{np_}, true numbers {o}/{n}")
            missing = [t for t in exp if t not in seen_u]
            if missing:
                k, o, n = exp[missing[0]]
                why.append(f"line {missing[0]} ({k!r}, old/new number {o}/{n}) is not shown in a numbered row ({len(missing)} such lines)")
            # correspondence: per hunk, the model on the painting order
            i = 0
            for s in d["sections"]:
                for h in s["hunks"]:
                    ks = "".join({"-": "-", "+": "+", " ": "0"}[k] for k, _ in h["body"])
                    ncorr += 1
                    m = vm.ask("lineno_unified", h["old_start"], h["new_start"], ks)
                    want = [tuple(int(x) if x else None for x in e.split(",")) for e in m.split("\t")[1].split(";")] if ks else []
                    got = seq[i:i + len(ks)]
                    i += len(ks)
                    if got != want:
                        mism += 1
                        if mism <= 3:
                            vlib.log(f"[C05] unified correspondence: hunk {h['header']} kinds {ks}: model {want} impl {got}")
        else:
            lrx = re.compile(r"^‹(?P<nm> *\d* *)›")
            rrx = re.compile(r"«(?P<np> *\d* *)»")
            seen = set()
            for row in rows:
                ml = lrx.match(row)
                mr = rrx.search(row)
                if not ml or not mr:
                    continue
                nm, np_ = num(ml.group("nm")), num(mr.group("np"))
                left, right = row[ml.end():mr.start()], row[mr.end():]
                ltoks = [t for t in exp if t in left]
                rtoks = [t for t in exp if t in right]
                if not ltoks and nm is not None:
                    why.append(f"row {row[:50]!r}: a number ({nm}) on the left although no line starts there")
                if not rtoks and np_ is not None:
                    why.append(f"row {row[:50]!r}: a number ({np_}) on the right although no line starts there")
                for t in ltoks:
                    k, o, n = exp[t]
                    seen.add((t, "L"))
                    if nm != o:
                        why.append(f"line {t} ({k!r}) shows {nm} on the left, its old-file number is {o}")
                for t in rtoks:
                    k, o, n = exp[t]
                    seen.add((t, "R"))
                    if np_ != n:
                        why.append(f"line {t} ({k!r}) shows {np_} on the right, its new-file number is {n}")
            for t, (k, o, n) in exp.items():
                if o is not None and (t, "L") not in seen and c["width"] >= 200:
                    why.append(f"removed/unchanged line {t} not found in the left panel")
                if n is not None and (t, "R") not in seen and c["width"] >= 200:
                    why.append(f"added/unchanged line {t} not found in the right panel")
        if why:
            chk.violation({"property": PID, "why": "; ".join(why[:3]), "case": c, "input": "\n".join(gdiff.diff_lines(d))[:3000],
                           "rows": rows[:40]})
    # ---- the hunk-header clause: with a hunk-header style that includes them, the header of every hunk shows the path of
    #      the file the hunk belongs to (the new name; the old one for a deleted file) and the hunk's start in the new file
    hcases = []
    for i in range(60 if tier == "quick" else 1000):
        r = vlib.case_rng(chk.seed, PID, ("hunk-header", i))
        tok = gdiff.Tok()
        secs = [gdiff.gen_section(r, tok, kind=r.choice(["mod", "renmod", "renmod", "add", "del", "modemod"])) for _ in range(r.randint(1, 3))]
        hcases.append({"diff": {"pre": [], "sections": secs}, "args": r.choice([[], ["--side-by-side"], ["--line-numbers"], ["--navigate"]]),
                       "style": r.choice(["file line-number", "line-number file syntax", "file line-number bold blue"])})
    if replay:
        hcases = [c for c in [json.load(open(replay)).get("case")] if c and "style" in c]

    def work_h(c):
        return vlib.run_delta(["--no-gitconfig", "--paging", "never", "--width", "200", "--hunk-header-style", c["style"],
                               "--hunk-header-decoration-style", "none"] + c["args"], stdin=("\n".join(gdiff.diff_lines(c["diff"])) + "\n").encode())
    with ThreadPoolExecutor(max_workers=vlib.NCPU) as ex:
        hres = list(ex.map(work_h, hcases))
    for c, (rc, out, err) in zip(hcases, hres):
        chk.case(("hh", tuple(gdiff.diff_lines(c["diff"])), c["style"], tuple(c["args"])), True, {"style": c["style"], "args": c["args"]})
        chk.count("hunk-header-path")
        if rc != 0:
            chk.count("crashed-not-observed")
            continue
        rows = [x.rstrip() for x in term.strip(out).split("\n")]
        why = []
        pos = 0
        for s_ in c["diff"]["sections"]:
            path = s_["new"] if s_["new"] != "/dev/null" else s_["old"]
            for h in s_["hunks"]:
                want = f"{path}:{h['new_start']}:"
                hit = next((j for j in range(pos, len(rows)) if (rows[j][2:] if rows[j].startswith("• ") else rows[j]).startswith(want)), None)   # --navigate puts a label first
                if hit is None:
                    near = [x for x in rows[pos:] if re.match(r"^\S.*:\d+:", x)][:1]
                    why.append(f"hunk {h['header']!r} of {path!r}: no header row starting with {want!r} (next header-like row: {near})")
                    break
                pos = hit + 1
        if why:
            chk.violation({"property": PID, "why": "; ".join(why[:3]), "case": c, "shape": "hunk-header-path",
                           "input": "\n".join(gdiff.diff_lines(c["diff"]))[:3000], "rows": rows[:40]})
    chk.oblige("correspondence:unified-gutters", mism == 0, f"{mism} of {ncorr} hunks show numbers different from the model's")
    chk.extra["traces_validated_against_impl"] = ncorr - mism
    chk.assumptions = ["tokens are placed at the start or end of each line; in narrow side-by-side panels a token at the end of a long line may be "
                       "on a continuation row, where the oracle only requires that no number is shown unless a line starts there",
                       "hunk-header clause: path and new-file start are checked with hunk-header styles that include `file` and `line-number`, decoration none"]
    vm.close()
    return chk.finish()
