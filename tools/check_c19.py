"""C19 — hyperlinks are well-formed, transparent, and point at the right target.

proof:   PropC19.v — over the parser table regenerated from the linked crate: an OSC sequence
         (ESC ] payload ST/BEL, e.g. the OSC 8 opener/closer around linked text) contributes
         no text, so everything measured on the stripped line (widths, wrap points, padding,
         truncation) is the same with and without hyperlinks; the wrapper
         open ++ text ++ close strips to the text.
tie:     translator D-vte + white-box strip/measure correspondence (check C08); this check
         observes the binary.
oracle:  strip_osc8(stdout with --hyperlinks) = stdout without, bytewise, in unified and
         side-by-side mode with line numbers at many widths; every link is opened and closed
         on the same line; file links carry the absolute path of the section's file and, when
         the format has {line}, exactly the number displayed; commit links carry exactly the
         hash they wrap.
"""
import json
import os
import re
import sys
from concurrent.futures import ThreadPoolExecutor

import gdiff
import term
import vlib

PID = "C19"
MODES = [["--line-numbers"], ["--side-by-side"], ["--side-by-side", "--line-numbers", "--width", "60"], [], ["--side-by-side", "--width", "36"],
         ["--line-numbers", "--width", "30"], ["--navigate"], ["--side-by-side", "--wrap-max-lines", "0", "--width", "50"],
         ["--hunk-header-style", "file line-number syntax"], ["--keep-plus-minus-markers", "--line-numbers"],
         ["--commit-decoration-style", "box"], ["--commit-decoration-style", "bold yellow box ul"], ["--commit-style", "raw", "--commit-decoration-style", "ul"],
         ["--file-style", "raw", "--file-decoration-style", "ul"], ["--hunk-header-style", "raw"]]
FILE_FMTS = [None, "file://{path}#{line}", "vscode://file/{path}:{line}", "x-editor://open?f={path}&l={line}", "file-line://{path}:{line}"]
COMMIT_FMT = "https://example.com/repo/commit/{commit}"
TRANSFORMS = [None, None, "s,src/,SRC:,", "s/\\.rs$/.RUST/", "s/a/@/g"]


def gen_cases(tier, seed):
    n = 120 if tier == "quick" else 2000
    cases = []
    for i in range(n):
        r = vlib.case_rng(seed, PID, i)
        single = r.random() < 0.6
        d = gdiff.gen_diff(r, nsec=1 if single else r.randint(2, 3), log=r.random() < 0.5)
        # git exports GIT_PREFIX (the user's directory relative to the repository root) when it starts delta; with
        # --relative-paths the paths of headers and of diff-stat lines are rewritten relative to it
        prefix = r.choice([None, None, None, "", "src/", "dir/", "a/b/"])
        if d["pre"]:
            # the diff-stat block names the files of this diff
            names = [s_["new"] if s_["new"] != "/dev/null" else s_["old"] for s_ in d["sections"]]
            w = max(len(x) for x in names)
            stat = [" %s | %d %s" % (x.ljust(w), r.randint(1, 40), r.choice(["+", "++--", "+++++-----", "-"])) for x in names]
            d["pre"] = [l for l in d["pre"] if " | " not in l and "file changed" not in l and "files changed" not in l]
            d["pre"] += stat + [" %d files changed, 3 insertions(+), 2 deletions(-)" % len(names), ""]
        cases.append({"diff": d, "mode": r.choice(MODES), "fmt": r.choice(FILE_FMTS), "transform": r.choice(TRANSFORMS), "single": single,
                      "relative": r.random() < (0.15 if prefix is None else 0.8), "coloured": r.random() < 0.4, "seed": i, "git_prefix": prefix})
    return cases


def input_lines(c):
    lines = gdiff.diff_lines(c["diff"])
    if c.get("coloured"):
        # the input as `git log -p --color` prints it: raw styles keep these colours, with and without links
        import check_c08
        r = vlib.case_rng(0, PID, ("colour", c.get("seed", 0)))
        lines = ["\x1b[33m" + l + "\x1b[m" if l.startswith("commit ") else l for l in lines]
        col = check_c08.colourise([l for l in lines], r)
        lines = [l if l.startswith("\x1b[33mcommit ") else k for l, k in zip(lines, col)]
    return lines


def link_runs(out):
    """[(row_index, url, text)] for every maximal run of cells sharing one link"""
    runs = []
    for i, row in enumerate(term.decode(out)):
        cur, txt = None, ""
        for c in row.cells + [("", None, None, None, None)]:
            if c[4] != cur:
                if cur is not None:
                    runs.append((i, cur, txt))
                cur, txt = c[4], ""
            if c[4] is not None:
                txt += c[0]
    return runs


def main(tier, replay=None):
    chk = vlib.Check(PID, tier)
    ok, out = vlib.build_delta()
    if not ok:
        print("tree does not build with hooks enabled:\n" + out[-2000:])
        chk.oblige("build:delta-with-hooks", False, out[-2000:])
        return chk.finish()
    vlib.build_native()
    vlib.standard_proof_obligations(chk, "PropC19", gen_names=["vte", "links"])
    ok, out = vlib.build_vmodel()
    if not ok:
        chk.oblige("build:vmodel", False, out[-2000:])
        return chk.finish()
    vm = vlib.vmodel()
    url_mism = url_n = 0
    cases = [json.load(open(replay))["case"]] if replay else gen_cases(tier, chk.seed)
    chk.rule = ("generated diffs / logs x 10 modes (unified, side-by-side, line numbers, narrow widths, wrapping off) x 5 file-link "
                "templates x file-transformation x relative-paths x GIT_PREFIX (unset, empty, three sub-directories), logs with a diff-stat block naming the diff's files; non-trivial = at least one link emitted")
    cwd = vlib.empty_cwd()

    def args_of(c, links):
        a = ["--no-gitconfig", "--paging", "never"] + c["mode"]
        if c["transform"]:
            a += ["--file-transformation", c["transform"]]
        if c["relative"]:
            a += ["--relative-paths"]
        if links:
            a += ["--hyperlinks", "--hyperlinks-commit-link-format", COMMIT_FMT]
            if c["fmt"]:
                a += ["--hyperlinks-file-link-format", c["fmt"]]
        return a

    def work(c):
        inp = ("\n".join(input_lines(c)) + "\n").encode()
        env = {"GIT_PREFIX": c["git_prefix"]} if c.get("git_prefix") is not None else None
        return vlib.run_delta(args_of(c, True), stdin=inp, env_extra=env), vlib.run_delta(args_of(c, False), stdin=inp, env_extra=env)

    with ThreadPoolExecutor(max_workers=vlib.NCPU) as ex:
        res = list(ex.map(work, cases))
    for c, (a, b) in zip(cases, res):
        lines = gdiff.diff_lines(c["diff"])
        nlinks = a[1].count(b"\x1b]8;;")
        chk.case((tuple(lines), tuple(c["mode"]), c["fmt"], c["transform"], c["relative"]), nlinks > 0,
                 {"mode": c["mode"], "fmt": c["fmt"], "transform": c["transform"], "links": nlinks // 2})
        chk.count("mode:" + " ".join(c["mode"]))
        chk.count("git_prefix:" + repr(c.get("git_prefix")) + (" relative-paths" if c["relative"] else ""))
        if a[0] != 0 or b[0] != 0:
            chk.count("crashed-not-observed")
            continue
        why = []
        why_known = []
        stripped = term.strip_osc8(a[1])
        if stripped != b[1]:
            ra, rb = stripped.split(b"\n"), b[1].split(b"\n")
            k = next((i for i, (x, y) in enumerate(zip(ra + [None], rb + [None])) if x != y), None)
            why.append(f"with the OSC 8 sequences removed the output differs from the hyperlink-free output at line {k}: "
                       f"{ra[k][:120] if k is not None and k < len(ra) else None!r} vs {rb[k][:120] if k is not None and k < len(rb) else None!r}")
        for i, row in enumerate(term.decode(a[1])):
            if row.end_link is not None or not row.end_ground:
                why.append(f"row {i}: link not closed / sequence cut on its line")
                break
        # targets
        fmt = c["fmt"] or "file://{path}"
        rx = re.escape(fmt).replace(re.escape("{path}"), "(?P<path>.*?)").replace(re.escape("{line}"), "(?P<line>[0-9]*)")
        rx = re.compile("^" + rx + "$")
        secs = c["diff"]["sections"]
        valid_paths = set()
        for s in secs:
            for p in (s["old"], s["new"]):
                if p != "/dev/null":
                    valid_paths.add(os.path.normpath(os.path.join(cwd, p)))
        rows_text = [row.text() for row in term.decode(a[1])]
        for (i, url, text) in link_runs(a[1]):
            if url.startswith("https://example.com/repo/commit/"):
                h = url[len("https://example.com/repo/commit/"):]
                if h != text:
                    why.append(f"commit link {url!r} wraps {text!r}")
                continue
            m = rx.match(url)
            if not m:
                why.append(f"row {i}: link {url!r} does not instantiate the template {fmt!r}")
                continue
            path = m.group("path")
            if path not in valid_paths:
                gp = c.get("git_prefix")
                # sections without ---/+++ lines whose name is pre-filled from the diff line (mode-only sections are
                # repaired and not part of the class)
                misjoined = {os.path.normpath(os.path.join(cwd, gp, p_)) for s_ in secs if s_["kind"] in ("empty", "bin", "bin2", "binadd")
                             for p_ in (s_["old"], s_["new"]) if p_ != "/dev/null"} if gp else set()
                stat_row = " | " in rows_text[i] if i < len(rows_text) else False
                if c["relative"] and gp and not stat_row and (path in misjoined or (path == os.path.normpath(os.path.join(cwd, gp)) and any(s_["kind"] == "bin2" for s_ in secs))):
                    # known finding F38: a name taken from the `diff --git` / `Binary files` line is not made relative,
                    # yet joined to the user's directory
                    why_known.append(f"row {i}: file link path {path!r}: the repository-relative name joined to the user's directory {gp!r}")
                else:
                    why.append(f"row {i}: file link path {path!r} is not the absolute path of a file of this diff ({sorted(valid_paths)[:3]})")
            elif c["single"] and len(valid_paths) >= 1:
                pass
            if path in valid_paths:
                # correspondence with Links.v: the URL is the model's instantiation of the template for this path and the
                # number the link shows (none if it shows none)
                url_n += 1
                # the number a link shows: the link text is a number (line-number column), or `path:number` (hunk header)
                mnum = re.search(r":(\d+)$", text.strip())
                shown = text.strip() if text.strip().isdigit() else (mnum.group(1) if mnum else "-")
                rep = vm.ask("file_url", vlib.hexs(fmt), vlib.hexs(path), shown)
                if not rep.startswith("OK") or bytes.fromhex(rep.split("\t")[1]).decode("utf-8", "replace") != url:
                    url_mism += 1
                    if url_mism <= 3:
                        vlib.log(f"[C19] link target: template {fmt!r} path {path!r} shown {shown!r}: model {rep} binary {url!r}")
            if "{line}" in fmt and text.strip().isdigit():
                if m.group("line") != text.strip():
                    why.append(f"row {i}: the link of line number {text.strip()!r} points at line {m.group('line')!r}")
            elif "{line}" in fmt and re.search(r":(\d+)$", text.strip()):
                if m.group("line") != re.search(r":(\d+)$", text.strip()).group(1):
                    why.append(f"row {i}: the link around {text!r} points at line {m.group('line')!r}")
            elif "{line}" in fmt and m.group("line") != "" and not re.search(r"\d", text):
                # a link that shows no number (a path in a header or a diff-stat line) names no line
                why.append(f"row {i}: the link around {text!r} shows no line number but points at line {m.group('line')!r}")
        if why:
            chk.violation({"property": PID, "why": "; ".join(why[:3]), "case": c, "args": args_of(c, True), "input": "\n".join(lines)[:3000]})
        if why_known:
            chk.violation({"property": PID, "why": "; ".join(why_known[:3]), "case": c, "args": args_of(c, True), "input": "\n".join(lines)[:3000],
                           "finding_class": "relative-paths: name of a section without ---/+++ lines joined to the user's directory"})
    chk.oblige("correspondence:file-link-url", url_mism == 0, f"{url_mism} of {url_n} file links differ from the model's instantiation of the template")
    chk.extra["traces_validated_against_impl"] = url_n - url_mism
    vm.close()
    chk.assumptions = ["working directory of delta = an empty directory outside any repository; absolute path = cwd/path",
                       "link text/targets are read from the decoded cells' link attribute (independent terminal model)"]
    return chk.finish()
