"""C03 — delta never crashes or hangs, whatever bytes and options it is given.

proof:   PropC03.v — per component whose Rust code can panic or loop, a totality / in-range /
         termination theorem over its model: usize parsing and hunk-header coordinates
         (never an unwrap on a failed parse, never an empty coordinate list), saturating line
         counters, rg --json submatch slicing (any offsets), wrap_line termination,
         truncate_str width, blame colour assignment (no `unreachable!` arm).
tie:     correspondence on the binary: numbers shown for hunk headers with coordinates around
         2^32 / 2^63 / 2^64 equal the model's (header rejected exactly when the model says);
         highlighted spans of rg --json records with arbitrary submatch offsets equal the
         model's match sections.  (wrap_line / truncate_str / blame are tied by C07 / C17.)
oracle:  the real binary (debug build: overflow checks on) on well-formed streams of
         git/diff/grep/blame/rg, structured mutations of them and arbitrary bytes, crossed
         with ~90 accepted option sets: exit status 0, no panic message, no timeout, under a
         2 GiB address-space limit.
"""
import json
import os
import re
import resource
import subprocess
import sys
from concurrent.futures import ThreadPoolExecutor

import fuzzgen
import gdiff
import term
import vlib

PID = "C03"
MAXU = 2 ** 64 - 1
INTERESTING = [0, 1, 2, 9, 10, 99, 4095, 2 ** 31 - 1, 2 ** 31, 2 ** 32 - 1, 2 ** 32, 2 ** 53, 2 ** 63 - 1, 2 ** 63, MAXU - 2, MAXU - 1, MAXU,
               MAXU + 1, 10 ** 20, 10 ** 25, 99999999999999999999999]


def run_limited(args, stdin, timeout=20):
    """as vlib.run_delta, with an address-space limit"""
    env = vlib.clean_env()
    env["GITWRAP_ARGV"] = "\x1f".join([vlib.DELTA] + list(args))

    def lim():
        resource.setrlimit(resource.RLIMIT_AS, (2 << 30, 2 << 30))
    try:
        p = subprocess.run(["git", "verif-harness"], executable=vlib.GITWRAP, input=stdin, stdout=subprocess.PIPE, stderr=subprocess.PIPE,
                           env=env, cwd=vlib.empty_cwd(), timeout=timeout, preexec_fn=lim)
        return p.returncode, p.stdout, p.stderr
    except subprocess.TimeoutExpired as e:
        return "timeout", e.stdout or b"", e.stderr or b""


def classify(rc, err):
    if rc == 0:
        return None
    e = err.decode("utf-8", "replace")
    m = re.search(r"panicked at ([^:\n]+:\d+)", e)
    if m:
        msg = e.split("panicked at", 1)[1].split("\n")[1][:120] if "\n" in e.split("panicked at", 1)[1] else ""
        return f"panic at {m.group(1)}: {msg}"
    if rc == "timeout":
        return "no termination within the time limit"
    return f"exit status {rc}: {e.strip().splitlines()[0][:160] if e.strip() else ''}"


def gen_fuzz_case(r):
    bs = fuzzgen.base_streams(r)
    name, data = r.choice(bs)
    m = r.random()
    if m < 0.15:
        inp = data
    elif m < 0.9:
        inp = fuzzgen.mutate(r, data)
        name += "+mutated"
    else:
        inp = fuzzgen.random_bytes(r)
        name = "random-bytes"
    return name, inp


def numbers_cases(r, n):
    out = []
    for _ in range(n):
        def num():
            v = r.choice(INTERESTING) + r.choice([0, 0, 0, 1, -1, 5])
            v = max(0, v)
            s = str(v)
            if r.random() < 0.1:
                s = "0" * r.randint(1, 3) + s
            return s
        a, c = num(), num()
        b = r.choice([None, None, "1", "3", num()])
        d = r.choice([None, None, "1", "3", num()])
        k = r.randint(1, 4)
        out.append((a, b, c, d, k))
    return out


def grep_case(r):
    words = ["foo", "日本", "é", " ", "x", "(bar)", "\tz", "ｗ", "a.b"]
    # tabs only in leading position (the property's exactness clause) or none
    line = "".join(r.choice(words[:5] + words[7:]) for _ in range(r.randint(1, 8)))
    raw = line.encode()
    n = len(raw)
    subs = []
    mode = r.random()
    if mode < 0.5:
        # valid: sorted disjoint ranges on character boundaries
        bd = [i for i in range(n + 1) if i == n or (raw[i] & 0xC0) != 0x80]
        pts = sorted(r.sample(bd, min(len(bd), 2 * r.randint(0, 3))))
        subs = [(pts[i], pts[i + 1]) for i in range(0, len(pts) - 1, 2)]
    else:
        for _ in range(r.randint(1, 4)):
            subs.append((r.choice([0, 1, 2, 3, n - 1, n, n + 1, n + 7, MAXU, r.randint(0, n)]), r.choice([0, 1, 2, 3, n - 1, n, n + 1, 2 ** 40, MAXU, r.randint(0, n)])))
        subs = [(max(0, a), max(0, b)) for a, b in subs]
    return line, subs


def main(tier, replay=None):
    chk = vlib.Check(PID, tier)
    ok, out = vlib.build_delta()
    if not ok:
        print("tree does not build with hooks enabled:\n" + out[-2000:])
        chk.oblige("build:delta-with-hooks", False, out[-2000:])
        return chk.finish()
    vlib.build_native()
    vlib.standard_proof_obligations(chk, "PropC03")
    ok, out = vlib.build_vmodel()
    if not ok:
        chk.oblige("build:vmodel", False, out[-2000:])
        return chk.finish()
    vm = vlib.vmodel()
    chk.rule = ("well-formed streams (git diff of every section kind, combined diff, conflict region, diff -u, log --stat, blame, grep plain and "
                "coloured, rg --json, colour-moved, submodule) x {as is, 1-4 structured mutations (delete/duplicate/swap/truncate lines, hostile "
                "lines, byte flips, escape sequences / invalid UTF-8 / NUL / CR insertion, enormous numbers, truncation), arbitrary bytes} x ~90 "
                "option sets (every presentation mode, widths 0..7, zero limits); hunk-header coordinates around 2^32/2^63/2^64; rg --json "
                "submatch offsets (valid, reversed, overlapping, out of range, inside a character); non-trivial = mutated or hostile input")
    rp = json.load(open(replay)) if replay else None
    # ---- accepted option sets
    accepted = []
    for o in fuzzgen.OPTION_SETS:
        rc, _, err = run_limited(["--no-gitconfig", "--paging", "never"] + o, b"")
        if rc == 0:
            accepted.append(o)
        else:
            chk.count("option-set-not-accepted")
    chk.count("option-sets-accepted", len(accepted))
    # ---- correspondence A: hunk header numbers
    nm = 0
    ncases = [] if rp else numbers_cases(vlib.case_rng(chk.seed, PID, "numbers"), 150 if tier == "quick" else 1500)
    if rp and rp.get("shape") == "numbers":
        ncases = [tuple(rp["numbers"])]

    def run_numbers(c):
        a, b, cc, d, k = c
        hdr = "@@ -%s%s +%s%s @@" % (a, "," + b if b is not None else "", cc, "," + d if d is not None else "")
        inp = "diff --git a/f b/f\n--- a/f\n+++ b/f\n" + hdr + "\n" + "".join(" ctx%d\n" % i for i in range(k))
        return run_limited(["--no-gitconfig", "--paging", "never", "--syntax-theme", "none", "--line-numbers", "--line-numbers-left-format", "‹{nm}›",
                            "--line-numbers-right-format", "«{np}»"], inp.encode())
    with ThreadPoolExecutor(max_workers=vlib.NCPU) as ex:
        nres = list(ex.map(run_numbers, ncases))
    for c, (rc, out, err) in zip(ncases, nres):
        a, b, cc, d, k = c
        chk.case(("numbers", c), int(a) > 2 ** 32 or int(cc) > 2 ** 32, None)
        bad = classify(rc, err)
        if bad:
            chk.violation({"property": PID, "shape": "numbers", "why": f"hunk header -{a},{b} +{cc},{d}: {bad}", "numbers": list(c)})
            continue
        m = vm.ask("hunk_numbers", "%s%s;%s%s" % (a, "," + b if b is not None else "", cc, "," + d if d is not None else "")).split("\t")
        rows = term.strip(out).split("\n")
        shown = []
        for row in rows:
            mm = re.match(r"^‹ *(\d*) *›«? *(\d*) *»?", row)
            if mm and "ctx" in row:
                shown.append((int(mm.group(1)) if mm.group(1) else None, int(mm.group(2)) if mm.group(2) else None))
        if m[1] == "NONE":
            want = []
        else:
            want = []
            for i in range(k):
                l = int(vm.ask("bump", i, a).split("\t")[1], 2)
                rr = int(vm.ask("bump", i, cc).split("\t")[1], 2)
                want.append((l, rr))
        chk.count("numbers:" + ("rejected" if m[1] == "NONE" else "accepted"))
        if shown != want:
            nm += 1
            if nm <= 3:
                vlib.log(f"[C03] numbers mismatch {c}: model {want} impl {shown}")
    chk.oblige("correspondence:hunk-header-numbers", nm == 0, f"{nm} of {len(ncases)} hunk headers show numbers different from the model's")
    # ---- correspondence B: rg --json submatch sections
    gm = 0
    gcases = [] if rp else [grep_case(vlib.case_rng(chk.seed, PID, ("grep", i))) for i in range(200 if tier == "quick" else 2500)]
    if rp and rp.get("shape") == "submatches":
        gcases = [(rp["line"], [tuple(x) for x in rp["subs"]])]

    def run_grep(c):
        line, subs = c
        rec = {"type": "match", "data": {"path": {"text": "a.txt"}, "lines": {"text": line + "\n"}, "line_number": 7, "absolute_offset": 0,
                                         "submatches": [{"match": {"text": "x"}, "start": a, "end": b} for a, b in subs]}}
        return run_limited(["--no-gitconfig", "--paging", "never", "--syntax-theme", "none", "--tabs", "0", "--grep-match-word-style", "bold 201",
                            "--grep-match-line-style", "normal", "--grep-line-number-style", "normal", "--grep-file-style", "normal"],
                           (json.dumps(rec, ensure_ascii=False) + "\n").encode())
    with ThreadPoolExecutor(max_workers=vlib.NCPU) as ex:
        gres = list(ex.map(run_grep, gcases))
    for c, (rc, out, err) in zip(gcases, gres):
        line, subs = c
        chk.case(("grep", line, tuple(subs)), True, None)
        bad = classify(rc, err)
        if bad:
            chk.violation({"property": PID, "shape": "submatches", "why": f"rg --json record with submatches {subs} on {line!r}: {bad}",
                           "line": line, "subs": [list(x) for x in subs]})
            continue
        # offsets beyond the line are all alike for the model (unary numbers): cap them
        nb = len(line.encode())
        m = vm.ask("grep_sections", vlib.hexs(line), ";".join("%d-%d" % (min(a, nb + 50), min(b, nb + 50)) for a, b in subs)).split("\t")[1]
        want = "".join(("1" if e[0] == "M" else "0") * len(bytes.fromhex(e[2:]).decode()) for e in m.split("|")) if m and m != "PANIC" else ""
        rows = term.decode(out)
        got = None
        for row in rows:
            t = row.text()
            if t.startswith("7:"):
                cells = row.cells[2:]
                got = "".join("1" if (cl[1] == ("256", 201) or cl[1] == 201 or "201" in str(cl[1])) else "0" for cl in cells[:len(line)])
        if got != want:
            gm += 1
            if gm <= 3:
                vlib.log(f"[C03] submatch sections mismatch line={line!r} subs={subs}: model {want} impl {got}")
    chk.oblige("correspondence:rg-json-submatch-sections", gm == 0, f"{gm} of {len(gcases)} records are highlighted differently from the model")
    # ---- oracle: never crashes
    n = 2500 if tier == "quick" else 40000
    if rp and rp.get("shape") == "crash":
        cases = [(rp["name"], bytes.fromhex(rp["input_hex"]), rp["args"])]
    elif rp:
        cases = []
    else:
        cases = []
        for i in range(n):
            r = vlib.case_rng(chk.seed, PID, ("fuzz", i))
            name, inp = gen_fuzz_case(r)
            cases.append((name, inp, r.choice(accepted)))
        # every hostile line alone and inside a hunk, under a few modes
        r = vlib.case_rng(chk.seed, PID, "hostile")
        for hl in fuzzgen.HOSTILE_LINES:
            for wrap in (b"%s\n", b"diff --git a/f.rs b/f.rs\n--- a/f.rs\n+++ b/f.rs\n@@ -1,2 +1,2 @@\n ctx\n%s\n-a\n+b\n"):
                for o in ([], ["--side-by-side", "--width", "30"], ["--line-numbers", "--zero-style", "normal 17"], r.choice(accepted)):
                    cases.append(("hostile-line", wrap.replace(b"%s", hl), o))

    def work(c):
        return run_limited(["--no-gitconfig", "--paging", "never"] + c[2], c[1], timeout=30)
    with ThreadPoolExecutor(max_workers=vlib.NCPU) as ex:
        res = list(ex.map(work, cases))
    for (name, inp, opts), (rc, out, err) in zip(cases, res):
        chk.count("stream:" + name.split("+")[0])
        if "+mutated" in name:
            chk.count("mutated")
        chk.case((inp, tuple(opts)), name != "git-diff", {"stream": name, "args": opts, "bytes": len(inp)})
        bad = classify(rc, err)
        if bad:
            chk.violation({"property": PID, "shape": "crash", "why": f"{bad} (args {opts}, {name} input of {len(inp)} bytes)", "name": name,
                           "args": opts, "input_hex": inp.hex(), "input_preview": inp[:600].decode("utf-8", "replace"),
                           "stderr": err[-600:].decode("utf-8", "replace")})
    chk.extra["traces_validated_against_impl"] = (len(ncases) - nm) + (len(gcases) - gm)
    chk.assumptions = ["crash-freedom of the whole binary is decided by search (the oracle), not by a theorem: the theorems cover the listed components; "
                       "the rest of the pipeline (regex matching, syntect, the state machine's string handling) is Rust code exercised by the oracle only",
                       "debug build: arithmetic overflow and slice checks abort; runaway allocation = exceeding a 2 GiB address-space limit; hang = no exit within 30 s",
                       "option sets are those the binary accepts on empty input (rejected ones are counted, not run)"]
    vm.close()
    return chk.finish()
