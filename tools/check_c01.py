"""C01 — every hunk line is shown exactly once, in order, with its text intact.

proof:   PropC01.v over the line state machine model (Delta.v): for every state and every
         hunk, the body lines are appended to the pending/written history exactly once, in
         input order, with only the marker column removed and tabs expanded; the history is
         append-only (nothing overtakes a buffered line).
tie:     black-box correspondence: generated git diffs (all section kinds x options) through
         the real binary; ANSI-stripped rows compared with the rendering of the extracted
         model's items.
oracle:  model-free: every body line carries a unique token; in the binary's visible output
         each token occurs exactly once, in input order, after its own file's header and
         before the next file's, and the row's text is the expected text.
"""
import json
import os
import re
import sys
from concurrent.futures import ThreadPoolExecutor

import gdiff
import term
import vlib

PID = "C01"


def expected_text(k, t, cfg):
    body = gdiff.expand(t, cfg)
    if len(k) == 2:
        return k + body          # combined diff: both marker columns are always shown
    if cfg.keep:
        return k + body
    return body


SUB_RE = re.compile(r"^Subproject commit ([0-9a-f]{40})(-dirty)?$")


def short_form_hunk(h):
    """a hunk that delta renders in its submodule short form: the line directly after the hunk header is
    `-Subproject commit <40 hex>[-dirty]` (src/handlers/submodule.rs; known finding F33)"""
    k, t = h["body"][0]
    return k == "-" and SUB_RE.match(t) is not None


def line_token(t):
    m = SUB_RE.match(t)
    if m:
        return m.group(1)
    m = re.search(r"T\d+q", t)
    return m.group(0) if m else None


def expected_occurrences(d, cfg):
    """[(token, expected row text, input line)] in the order the property asks for: every hunk line once;
    in a merge-conflict region the ancestor lines once per comparison (ancestor/ours, ancestor/theirs)"""
    occ = []
    for sec in d["sections"]:
        for h in sec["hunks"]:
            body = h["body"]
            if h.get("items"):
                for it in h["items"]:
                    if it[0] == "line":
                        k, t = body[it[1]]
                        occ.append((line_token(t), expected_text(k, t, cfg), k + t))
                        continue
                    reg = it[1]
                    for idxs, mark in ((reg["anc"], "-"), (reg["ours"], "+"), (reg["anc"], "-"), (reg["theirs"], "+")):
                        for ix in idxs:
                            k, t = body[ix]
                            # inside a region the two marker columns are removed; with markers requested
                            # the comparison's own marker is shown
                            occ.append((line_token(t), (mark if cfg.keep else "") + gdiff.expand(t, cfg), k + t))
            else:
                short = short_form_hunk(h)
                for k, t in body:
                    occ.append((line_token(t), expected_text(k, t, cfg), k + t, short))
    return occ


def oracle(d, cfg, rows):
    """model-free check of the property on the visible rows. returns list of reasons"""
    why_all, why_short = [], []
    pos = 0
    occ = expected_occurrences(d, cfg)
    n_expected = {}
    occ = [o if len(o) == 4 else o + (False,) for o in occ]
    for tokv, _, _, _ in occ:
        n_expected[tokv] = n_expected.get(tokv, 0) + 1
    seen = {}
    # rows are searched sequentially: tokens must appear in input order
    for tokv, want, src, short in occ:
        why = why_short if short else why_all
        hits = [i for i, r in enumerate(rows) if tokv in r]
        nth = seen.get(tokv, 0)
        seen[tokv] = nth + 1
        if nth == 0 and len(hits) != n_expected[tokv]:
            why.append(f"line {src!r} " + ("does not appear" if not hits else f"appears {len(hits)} times") +
                       (f" (expected {n_expected[tokv]}: once per comparison)" if n_expected[tokv] > 1 else ""))
        if nth >= len(hits):
            continue
        i = hits[nth]
        if i < pos:
            why.append(f"line {src!r} appears out of order (row {i} before row {pos})")
        pos = max(pos, i)
        want = want.rstrip(" ")
        if rows[i] != want:
            why.append(f"text altered: row {rows[i]!r} expected {want!r}")
    why = why_all
    # section containment: the header row of file j lies after every line of files < j and
    # before every line of file j
    if not cfg.color_only:
        last_tok_row = -1
        search_from = 0
        for sec in d["sections"]:
            first = None
            last = None
            for h in sec["hunks"]:
                for k, t in h["body"]:
                    tokv = line_token(t)
                    if tokv is None:
                        continue
                    for i, r in enumerate(rows):
                        if tokv in r:
                            first = i if first is None else min(first, i)
                            last = i if last is None else max(last, i)
            name_rows = header_rows(sec, rows, search_from) if sec["kind"] != "bin2" else []
            if sec["kind"] in ("bin", "bin2", "binadd") and not name_rows:
                name_rows = [i for i, r in enumerate(rows) if i >= search_from and r.startswith("Binary files ")]
            if not name_rows:
                why.append(f"no header row for section {sec['kind']} {sec['old']} -> {sec['new']} from row {search_from}")
            else:
                hrow = name_rows[0]
                if hrow <= last_tok_row:
                    why.append(f"header of {sec['kind']} section {sec['new']} (row {hrow}) precedes a line of an earlier section (row {last_tok_row})")
                if first is not None and not (hrow < first):
                    why.append(f"hunk lines of {sec['new']} precede its file header")
                search_from = hrow + 1
            if last is not None:
                last_tok_row = max(last_tok_row, last)
    return why_all, why_short


def header_text(sec):
    k = sec["kind"]
    if k in ("mod", "modemod", "mode"):
        return sec["new"]
    if k in ("add", "empty", "subadd"):
        return "added: " + sec["new"]
    if k in ("del", "subdel"):
        return "removed: " + sec["old"]
    if k == "diffu":
        return f"{sec['old']} {gdiff.ARROW} {sec['new']}"
    if k in ("ren", "renmod"):
        return f"renamed: {sec['old']} {gdiff.ARROW} {sec['new']}"
    if k == "copy":
        return f"copied: {sec['old']} {gdiff.ARROW} {sec['new']}"
    if k == "bin":
        return sec["new"] + " (binary file)"
    if k == "binadd":
        return "added: " + sec["new"] + " (binary file)"
    return sec["new"]


def header_rows(sec, rows, start=0):
    t = header_text(sec).rstrip(" ")
    return [i for i, r in enumerate(rows) if i >= start and (r == t or r.startswith(t + " ("))
            and i + 1 < len(rows) and rows[i + 1].startswith("─")]


def conflict_model_rows(vm, d, cfg, rows):
    """rows the merge-conflict model (MergeConflict.v, extracted) predicts for the body of a one-hunk
    combined diff, against the binary's rows after the hunk-header box; returns a mismatch description or None"""
    h = d["sections"][0]["hunks"][0]
    lines = [k + t for k, t in h["body"]]
    rep = vm.ask("merge_run", ",".join(vlib.hexs(l) for l in lines)).split("\t")
    if rep[0] != "OK" or rep[1] != "out":
        return "model: " + "\t".join(rep)[:200]
    rule = [i for i, r_ in enumerate(rows) if r_.startswith("─")]
    if not rule:
        return "no file header in the output"
    start = rule[0] + 1
    # the hunk-header box is drawn with the first ordinary hunk line; a hunk that begins with a region has none
    if start + 3 < len(rows) and rows[start] == "" and rows[start + 1].endswith("┐") and rows[start + 3].endswith("┘"):
        start += 4
    got = rows[start:]
    want = []
    for ent in (rep[2].split(";") if len(rep) > 2 and rep[2] else []):
        f = ent.split(":")
        if f[0] == "B":
            want.append(("bar", None))
        elif f[0] in ("Ho", "Ht", "Ha"):
            want += [("box", "┐"), ("box", "│"), ("box", "┘")]
        else:
            t = bytes.fromhex(f[1]).decode("utf-8", "replace")
            if f[0] == "L":
                want.append(("text", (t[:2] + gdiff.expand(t[2:], cfg)).rstrip(" ")))
            else:
                mark = ("-" if f[0] == "M" else "+") if cfg.keep else ""
                want.append(("text", (mark + gdiff.expand(t[2:], cfg)).rstrip(" ")))
    if len(want) != len(got):
        return f"model predicts {len(want)} rows, binary shows {len(got)}"
    for (kind, w), g in zip(want, got):
        if kind == "bar" and not (g and len(set(g)) == 1 and g[0] in "▼▲"):
            return f"expected a conflict bar, got {g!r}"
        if kind == "box" and not g.endswith(w):
            return f"expected a comparison header box row ending in {w}, got {g!r}"
        if kind == "text" and g != w:
            return f"expected {w!r}, got {g!r}"
    return None


def gen_cases(tier, seed):
    n = 500 if tier == "quick" else 6000
    cases = []
    for i in range(n):
        r = vlib.case_rng(seed, PID, i)
        d = gdiff.gen_diff(r)
        cfg = gdiff.rand_cfg(r, color_only=False)
        cases.append(("random", d, cfg))
    # `git log -p`: every file section may be preceded by a commit block, directly after the previous hunk's last line
    # (concatenated `git show` outputs) or after a blank line
    for i in range(n // 5):
        r = vlib.case_rng(seed, PID, ("log", i))
        d = gdiff.gen_diff(r, nsec=r.randint(2, 4), log=True)
        for s_ in d["sections"][1:]:
            if r.random() < 0.6:
                s_["pre"] = ([""] if r.random() < 0.4 else []) + gdiff.gen_log_wrapper(r)
        cases.append(("log", d, gdiff.rand_cfg(r, color_only=False)))
    # hunk lines whose text begins with a character that attaches to what precedes it (combining marks, vowel signs,
    # variation selector, zero-width joiner): only the marker column may go, in two-way and combined diffs alike
    for i in range(n // 8):
        r = vlib.case_rng(seed, PID, ("unicode-first", i))
        tok = gdiff.Tok()
        fam = r.choice([["mod", "mod", "add", "cc"], ["mod", "mod", "add", "cc"], ["diffu"]])   # a stream is git's or plain diff's
        secs = [gdiff.gen_section(r, tok, kind=r.choice(fam)) for _ in range(r.randint(1, 2))]
        for s_ in secs:
            for h in s_["hunks"]:
                h["body"] = [(k, (r.choice(["\u0301", "\u064e", "\u0e33", "\u093e", "\ufe0f", "\u200d", "\u0308"]) + t) if r.random() < 0.5 else t) for k, t in h["body"]]
        cases.append(("unicode-first", {"pre": [], "sections": secs}, gdiff.rand_cfg(r, color_only=False)))
    # plain `diff -u` streams (no git headers), with removed / added lines that look like file header lines
    for i in range(n // 5):
        r = vlib.case_rng(seed, PID, ("diffu", i))
        tok = gdiff.Tok()
        secs = [gdiff.gen_section(r, tok, kind="diffu") for _ in range(r.randint(1, 3))]
        cases.append(("diff-u", {"pre": [], "sections": secs}, gdiff.rand_cfg(r, color_only=False)))
    # combined diffs (`diff --cc`, two marker columns)
    for i in range(n // 10):
        r = vlib.case_rng(seed, PID, ("cc", i))
        tok = gdiff.Tok()
        secs = [gdiff.gen_section(r, tok, kind=r.choice(["cc", "cc", "mod"])) for _ in range(r.randint(1, 3))]
        cases.append(("combined", {"pre": gdiff.gen_log_wrapper(r) if r.random() < 0.5 else [], "sections": secs}, gdiff.rand_cfg(r, color_only=False)))
    # submodule pointer changes (short format) among ordinary files, and ordinary lines that look like them
    for i in range(n // 10):
        r = vlib.case_rng(seed, PID, ("submodule", i))
        tok = gdiff.Tok()
        secs = [gdiff.gen_section(r, tok, kind=r.choice(["sub", "subadd", "subdel", "subnear", "subnear", "mod"])) for _ in range(r.randint(1, 4))]
        cases.append(("submodule", {"pre": [], "sections": secs}, gdiff.rand_cfg(r, color_only=False)))
    # combined diffs of conflicted merges: conflict regions with / without an ancestor section, several per
    # hunk, hunk and file (stale buffers would show); every second stream is one hunk, compared with the model
    for i in range(n // 4):
        r = vlib.case_rng(seed, PID, ("conflict", i))
        tok = gdiff.Tok()
        if i % 2 == 0:
            sec = gdiff.gen_section(r, tok, kind="ccconf")
            sec["hunks"] = sec["hunks"][:1]
            secs = [sec]
        else:
            secs = [gdiff.gen_section(r, tok, kind=r.choice(["ccconf", "ccconf", "ccconf", "cc", "mod"])) for _ in range(r.randint(1, 3))]
        cases.append(("conflict", {"pre": [], "sections": secs}, gdiff.rand_cfg(r, color_only=False)))
    # small-scope sweep: every hunk body over {ctx,-,+}^<=L x buffer sizes x next-section kind
    import itertools
    L = 4 if tier == "quick" else 6
    kinds_next = ["mod", "mode", "ren", "bin", "empty", "add", None]
    r = vlib.case_rng(seed, PID, "sweep")
    for n_ in range(1, L + 1):
        for shape in itertools.product(" -+", repeat=n_):
            for B in ((0, 1, 2) if tier == "thorough" else (r.choice([0, 1, 2]),)):
                for nk in (kinds_next if tier == "thorough" else (r.choice(kinds_next), "mode")):
                    tok = gdiff.Tok()
                    h = {"header": f"@@ -1,{sum(1 for k in shape if k in ' -')} +1,{sum(1 for k in shape if k in ' +')} @@",
                         "old_start": 1, "new_start": 1, "frag": "", "body": [(k, "l " + tok.next()) for k in shape], "no_newline": False}
                    secs = [gdiff.make_section("mod", "a.rs", "b.rs", [h])]
                    if nk:
                        hs = []
                        if nk in ("mod", "add"):
                            hs = [{"header": "@@ -5 +5 @@", "old_start": 5, "new_start": 5, "frag": "",
                                   "body": [("-", "o " + tok.next()), ("+", "n " + tok.next())], "no_newline": False}]
                        secs.append(gdiff.make_section(nk, "n.txt", "m.txt", hs))
                        secs.append(gdiff.make_section("mod", "z.rs", "z.rs", [{"header": "@@ -7 +7 @@", "old_start": 7, "new_start": 7, "frag": "",
                                    "body": [(" ", "c " + tok.next())], "no_newline": False}]))
                    cases.append(("sweep", {"pre": [], "sections": secs}, gdiff.Cfg(width=40, tabs=4, line_buffer_size=B)))
    return cases


def main(tier, replay=None):
    chk = vlib.Check(PID, tier)
    ok, out = vlib.build_delta()
    if not ok:
        print("tree does not build with hooks enabled:\n" + out[-2000:])
        chk.oblige("build:delta-with-hooks", False, out[-2000:])
        return chk.finish()
    vlib.build_native()
    vlib.standard_proof_obligations(chk, "PropC01", gen_names=("counter", "merge", "submodule"))
    ok, out = vlib.build_vmodel()
    if not ok:
        chk.oblige("build:vmodel", False, out[-2000:])
        return chk.finish()
    vm = vlib.vmodel()
    if replay:
        with open(replay) as f:
            r = json.load(f)
        cases = [("replay", r["diff"], gdiff.Cfg(**r["cfg"]))]
    else:
        cases = gen_cases(tier, chk.seed)
    chk.rule = ("generated git diffs (1-4 file sections of every kind, 1-3 hunks, runs of context/removed/added lines, "
                "marker-like contents, tabs, Unicode) x unified-view options (width, tabs, markers, buffer size), plain `diff -u` streams, "
                "combined diffs, combined diffs with merge-conflict regions (with / without ancestor sections, several per hunk and file), "
                "submodule sections and look-alike lines, plus a "
                "sweep of all short hunk shapes x buffer size x kind of the following section; non-trivial = >= 2 sections "
                "or a hunk with both removed and added lines")

    def real(c):
        return gdiff.run_real(gdiff.diff_lines(c[1]), c[2])

    with ThreadPoolExecutor(max_workers=vlib.NCPU) as ex:
        reals = list(ex.map(real, cases))
    mism = 0
    mism_conf = n_conf = 0
    mism_sub = n_sub = 0
    for (kind, d, cfg), (rc, rows, err) in zip(cases, reals):
        lines = gdiff.diff_lines(d)
        chk.count(kind)
        for s in d["sections"]:
            chk.count("section:" + s["kind"])
        nontriv = len(d["sections"]) >= 2 or any(
            {"-", "+"} <= {c_ for k, _ in h["body"] for c_ in k} for s in d["sections"] for h in s["hunks"])
        chk.case((tuple(lines), cfg.key()), nontriv, {"cfg": cfg.as_dict(), "input": lines[:14], "n_lines": len(lines)})
        if not cfg.color_only and kind not in ("diff-u", "combined", "conflict", "submodule", "unicode-first"):
            sd = vm.ask("delta_sides", cfg.tabs, cfg.B, ",".join(vlib.hexs(l) for l in lines))
            chk.count("theorem_side_condition:" + sd)
        # the line state machine model covers git's output; plain `diff -u` streams are decided by the oracle alone
        m = gdiff.render_items(gdiff.model_items(vm, lines, cfg), cfg) if kind not in ("diff-u", "combined", "conflict", "submodule", "unicode-first") else rows
        if kind == "conflict" and rc == 0 and len(d["sections"]) == 1 and len(d["sections"][0]["hunks"]) == 1 and d["sections"][0]["kind"] == "ccconf":
            n_conf += 1
            bad = conflict_model_rows(vm, d, cfg, rows)
            if bad:
                mism_conf += 1
                if mism_conf <= 2:
                    vlib.log("[C01] merge-conflict correspondence mismatch " + str(cfg.as_dict()) + ": " + bad + "\nINPUT:\n" + "\n".join(lines) +
                             "\nOUTPUT:\n" + "\n".join(rows))
        if kind == "submodule" and rc == 0:
            # correspondence with Submodule.v: the short-form rows of the output are exactly the rows the model writes
            n_sub += 1
            want_rows = []
            for s_ in d["sections"]:
                for h in s_["hunks"]:
                    rep = vm.ask("submodule_run", "0", ",".join(vlib.hexs(k + t) for k, t in h["body"]))
                    want_rows += [bytes.fromhex(e[2:]).decode() for e in rep.split("\t")[1].split(";") if e.startswith("M:")] if rep.startswith("OK\t") and len(rep) > 3 else []
            got_rows = [x for x in rows if re.fullmatch(r"[0-9a-f]{12}\.\.[0-9a-f]{12}", x)]
            if got_rows != want_rows:
                mism_sub += 1
                if mism_sub <= 2:
                    vlib.log(f"[C01] submodule correspondence: model rows {want_rows} binary rows {got_rows}\nINPUT:\n" + "\n".join(lines))
        if m != rows:
            mism += 1
            if mism <= 2:
                import difflib
                vlib.log("[C01] correspondence mismatch " + str(cfg.as_dict()) + "\n" +
                         "\n".join(difflib.unified_diff(m, rows, "model", "real", lineterm="", n=1)) +
                         "\nINPUT:\n" + "\n".join(lines))
        why, why_short = ([f"exit status {rc}: {rows}"], []) if rc != 0 else oracle(d, cfg, rows)
        if why:
            chk.violation({"property": PID, "why": "; ".join(why[:4]), "cfg": cfg.as_dict(), "diff": d,
                           "input": "\n".join(lines), "args": cfg.args(), "output_rows": rows[:80],
                           "kinds": [s["kind"] for s in d["sections"]]})
        if why_short:
            # lines of a hunk that starts with `-Subproject commit <sha>`: delta's submodule short form (F33)
            chk.violation({"property": PID, "why": "; ".join(why_short[:4]), "cfg": cfg.as_dict(), "diff": d,
                           "input": "\n".join(lines), "args": cfg.args(), "output_rows": rows[:80],
                           "finding_class": "submodule-short-form: only lines of a hunk whose first line is `-Subproject commit <40 hex>` are affected",
                           "kinds": [s["kind"] for s in d["sections"]]})
    chk.oblige("correspondence:state-machine-rows", mism == 0, f"{mism} of {len(cases)} diffs render differently from the model")
    chk.oblige("correspondence:merge-conflict-rows", mism_conf == 0,
               f"{mism_conf} of {n_conf} one-hunk conflict diffs render differently from the merge-conflict model")
    chk.oblige("correspondence:submodule-short-form-rows", mism_sub == 0,
               f"{mism_sub} of {n_sub} submodule streams show short-form rows different from the model's")
    chk.extra["traces_validated_against_impl"] = len(cases) - mism
    chk.assumptions = ["model scope: git two-way diffs, unified view, non-raw header styles; combined diffs (`diff --cc`) and plain `diff -u` streams are decided by the black-box token oracle alone (both tiers); merge-conflict regions: MergeConflict.v (region state machine; `clear()` and the marker strings regenerated from the source) compared with the binary's rows on one-hunk conflict diffs, and the token oracle on all of them",
                       "grapheme clusters = scalar values on the generator's alphabet"]
    vm.close()
    return chk.finish()
