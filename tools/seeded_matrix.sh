#!/bin/bash
# For every seeded change: apply it to /repo's working tree, run the check of the property it
# breaks (quick tier), record what the check reports, undo the change.  Usage: seeded_matrix.sh [ids...]
cd "$(dirname "$0")/.."
ids=${@:-$(ls seeded)}
# evidence/ must describe the unchanged tree: keep it aside while changed trees are checked
rm -rf .cache/evidence.keep; cp -a evidence .cache/evidence.keep
for id in $ids; do
  d=seeded/$id
  p=$d/patch.diff
  [ -f $d/patch.hooked.diff ] && p=$d/patch.hooked.diff
  if ! git -C /repo apply --check $PWD/$p 2>/dev/null; then
    echo "$id: patch does not apply ($p)"; continue
  fi
  git -C /repo apply $PWD/$p
  out=$(timeout 1500 bin/check ${id:0:3} --tier quick 2>&1)
  rc=$?
  git -C /repo checkout -- .; python3 tools/translate.py >/dev/null   # Gen*.v back to the unchanged tree
  nv=$(echo "$out" | grep -c '^VIOLATION')
  nf=$(echo "$out" | grep -c 'no-failing-input-found')
  last=$(echo "$out" | tail -1)
  echo "$id: rc=$rc violations=$nv no-failing-input=$nf patch=$(basename $p) :: $last"
  echo "$out" | grep '^VIOLATION' | head -1 | sed 's/^/    /'
done
rm -rf evidence; mv .cache/evidence.keep evidence
git -C /repo status --short
