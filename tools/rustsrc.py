"""Small helpers to read Rust source text for the translator (strict, fail-closed)."""
import re


class PatternError(Exception):
    """An expected shape was not found in the source: the translation tie is broken."""


def strip_comments(src: str) -> str:
    out = []
    i = 0
    n = len(src)
    while i < n:
        c = src[i]
        if src.startswith("//", i):
            j = src.find("\n", i)
            i = n if j < 0 else j
        elif src.startswith("/*", i):
            j = src.find("*/", i + 2)
            i = n if j < 0 else j + 2
        elif c == '"':
            j = i + 1
            while j < n and src[j] != '"':
                j += 2 if src[j] == "\\" else 1
            out.append(src[i:j + 1])
            i = j + 1
        elif c == "r" and re.match(r'r#*"', src[i:]):
            m = re.match(r'r(#*)"', src[i:])
            end = '"' + m.group(1)
            j = src.find(end, i + len(m.group(0)))
            out.append(src[i:j + len(end)])
            i = j + len(end)
        elif c == "'" and re.match(r"'(\\.|[^\\'])'", src[i:]):
            m = re.match(r"'(\\.|[^\\'])'", src[i:])
            out.append(m.group(0))
            i += len(m.group(0))
        else:
            out.append(c)
            i += 1
    return "".join(out)


def match_brace(src: str, open_idx: int) -> int:
    """index of the brace matching src[open_idx] == '{' (strings/comments must be stripped
    or harmless)."""
    assert src[open_idx] == "{"
    depth = 0
    i = open_idx
    n = len(src)
    while i < n:
        c = src[i]
        if c == '"':
            j = i + 1
            while j < n and src[j] != '"':
                j += 2 if src[j] == "\\" else 1
            i = j + 1
            continue
        if c == "'":
            m = re.match(r"'(\\.|[^\\'])'", src[i:])
            if m:
                i += len(m.group(0))
                continue
        if c == "{":
            depth += 1
        elif c == "}":
            depth -= 1
            if depth == 0:
                return i
        i += 1
    raise PatternError("unbalanced braces")


def strip_verif_cfg(src: str) -> str:
    """remove `#[cfg(dandavison_delta_verif)]` attributes together with the item, block or
    statement they guard (hooks are add-only, so the remainder is the original code)."""
    attr = "#[cfg(dandavison_delta_verif)]"
    while True:
        i = src.find(attr)
        if i < 0:
            return src
        j = i + len(attr)
        # skip whitespace
        while j < len(src) and src[j].isspace():
            j += 1
        # guarded thing: a block `{...}`, or text up to the first `;` at depth 0, or an item
        # with a body `{...}`
        k = j
        depth = 0
        while k < len(src):
            c = src[k]
            if c == '"':
                k2 = k + 1
                while k2 < len(src) and src[k2] != '"':
                    k2 += 2 if src[k2] == "\\" else 1
                k = k2 + 1
                continue
            if c in "([":
                depth += 1
            elif c in ")]":
                depth -= 1
            elif c == "{":
                k = match_brace(src, k)
                # a block/item body ends the guarded thing unless followed by `;`/else
                rest = src[k + 1:].lstrip()
                if rest.startswith(";"):
                    k = src.find(";", k)
                break
            elif c == ";" and depth == 0:
                break
            k += 1
        src = src[:i] + src[k + 1:]


def norm(s: str) -> str:
    return re.sub(r"\s+", " ", s).strip()


def fn_body(src: str, signature_regex: str) -> str:
    """body (between the outer braces) of the first fn whose header matches."""
    m = re.search(signature_regex, src)
    if not m:
        raise PatternError(f"function not found: {signature_regex}")
    i = src.find("{", m.end() - 1)
    if i < 0:
        raise PatternError(f"no body: {signature_regex}")
    j = match_brace(src, i)
    return src[i + 1:j]


def load(path: str) -> str:
    with open(path, encoding="utf-8") as f:
        return strip_verif_cfg(strip_comments(f.read()))
