"""C14 — one header per file section (right file, right event) and one per hunk.

proof:   PropC14.v — path extraction from `diff --git x/P y/P`, `--- x/P`, `+++ y/P` for every
         path; the hunk-header fragment is passed on unchanged; exactly one hunk-header item
         per hunk from any state.
tie:     the state machine model is tied by check C01's correspondence; here the headers of
         the real binary are observed directly.
oracle:  header rows are recognised by reserved styles (not by guessing); the sequence of
         (file header, hunk header...) events decoded from stdout must equal the sequence
         computed from the diff AST: one file header per section with the configured label
         and both paths for renames/copies, mode and binary notes; one hunk header per hunk
         with the file, the new-file start line and the unchanged code fragment.
"""
import json
import os
import sys
from concurrent.futures import ThreadPoolExecutor

import gdiff
import term
import vlib

PID = "C14"
STYLE_ARGS = ["--true-color", "always", "--syntax-theme", "none", "--file-style", "#010101", "--file-decoration-style", "none",
              "--hunk-header-style", "file line-number #020202", "--hunk-header-decoration-style", "none",
              "--hunk-header-file-style", "#030303", "--hunk-header-line-number-style", "#040404"]
PATHS = gdiff.PATHS + ["c/d.txt", "i/o", "o/w/i.rs", "sp ace/two  spaces.md", "ünï/コード.rs", "x", "a", "dir.with.dots/f.tar.gz",
                       "-dash", "quote'q", "tab-less name with (parens) [b]"]
LABELS = [{}, {"added": "NEW", "removed": "GONE", "renamed": "MOVED", "copied": "DUP", "modified": "CHG", "arrow": "=>"},
          {"added": "", "removed": "", "renamed": "", "copied": "", "modified": "", "arrow": "→"}]


def label_args(lb):
    a = []
    if "_hunk_label" in lb:
        return []
    for k, opt in (("added", "--file-added-label"), ("removed", "--file-removed-label"), ("renamed", "--file-renamed-label"),
                   ("copied", "--file-copied-label"), ("modified", "--file-modified-label"), ("arrow", "--right-arrow")):
        if k in lb:
            a += [opt, lb[k]]
    return a


def fmt_label(s):
    return (s + " ") if s else ""


def expected_header(sec, lb):
    d = {"added": "added:", "removed": "removed:", "renamed": "renamed:", "copied": "copied:", "modified": "", "arrow": gdiff.ARROW}
    d.update(lb)
    k = sec["kind"]
    old, new = sec["old"], sec["new"]
    binsfx = " (binary file)" if k in ("bin", "binadd") else ""
    if k in ("mode",):
        return fmt_label(d["modified"]) + new + " (mode +x)"
    if k == "modemod":
        return fmt_label(d["modified"]) + new + " (mode -x)"
    if k == "bin2":
        return None  # no header: the Binary line is printed verbatim
    if old == new:
        return fmt_label(d["modified"]) + new + binsfx
    if new == "/dev/null":
        return fmt_label(d["removed"]) + old
    if old == "/dev/null":
        return fmt_label(d["added"]) + new + binsfx
    lab = d["renamed"] if k in ("ren", "renmod") else d["copied"] if k == "copy" else d["modified"]
    return f"{fmt_label(lab)}{old} {d['arrow']} {new}"


def expected_events(d, lb, tabs):
    ev = []
    for sec in d["sections"]:
        h = expected_header(sec, lb)
        if h is not None:
            ev.append(("F", h))
        path = sec["old"] if sec["new"] == "/dev/null" else sec["new"]
        for hk in sec["hunks"]:
            frag = hk["frag"]
            text = (frag + " ") if frag else ""
            text = text.replace("\t", " " * tabs) if tabs else text
            ev.append(("H", lb.get("_hunk_label", "") + path, str(hk["new_start"]), text))
    return ev


def decode_events(out):
    ev = []
    for row in term.decode(out):
        f = "".join(c[0] for c in row.cells if c[1] == ("rgb", 1, 1, 1))
        if f:
            ev.append(("F", f))
            continue
        hf = "".join(c[0] for c in row.cells if c[1] == ("rgb", 3, 3, 3))
        hn = "".join(c[0] for c in row.cells if c[1] == ("rgb", 4, 4, 4))
        hc = "".join(c[0] for c in row.cells if c[1] == ("rgb", 2, 2, 2))
        if hf or hn or hc:
            ev.append(("H", hf, hn, hc))
    return ev


def gen_cases(tier, seed):
    n = 400 if tier == "quick" else 5000
    cases = []
    for i in range(n):
        r = vlib.case_rng(seed, PID, i)
        tok = gdiff.Tok()
        nsec = r.randint(1, 4)
        secs = [gdiff.gen_section(r, tok, paths=PATHS) for _ in range(nsec)]
        pre = gdiff.gen_log_wrapper(r) if r.random() < 0.3 else []
        # several commits: a log wrapper between sections
        d = {"pre": pre, "sections": secs}
        lb = r.choice(LABELS)
        tabs = r.choice([0, 4, 8])
        mode = r.choice([[], [], ["--line-numbers"], ["--side-by-side"], ["--navigate"]])
        if "--navigate" in mode:
            lb = {"modified": "Δ", "_hunk_label": "•"}   # the navigate feature's own labels
        cases.append({"diff": d, "labels": lb, "tabs": tabs, "mode": mode, "commits": False})
    # multi-commit logs: sections grouped under commit lines (hunk-less last sections included)
    m = 80 if tier == "quick" else 800
    for i in range(m):
        r = vlib.case_rng(seed, PID, 100000 + i)
        tok = gdiff.Tok()
        groups = []
        for _ in range(r.randint(2, 3)):
            secs = [gdiff.gen_section(r, tok, paths=PATHS) for _ in range(r.randint(1, 3))]
            if r.random() < 0.6:
                secs.append(gdiff.gen_section(r, tok, kind=r.choice(["ren", "copy", "bin", "empty", "mode", "binadd"]), paths=PATHS))
            groups.append((gdiff.gen_log_wrapper(r), secs))
        cases.append({"groups": groups, "labels": {}, "tabs": 4, "mode": [], "commits": True})
    # plain diff -u / diff -ru streams
    p = 60 if tier == "quick" else 600
    for i in range(p):
        r = vlib.case_rng(seed, PID, 200000 + i)
        lines, events = plain_case(r, gdiff.Tok())
        cases.append({"plain": True, "lines": lines, "events": events, "labels": {}, "tabs": 4, "mode": [], "commits": False})
    return cases


def plain_case(r, tok):
    """plain `diff -u` / `diff -ru` output: sections without git's `diff --git` line"""
    secs = []
    lines = []
    events = []
    names = [r.choice(["x.txt", "dir/y z.c", "日本.md"]) for _ in range(r.randint(2, 3))]
    if r.random() < 0.5:
        names[1] = names[0]   # the same pair twice in a row
    style = r.choice(["bare", "diff -u", "diff -ru"])
    for nm in names:
        if style != "bare":
            lines.append(f"{style} a/{nm} b/{nm}")
        lines.append(f"--- a/{nm}\t2020-01-01 00:00:00.000000000 +0000")
        lines.append(f"+++ b/{nm}\t2020-01-02 00:00:00.000000000 +0000")
        events.append(("F", f"a/{nm} {gdiff.ARROW} b/{nm}"))
        for _ in range(r.randint(1, 2)):
            h = gdiff.gen_hunk(r, tok, max_runs=2)
            h["frag"] = ""
            na = sum(1 for k, _ in h["body"] if k in " -")
            nb = sum(1 for k, _ in h["body"] if k in " +")
            hdr = f"@@ -{h['old_start']},{na} +{h['new_start']},{nb} @@"
            lines.append(hdr)
            lines += [k + t for k, t in h["body"]]
            events.append(("H", f"b/{nm}", str(h["new_start"]), ""))
    return lines, events


def case_lines(c):
    if c.get("plain"):
        return c["lines"]
    if c["commits"]:
        out = []
        for pre, secs in c["groups"]:
            out += pre
            for s in secs:
                out += gdiff.section_lines(s)
        return out
    return gdiff.diff_lines(c["diff"])


def case_expected(c):
    if c.get("plain"):
        return [tuple(e) for e in c["events"]]
    if c["commits"]:
        ev = []
        for pre, secs in c["groups"]:
            ev += expected_events({"sections": secs}, c["labels"], c["tabs"])
        return ev
    return expected_events(c["diff"], c["labels"], c["tabs"])


def main(tier, replay=None):
    chk = vlib.Check(PID, tier)
    ok, out = vlib.build_delta()
    if not ok:
        print("tree does not build with hooks enabled:\n" + out[-2000:])
        chk.oblige("build:delta-with-hooks", False, out[-2000:])
        return chk.finish()
    vlib.build_native()
    vlib.standard_proof_obligations(chk, "PropC14")
    if replay:
        with open(replay) as f:
            cases = [json.load(f)["case"]]
    else:
        cases = gen_cases(tier, chk.seed)
    chk.rule = ("git diffs of 1-4 sections of every kind over paths with spaces, non-ASCII, mnemonic-looking prefixes, /dev/null "
                "sides x label/arrow settings x tab widths x modes, and multi-commit logs whose commits end in hunk-less "
                "sections; header rows identified by reserved styles; non-trivial = >= 2 sections")

    def work(c):
        lines = case_lines(c)
        inp = ("\n".join(lines) + "\n").encode()
        args = ["--no-gitconfig", "--paging", "never", "--width", "120", "--tabs", str(c["tabs"])] + STYLE_ARGS + label_args(c["labels"]) + c["mode"]
        return vlib.run_delta(args, stdin=inp)

    with ThreadPoolExecutor(max_workers=vlib.NCPU) as ex:
        results = list(ex.map(work, cases))
    for c, (rc, out, err) in zip(cases, results):
        lines = case_lines(c)
        want = case_expected(c)
        nsec = 2 if c.get("plain") else sum(len(g[1]) for g in c["groups"]) if c["commits"] else len(c["diff"]["sections"])
        chk.count("plain-diff" if c.get("plain") else "multi-commit" if c["commits"] else "single")
        chk.case((tuple(lines), json.dumps(c["labels"], sort_keys=True), c["tabs"], tuple(c["mode"])), nsec >= 2,
                 {"input": lines[:12], "labels": c["labels"], "mode": c["mode"], "expected_events": want[:6]})
        if rc != 0:
            chk.violation({"property": PID, "why": f"exit status {rc}: {err[-300:]!r}", "case": c, "input": "\n".join(lines), "shape": "crash"})
            continue
        got = decode_events(out)
        # in side-by-side mode the hunk header fragment is the same row; trailing padding differs
        norm = lambda ev: [tuple(x.rstrip(" ") if isinstance(x, str) else x for x in e) for e in ev]
        if norm(got) != norm(want):
            i = next((k for k, (a, b) in enumerate(zip(norm(got) + [None] * 3, norm(want) + [None] * 3)) if a != b), None)
            chk.violation({"property": PID, "why": f"header events differ at position {i}: got {norm(got)[i:i + 2] if i is not None else None} "
                                                   f"expected {norm(want)[i:i + 2] if i is not None else None}",
                           "case": c, "input": "\n".join(lines), "got": got, "expected": want, "shape": "headers"})
    chk.assumptions = ["header rows are those whose cells carry the reserved foreground colours set by the harness",
                       "plain `diff -u` input is exercised by the thorough tier's corpus only"]
    return chk.finish()
