"""An independent terminal model (ECMA-48 subset): decodes a byte stream into rows of cells
with their rendition, and the terminal state at each newline.  Written from the standard,
not from delta's iterator.  Used as the observation function of the black-box checks."""
import re
import unicodedata

DEFAULT = ("d",)

ATTR_ON = {1: "bold", 2: "dim", 3: "italic", 4: "ul", 5: "blink", 7: "reverse", 8: "hidden", 9: "strike",
           53: "overline"}
ATTR_OFF = {22: ("bold", "dim"), 23: ("italic",), 24: ("ul",), 25: ("blink",), 27: ("reverse",), 28: ("hidden",),
            29: ("strike",), 55: ("overline",)}


def char_width(ch):
    o = ord(ch)
    if o == 0:
        return 0
    if o < 32 or 0x7F <= o < 0xA0:
        return 0
    if unicodedata.combining(ch) or unicodedata.category(ch) in ("Mn", "Me", "Cf"):
        return 0
    if unicodedata.east_asian_width(ch) in ("W", "F"):
        return 2
    return 1


def text_width(s):
    return sum(char_width(c) for c in s)


class State:
    __slots__ = ("fg", "bg", "attrs", "link")

    def __init__(self):
        self.fg = DEFAULT
        self.bg = DEFAULT
        self.attrs = frozenset()
        self.link = None

    def rendition(self):
        return (self.fg, self.bg, self.attrs)

    def is_default(self):
        return self.fg == DEFAULT and self.bg == DEFAULT and not self.attrs

    def key(self):
        return (self.fg, self.bg, tuple(sorted(self.attrs)), self.link)


def apply_sgr(st, params):
    """params: list of ints (empty parameter = 0)"""
    i = 0
    attrs = set(st.attrs)
    if not params:
        params = [0]
    while i < len(params):
        p = params[i]
        if p == 0:
            st.fg = DEFAULT
            st.bg = DEFAULT
            attrs.clear()
        elif p in ATTR_ON:
            attrs.add(ATTR_ON[p])
        elif p in ATTR_OFF:
            for a in ATTR_OFF[p]:
                attrs.discard(a)
        elif 30 <= p <= 37:
            st.fg = ("p", p - 30)
        elif 40 <= p <= 47:
            st.bg = ("p", p - 40)
        elif 90 <= p <= 97:
            st.fg = ("p", p - 90 + 8)
        elif 100 <= p <= 107:
            st.bg = ("p", p - 100 + 8)
        elif p == 39:
            st.fg = DEFAULT
        elif p == 49:
            st.bg = DEFAULT
        elif p in (38, 48):
            col = None
            if i + 2 < len(params) + 0 and params[i + 1] == 5:
                col = ("p", params[i + 2])
                i += 2
            elif i + 4 < len(params) + 0 and params[i + 1] == 2:
                col = ("rgb", params[i + 2], params[i + 3], params[i + 4])
                i += 4
            else:
                i = len(params)
            if col is not None:
                if p == 38:
                    st.fg = col
                else:
                    st.bg = col
        i += 1
    st.attrs = frozenset(attrs)


class Row:
    __slots__ = ("cells", "eol_bg", "end_default", "end_link", "end_ground", "raw", "end_state")

    def __init__(self):
        self.cells = []      # (char, fg, bg, attrs, link)
        self.eol_bg = None   # background used by an erase-to-end-of-line, if any
        self.end_default = True
        self.end_link = None
        self.end_ground = True
        self.raw = b""
        self.end_state = None

    def text(self):
        return "".join(c[0] for c in self.cells)

    def width(self):
        return text_width(self.text())


CSI_RE = re.compile(r"\x1b\[([0-9;:<=>?]*)([ -/]*)([@-~])")
OSC_RE = re.compile(r"\x1b\]([^\x07\x1b]*)(\x07|\x1b\\)")


def decode(data, keep_state_across_lines=True):
    """bytes -> list[Row].  The terminal state is NOT reset at a newline (a real terminal
    does not); `end_default`/`end_link`/`end_ground` report the state at each newline."""
    if isinstance(data, bytes):
        text = data.decode("utf-8", "replace")
    else:
        text = data
    rows = []
    st = State()
    row = Row()
    i = 0
    n = len(text)
    line_start = 0
    while i < n:
        ch = text[i]
        if ch == "\n":
            row.end_default = st.is_default()
            row.end_link = st.link
            row.end_ground = True
            row.end_state = st.key()
            row.raw = text[line_start:i]
            rows.append(row)
            row = Row()
            i += 1
            line_start = i
            continue
        if ch == "\x1b":
            m = CSI_RE.match(text, i)
            if m:
                params, inter, final = m.groups()
                if final == "m" and not inter:
                    ps = []
                    for tok in re.split(r"[;:]", params) if params else []:
                        ps.append(int(tok) if tok.isdigit() else 0)
                    apply_sgr(st, ps)
                elif final == "K":
                    row.eol_bg = st.bg
                i = m.end()
                continue
            m = OSC_RE.match(text, i)
            if m:
                body = m.group(1)
                if body.startswith("8;"):
                    parts = body.split(";", 2)
                    uri = parts[2] if len(parts) > 2 else ""
                    st.link = uri if uri else None
                i = m.end()
                continue
            # incomplete / other escape: the rest of the line is inside a sequence
            nl = text.find("\n", i)
            if text.startswith("\x1b[", i) or text.startswith("\x1b]", i):
                # unterminated control string up to end of line
                end = n if nl < 0 else nl
                row.cells.append(("￾", st.fg, st.bg, st.attrs, st.link))  # marker: broken sequence
                if nl < 0:
                    i = n
                    continue
                # newline reached while not in ground state
                row.end_default = st.is_default()
                row.end_link = st.link
                row.end_ground = False
                row.end_state = st.key()
                row.raw = text[line_start:nl]
                rows.append(row)
                row = Row()
                i = nl + 1
                line_start = i
                continue
            i += 2  # two-character escape
            continue
        if ch == "\r":
            i += 1
            row.cells.append((ch, st.fg, st.bg, st.attrs, st.link))
            continue
        row.cells.append((ch, st.fg, st.bg, st.attrs, st.link))
        i += 1
    if row.cells or line_start < n:
        row.end_default = st.is_default()
        row.end_link = st.link
        row.end_state = st.key()
        row.raw = text[line_start:]
        rows.append(row)
    return rows


ANSI_STRIP_RE = re.compile(r"\x1b\[[0-9;:<=>?]*[ -/]*[@-~]|\x1b\][^\x07\x1b]*(?:\x07|\x1b\\)")


def strip(s):
    if isinstance(s, bytes):
        s = s.decode("utf-8", "replace")
    return ANSI_STRIP_RE.sub("", s)


OSC8_RE = re.compile(rb"\x1b\]8;[^\x07\x1b]*(?:\x07|\x1b\\)")


def strip_osc8(b):
    return OSC8_RE.sub(b"", b)
