"""C16 — grep output keeps every hit's path, line number and code.

proof:   PropC16.v — over the model of make_style_sections (rg --json): for any submatch
         offsets the sections partition the line; for valid offsets the highlighted sections
         are exactly the reported submatches; over the model of GrepLine::expand_tabs: with
         tabs only in leading indentation the uniformly shifted offsets select, in the
         expanded line, exactly the text they selected in the original.
tie:     highlighted spans decoded from the binary's output for rg --json records (valid and
         invalid offsets, with leading tabs, both output styles) equal the model's.
oracle:  model-free: for generated result streams — rg --json on stdin; plain and git-coloured
         `path:N:code` streams with delta run as a child of `git grep` / `rg` — every match or
         context line appears once, in order, with its path, its line number and its code
         (tabs expanded), grouped under its file, under the ripgrep-like and the classic
         output style; highlighted spans = submatches / git's match colour.
"""
import json
import os
import re
import sys
from concurrent.futures import ThreadPoolExecutor

import term
import vlib

PID = "C16"
PATHS = ["src/a.rs", "src/co-7-fig.rs", "b c/d.e.txt", "x-1.py", "dir.d/日本.md", "a/b/c99.h", "w-2-3/z.0.json", "é/ü.c"]
# coloured / JSON streams are read exactly: anything goes
ODD_PATHS = ["Makefile", "Make-7-file", "a:b.rs", "x=1-2.c", "no ext/READ-ME", "7", "a.rs:3:x.py", "-dash.rs-"]
WORDS = ["foo", "bar(x)", "let", "=", "1;", "日本", "é", "fn", "{", "}", "a.b", "->", "x-1", "n=2", "10", ":", "key: v"]
MATCH = "needle"


def gen_code(r, with_match, lead_tabs=True):
    ws = [r.choice(WORDS) for _ in range(r.randint(0, 6))]
    if with_match:
        for _ in range(r.randint(1, 2)):
            ws.insert(r.randint(0, len(ws)), MATCH)
    lead = ""
    if lead_tabs and r.random() < 0.4:
        lead = "\t" * r.randint(1, 3)
    elif r.random() < 0.3:
        lead = " " * r.randint(1, 6)
    return lead + " ".join(ws)


def gen_stream(r, odd_paths=False):
    """list of file groups: (path, [(kind, line_number, code)]) kind in match/context"""
    groups = []
    paths = r.sample(PATHS + (ODD_PATHS if odd_paths else []), r.randint(1, 3))
    for p in paths:
        n = r.randint(1, 400)
        lines = []
        for _ in range(r.randint(1, 5)):
            kind = r.choice(["match", "match", "context"])
            lines.append((kind, n, gen_code(r, kind == "match")))
            n += r.choice([1, 1, 1, 2, 7, 100])
        if not any(k == "match" for k, _, _ in lines):
            lines.append(("match", n, gen_code(r, True)))
        groups.append((p, lines))
    return groups


def submatches(code):
    raw = code.encode()
    out = []
    i = 0
    nb = MATCH.encode()
    while True:
        j = raw.find(nb, i)
        if j < 0:
            return out
        out.append((j, j + len(nb)))
        i = j + len(nb)


def rg_json(groups):
    out = []
    for p, lines in groups:
        out.append({"type": "begin", "data": {"path": {"text": p}}})
        for li, (kind, n, code) in enumerate(lines):
            subs = submatches(code) if kind == "match" else []
            # rg reports the line with its terminator: LF, CRLF, or none for the last line of a file without a final newline
            term_ = "\n"
            if li == len(lines) - 1:
                term_ = ["\n", "", "\r\n"][(len(code) + n) % 3]
            out.append({"type": kind, "data": {"path": {"text": p}, "lines": {"text": code + term_}, "line_number": n, "absolute_offset": 0,
                                               "submatches": [{"match": {"text": MATCH}, "start": a, "end": b} for a, b in subs]}})
        out.append({"type": "end", "data": {"path": {"text": p}, "binary_offset": None, "stats": {}}})
    out.append({"type": "summary", "data": {"elapsed_total": {"human": "0s", "nanos": 1, "secs": 0}, "stats": {}}})
    return ("\n".join(json.dumps(x, ensure_ascii=False) for x in out) + "\n").encode()


def plain_grep(groups, with_numbers=True):
    out = []
    for gi, (p, lines) in enumerate(groups):
        prev = None
        for kind, n, code in lines:
            sep = ":" if kind == "match" else "-"
            if prev is not None and n > prev + 1 and any(k == "context" for k, _, _ in lines):
                out.append("--")
            out.append(p + sep + (str(n) + sep if with_numbers else "") + code)
            prev = n
    return ("\n".join(out) + "\n").encode()


def coloured_grep(groups):
    out = []
    for p, lines in groups:
        for kind, n, code in lines:
            sep = ":" if kind == "match" else "-"
            c = code.replace(MATCH, "\x1b[1;31m" + MATCH + "\x1b[m") if kind == "match" else code
            out.append("\x1b[35m" + p + "\x1b[m\x1b[36m" + sep + "\x1b[m\x1b[32m" + str(n) + "\x1b[m\x1b[36m" + sep + "\x1b[m" + c)
    return ("\n".join(out) + "\n").encode()


def expand(code, tabs):
    return code.replace("\t", " " * tabs)


def pad(n):
    return "  " if n < 10 else (" " if n < 100 else "")


def expected_rows(groups, style, tabs, numbers=True):
    """list of (row text, kind, code, path, n) the output must contain, in order (other rows may be blank / '--')"""
    rows = []
    for p, lines in groups:
        if style == "ripgrep":
            rows.append((p, "header", None, p, None))
        for kind, n, code in lines:
            c = expand(code, tabs)
            if style == "ripgrep":
                rows.append(((str(n) + (":" if kind == "match" else "-") if numbers else "") + c, kind, c, p, n))
            else:
                rows.append((p + ":" + ((str(n) + ":" + pad(n)) if numbers else "") + c, kind, c, p, n))
    return rows


def oracle(groups, style, tabs, out, numbers=True, check_highlight=True):
    why = []
    rows = term.decode(out)
    texts = [r.text().rstrip(" ") for r in rows]
    want = expected_rows(groups, style, tabs, numbers)
    body = [(i, t) for i, t in enumerate(texts) if t not in ("", "--")]
    if [t for _, t in body] != [w[0].rstrip(" ") for w in want]:
        import difflib
        d = [x for x in difflib.unified_diff([w[0].rstrip(" ") for w in want], [t for _, t in body], "expected", "shown", lineterm="", n=0)][2:8]
        why.append("rows differ from the hits: " + " | ".join(d))
        return why
    if not check_highlight:
        return why
    for (i, t), (w, kind, code, p, n) in zip(body, want):
        if kind != "match":
            continue
        cells = rows[i].cells
        off = len(w) - len(code)
        hl = "".join("1" if (str(cl[1]).find("201") >= 0) else "0" for cl in cells[off:off + len(code)])
        exp = ["0"] * len(code)
        for m in re.finditer(re.escape(MATCH), code):
            for k in range(m.start(), m.end()):
                exp[k] = "1"
        if hl != "".join(exp)[:len(hl)] or len(hl) != len(code.rstrip(" ")) and len(hl) != len(code):
            why.append(f"highlighted spans of {p}:{n} are {hl}, the submatches are {''.join(exp)} ({code!r})")
    return why


STYLE_ARGS = ["--grep-match-word-style", "bold 201", "--grep-match-line-style", "normal", "--grep-context-line-style", "normal",
              "--grep-line-number-style", "normal", "--grep-file-style", "normal", "--syntax-theme", "none"]


def main(tier, replay=None):
    chk = vlib.Check(PID, tier)
    ok, out = vlib.build_delta()
    if not ok:
        print("tree does not build with hooks enabled:\n" + out[-2000:])
        chk.oblige("build:delta-with-hooks", False, out[-2000:])
        return chk.finish()
    vlib.build_native()
    vlib.standard_proof_obligations(chk, "PropC16", gen_names=("grep",))
    ok, out = vlib.build_vmodel()
    if not ok:
        chk.oblige("build:vmodel", False, out[-2000:])
        return chk.finish()
    vm = vlib.vmodel()
    chk.rule = ("grep result streams of 1-3 files x 1-6 match/context lines (line numbers 1..~1000 with jumps, leading tabs or spaces, Unicode, "
                "separator look-alikes in the code) as rg --json on stdin, as plain `path:N:code` / `path-N-code` with `--` separators and as "
                "git-coloured lines with delta run as a child of `git grep -n` / `rg`; paths with dashes, digits, dots, spaces (coloured and JSON "
                "streams also extension-less and separator-laden paths); x {ripgrep-like, classic} output style x tab widths; non-trivial = a "
                "stream with a context line or a leading tab")
    rp = json.load(open(replay)) if replay else None
    n = 150 if tier == "quick" else 2500
    cases = []
    if rp:
        cases = [rp["case"]]
    else:
        for i in range(n):
            r = vlib.case_rng(chk.seed, PID, i)
            fmt = r.choice(["json", "json", "plain", "coloured"])
            groups = gen_stream(r, odd_paths=(fmt != "plain"))
            style = r.choice(["ripgrep", "classic"]) if fmt == "json" else r.choice(["classic", "classic", "ripgrep"])
            tabs = r.choice([1, 4, 8])
            parent = None if fmt == "json" else r.choice([["git", "grep", "-n", MATCH], ["rg", "-n", MATCH], ["git", "grep", "-n", "-C", "1", MATCH]])
            cases.append({"fmt": fmt, "groups": groups, "style": style, "tabs": tabs, "parent": parent})
        # hits without line numbers (`git grep pat` without -n): match lines only, `path:code`
        for i in range(n // 5):
            r = vlib.case_rng(chk.seed, PID, ("nonum", i))
            groups = [(p, [(k, nn, code) for k, nn, code in ls if k == "match" and ":" not in code]) for p, ls in gen_stream(r, odd_paths=False)]
            groups = [(p, ls) for p, ls in groups if ls]
            if groups:
                cases.append({"fmt": "plain", "groups": groups, "style": r.choice(["classic", "ripgrep"]), "tabs": r.choice([1, 4, 8]),
                              "parent": r.choice([["git", "grep", MATCH], ["git", "grep", "-i", MATCH]]), "numbers": False})

    def work(c):
        groups = [(p, [tuple(l) for l in ls]) for p, ls in c["groups"]]
        inp = plain_grep(groups, with_numbers=False) if c.get("numbers") is False else {"json": rg_json, "plain": plain_grep, "coloured": coloured_grep}[c["fmt"]](groups)
        args = ["--no-gitconfig", "--paging", "never", "--tabs", str(c["tabs"]), "--grep-output-type", c["style"]] + STYLE_ARGS
        if c["parent"]:
            return vlib.run_delta(args, stdin=inp, parent=tuple(c["parent"]))
        return vlib.run_delta(args, stdin=inp)
    with ThreadPoolExecutor(max_workers=vlib.NCPU) as ex:
        res = list(ex.map(work, cases))
    mism = 0
    ncorr = 0
    for c, (rc, out, err) in zip(cases, res):
        groups = [(p, [tuple(l) for l in ls]) for p, ls in c["groups"]]
        nontriv = any(k == "context" or code.startswith("\t") for _, ls in groups for k, _, code in ls)
        chk.case((json.dumps(c, sort_keys=True, ensure_ascii=False),), nontriv, {"format": c["fmt"], "style": c["style"], "tabs": c["tabs"], "parent": c["parent"]})
        chk.count("format:" + c["fmt"])
        chk.count("style:" + c["style"])
        if rc != 0:
            chk.violation({"property": PID, "why": f"delta exits with {rc}: {err[-200:].decode('utf-8', 'replace')}", "case": c})
            continue
        why = oracle(groups, c["style"], c["tabs"], out, numbers=c.get("numbers", True), check_highlight=(c["fmt"] != "plain"))
        if why:
            chk.violation({"property": PID, "why": "; ".join(why[:3]), "case": c, "output": term.strip(out)[:3000]})
        # correspondence: highlighted spans vs the model's sections, JSON streams
        if c["fmt"] == "json":
            rows = term.decode(out)
            texts = [r.text().rstrip(" ") for r in rows]
            want = expected_rows(groups, c["style"], c["tabs"])
            body = [(i, t) for i, t in enumerate(texts) if t not in ("", "--")]
            if len(body) != len(want):
                continue
            origs = []
            for _, ls in groups:
                if c["style"] == "ripgrep":
                    origs.append(None)
                origs += [cd for _, _, cd in ls]
            for (i, t), (w, kind, code, p, nn), orig in zip(body, want, origs):
                if kind != "match" or orig is None:
                    continue
                ncorr += 1
                # the model works on the original bytes; leading tabs shift uniformly
                m = vm.ask("grep_sections", vlib.hexs(orig), ";".join("%d-%d" % s for s in submatches(orig))).split("\t")[1]
                model_hl = ""
                for e in m.split("|"):
                    txt = bytes.fromhex(e[2:]).decode()
                    model_hl += ("1" if e[0] == "M" else "0") * len(expand(txt, c["tabs"]))
                off = len(w) - len(code)
                hl = "".join("1" if (str(cl[1]).find("201") >= 0) else "0" for cl in rows[i].cells[off:off + len(code)])
                if hl != model_hl[:len(hl)]:
                    mism += 1
                    if mism <= 3:
                        vlib.log(f"[C16] highlight mismatch {p}:{nn} {orig!r}: model {model_hl} impl {hl}")
    chk.oblige("correspondence:rg-json-highlights", mism == 0, f"{mism} of {ncorr} match lines are highlighted differently from the model")
    chk.extra["traces_validated_against_impl"] = ncorr - mism
    chk.assumptions = ["plain-text streams are restricted to the property's unambiguous domain: paths with a file extension, code without a "
                       "`name.ext` + separator-number-separator look-alike",
                       "a function-context header line (`=`) is rendered as a hunk header by design and is outside the generated streams",
                       "delta is run as a child of a process whose command line is `git grep …` / `rg …` (native/gitwrap), which is how it recognises grep output"]
    vm.close()
    return chk.finish()
